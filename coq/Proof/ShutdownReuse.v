(* C15 with Server reuse: s.done / s.doneClosed over any number of Serve / ShutdownWithContext cycles (successful and timed-out calls
   mixed), and what is at rest when a call returns nil. *)
From Coq Require Import List ZArith Bool Arith Lia ZifyBool ZifyNat.
From FH Require Import Model.Shutdown Proof.ShutdownProof.
Import ListNotations.
Open Scope Z_scope.

(* ShutdownWithContext is past close(s.done), or its last call gave up after it *)
Definition past_close_done (p : spc) : bool :=
  match p with SLoop | SReadServing | SReadOpen | SWait | SReturnedErr => true | _ => false end.

Definition cap_ok (d : dstate) (r : conn) : Prop :=
  pc r = CHandler -> exists ch, cdone r = Some ch /\ (chan_closed d ch = true \/ done d = Some ch).

Record dinv (s : st) : Prop := mkDI {
  d_rest : sd_running s = false -> tainted (dn s) = false -> Forall (fun lp => inln lp = false) (loops s) ->
           Forall (fun r => pc r = CClosed) (conns s) /\ Forall (fun lp => lrunning lp = false /\ lnopen lp = false) (loops s);
  d_none : done (dn s) = None ->
           sd_running s = false /\ tainted (dn s) = false /\ dflag (dn s) = false /\ Forall (fun lp => inln lp = false) (loops s);
  d_flag : dflag (dn s) = true -> exists ch, done (dn s) = Some ch /\ chan_closed (dn s) ch = true;
  d_pcd : past_close_done (sd s) = true -> dflag (dn s) = true;
  d_k : sd s = SStopSet \/ sd s = SLnClosed -> done (dn s) <> None;
  d_cap : Forall (cap_ok (dn s)) (conns s)
}.

Lemma dinv_init : dinv init.
Proof. constructor; cbn; auto; try discriminate. intros [H|H]; discriminate. Qed.

(* while s.done is nil nothing is alive *)
Lemma none_all_closed s : dinv s -> done (dn s) = None -> Forall (fun r => pc r = CClosed) (conns s) /\ Forall (fun lp => lrunning lp = false /\ lnopen lp = false) (loops s).
Proof. intros D H. destruct (d_none _ D H) as (A & B & _ & C). exact (d_rest _ D A B C). Qed.

Lemma chan_closed_cons d ch ch' : chan_closed d ch = true ->
  chan_closed (mkD (done d) (nextch d) (ch' :: closedch d) true (tainted d) (failed d)) ch = true.
Proof. unfold chan_closed. cbn. intros ->. apply orb_true_r. Qed.

Lemma Forall_upd_inln (ls : list loop) k lp lp' : nth_error ls k = Some lp -> inln lp' = inln lp ->
  Forall (fun x => inln x = false) (upd ls k lp') -> Forall (fun x => inln x = false) ls.
Proof.
  intros Hk Hi H. apply Forall_forall. intros x Hx. apply In_nth_error in Hx as (j & Hj).
  rewrite Forall_forall in H. destruct (Nat.eq_dec k j) as [->|Hne].
  - assert (x = lp) by congruence. subst x. rewrite <- Hi. apply H. eapply nth_error_In. eapply nth_error_upd_same; eauto.
  - apply H. eapply nth_error_In. rewrite nth_error_upd_other; eauto.
Qed.

Lemma Forall_inln_upd (ls : list loop) k lp lp' : nth_error ls k = Some lp -> inln lp' = inln lp ->
  Forall (fun x => inln x = false) ls -> Forall (fun x => inln x = false) (upd ls k lp').
Proof.
  intros Hk Hi H. apply Forall_upd; [exact H|]. rewrite Hi. rewrite Forall_forall in H. apply H. eapply nth_error_In; eauto.
Qed.

(* a step of connection thread c (not the acceptor's) *)
Lemma dinv_conn s c r r' oo :
  dinv s -> nth_error (conns s) c = Some r ->
  (pc r = CClosed -> pc r' = CClosed) -> cap_ok (dn s) r' ->
  dinv (mkSt (stop s) (dn s) (serving s) oo (now s) (sd s) (upd (conns s) c r') (loops s)).
Proof.
  intros D Hn Hc Hcap. constructor; cbn [stop dn serving open now sd conns loops sd_running]; try apply D.
  - intros H1 H2 H3. destruct (d_rest _ D H1 H2 H3) as [A B]. split; [|exact B]. apply Forall_upd; [exact A|]. apply Hc. exact (Forall_nth _ _ _ _ A Hn).
  - apply Forall_upd; [apply (d_cap _ D)|exact Hcap].
Qed.

Ltac dcase D Hstep c :=
  let r := fresh "r" in let Hn := fresh "Hn" in
  destruct (nth_error (conns _) c) as [r|] eqn:Hn; [|discriminate Hstep];
  let Hcap := fresh "Hcap" in
  pose proof (Forall_nth _ _ _ _ (d_cap _ D) Hn) as Hcap; unfold cap_ok in Hcap;
  destruct r as [p lid im iv ts sc cc infl buf unf hjk stt del lst lsc abn cdn];
  unfold set_pc, flush_exit, exit_loop in Hstep;
  cbn [pc loopid inmap ival tstart srvClosed cliClosed inflight buffered unflushed hijack started delivered lost lostc abandoned cdone] in Hstep, Hcap.

Ltac dfin D Hn Hcap := unfold set_conns; eapply dinv_conn; [exact D|exact Hn|cbn; try discriminate; auto|
  unfold cap_ok; cbn; repeat match goal with |- context[if ?b then _ else _] => destruct b end; first [discriminate | exact Hcap | auto]].

Lemma dinv_step cf s l s' : inv s -> dinv s -> step cf s l = Some s' -> dinv s'.
Proof.
  intros I D Hstep. destruct l; cbn [step] in Hstep.
  - (* LServeStart *)
    destruct (sd_running s) eqn:Er; [discriminate|]. injection Hstep as <-.
    constructor; cbn [stop dn serving open now sd conns loops sd_running]; fold (sd_running s).
    + intros _ _ H. exfalso. apply Forall_app in H as [_ H]. inversion H as [|x l Hx Hl]; subst. cbn in Hx. discriminate Hx.
    + intros H. unfold serve_done in H. destruct (done (dn s)) eqn:Ed; cbn in H; [rewrite Ed in H|]; discriminate H.
    + unfold serve_done. destruct (done (dn s)) eqn:Ed; [apply (d_flag _ D)|]. cbn. intros Hf.
      destruct (d_none _ D Ed) as (_ & _ & Hf' & _). congruence.
    + intros Hp. pose proof (d_pcd _ D Hp) as Hf. destruct (d_flag _ D Hf) as (ch & Hd & _). unfold serve_done. rewrite Hd. exact Hf.
    + intros [H|H]; unfold sd_running in Er; rewrite H in Er; discriminate.
    + unfold serve_done. destruct (done (dn s)) eqn:Ed; [apply (d_cap _ D)|].
      destruct (none_all_closed _ D Ed) as [Hc _]. eapply Forall_impl; [|exact Hc]. intros r Hr Hp. congruence.
  - (* LAccept *)
    destruct (nth_error (loops s) k) as [lp|] eqn:Hk; [|discriminate].
    destruct (lrunning lp && negb (lbusy lp) && lnopen lp) eqn:E; [|discriminate]. injection Hstep as <-.
    apply andb_true_iff in E as [E E3]. apply andb_true_iff in E as [E1 E2].
    assert (Hcontra : Forall (fun x => inln x = false) (loops s) -> sd_running s = false -> tainted (dn s) = false -> False).
    { intros H1 H2 H3. destruct (d_rest _ D H2 H3 H1) as [_ B]. rewrite Forall_forall in B. destruct (B lp (nth_error_In _ _ Hk)). congruence. }
    constructor; unfold sd_running; cbn [stop dn serving open now sd conns loops]; fold (sd_running s); try apply D.
    + intros H1 H2 H3. exfalso. apply Hcontra; [eapply (Forall_upd_inln (loops s) _ _ _ Hk); [|exact H3]; reflexivity|exact H1|exact H2].
    + intros Hd. destruct (d_none _ D Hd) as (A & B & C & F). exfalso. apply Hcontra; auto.
    + apply Forall_app. split; [apply (d_cap _ D)|]. constructor; [|constructor]. intros H. discriminate H.
  - (* LOpenInc *)
    dcase D Hstep c. destruct p; try discriminate Hstep.
    destruct (nth_error (loops s) lid) as [lp|] eqn:Hk; [|discriminate]. injection Hstep as <-.
    assert (Hcontra : Forall (fun x => inln x = false) (loops s) -> sd_running s = false -> tainted (dn s) = false -> False).
    { intros H1 H2 H3. destruct (d_rest _ D H2 H3 H1) as [A _]. pose proof (Forall_nth _ _ _ _ A Hn) as H. discriminate H. }
    constructor; unfold sd_running; cbn [stop dn serving open now sd conns loops]; fold (sd_running s); try apply D.
    + intros H1 H2 H3. exfalso. apply Hcontra; [eapply (Forall_upd_inln (loops s) _ _ _ Hk); [|exact H3]; reflexivity|exact H1|exact H2].
    + intros Hd. destruct (d_none _ D Hd) as (A & B & C & F). exfalso. apply Hcontra; auto.
    + apply Forall_upd; [apply (d_cap _ D)|]. intros H. discriminate H.
  - (* LAcceptFail *)
    destruct (nth_error (loops s) k) as [lp|] eqn:Hk; [|discriminate].
    destruct (lrunning lp && negb (lbusy lp) && negb (lnopen lp)) eqn:E; [|discriminate]. injection Hstep as <-.
    apply andb_true_iff in E as [E E3]. apply andb_true_iff in E as [E1 E2].
    assert (Hcontra : Forall (fun x => inln x = false) (loops s) -> sd_running s = false -> tainted (dn s) = false -> False).
    { intros H1 H2 H3. destruct (d_rest _ D H2 H3 H1) as [_ B]. rewrite Forall_forall in B. destruct (B lp (nth_error_In _ _ Hk)). congruence. }
    constructor; unfold sd_running; cbn [stop dn serving open now sd conns loops]; fold (sd_running s); try apply D.
    + intros H1 H2 H3. exfalso. apply Hcontra; [eapply (Forall_upd_inln (loops s) _ _ _ Hk); [|exact H3]; reflexivity|exact H1|exact H2].
    + intros Hd. destruct (d_none _ D Hd) as (A & B & C & F). exfalso. apply Hcontra; auto.
  - (* LRegIdle *) dcase D Hstep c. destruct p; try discriminate Hstep. injection Hstep as <-. dfin D Hn Hcap.
  - (* LSetDeadline *) dcase D Hstep c. destruct p; try discriminate Hstep. brk_h Hstep; injection Hstep as <-; dfin D Hn Hcap.
  - (* LPeekOk *) dcase D Hstep c. destruct p; try discriminate Hstep. brk_h Hstep; try discriminate Hstep; injection Hstep as <-; dfin D Hn Hcap.
  - (* LPeekFail *) dcase D Hstep c. destruct p; try discriminate Hstep. brk_h Hstep; try discriminate Hstep; injection Hstep as <-; dfin D Hn Hcap.
  - (* LStore0 *) dcase D Hstep c. destruct p; try discriminate Hstep. injection Hstep as <-. dfin D Hn Hcap.
  - (* LLoadStop *) dcase D Hstep c. destruct p; try discriminate Hstep. destruct (stop s) eqn:Est; injection Hstep as <-; dfin D Hn Hcap.
  - (* LLookup *) dcase D Hstep c. destruct p; try discriminate Hstep. destruct im; injection Hstep as <-; dfin D Hn Hcap.
  - (* LReadReq: ctx.Done() gives the current s.done, which is not nil while a connection is alive *)
    dcase D Hstep c. destruct p; try discriminate Hstep. brk_h Hstep; try discriminate Hstep; injection Hstep as <-.
    all: unfold set_conns; eapply dinv_conn; [exact D|exact Hn|discriminate|]; unfold cap_ok; cbn;
      first [ intros H; discriminate H
            | intros _; destruct (done (dn s)) as [ch|] eqn:Ed; [exists ch; split; [reflexivity|right; reflexivity]|]; exfalso;
              destruct (none_all_closed _ D Ed) as [A _]; pose proof (Forall_nth _ _ _ _ A Hn) as H; discriminate H ].
  - (* LHandlerEnd *) dcase D Hstep c. destruct p; try discriminate Hstep. injection Hstep as <-. dfin D Hn Hcap.
  - (* LAbandon *) dcase D Hstep c. destruct p; try discriminate Hstep. injection Hstep as <-. dfin D Hn Hcap.
  - (* LHijack *) dcase D Hstep c. destruct p; try discriminate Hstep. injection Hstep as <-. dfin D Hn Hcap.
  - (* LWrite *) dcase D Hstep c. destruct p; try discriminate Hstep. brk_h Hstep; try discriminate Hstep; injection Hstep as <-; dfin D Hn Hcap.
  - (* LStoreT *) dcase D Hstep c. destruct p; try discriminate Hstep. injection Hstep as <-. dfin D Hn Hcap.
  - (* LCheckStop *) dcase D Hstep c. destruct p; try discriminate Hstep. brk_h Hstep; injection Hstep as <-; dfin D Hn Hcap.
  - (* LUnregIdle *) dcase D Hstep c. destruct p; try discriminate Hstep. injection Hstep as <-. dfin D Hn Hcap.
  - (* LOpenDec *) dcase D Hstep c. destruct p; try discriminate Hstep. injection Hstep as <-. dfin D Hn Hcap.
  - (* LSetStop *)
    destruct (sd_running s) eqn:Er; [discriminate|]. destruct (existsb inln (loops s)) eqn:Ex; injection Hstep as <-.
    + assert (Hd : done (dn s) <> None).
      { intros Hd. destruct (d_none _ D Hd) as (_ & _ & _ & F). apply existsb_exists in Ex as (lp & Hin & Hl). rewrite Forall_forall in F. rewrite (F _ Hin) in Hl. discriminate. }
      constructor; cbn [stop dn serving open now sd conns loops sd_running]; try apply D; try discriminate.
      * intros H. contradiction.
      * intros _. exact Hd.
    + unfold set_sd. constructor; cbn [stop dn serving open now sd conns loops sd_running]; try apply D; try discriminate.
      * intros _. apply (d_rest _ D Er).
      * intros Hd. destruct (d_none _ D Hd) as (_ & B & C & F). auto.
      * intros [H|H]; discriminate.
  - (* LCloseListeners *)
    destruct (sd s) eqn:Es; try discriminate Hstep. injection Hstep as <-.
    assert (Hd : done (dn s) <> None) by (apply (d_k _ D); left; exact Es).
    constructor; cbn [stop dn serving open now sd conns loops sd_running]; try apply D; try discriminate.
    + intros H. contradiction.
    + intros _. exact Hd.
  - (* LCloseDone *)
    destruct (sd s) eqn:Es; try discriminate Hstep. injection Hstep as <-.
    assert (Hd : done (dn s) <> None) by (apply (d_k _ D); right; exact Es).
    destruct (done (dn s)) as [ch|] eqn:Ed; [|congruence].
    constructor; cbn [stop dn serving open now sd conns loops sd_running]; try discriminate.
    + intros H. unfold close_done in H. rewrite Ed in H. destruct (dflag (dn s)); cbn in H; rewrite ?Ed in H; discriminate H.
    + intros _. unfold close_done. rewrite Ed. destruct (dflag (dn s)) eqn:Ef.
      * apply (d_flag _ D Ef).
      * cbn. exists ch. split; [first [exact Ed|reflexivity]|]. unfold chan_closed. cbn. now rewrite Nat.eqb_refl.
    + intros _. unfold close_done. rewrite Ed. destruct (dflag (dn s)) eqn:Ef; [exact Ef|reflexivity].
    + intros [H|H]; discriminate.
    + eapply Forall_impl; [|exact (d_cap _ D)]. intros r Hr Hp. destruct (Hr Hp) as (c0 & Hc & Ho). exists c0. split; [exact Hc|].
      unfold close_done. rewrite Ed. destruct (dflag (dn s)); [exact Ho|]. destruct Ho as [Ho|Ho]; [left; now apply chan_closed_cons|right; cbn; congruence].
  - (* LCloseIdle *)
    destruct (sd s) eqn:Es; try discriminate Hstep. injection Hstep as <-.
    constructor; cbn [stop dn serving open now sd conns loops sd_running]; try apply D; try discriminate.
    + intros Hd. destruct (d_none _ D Hd) as (A & _). unfold sd_running in A. rewrite Es in A. discriminate.
    + intros _. apply (d_pcd _ D). rewrite Es. reflexivity.
    + intros [H|H]; discriminate.
    + apply Forall_forall. intros r' Hin. apply in_map_iff in Hin as (r & <- & Hr). pose proof (d_cap _ D) as F. rewrite Forall_forall in F.
      specialize (F _ Hr). unfold cap_ok, close_if_idle in *. destruct (_ && _); exact F.
  - (* LReadServing *)
    destruct (sd s) eqn:Es; try discriminate Hstep. injection Hstep as <-. unfold set_sd.
    assert (Hf : dflag (dn s) = true) by (apply (d_pcd _ D); rewrite Es; reflexivity).
    constructor; cbn [stop dn serving open now sd conns loops sd_running]; try apply D; destruct (serving s =? 0); try discriminate; auto.
    all: try (intros Hd; destruct (d_flag _ D Hf) as (c0 & Hc & _); congruence).
    all: intros [H|H]; discriminate.
  - (* LReadOpen *)
    destruct (sd s) eqn:Es; try discriminate Hstep.
    assert (Hf : dflag (dn s) = true) by (apply (d_pcd _ D); rewrite Es; reflexivity).
    destruct (open s =? 0) eqn:E0; injection Hstep as <-.
    + (* the success branch: s.done = nil; s.doneClosed = false *)
      assert (Hln : Forall (fun lp => lnopen lp = false /\ inln lp = false) (loops s)) by (apply (i_ln _ I); rewrite Es; reflexivity).
      destruct (rest_from_counters s I (i_ro _ I Es) ltac:(lia)) as [Hc Hr].
      constructor; cbn [stop dn serving open now sd conns loops sd_running reset_done done tainted dflag]; try discriminate.
      * intros _ _ _. split; [exact Hc|]. rewrite Forall_forall in *. intros lp Hin. split; [apply Hr|apply Hln]; exact Hin.
      * intros _. repeat split; auto. eapply Forall_impl; [|exact Hln]. intros lp [_ H]. exact H.
      * intros [H|H]; discriminate.
      * eapply Forall_impl; [|exact Hc]. intros r Hr0 Hp. congruence.
    + unfold set_sd. constructor; cbn [stop dn serving open now sd conns loops sd_running]; try apply D; try discriminate; auto.
      * intros Hd. destruct (d_flag _ D Hf) as (c0 & Hc & _). congruence.
      * intros [H|H]; discriminate.
  - (* LTicker *)
    destruct (sd s) eqn:Es; try discriminate Hstep. injection Hstep as <-. unfold set_sd.
    assert (Hf : dflag (dn s) = true) by (apply (d_pcd _ D); rewrite Es; reflexivity).
    constructor; cbn [stop dn serving open now sd conns loops sd_running]; try apply D; try discriminate; auto.
    + intros Hd. destruct (d_flag _ D Hf) as (c0 & Hc & _). congruence.
    + intros [H|H]; discriminate.
  - (* LCtxExpire: nothing is reset *)
    destruct (sd s) eqn:Es; try discriminate Hstep. injection Hstep as <-.
    assert (Hf : dflag (dn s) = true) by (apply (d_pcd _ D); rewrite Es; reflexivity).
    constructor; cbn [stop dn serving open now sd conns loops sd_running give_up done tainted dflag]; try discriminate; auto.
    + intros Hd. destruct (d_flag _ D Hf) as (c0 & Hc & _). congruence.
    + intros _. apply (d_flag _ D Hf).
    + intros [H|H]; discriminate.
    + apply (d_cap _ D).
  - (* LSend *) dcase D Hstep c. destruct cc; try discriminate Hstep. injection Hstep as <-. dfin D Hn Hcap.
  - (* LClientClose *) dcase D Hstep c. injection Hstep as <-. dfin D Hn Hcap.
  - (* LTick *) destruct (d <? 0); [discriminate|]. injection Hstep as <-. constructor; cbn [stop dn serving open now sd conns loops sd_running]; apply D.
Qed.

Lemma dinv_reach cf s : reach cf s -> dinv s.
Proof. induction 1 as [|s l s' R IH Hs]; [apply dinv_init|exact (dinv_step _ _ _ _ (inv_reach _ _ R) IH Hs)]. Qed.
