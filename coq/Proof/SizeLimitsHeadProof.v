(* C07_big_head_431: a request head that does not complete within ReadBufferSize bytes is
   classified ErrSmallBuffer by RequestHeader.Read (Model/ReqHead.v: req_read) and answered
   with 431 + close by the server's default error handler (Model/SizeLimits.v). *)
From Coq Require Import Lia.
From FH Require Import Model.Base Model.Lines Model.ReqHead Model.SizeLimits.

(* how serveConn sees the head reader's outcome *)
Definition srv_err_of_head {A} (r : try_res A) : option srv_err :=
  match r with
  | TSmallBuffer => Some SESmallBuffer
  | TErr _ | TIoErr | TNothingRead => Some SEOther
  | _ => None
  end.

Theorem big_head_small_buffer cfg bsize input final :
  let b := firstn bsize input in
  b <> [] -> (bsize <= length input)%nat ->
  req_head_parse cfg b = HNeedMore ->        (* the head does not end within the buffer *)
  isOnlyCRLF b = false ->
  req_read cfg bsize input final = TSmallBuffer.
Proof.
  intros b Hne Hlen Hparse Hcr. unfold req_read. fold b.
  assert (Hb : length b = bsize) by (unfold b; rewrite firstn_length; lia).
  destruct b as [|x b'] eqn:Eb; [congruence|]. rewrite <- Eb in *.
  assert (E1 : req_try_read cfg 1 b PENil = TNeedMore).
  { unfold req_try_read. rewrite Eb. rewrite <- Eb. rewrite Hparse. reflexivity. }
  rewrite E1. rewrite Hb. assert (Hlt : (bsize <? bsize + 1)%nat = true) by (apply Nat.ltb_lt; lia). rewrite Hlt.
  unfold req_try_read. rewrite Eb. rewrite <- Eb. rewrite Hparse. unfold need_more_class. rewrite Hcr. reflexivity.
Qed.

Theorem big_head_431 cfg bsize input final :
  let b := firstn bsize input in
  b <> [] -> (bsize <= length input)%nat -> req_head_parse cfg b = HNeedMore -> isOnlyCRLF b = false ->
  option_map writeErrorResponse (srv_err_of_head (req_read cfg bsize input final)) = Some (SAnswerClose 431%Z).
Proof.
  intros b Hne Hlen Hparse Hcr. rewrite (big_head_small_buffer cfg bsize input final Hne Hlen Hparse Hcr). reflexivity.
Qed.
