(* Proofs about Model/SizeLimits.v (C07). *)
From Coq Require Import Lia ZifyBool ZifyN ZifyNat.
From FH Require Import Model.Base Gen.GenC30 Gen.GenC34 Gen.GenC07 Model.Ints Model.Body Model.BodyWrite Model.SizeLimits
     Proof.BodyProof.
Open Scope Z_scope.

(* ---- *WithLimit helpers: for EVERY decoder output ---- *)
Theorem withLimit_bounded L inflated bad_end : L > 0 ->
  match withLimit L inflated bad_end with
  | (WLOk out, buffered) => out = inflated /\ blen out <= L /\ buffered <= L
  | (WLTooLarge, buffered) => blen inflated > L /\ buffered = L + 1
  | (WLErr, buffered) => bad_end = true /\ buffered <= L
  end.
Proof.
  intros HL. unfold withLimit. destruct (Z.leb_spec L 0); [lia|].
  destruct (Z.ltb_spec (blen inflated) (L + 1)).
  - destruct bad_end; repeat split; lia.
  - split; lia.
Qed.

Theorem withLimit_oversize L inflated bad_end : L > 0 -> blen inflated > L -> fst (withLimit L inflated bad_end) = WLTooLarge.
Proof.
  intros HL Hb. unfold withLimit. destruct (Z.leb_spec L 0); [lia|]. destruct (Z.ltb_spec (blen inflated) (L + 1)); [lia|reflexivity].
Qed.

Theorem withLimit_len_abstracts L inflated bad_end :
  withLimit_len L (blen inflated) bad_end =
  (match fst (withLimit L inflated bad_end) with WLOk out => KOk (blen out) | WLTooLarge => KTooLarge | WLErr => KErr end,
   snd (withLimit L inflated bad_end)).
Proof.
  unfold withLimit_len, withLimit. destruct (L <=? 0); [destruct bad_end; reflexivity|].
  destruct (blen inflated <? L + 1); [destruct bad_end; reflexivity|reflexivity].
Qed.

(* ---- multipart ---- *)
Theorem multipart_bounded L ce body inflated bad_end form : L > 0 ->
  multipartWithLimit L ce body inflated bad_end = MPParse form -> blen form <= L.
Proof.
  intros HL. unfold multipartWithLimit.
  destruct (ce =? 1).
  - pose proof (withLimit_bounded L inflated bad_end HL) as H. destruct (withLimit L inflated bad_end) as [[out| |] buffered]; cbn [fst]; try discriminate.
    destruct ((L >? 0) && (blen out >? L)) eqn:E; [discriminate|]. intros [= <-]. lia.
  - destruct (ce =? 0); [|discriminate].
    destruct ((L >? 0) && (blen body >? L)) eqn:E; [discriminate|]. intros [= <-]. lia.
Qed.
Theorem multipart_stream_budget L : L > 0 -> multipartStreamBudget L = Some (L + 1).
Proof. intros HL. unfold multipartStreamBudget. destruct (Z.gtb_spec L 0); [reflexivity|lia]. Qed.

(* ---- server configuration ---- *)
Theorem default_limit cfg : cfg <= 0 -> serverMaxBody cfg = DefaultMaxRequestBodySize /\ serverMaxBody cfg = 4 * 1024 * 1024 /\ serverMaxBody cfg > 0.
Proof. intros H. unfold serverMaxBody. destruct (Z.leb_spec cfg 0); [|lia]. repeat split. Qed.
Theorem server_limit_positive cfg : serverMaxBody cfg > 0 /\ (cfg > 0 -> serverMaxBody cfg = cfg).
Proof. unfold serverMaxBody. destruct (Z.leb_spec cfg 0); [split; [reflexivity|lia]|split; lia]. Qed.
Theorem hook_limit_positive cfg rc : serverMaxBodyHook cfg rc > 0 /\ (rc <= 0 -> serverMaxBodyHook cfg rc = serverMaxBody cfg).
Proof.
  unfold serverMaxBodyHook, serverMaxBody. destruct (Z.gtb_spec rc 0); [split; lia|].
  destruct (Z.gtb_spec cfg 0); destruct (Z.leb_spec cfg 0); try lia; split; try lia; reflexivity.
Qed.

(* ---- one request through the server ---- *)
Theorem serve_body_bounded parseTr cfg cl b body rest : wf_bytes b ->
  serveReadBody parseTr cfg cl b = SDispatch body rest -> blen body <= serverMaxBody cfg.
Proof.
  intros Hwf. unfold serveReadBody. destruct (server_limit_positive cfg) as [Hpos _].
  destruct (reqReadBody_bounded parseTr cl (serverMaxBody cfg) b Hpos Hwf) as [H1 _].
  destruct (reqReadBody parseTr cl (serverMaxBody cfg) b) as [d r p|e d p| |] eqn:E; try discriminate.
  intros [= <- <-]. eapply H1. reflexivity.
Qed.

Theorem serve_oversize_fixed parseTr cfg cl b : cl > serverMaxBody cfg ->
  serveReadBody parseTr cfg cl b = SAnswerClose StatusBadRequest.
Proof.
  intros Hcl. unfold serveReadBody. destruct (server_limit_positive cfg) as [Hpos _].
  destruct (oversize_fixed parseTr cl (serverMaxBody cfg) 0 [] b Hpos Hcl) as [E _]. rewrite E. reflexivity.
Qed.

Theorem serve_oversize_chunked parseTr cfg cs elast rest : serverMaxBody cfg + 2 <= maxAlloc ->
  Forall chunk_good cs -> ext_good elast -> wf_bytes rest -> total cs > serverMaxBody cfg ->
  serveReadBody parseTr cfg (-1) (enc_chunks_ext cs elast ++ rest) = SAnswerClose StatusBadRequest.
Proof.
  intros Ha Hcs He Hr Ht. unfold serveReadBody. destruct (server_limit_positive cfg) as [Hpos _].
  destruct (oversize_chunked parseTr (serverMaxBody cfg) cs elast rest Hpos Ha Hcs He Hr Ht) as (d & p & _ & E & _).
  rewrite E. reflexivity.
Qed.

Theorem error_status : defaultErrorHandler SESmallBuffer = 431 /\ defaultErrorHandler SETimeout = 408 /\ defaultErrorHandler SEOther = 400
  /\ forall e, exists s, writeErrorResponse e = SAnswerClose s.
Proof. repeat split. intros e. eexists. reflexivity. Qed.

(* ---- Request.ContinueReadBody: multipart pre-parsing cannot bypass the limit ---- *)
Theorem continue_oversize parseTr preParse isForm formOk cl L b : L > 0 -> cl > L ->
  continueReadBody parseTr preParse isForm formOk cl L b = RQBody (BErr EBodyTooLarge [] 0).
Proof.
  intros HL Hcl. unfold continueReadBody. destruct (Z.gtb_spec cl 0); [|lia].
  destruct (Z.gtb_spec L 0); [|lia]. destruct (Z.gtb_spec cl L); [reflexivity|lia].
Qed.

Theorem continue_bounded parseTr preParse isForm formOk cl L b : L > 0 -> wf_bytes b ->
  match continueReadBody parseTr preParse isForm formOk cl L b with
  | RQBody (BOk body _ _) => blen body <= L
  | RQForm form _ => blen form <= L
  | _ => True
  end.
Proof.
  intros HL Hwf. unfold continueReadBody.
  destruct (reqReadBody_bounded parseTr cl L b HL Hwf) as [H1 _].
  assert (Hplain : match RQBody (reqReadBody parseTr cl L b) with RQBody (BOk body _ _) => blen body <= L | RQForm form _ => blen form <= L | _ => True end).
  { destruct (reqReadBody parseTr cl L b) as [d r p|e d p| |] eqn:E; try exact I. eapply H1. reflexivity. }
  destruct (Z.gtb_spec cl 0); [|exact Hplain].
  destruct (Z.gtb_spec L 0); [|lia]. cbn [andb]. destruct (Z.gtb_spec cl L); [exact I|].
  destruct (preParse && isForm); [|exact Hplain].
  destruct (Z.leb_spec cl (blen b)); cbn [andb]; [|exact I]. destruct (formOk (btake cl b)); [|exact I].
  rewrite blen_btake by lia. lia.
Qed.

Theorem serve_continue_oversize parseTr preParse isForm formOk cfg cl b : cl > serverMaxBody cfg ->
  serveContinueReadBody parseTr preParse isForm formOk cfg cl b = SAnswerClose StatusBadRequest.
Proof.
  intros Hcl. unfold serveContinueReadBody. destruct (server_limit_positive cfg) as [Hpos _].
  rewrite (continue_oversize parseTr preParse isForm formOk cl (serverMaxBody cfg) b Hpos Hcl). reflexivity.
Qed.

Theorem serve_continue_bounded parseTr preParse isForm formOk cfg cl b body rest : wf_bytes b ->
  serveContinueReadBody parseTr preParse isForm formOk cfg cl b = SDispatch body rest -> blen body <= serverMaxBody cfg.
Proof.
  intros Hwf. unfold serveContinueReadBody. destruct (server_limit_positive cfg) as [Hpos _].
  pose proof (continue_bounded parseTr preParse isForm formOk cl (serverMaxBody cfg) b Hpos Hwf) as H.
  destruct (continueReadBody parseTr preParse isForm formOk cl (serverMaxBody cfg) b) as [[d r p|e d p| |]|form r|]; try discriminate;
    intros [= <- <-]; exact H.
Qed.
