(* Proofs about Model/StreamLife.v: every body stream that implements io.Closer is closed
   exactly once on every path, by an invariant over all operation sequences. *)
From Coq Require Import Lia ZifyBool ZifyN ZifyNat.
From FH Require Import Model.Base Model.StreamLife.
Open Scope N_scope.

Definition is_att (att : option nat) (i : nat) : bool :=
  match att with Some j => Nat.eqb j i | None => false end.

(* how often stream i must have been closed, given where it is *)
Definition expected (att : option nat) (i : nat) (r : sinfo) : N :=
  if si_closer r then
    if is_att att i then (if si_wrapped r && si_origClosed r then 1 else 0) else 1
  else 0.

Definition inv_stream (att : option nat) (i : nat) (r : sinfo) : Prop :=
  si_count r = expected att i r /\
  (is_att att i = false -> si_wrapped r = true -> si_closer r = true -> si_origClosed r = true).

Definition Inv (st : lstate) : Prop :=
  (forall i r, nth_error (ls_streams st) i = Some r -> inv_stream (ls_att st) i r) /\
  (forall i, ls_att st = Some i -> (i < length (ls_streams st))%nat).

(* ---- upd ---- *)
Lemma upd_length {A} (f : A -> A) : forall l i, length (upd i f l) = length l.
Proof. induction l as [|x l IH]; intros [|i]; cbn; auto. Qed.
Lemma upd_same {A} (f : A -> A) : forall l i, nth_error (upd i f l) i = option_map f (nth_error l i).
Proof. induction l as [|x l IH]; intros [|i]; cbn; auto. Qed.
Lemma upd_other {A} (f : A -> A) : forall l i j, i <> j -> nth_error (upd i f l) j = nth_error l j.
Proof. induction l as [|x l IH]; intros [|i] [|j] H; cbn; auto; try congruence. Qed.

Lemma is_att_none i : is_att None i = false. Proof. reflexivity. Qed.
Lemma is_att_some j i : is_att (Some j) i = Nat.eqb j i. Proof. reflexivity. Qed.

(* ---- closeBodyStream keeps the invariant and detaches ---- *)
Lemma close_inv st : Inv st -> Inv (closeBodyStream st) /\ ls_att (closeBodyStream st) = None.
Proof.
  intros HI. unfold closeBodyStream. destruct (ls_att st) as [a|] eqn:Ea; [|split; [exact HI|exact Ea]].
  destruct HI as [H1 H2]. rewrite Ea in H1.
  split; [|reflexivity]. split; [|discriminate]. cbn [ls_streams ls_att]. intros i r Hn.
  destruct (Nat.eq_dec a i) as [->|Hne].
  - rewrite upd_same in Hn. destruct (nth_error (ls_streams st) i) as [r0|] eqn:E0; [|discriminate].
    injection Hn as <-. destruct (H1 i r0 E0) as [Hc _]. unfold expected in Hc. rewrite is_att_some, Nat.eqb_refl in Hc.
    unfold inv_stream, expected, close_attached. rewrite is_att_none.
    destruct r0 as [cl cnt wr oc gd]. cbn [si_closer si_count si_wrapped si_origClosed si_goDone] in *.
    destruct wr, oc, cl; cbn [andb bump si_closer si_count si_wrapped si_origClosed] in *; subst; split; auto; try lia; intros; congruence.
  - rewrite upd_other in Hn by exact Hne. destruct (H1 i r Hn) as [Hc Hw]. unfold inv_stream, expected in *.
    rewrite is_att_some in Hc, Hw. apply Nat.eqb_neq in Hne. rewrite Hne in Hc, Hw. rewrite is_att_none. split; [exact Hc|exact Hw].
Qed.

Lemma step_inv k st o st' : Inv st -> lstep k st o = Some st' -> Inv st'.
Proof.
  intros HI. destruct o; cbn [lstep].
  - (* SetBodyStream *)
    intros [= <-]. destruct (close_inv st HI) as [[H1 H2] Hatt]. set (st1 := closeBodyStream st) in *.
    split; cbn [ls_streams ls_att].
    + intros i r Hn. destruct (Nat.lt_ge_cases i (length (ls_streams st1))) as [Hlt|Hge].
      * rewrite nth_error_app1 in Hn by exact Hlt. destruct (H1 i r Hn) as [Hc Hw]. rewrite Hatt in Hc, Hw.
        unfold inv_stream, expected in *. rewrite is_att_none in Hc, Hw. rewrite is_att_some.
        assert (E : Nat.eqb (length (ls_streams st1)) i = false) by (apply Nat.eqb_neq; lia). rewrite E. split; assumption.
      * rewrite nth_error_app2 in Hn by exact Hge. destruct (i - length (ls_streams st1))%nat as [|m] eqn:Em; [|destruct m; discriminate].
        injection Hn as <-. assert (i = length (ls_streams st1)) by lia. subst i.
        unfold inv_stream, expected. rewrite is_att_some, Nat.eqb_refl. cbn. destruct closer; split; auto; intros; discriminate.
    + intros i [= <-]. rewrite app_length. cbn. lia.
  - intros [= <-]. apply close_inv. exact HI.
  - intros [= <-]. apply close_inv. exact HI.
  - intros [= <-]. apply close_inv. exact HI.
  - intros [= <-]. apply close_inv. exact HI.
  - (* Write *)
    destruct (ls_att st) as [a|] eqn:Ea; [|intros [= <-]; exact HI].
    destruct f; try (intros [= <-]; apply close_inv; exact HI).
    destruct (nth_error (ls_streams st) a) as [r|]; [|discriminate]. destruct (si_wrapped r); [discriminate|]. intros [= <-]. exact HI.
  - (* Consume *)
    destruct (ls_att st) as [a|] eqn:Ea; [|intros [= <-]; exact HI].
    destruct f; try (intros [= <-]; apply close_inv; exact HI).
    destruct (nth_error (ls_streams st) a) as [r|]; [|discriminate]. destruct (si_wrapped r); [discriminate|]. intros [= <-]. exact HI.
  - (* Wrap *)
    destruct k; [discriminate|]. destruct (ls_att st) as [a|] eqn:Ea; [|discriminate].
    destruct (nth_error (ls_streams st) a) as [r0|] eqn:E0; [|discriminate]. destruct (si_wrapped r0) eqn:Ew; [discriminate|].
    intros [= <-]. destruct HI as [H1 H2]. split; cbn [ls_streams ls_att].
    + intros i r Hn. destruct (Nat.eq_dec a i) as [->|Hne].
      * rewrite upd_same, E0 in Hn. injection Hn as <-. destruct (H1 i r0 E0) as [Hc _]. rewrite Ea in Hc.
        unfold inv_stream, expected in *. rewrite is_att_some, Nat.eqb_refl in *. cbn [si_closer si_count si_wrapped si_origClosed].
        rewrite Ew in Hc. cbn [andb] in *. split; [exact Hc|discriminate].
      * rewrite upd_other in Hn by exact Hne. specialize (H1 i r Hn). rewrite Ea in H1. exact H1.
    + intros i [= <-]. rewrite upd_length. apply H2. exact Ea.
  - (* the compressor goroutine finishes *)
    destruct (nth_error (ls_streams st) i) as [r0|] eqn:E0; [|discriminate].
    destruct (si_wrapped r0 && negb (si_goDone r0)) eqn:Ec; [|discriminate]. apply andb_true_iff in Ec as [Ew _].
    intros [= <-]. destruct HI as [H1 H2]. split; cbn [ls_streams ls_att].
    + intros j r Hn. destruct (Nat.eq_dec i j) as [->|Hne].
      * rewrite upd_same, E0 in Hn. injection Hn as <-. destruct (H1 j r0 E0) as [Hc Hw].
        unfold inv_stream, expected, go_done in *. destruct r0 as [cl cnt wr oc gd].
        cbn [si_closer si_count si_wrapped si_origClosed si_goDone] in *. subst wr.
        destruct (is_att (ls_att st) j), oc, cl; cbn [andb si_closer si_count si_wrapped si_origClosed] in *; subst;
          split; auto; try lia; intros; try congruence;
          try (specialize (Hw eq_refl eq_refl eq_refl); discriminate).
      * rewrite upd_other in Hn by exact Hne. exact (H1 j r Hn).
    + intros j Hj. rewrite upd_length. apply H2. exact Hj.
  - (* serveConn's keep-alive path leaves a user stream attached *)
    destruct k; [|discriminate]. intros [= <-]. exact HI.
Qed.

Lemma init_inv : Inv ls_init.
Proof. split; [intros [|i] r; discriminate|discriminate]. Qed.

Lemma run_inv k : forall ops st st', Inv st -> lrun k st ops = Some st' -> Inv st'.
Proof.
  induction ops as [|o ops IH]; intros st st' HI; cbn [lrun]; [intros [= <-]; exact HI|].
  destruct (lstep k st o) as [st1|] eqn:E; [|discriminate].
  apply IH. eapply step_inv; eassumption.
Qed.

(* after every sequence of operations: no stream was closed twice, a non-Closer never, and every
   Closer stream that is no longer attached exactly once *)
Theorem close_exactly_once k ops st : lrun k ls_init ops = Some st ->
  forall i r, nth_error (ls_streams st) i = Some r ->
    si_count r <= 1 /\
    (si_closer r = false -> si_count r = 0) /\
    (si_closer r = true -> ls_att st <> Some i -> si_count r = 1).
Proof.
  intros Hrun i r Hn. destruct (run_inv k ops ls_init st init_inv Hrun) as [H1 _].
  destruct (H1 i r Hn) as [Hc _]. unfold expected in Hc.
  destruct (si_closer r).
  - destruct (is_att (ls_att st) i) eqn:Ea.
    + destruct (si_wrapped r && si_origClosed r); repeat split; try lia; try discriminate.
      all: intros _ Hne; exfalso; apply Hne; destruct (ls_att st) as [a|]; [|discriminate]; cbn in Ea; apply Nat.eqb_eq in Ea; now subst.
    + repeat split; try lia; try discriminate; try (intros _ _; exact Hc).
  - repeat split; try lia; intros; try discriminate; try exact Hc.
Qed.

(* the operations that finish a message leave nothing attached: together with the theorem above,
   after them every Closer stream has been closed exactly once *)
Definition settles (o : lop) : Prop :=
  match o with
  | LSetBody | LResetBody | LReset | LCloseBodyStream | LWrite FNone | LWrite FErr | LConsume FNone | LConsume FErr => True
  | _ => False
  end.
Theorem settled_detached k st o st' : settles o -> lstep k st o = Some st' -> ls_att st' = None.
Proof.
  assert (Hc : forall s, ls_att (closeBodyStream s) = None) by (intros s; unfold closeBodyStream; destruct (ls_att s) eqn:E; [reflexivity|exact E]).
  destruct o; cbn [settles lstep]; try contradiction; try (intros _ [= <-]; apply Hc).
  - destruct f; try contradiction; intros _; (destruct (ls_att st) eqn:E; [intros [= <-]; apply Hc|intros [= <-]; exact E]).
  - destruct f; try contradiction; intros _; (destruct (ls_att st) eqn:E; [intros [= <-]; apply Hc|intros [= <-]; exact E]).
Qed.

(* ---- the originalClosed flag is what makes the two closing sites exclusive ---- *)
(* whichever site runs first, the other one does not close again *)
Theorem two_sites_close_once r : si_closer r = true -> si_origClosed r = false ->
  si_count (closeOriginal (closeOriginalForDiscard r)) = si_count r + 1 /\
  si_count (closeOriginalForDiscard (closeOriginal r)) = si_count r + 1 /\
  si_origClosed (closeOriginalForDiscard r) = true /\ si_origClosed (closeOriginal r) = true.
Proof.
  intros Hc Ho. destruct r as [cl cnt wr oc gd]. cbn in Hc, Ho. subst. cbn. repeat split.
Qed.

(* a discard site that closes without setting the flag (the seeded defect), followed by the goroutine's
   closeOriginal, closes the user's stream twice: the theorem above depends on the flag *)
Definition closeOriginalForDiscard_noflag (r : sinfo) : sinfo :=
  if si_origClosed r then r
  else if si_closer r then mkSI true (si_count r + 1) (si_wrapped r) false (si_goDone r)
  else r.
Theorem flag_is_needed r : si_closer r = true -> si_origClosed r = false ->
  si_count (closeOriginal (closeOriginalForDiscard_noflag r)) = si_count r + 2.
Proof.
  intros Hc Ho. destruct r as [cl cnt wr oc gd]. cbn in Hc, Ho. subst. cbn. lia.
Qed.
