(* TimeoutProof.v — invariants of the LTS Model/Timeout.v over all reachable states (any number of connections,
   wrapped handler goroutines and ctx objects, any interleaving, any choice of pooled objects). *)
From Coq Require Import List Arith Bool Lia.
Import ListNotations.
From FH Require Import Model.Timeout.

Section Proofs.
  Variable V : Type.
  Variable timeout_resp too_many init_resp : V.
  Variable cap : nat.

  Notation state := (state V).
  Notation step := (step V timeout_resp too_many init_resp cap).
  Notation reachable := (reachable V timeout_resp too_many init_resp cap).
  Notation rv := (rv V).
  Notation ctx := (ctx V).
  Notation conn := (conn V).
  Notation phase := (phase V).

  (* ---------- counting the handlers that hold a semaphore slot ---------- *)
  Definition holds (t : hth) : bool := match h_st t with HReleased => false | _ => true end.
  Fixpoint cnt (f : nat -> hth) (n : nat) : nat :=
    match n with O => O | S m => (if holds (f m) then 1 else 0) + cnt f m end.

  Lemma cnt_upd_out f n i t : n <= i -> cnt (upd f i t) n = cnt f n.
  Proof.
    induction n as [|m IH]; intros H; [reflexivity|]. cbn [cnt]. rewrite IH by lia. unfold upd.
    destruct (Nat.eqb_spec m i); [lia|reflexivity].
  Qed.
  Lemma cnt_upd_in f n i t : i < n ->
    cnt (upd f i t) n + (if holds (f i) then 1 else 0) = cnt f n + (if holds t then 1 else 0).
  Proof.
    induction n as [|m IH]; intros H; [lia|]. cbn [cnt]. destruct (Nat.eq_dec i m) as [->|Hne].
    - rewrite cnt_upd_out by lia. unfold upd. rewrite Nat.eqb_refl. lia.
    - assert (Hi : i < m) by lia. specialize (IH Hi). unfold upd at 1. destruct (Nat.eqb_spec m i); [lia|]. lia.
  Qed.

  (* ---------- the invariant ---------- *)
  Definition running (s : state) (h : nat) : Prop := h < s_nh V s /\ h_st (s_h V s h) = HRunning.
  Definition opened (s : state) (c : nat) : Prop := c < s_nconn V s /\ k_open V (s_conn V s c) = true.

  (* which phases of its connection a running handler can coexist with on the connection's current ctx *)
  Definition phase_allows (s : state) (c h : nat) : Prop :=
    let k := s_conn V s c in
    k_phase V k = PWaiting V h \/
    (k_phase V k = PReturned V /\ cx_tresp V (s_ctx V s (k_ctx V k)) <> None) \/
    (exists v, k_phase V k = PRead V v).

  Definition own_ok (s : state) (c : nat) : Prop :=
    let k := s_conn V s c in
    let x := s_ctx V s (k_ctx V k) in
    let me := (c, k_req V k) in
    match k_phase V k with
    | PIdle _ => rv_own V (cx_resp V x) = me /\ cx_tresp V x = None
    | PWaiting _ _ | PReturned _ => rv_own V (cx_resp V x) = me /\ (forall v, cx_tresp V x = Some v -> rv_own V v = me)
    | PRead _ v => rv_own V (cx_resp V x) = me /\ (forall v', cx_tresp V x = Some v' -> rv_own V v' = me) /\ rv_own V v = me
    | PSwapped _ v => rv_own V v = me /\ cx_tresp V x = None
    | PReady _ (Some v) => cx_resp V x = v /\ rv_own V v = me /\ cx_tresp V x = None
    | PReady _ None => rv_own V (cx_resp V x) = me /\ cx_tresp V x = None
    end.

  Record Inv (s : state) : Prop := mkInv {
    i_sem : s_sem V s = cnt (s_h V s) (s_nh V s) /\ s_sem V s <= cap;
    i_hctx : forall h, running s h -> h_ctx (s_h V s h) < s_nctx V s /\ cx_pooled V (s_ctx V s (h_ctx (s_h V s h))) = false;
    i_hconn : forall h c, running s h -> opened s c -> k_ctx V (s_conn V s c) = h_ctx (s_h V s h) ->
                c = h_conn (s_h V s h) /\ k_req V (s_conn V s c) = h_req (s_h V s h) /\ phase_allows s c h;
    i_cctx : forall c, opened s c -> k_ctx V (s_conn V s c) < s_nctx V s /\ cx_pooled V (s_ctx V s (k_ctx V (s_conn V s c))) = false;
    i_uniq : forall c c', opened s c -> opened s c' -> k_ctx V (s_conn V s c) = k_ctx V (s_conn V s c') -> c = c';
    i_own : forall c, opened s c -> own_ok s c;
    i_pool : forall x, x < s_nctx V s -> cx_pooled V (s_ctx V s x) = true -> cx_tresp V (s_ctx V s x) = None;
    i_log : forall c i tr w, c < s_nconn V s -> In (i, tr, w) (k_log V (s_conn V s c)) ->
              rv_own V w = (c, i) /\ (forall v, tr = Some v -> w = v)
  }.

  Lemma inv_init : Inv (init V init_resp).
  Proof.
    constructor; cbn.
    - split; [reflexivity|lia].
    - intros h [H _]. cbn in H. lia.
    - intros h c [H _]. cbn in H. lia.
    - intros c [H _]. cbn in H. lia.
    - intros c c' [H _]. cbn in H. lia.
    - intros c [H _]. cbn in H. lia.
    - intros x H. lia.
    - intros c i tr w H. lia.
  Qed.

  Ltac ue := unfold upd in *; repeat match goal with
    | |- context [Nat.eqb ?a ?b] => destruct (Nat.eqb_spec a b); subst
    | H : context [Nat.eqb ?a ?b] |- _ => destruct (Nat.eqb_spec a b); subst
    end.

  (* acquire hands out an object that nobody uses *)
  Lemma acquire_spec s pick s1 x : Inv s -> acquire V init_resp s pick = (s1, x) ->
    s_conn V s1 = s_conn V s /\ s_nconn V s1 = s_nconn V s /\ s_h V s1 = s_h V s /\ s_nh V s1 = s_nh V s /\ s_sem V s1 = s_sem V s /\
    x < s_nctx V s1 /\ s_nctx V s <= s_nctx V s1 /\
    cx_pooled V (s_ctx V s1 x) = false /\ cx_tresp V (s_ctx V s1 x) = None /\
    (forall y, y <> x -> s_ctx V s1 y = s_ctx V s y) /\
    (forall c, opened s c -> k_ctx V (s_conn V s c) <> x) /\
    (forall h, running s h -> h_ctx (s_h V s h) <> x) /\
    (forall y, y < s_nctx V s1 -> y <> x -> y < s_nctx V s).
  Proof.
    intros I E. unfold acquire in E.
    destruct ((pick <? s_nctx V s) && cx_pooled V (s_ctx V s pick)) eqn:Ep.
    - apply andb_true_iff in Ep as [Hlt Hp]. apply Nat.ltb_lt in Hlt. injection E as <- <-. cbn.
      repeat split; try reflexivity; try lia.
      + unfold upd. now rewrite Nat.eqb_refl.
      + unfold upd. rewrite Nat.eqb_refl. cbn. now apply (i_pool s I).
      + intros y Hy. unfold upd. destruct (Nat.eqb_spec y pick); [contradiction|reflexivity].
      + intros c Hc E. destruct (i_cctx s I c Hc) as [_ Hn]. rewrite E in Hn. congruence.
      + intros h Hh E. destruct (i_hctx s I h Hh) as [_ Hn]. rewrite E in Hn. congruence.
    - injection E as <- <-. cbn. repeat split; try reflexivity; try lia.
      + unfold upd. now rewrite Nat.eqb_refl.
      + unfold upd. now rewrite Nat.eqb_refl.
      + intros y Hy. unfold upd. destruct (Nat.eqb_spec y (s_nctx V s)); [contradiction|reflexivity].
      + intros c Hc E. destruct (i_cctx s I c Hc) as [Hl _]. lia.
      + intros h Hh E. destruct (i_hctx s I h Hh) as [Hl _]. lia.
  Qed.

  (* ---------- facts that carry the invariant over a step ---------- *)
  Lemma own_ok_same s s' c :
    s_conn V s' c = s_conn V s c ->
    s_ctx V s' (k_ctx V (s_conn V s c)) = s_ctx V s (k_ctx V (s_conn V s c)) -> own_ok s c -> own_ok s' c.
  Proof. intros E1 E2 H. unfold own_ok in *. rewrite E1, E2. exact H. Qed.

  Lemma phase_allows_same s s' c h :
    s_conn V s' c = s_conn V s c ->
    cx_tresp V (s_ctx V s' (k_ctx V (s_conn V s c))) = cx_tresp V (s_ctx V s (k_ctx V (s_conn V s c))) ->
    phase_allows s c h -> phase_allows s' c h.
  Proof. intros E1 E2 H. unfold phase_allows in *. rewrite E1, E2. exact H. Qed.

  (* ---------- the handler goroutine writes to its ctx ---------- *)
  Lemma inv_handler_write s h r : Inv s -> running s h -> rv_own V r = (h_conn (s_h V s h), h_req (s_h V s h)) ->
    Inv (set_ctx V s (h_ctx (s_h V s h)) (with_resp V (s_ctx V s (h_ctx (s_h V s h))) r)).
  Proof.
    intros I Hr Ho. set (x := h_ctx (s_h V s h)). constructor; cbn [set_ctx s_sem s_h s_nh s_ctx s_nctx s_conn s_nconn].
    - exact (i_sem s I).
    - intros h' Hh'. destruct (i_hctx s I h' Hh') as [A B]. split; [exact A|]. unfold upd. destruct (Nat.eqb_spec (h_ctx (s_h V s h')) x) as [E|E]; [|exact B].
      cbn. rewrite <- E. exact B.
    - intros h' c Hh' Hc E. destruct (i_hconn s I h' c Hh' Hc E) as (A & B & C). split; [exact A|]. split; [exact B|].
      apply (phase_allows_same s _ c h'); [reflexivity| |exact C]. cbn. unfold upd. destruct (Nat.eqb_spec (k_ctx V (s_conn V s c)) x) as [E'|E']; [rewrite E'; reflexivity|reflexivity].
    - intros c Hc. destruct (i_cctx s I c Hc) as [A B]. split; [exact A|]. unfold upd. destruct (Nat.eqb_spec (k_ctx V (s_conn V s c)) x) as [E|E]; [|exact B].
      cbn. rewrite <- E. exact B.
    - exact (i_uniq s I).
    - intros c Hc. pose proof (i_own s I c Hc) as Ho'. destruct (Nat.eq_dec (k_ctx V (s_conn V s c)) x) as [E|E].
      + destruct (i_hconn s I h c Hr Hc E) as (A & B & C). unfold own_ok in *. cbn. unfold upd. rewrite E, Nat.eqb_refl. cbn [cx_resp cx_tresp with_resp].
        fold x in Ho'. rewrite E in Ho'. rewrite Ho, <- A, <- B.
        destruct C as [C|[[C _]|[v C]]]; rewrite C in *; [tauto|tauto|]. destruct Ho' as (_ & P & Q). repeat split; assumption.
      + apply (own_ok_same s _ c); [reflexivity| |exact Ho']. cbn. unfold upd. destruct (Nat.eqb_spec (k_ctx V (s_conn V s c)) x); [contradiction|reflexivity].
    - intros y Hy. unfold upd. destruct (Nat.eqb_spec y x) as [->|E]; [|now apply (i_pool s I)]. cbn. now apply (i_pool s I).
    - exact (i_log s I).
  Qed.

  Lemma inv_handler_terr s h r : Inv s -> running s h -> rv_own V r = (h_conn (s_h V s h), h_req (s_h V s h)) ->
    Inv (set_ctx V s (h_ctx (s_h V s h)) (with_tresp V (s_ctx V s (h_ctx (s_h V s h))) (Some r))).
  Proof.
    intros I Hr Ho. set (x := h_ctx (s_h V s h)). constructor; cbn [set_ctx s_sem s_h s_nh s_ctx s_nctx s_conn s_nconn].
    - exact (i_sem s I).
    - intros h' Hh'. destruct (i_hctx s I h' Hh') as [A B]. split; [exact A|]. unfold upd. destruct (Nat.eqb_spec (h_ctx (s_h V s h')) x) as [E|E]; [|exact B].
      cbn. rewrite <- E. exact B.
    - intros h' c Hh' Hc E. destruct (i_hconn s I h' c Hh' Hc E) as (A & B & C). split; [exact A|]. split; [exact B|].
      unfold phase_allows in *. cbn [set_ctx s_ctx s_conn]. unfold upd.
      destruct (Nat.eqb_spec (k_ctx V (s_conn V s c)) x) as [E'|E']; [|exact C].
      destruct C as [C|[[C _]|C]]; [now left| |now right; right]. right; left. split; [exact C|]. cbn. discriminate.
    - intros c Hc. destruct (i_cctx s I c Hc) as [A B]. split; [exact A|]. unfold upd. destruct (Nat.eqb_spec (k_ctx V (s_conn V s c)) x) as [E|E]; [|exact B].
      cbn. rewrite <- E. exact B.
    - exact (i_uniq s I).
    - intros c Hc. pose proof (i_own s I c Hc) as Ho'. destruct (Nat.eq_dec (k_ctx V (s_conn V s c)) x) as [E|E].
      + destruct (i_hconn s I h c Hr Hc E) as (A & B & C). unfold own_ok in *. cbn. unfold upd. rewrite E, Nat.eqb_refl. cbn [cx_resp cx_tresp with_tresp].
        fold x in Ho'. rewrite E in Ho'. rewrite <- A, <- B in Ho.
        destruct C as [C|[[C _]|[v C]]]; rewrite C in *.
        * destruct Ho' as [P Q]. split; [exact P|]. intros v Hv. injection Hv as <-. exact Ho.
        * destruct Ho' as [P Q]. split; [exact P|]. intros v Hv. injection Hv as <-. exact Ho.
        * destruct Ho' as (P & Q & R). split; [exact P|]. split; [|exact R]. intros v' Hv. injection Hv as <-. exact Ho.
      + apply (own_ok_same s _ c); [reflexivity| |exact Ho']. cbn. unfold upd. destruct (Nat.eqb_spec (k_ctx V (s_conn V s c)) x); [contradiction|reflexivity].
    - intros y Hy. unfold upd. destruct (Nat.eqb_spec y x) as [->|E]; [|now apply (i_pool s I)]. cbn. intros Hp.
      destruct (i_hctx s I h Hr) as [_ Hn]. fold x in Hn. congruence.
    - exact (i_log s I).
  Qed.

  (* ---------- the handler goroutine returns / gives its slot back ---------- *)
  Lemma inv_handler_state s h st' sem' : Inv s -> h < s_nh V s -> st' <> HRunning -> holds (s_h V s h) = true ->
    sem' + 1 = s_sem V s + (match st' with HReleased => 0 | _ => 1 end) ->
    Inv (set_sem V (set_h V s h (mkH (h_ctx (s_h V s h)) (h_conn (s_h V s h)) (h_req (s_h V s h)) st')) sem').
  Proof.
    intros I Hh Hst Hhold Hsem.
    assert (Hrun : forall h', running (set_sem V (set_h V s h (mkH (h_ctx (s_h V s h)) (h_conn (s_h V s h)) (h_req (s_h V s h)) st')) sem') h' ->
                   running s h' /\ h' <> h).
    { intros h' [A B]. cbn in A, B. unfold upd in B. destruct (Nat.eqb_spec h' h) as [->|E]; [cbn in B; contradiction|]. split; [split; assumption|exact E]. }
    assert (Hsame : forall h', h' <> h -> s_h V (set_sem V (set_h V s h (mkH (h_ctx (s_h V s h)) (h_conn (s_h V s h)) (h_req (s_h V s h)) st')) sem') h' = s_h V s h').
    { intros h' E. cbn. unfold upd. destruct (Nat.eqb_spec h' h); [contradiction|reflexivity]. }
    constructor; cbn [set_sem set_h s_sem s_h s_nh s_ctx s_nctx s_conn s_nconn].
    - destruct (i_sem s I) as [A B].
      pose proof (cnt_upd_in (s_h V s) (s_nh V s) h (mkH (h_ctx (s_h V s h)) (h_conn (s_h V s h)) (h_req (s_h V s h)) st') Hh) as Hc.
      assert (Hh' : holds (mkH (h_ctx (s_h V s h)) (h_conn (s_h V s h)) (h_req (s_h V s h)) st') = match st' with HReleased => false | _ => true end) by reflexivity.
      rewrite Hh', Hhold in Hc. destruct st'; try contradiction; cbn iota in *; split; lia.
    - intros h' Hh'. destruct (Hrun h' Hh') as [R E]. unfold upd. destruct (Nat.eqb_spec h' h); [contradiction|].
      exact (i_hctx s I h' R).
    - intros h' c Hh' Hc E. destruct (Hrun h' Hh') as [R Ne]. unfold upd in *. destruct (Nat.eqb_spec h' h); [contradiction|].
      exact (i_hconn s I h' c R Hc E).
    - exact (i_cctx s I).
    - exact (i_uniq s I).
    - exact (i_own s I).
    - exact (i_pool s I).
    - exact (i_log s I).
  Qed.

  (* ---------- a step of a connection's serve loop that keeps its ctx variable ---------- *)
  Lemma inv_conn_step s s' c X' k' :
    Inv s -> opened s c ->
    s_h V s' = s_h V s -> s_nh V s' = s_nh V s -> s_sem V s' = s_sem V s -> s_nctx V s' = s_nctx V s -> s_nconn V s' = s_nconn V s ->
    s_conn V s' c = k' -> (forall c', c' <> c -> s_conn V s' c' = s_conn V s c') ->
    s_ctx V s' (k_ctx V (s_conn V s c)) = X' -> (forall y, y <> k_ctx V (s_conn V s c) -> s_ctx V s' y = s_ctx V s y) ->
    k_open V k' = true -> k_ctx V k' = k_ctx V (s_conn V s c) -> cx_pooled V X' = false ->
    own_ok s' c ->
    (forall h, running s h -> h_ctx (s_h V s h) = k_ctx V (s_conn V s c) -> k_req V k' = h_req (s_h V s h) /\ phase_allows s' c h) ->
    (forall i tr w, In (i, tr, w) (k_log V k') ->
       In (i, tr, w) (k_log V (s_conn V s c)) \/ (rv_own V w = (c, i) /\ forall v, tr = Some v -> w = v)) ->
    Inv s'.
  Proof.
    intros I Hc Ehf Enh Esem Enctx Enconn Hcc Hco Hxx Hcx Hopen Hctx Hpool Hown Hh Hlog. set (x := k_ctx V (s_conn V s c)) in *.
    assert (Hrun : forall h, running s' h <-> running s h) by (intros h; unfold running; rewrite Ehf, Enh; tauto).
    assert (Hopened : forall c', opened s' c' -> c' = c \/ (c' <> c /\ opened s c' /\ s_conn V s' c' = s_conn V s c' /\ k_ctx V (s_conn V s c') <> x)).
    { intros c' [A B]. rewrite Enconn in A. destruct (Nat.eq_dec c' c) as [->|E]; [now left|]. right. rewrite (Hco _ E) in B.
      assert (Ho : opened s c') by (split; assumption). repeat split; try assumption.
      - now apply Hco.
      - intros E'. apply E. apply (i_uniq s I c' c Ho Hc). exact E'. }
    constructor.
    - rewrite Esem, Ehf, Enh. exact (i_sem s I).
    - intros h Hr. apply Hrun in Hr. rewrite Ehf, Enctx. destruct (i_hctx s I h Hr) as [A B]. split; [exact A|].
      destruct (Nat.eq_dec (h_ctx (s_h V s h)) x) as [E|E]; [rewrite E, Hxx; exact Hpool|rewrite (Hcx _ E); exact B].
    - intros h c' Hr Hc' E. apply Hrun in Hr. rewrite Ehf in *.
      destruct (Hopened c' Hc') as [->|(Ne & Ho & Es & Nx)].
      + rewrite Hcc in *. rewrite Hctx in E. destruct (i_hconn s I h c Hr Hc E) as (A & _ & _).
        destruct (Hh h Hr (eq_sym E)) as [B C]. split; [exact A|]. split; [exact B|exact C].
      + rewrite Es in *. destruct (i_hconn s I h c' Hr Ho E) as (A & B & C). split; [exact A|]. split; [exact B|].
        apply (phase_allows_same s s' c' h); [exact Es| |exact C]. now rewrite (Hcx _ Nx).
    - intros c' Hc'. rewrite Enctx. destruct (Hopened c' Hc') as [->|(Ne & Ho & Es & Nx)].
      + rewrite Hcc, Hctx. fold x. rewrite Hxx. split; [exact (proj1 (i_cctx s I c Hc))|exact Hpool].
      + rewrite Es, (Hcx _ Nx). exact (i_cctx s I c' Ho).
    - intros c1 c2 H1 H2 E.
      assert (K : forall c', opened s' c' -> opened s c' /\ k_ctx V (s_conn V s' c') = k_ctx V (s_conn V s c')).
      { intros c' Hc'. destruct (Hopened c' Hc') as [->|(Ne & Ho & Es & Nx)]; [split; [exact Hc|now rewrite Hcc]|split; [exact Ho|now rewrite Es]]. }
      destruct (K c1 H1) as [O1 E1]. destruct (K c2 H2) as [O2 E2]. rewrite E1, E2 in E. exact (i_uniq s I c1 c2 O1 O2 E).
    - intros c' Hc'. destruct (Hopened c' Hc') as [->|(Ne & Ho & Es & Nx)]; [exact Hown|].
      apply (own_ok_same s s' c'); [exact Es|now apply Hcx|exact (i_own s I c' Ho)].
    - intros y Hy Hp. rewrite Enctx in Hy. destruct (Nat.eq_dec y x) as [->|E].
      + rewrite Hxx in Hp. congruence.
      + rewrite (Hcx _ E) in *. now apply (i_pool s I).
    - intros c' i tr w Hlt Hin. rewrite Enconn in Hlt. destruct (Nat.eq_dec c' c) as [->|E].
      + rewrite Hcc in Hin. destruct (Hlog i tr w Hin) as [Hold|Hnew]; [exact (i_log s I c i tr w Hlt Hold)|exact Hnew].
      + rewrite (Hco _ E) in Hin. exact (i_log s I c' i tr w Hlt Hin).
  Qed.

  (* ---------- the wrapper takes a semaphore slot and starts the handler goroutine ---------- *)
  Lemma inv_req_start s c : Inv s -> opened s c -> k_phase V (s_conn V s c) = PIdle V -> s_sem V s < cap ->
    Inv (set_conn V (mkS V (s_ctx V s) (s_nctx V s) (s_conn V s) (s_nconn V s)
                       (upd (s_h V s) (s_nh V s) (mkH (k_ctx V (s_conn V s c)) c (k_req V (s_conn V s c)) HRunning)) (S (s_nh V s)) (S (s_sem V s)))
                  c (with_phase V (s_conn V s c) (PWaiting V (s_nh V s)))).
  Proof.
    intros I Hc Hph Hsem. set (k := s_conn V s c) in *. set (nh := s_nh V s). set (newh := mkH (k_ctx V k) c (k_req V k) HRunning).
    set (s' := set_conn V _ c _).
    assert (Hconn : forall c', s_conn V s' c' = if Nat.eqb c' c then with_phase V k (PWaiting V nh) else s_conn V s c') by reflexivity.
    assert (Hkctx : forall c', k_ctx V (s_conn V s' c') = k_ctx V (s_conn V s c')).
    { intros c'. rewrite Hconn. destruct (Nat.eqb_spec c' c) as [->|]; reflexivity. }
    assert (Hop : forall c', opened s' c' <-> opened s c').
    { intros c'. unfold opened. rewrite Hconn. cbn [s_nconn set_conn]. destruct (Nat.eqb_spec c' c) as [->|]; [cbn; tauto|tauto]. }
    assert (Hrun : forall h, running s' h -> (h = nh /\ s_h V s' h = newh) \/ (h <> nh /\ running s h /\ s_h V s' h = s_h V s h)).
    { intros h [A B]. cbn in A, B. unfold upd in B. destruct (Nat.eqb_spec h nh) as [->|E].
      - left. split; [reflexivity|]. cbn. unfold upd. now rewrite Nat.eqb_refl.
      - right. split; [exact E|]. split; [split; [fold nh; lia|exact B]|]. cbn. unfold upd. destruct (Nat.eqb_spec h nh); [contradiction|reflexivity]. }
    constructor.
    - destruct (i_sem s I) as [A B]. cbn. split; [|lia]. rewrite cnt_upd_out by lia. unfold upd. rewrite Nat.eqb_refl. cbn. now rewrite A.
    - intros h Hr. destruct (Hrun h Hr) as [[-> E]|(Ne & R & E)]; rewrite E.
      + cbn [newh h_ctx]. exact (i_cctx s I c Hc).
      + exact (i_hctx s I h R).
    - intros h c' Hr Hc' E. apply Hop in Hc'. rewrite Hkctx in E.
      destruct (Hrun h Hr) as [[-> Eh]|(Ne & R & Eh)]; rewrite Eh in *.
      + cbn [newh h_ctx h_conn h_req] in *. assert (c' = c) by (apply (i_uniq s I c' c Hc' Hc); exact E). subst c'.
        split; [reflexivity|]. rewrite Hconn, Nat.eqb_refl. cbn. split; [reflexivity|]. left. unfold phase_allows. rewrite Hconn, Nat.eqb_refl. reflexivity.
      + destruct (i_hconn s I h c' R Hc' E) as (A & B & C). destruct (Nat.eq_dec c' c) as [->|Nc].
        * exfalso. unfold phase_allows in C. fold k in C. rewrite Hph in C. destruct C as [C|[[C _]|[v C]]]; discriminate.
        * split; [exact A|]. assert (Es : s_conn V s' c' = s_conn V s c') by (rewrite Hconn; destruct (Nat.eqb_spec c' c); [contradiction|reflexivity]).
          rewrite Es. split; [exact B|]. apply (phase_allows_same s s' c' h); [exact Es|reflexivity|exact C].
    - intros c' Hc'. apply Hop in Hc'. rewrite Hkctx. exact (i_cctx s I c' Hc').
    - intros c1 c2 H1 H2 E. apply Hop in H1. apply Hop in H2. rewrite !Hkctx in E. exact (i_uniq s I c1 c2 H1 H2 E).
    - intros c' Hc'. apply Hop in Hc'. destruct (Nat.eq_dec c' c) as [->|Nc].
      + pose proof (i_own s I c Hc) as Ho. unfold own_ok in *. rewrite Hconn, Nat.eqb_refl. fold k in Ho. rewrite Hph in Ho. cbn. destruct Ho as [A B].
        split; [exact A|]. intros v Hv. cbn in Hv. fold k in B. congruence.
      + apply (own_ok_same s s' c'); [rewrite Hconn; destruct (Nat.eqb_spec c' c); [contradiction|reflexivity]|reflexivity|exact (i_own s I c' Hc')].
    - exact (i_pool s I).
    - intros c' i tr w Hlt Hin. rewrite Hconn in Hin. destruct (Nat.eqb_spec c' c) as [->|]; exact (i_log s I _ i tr w Hlt Hin).
  Qed.

  (* ---------- ctx = s.acquireCtx(c) after a timeout response was seen ---------- *)
  Lemma inv_swap s c v pick s1 x : Inv s -> opened s c -> k_phase V (s_conn V s c) = PRead V v ->
    acquire V init_resp s pick = (s1, x) ->
    Inv (set_conn V s1 c (mkConn V (k_open V (s_conn V s c)) x (k_req V (s_conn V s c)) (PSwapped V v) (k_log V (s_conn V s c)))).
  Proof.
    intros I Hc Hph Ea. set (k := s_conn V s c) in *.
    destruct (acquire_spec s pick s1 x I Ea) as (A1 & A2 & A3 & A4 & A5 & A6 & A7 & A8 & A9 & A10 & A11 & A12 & A13).
    set (s' := set_conn V s1 c _).
    assert (Hconn : forall c', s_conn V s' c' = if Nat.eqb c' c then mkConn V (k_open V k) x (k_req V k) (PSwapped V v) (k_log V k) else s_conn V s c').
    { intros c'. cbn. unfold upd. rewrite A1. reflexivity. }
    assert (Hn : s_nconn V s' = s_nconn V s) by exact A2.
    assert (Hhf : s_h V s' = s_h V s) by exact A3.
    assert (Hnh : s_nh V s' = s_nh V s) by exact A4.
    assert (Hsm : s_sem V s' = s_sem V s) by exact A5.
    assert (Hnc : s_nctx V s' = s_nctx V s1) by reflexivity.
    assert (Hctx : forall y, y <> x -> s_ctx V s' y = s_ctx V s y) by (intros y E; cbn; now apply A10).
    assert (Hxx : s_ctx V s' x = s_ctx V s1 x) by reflexivity.
    assert (Hop : forall c', opened s' c' <-> opened s c').
    { intros c'. unfold opened. rewrite Hconn, Hn. destruct (Nat.eqb_spec c' c) as [->|]; [cbn; tauto|tauto]. }
    assert (Hrun : forall h, running s' h <-> running s h).
    { intros h. unfold running. rewrite Hhf, Hnh. tauto. }
    constructor.
    - rewrite Hsm, Hhf, Hnh. exact (i_sem s I).
    - intros h Hr. apply Hrun in Hr. rewrite Hhf, Hnc. destruct (i_hctx s I h Hr) as [B C].
      split; [lia|]. rewrite (Hctx _ (A12 h Hr)). exact C.
    - intros h c' Hr Hc' E. apply Hrun in Hr. apply Hop in Hc'. rewrite Hhf in *. rewrite Hconn in *.
      destruct (Nat.eqb_spec c' c) as [->|Nc].
      + cbn in E. exfalso. exact (A12 h Hr (eq_sym E)).
      + destruct (i_hconn s I h c' Hr Hc' E) as (B & C & D). split; [exact B|]. split; [exact C|].
        apply (phase_allows_same s s' c' h); [rewrite Hconn; destruct (Nat.eqb_spec c' c); [contradiction|reflexivity]| |exact D].
        now rewrite (Hctx _ (A11 c' Hc')).
    - intros c' Hc'. apply Hop in Hc'. rewrite Hconn, Hnc. destruct (Nat.eqb_spec c' c) as [->|Nc].
      + cbn [k_ctx]. rewrite Hxx. split; [exact A6|exact A8].
      + destruct (i_cctx s I c' Hc') as [B C]. split; [lia|]. rewrite (Hctx _ (A11 c' Hc')). exact C.
    - intros c1 c2 H1 H2 E. apply Hop in H1. apply Hop in H2. rewrite !Hconn in E.
      destruct (Nat.eqb_spec c1 c) as [->|N1]; destruct (Nat.eqb_spec c2 c) as [->|N2]; try reflexivity.
      + cbn in E. exfalso. exact (A11 c2 H2 (eq_sym E)).
      + cbn in E. exfalso. exact (A11 c1 H1 E).
      + exact (i_uniq s I c1 c2 H1 H2 E).
    - intros c' Hc'. apply Hop in Hc'. destruct (Nat.eq_dec c' c) as [->|Nc].
      + pose proof (i_own s I c Hc) as Ho. unfold own_ok in *. rewrite Hconn, Nat.eqb_refl. fold k in Ho. rewrite Hph in Ho. cbn [k_phase k_ctx k_req]. rewrite Hxx.
        destruct Ho as (_ & _ & B). split; [exact B|exact A9].
      + apply (own_ok_same s s' c'); [rewrite Hconn; destruct (Nat.eqb_spec c' c); [contradiction|reflexivity]| |exact (i_own s I c' Hc')].
        exact (Hctx _ (A11 c' Hc')).
    - intros y Hy Hp. rewrite Hnc in Hy. destruct (Nat.eq_dec y x) as [->|E]; [rewrite Hxx in Hp; congruence|].
      rewrite (Hctx _ E) in *. apply (i_pool s I); [now apply A13|exact Hp].
    - intros c' i tr w Hlt Hin. rewrite Hn in Hlt. rewrite Hconn in Hin.
      destruct (Nat.eqb_spec c' c) as [->|]; exact (i_log s I _ i tr w Hlt Hin).
  Qed.

  (* ---------- the connection ends: s.releaseCtx(ctx) ---------- *)
  Lemma inv_close s c : Inv s -> opened s c -> k_phase V (s_conn V s c) = PIdle V ->
    Inv (set_conn V (set_ctx V s (k_ctx V (s_conn V s c)) (mkCtx V (cx_resp V (s_ctx V s (k_ctx V (s_conn V s c)))) None true))
                  c (mkConn V false (k_ctx V (s_conn V s c)) (k_req V (s_conn V s c)) (PIdle V) (k_log V (s_conn V s c)))).
  Proof.
    intros I Hc Hph. set (k := s_conn V s c) in *. set (x := k_ctx V k). set (s' := set_conn V _ c _).
    assert (Hconn : forall c', s_conn V s' c' = if Nat.eqb c' c then mkConn V false x (k_req V k) (PIdle V) (k_log V k) else s_conn V s c') by reflexivity.
    assert (Hop : forall c', opened s' c' -> c' <> c /\ opened s c' /\ k_ctx V (s_conn V s c') <> x).
    { intros c' [A B]. rewrite Hconn in B. destruct (Nat.eqb_spec c' c) as [->|N]; [discriminate B|].
      assert (Ho : opened s c') by (split; assumption). split; [exact N|]. split; [exact Ho|]. intros E. apply N. exact (i_uniq s I c' c Ho Hc E). }
    assert (Hnorun : forall h, running s h -> h_ctx (s_h V s h) <> x).
    { intros h Hr E. destruct (i_hconn s I h c Hr Hc (eq_sym E)) as (_ & _ & C). unfold phase_allows in C. fold k in C. rewrite Hph in C.
      destruct C as [C|[[C _]|[v C]]]; discriminate. }
    assert (Hctx : forall y, y <> x -> s_ctx V s' y = s_ctx V s y) by (intros y E; cbn; unfold upd; destruct (Nat.eqb_spec y x); [contradiction|reflexivity]).
    constructor.
    - exact (i_sem s I).
    - intros h Hr. change (running s h) in Hr. change (s_h V s' h) with (s_h V s h). rewrite (Hctx _ (Hnorun h Hr)). exact (i_hctx s I h Hr).
    - intros h c' Hr Hc' E. change (running s h) in Hr. change (s_h V s' h) with (s_h V s h) in *. destruct (Hop c' Hc') as (N & Ho & Nx).
      assert (Es : s_conn V s' c' = s_conn V s c') by (rewrite Hconn; destruct (Nat.eqb_spec c' c); [contradiction|reflexivity]).
      rewrite Es in *. destruct (i_hconn s I h c' Hr Ho E) as (A & B & C). split; [exact A|]. split; [exact B|].
      apply (phase_allows_same s s' c' h); [exact Es| |exact C]. now rewrite (Hctx _ Nx).
    - intros c' Hc'. destruct (Hop c' Hc') as (N & Ho & Nx).
      assert (Es : s_conn V s' c' = s_conn V s c') by (rewrite Hconn; destruct (Nat.eqb_spec c' c); [contradiction|reflexivity]).
      rewrite Es, (Hctx _ Nx). exact (i_cctx s I c' Ho).
    - intros c1 c2 H1 H2 E. destruct (Hop c1 H1) as (N1 & O1 & _). destruct (Hop c2 H2) as (N2 & O2 & _). rewrite !Hconn in E.
      destruct (Nat.eqb_spec c1 c); [contradiction|]. destruct (Nat.eqb_spec c2 c); [contradiction|]. exact (i_uniq s I c1 c2 O1 O2 E).
    - intros c' Hc'. destruct (Hop c' Hc') as (N & Ho & Nx).
      apply (own_ok_same s s' c'); [rewrite Hconn; destruct (Nat.eqb_spec c' c); [contradiction|reflexivity]|exact (Hctx _ Nx)|exact (i_own s I c' Ho)].
    - intros y Hy Hp. destruct (Nat.eq_dec y x) as [->|E]; [cbn; unfold upd; now rewrite Nat.eqb_refl|].
      rewrite (Hctx _ E) in *. now apply (i_pool s I).
    - intros c' i tr w Hlt Hin. rewrite Hconn in Hin. destruct (Nat.eqb_spec c' c) as [->|]; exact (i_log s I _ i tr w Hlt Hin).
  Qed.

  (* ---------- a connection is accepted ---------- *)
  Lemma inv_open s pick s1 x : Inv s -> acquire V init_resp s pick = (s1, x) ->
    Inv (mkS V (upd (s_ctx V s1) x (mkCtx V (mkRV V (s_nconn V s1, 0) init_resp) None false)) (s_nctx V s1)
               (upd (s_conn V s1) (s_nconn V s1) (mkConn V true x 0 (PIdle V) [])) (S (s_nconn V s1)) (s_h V s1) (s_nh V s1) (s_sem V s1)).
  Proof.
    intros I Ea. destruct (acquire_spec s pick s1 x I Ea) as (A1 & A2 & A3 & A4 & A5 & A6 & A7 & A8 & A9 & A10 & A11 & A12 & A13).
    rewrite A1, A2, A3, A4, A5. set (c := s_nconn V s). set (s' := mkS V _ _ _ _ _ _ _).
    assert (Hconn : forall c', s_conn V s' c' = if Nat.eqb c' c then mkConn V true x 0 (PIdle V) [] else s_conn V s c') by reflexivity.
    assert (Hop : forall c', opened s' c' -> c' = c \/ (c' <> c /\ opened s c' /\ k_ctx V (s_conn V s c') <> x)).
    { intros c' [A B]. rewrite Hconn in B. destruct (Nat.eqb_spec c' c) as [->|N]; [now left|]. right. cbn in A.
      assert (Ho : opened s c') by (split; [fold c; lia|exact B]). split; [exact N|]. split; [exact Ho|exact (A11 c' Ho)]. }
    assert (Hctx : forall y, y <> x -> s_ctx V s' y = s_ctx V s y).
    { intros y E. cbn. unfold upd. destruct (Nat.eqb_spec y x); [contradiction|now apply A10]. }
    assert (Hxx : s_ctx V s' x = mkCtx V (mkRV V (c, 0) init_resp) None false) by (cbn; unfold upd; now rewrite Nat.eqb_refl).
    constructor.
    - exact (i_sem s I).
    - intros h Hr. change (running s h) in Hr. change (s_h V s' h) with (s_h V s h). destruct (i_hctx s I h Hr) as [B C].
      split; [cbn; lia|]. rewrite (Hctx _ (A12 h Hr)). exact C.
    - intros h c' Hr Hc' E. change (running s h) in Hr. change (s_h V s' h) with (s_h V s h) in *.
      destruct (Hop c' Hc') as [->|(N & Ho & Nx)].
      + rewrite Hconn, Nat.eqb_refl in E. cbn in E. exfalso. exact (A12 h Hr (eq_sym E)).
      + assert (Es : s_conn V s' c' = s_conn V s c') by (rewrite Hconn; destruct (Nat.eqb_spec c' c); [contradiction|reflexivity]).
        rewrite Es in *. destruct (i_hconn s I h c' Hr Ho E) as (A & B & C). split; [exact A|]. split; [exact B|].
        apply (phase_allows_same s s' c' h); [exact Es| |exact C]. now rewrite (Hctx _ Nx).
    - intros c' Hc'. destruct (Hop c' Hc') as [->|(N & Ho & Nx)].
      + rewrite Hconn, Nat.eqb_refl. cbn [k_ctx]. rewrite Hxx. split; [exact A6|reflexivity].
      + assert (Es : s_conn V s' c' = s_conn V s c') by (rewrite Hconn; destruct (Nat.eqb_spec c' c); [contradiction|reflexivity]).
        rewrite Es, (Hctx _ Nx). destruct (i_cctx s I c' Ho) as [B C]. split; [cbn; lia|exact C].
    - intros c1 c2 H1 H2 E. rewrite !Hconn in E.
      destruct (Hop c1 H1) as [->|(N1 & O1 & X1)]; destruct (Hop c2 H2) as [->|(N2 & O2 & X2)]; try reflexivity.
      + rewrite Nat.eqb_refl in E. destruct (Nat.eqb_spec c2 c); [contradiction|]. cbn in E. exfalso. exact (X2 (eq_sym E)).
      + rewrite Nat.eqb_refl in E. destruct (Nat.eqb_spec c1 c); [contradiction|]. cbn in E. exfalso. exact (X1 E).
      + destruct (Nat.eqb_spec c1 c); [contradiction|]. destruct (Nat.eqb_spec c2 c); [contradiction|]. exact (i_uniq s I c1 c2 O1 O2 E).
    - intros c' Hc'. destruct (Hop c' Hc') as [->|(N & Ho & Nx)].
      + unfold own_ok. rewrite Hconn, Nat.eqb_refl. cbn [k_phase k_ctx k_req]. rewrite Hxx. cbn. split; reflexivity.
      + apply (own_ok_same s s' c'); [rewrite Hconn; destruct (Nat.eqb_spec c' c); [contradiction|reflexivity]|exact (Hctx _ Nx)|exact (i_own s I c' Ho)].
    - intros y Hy Hp. destruct (Nat.eq_dec y x) as [->|E]; [rewrite Hxx in Hp; discriminate Hp|].
      rewrite (Hctx _ E) in *. apply (i_pool s I); [apply A13; [exact Hy|exact E]|exact Hp].
    - intros c' i tr w Hlt Hin. rewrite Hconn in Hin. destruct (Nat.eqb_spec c' c) as [->|N]; [cbn in Hin; contradiction|].
      cbn in Hlt. apply (i_log s I c' i tr w); [fold c; lia|exact Hin].
  Qed.

  (* ---------- every step keeps the invariant ---------- *)
  Lemma opened_of s c : (c <? s_nconn V s) && k_open V (s_conn V s c) = true -> opened s c.
  Proof. intros H. apply andb_true_iff in H as [A B]. apply Nat.ltb_lt in A. split; assumption. Qed.
  Lemma running_of s h : (h <? s_nh V s) && is_running (h_st (s_h V s h)) = true -> running s h.
  Proof. intros H. apply andb_true_iff in H as [A B]. apply Nat.ltb_lt in A. split; [exact A|]. destruct (h_st (s_h V s h)); try discriminate; reflexivity. Qed.


  (* ---------- every step keeps the invariant ---------- *)
  Ltac eqs := first
    [ reflexivity
    | cbn; unfold upd; rewrite ?Nat.eqb_refl; reflexivity
    | let y := fresh "y" in let Hy := fresh "Hy" in intros y Hy; cbn; unfold upd;
      repeat match goal with |- context [Nat.eqb ?a ?b] => destruct (Nat.eqb_spec a b); [contradiction|] end; reflexivity ].

  Theorem step_inv s l s' : Inv s -> step s l = Some s' -> Inv s'.
  Proof.
    intros I E. destruct l; cbn [Timeout.step] in E.
    - (* LConnOpen *)
      destruct (acquire V init_resp s pick) as [s1 x] eqn:Ea. injection E as <-. cbn [set_ctx s_ctx s_nctx s_conn s_nconn s_h s_nh s_sem].
      exact (inv_open s pick s1 x I Ea).
    - (* LReqStart *)
      destruct ((c <? s_nconn V s) && k_open V (s_conn V s c) && is_idle V (k_phase V (s_conn V s c))) eqn:Ec; [|discriminate].
      apply andb_true_iff in Ec as [Ec Eid]. pose proof (opened_of s c Ec) as Hc.
      assert (Hph : k_phase V (s_conn V s c) = PIdle V) by (destruct (k_phase V (s_conn V s c)); try discriminate; reflexivity).
      destruct (Nat.ltb_spec (s_sem V s) cap) as [Hs|Hs]; injection E as <-.
      + exact (inv_req_start s c I Hc Hph Hs).
      + pose proof (i_own s I c Hc) as Ho. unfold own_ok in Ho. rewrite Hph in Ho. destruct Ho as [Ho1 Ho2].
        eapply (inv_conn_step s _ c (with_resp V (s_ctx V s (k_ctx V (s_conn V s c))) (mkRV V (c, k_req V (s_conn V s c)) too_many))
                  (with_phase V (s_conn V s c) (PReturned V)) I Hc); try eqs.
        * exact (proj2 Hc).
        * exact (proj2 (i_cctx s I c Hc)).
        * unfold own_ok. cbn. unfold upd. rewrite !Nat.eqb_refl. cbn. split; [reflexivity|]. intros v Hv. congruence.
        * intros h Hr Eh. exfalso. destruct (i_hconn s I h c Hr Hc (eq_sym Eh)) as (_ & _ & C). unfold phase_allows in C. rewrite Hph in C.
          destruct C as [C|[[C _]|[v C]]]; discriminate.
        * intros i tr w Hin. now left.
    - (* LHandlerWrite *)
      destruct ((h <? s_nh V s) && is_running (h_st (s_h V s h))) eqn:Eh; [|discriminate]. injection E as <-.
      apply inv_handler_write; [exact I|now apply running_of|reflexivity].
    - (* LHandlerTimeoutErr *)
      destruct ((h <? s_nh V s) && is_running (h_st (s_h V s h))) eqn:Eh; [|discriminate]. injection E as <-.
      apply inv_handler_terr; [exact I|now apply running_of|reflexivity].
    - (* LHandlerFinish *)
      destruct ((h <? s_nh V s) && is_running (h_st (s_h V s h))) eqn:Eh; [|discriminate]. injection E as <-.
      destruct (running_of s h Eh) as [Hlt Hst].
      assert (Hh : holds (s_h V s h) = true) by (unfold holds; now rewrite Hst).
      exact (inv_handler_state s h HSent (s_sem V s) I Hlt ltac:(discriminate) Hh eq_refl).
    - (* LHandlerRelease *)
      destruct (h_st (s_h V s h)) eqn:Hst; try discriminate. destruct (Nat.ltb_spec h (s_nh V s)) as [Hlt|]; [|discriminate]. injection E as <-.
      assert (Hh : holds (s_h V s h) = true) by (unfold holds; now rewrite Hst).
      assert (Hpos : 0 < s_sem V s).
      { destruct (i_sem s I) as [A _]. rewrite A. pose proof (cnt_upd_in (s_h V s) (s_nh V s) h (mkH 0 0 0 HReleased) Hlt) as Hc. rewrite Hh in Hc.
        change (holds (mkH 0 0 0 HReleased)) with false in Hc. cbv iota in Hc. lia. }
      apply (inv_handler_state s h HReleased (pred (s_sem V s)) I Hlt ltac:(discriminate) Hh). lia.
    - (* LWrapperDone *)
      destruct (k_phase V (s_conn V s c)) as [|h| | | |] eqn:Hph; try discriminate.
      destruct ((c <? s_nconn V s) && k_open V (s_conn V s c) && negb (is_running (h_st (s_h V s h)))) eqn:Ec; [|discriminate]. injection E as <-.
      apply andb_true_iff in Ec as [Ec Enr]. pose proof (opened_of s c Ec) as Hc. apply negb_true_iff in Enr.
      pose proof (i_own s I c Hc) as Ho. unfold own_ok in Ho. rewrite Hph in Ho.
      eapply (inv_conn_step s _ c (s_ctx V s (k_ctx V (s_conn V s c))) (with_phase V (s_conn V s c) (PReturned V)) I Hc); try eqs.
      + exact (proj2 Hc).
      + exact (proj2 (i_cctx s I c Hc)).
      + unfold own_ok. cbn. unfold upd. rewrite !Nat.eqb_refl. cbn. exact Ho.
      + intros h' Hr Eh. exfalso. destruct (i_hconn s I h' c Hr Hc (eq_sym Eh)) as (_ & _ & C). unfold phase_allows in C. rewrite Hph in C.
        destruct C as [C|[[C _]|[v C]]]; try discriminate. injection C as <-. destruct Hr as [_ Hr]. rewrite Hr in Enr. discriminate.
      + intros i tr w Hin. now left.
    - (* LTimerFire *)
      destruct (k_phase V (s_conn V s c)) as [|h| | | |] eqn:Hph; try discriminate.
      destruct ((c <? s_nconn V s) && k_open V (s_conn V s c)) eqn:Ec; [|discriminate]. injection E as <-.
      pose proof (opened_of s c Ec) as Hc. pose proof (i_own s I c Hc) as Ho. unfold own_ok in Ho. rewrite Hph in Ho. destruct Ho as [Ho1 Ho2].
      eapply (inv_conn_step s _ c (with_tresp V (s_ctx V s (k_ctx V (s_conn V s c))) (Some (mkRV V (c, k_req V (s_conn V s c)) timeout_resp)))
                (with_phase V (s_conn V s c) (PReturned V)) I Hc); try eqs.
      + exact (proj2 Hc).
      + exact (proj2 (i_cctx s I c Hc)).
      + unfold own_ok. cbn. unfold upd. rewrite !Nat.eqb_refl. cbn. split; [exact Ho1|]. intros v Hv. injection Hv as <-. reflexivity.
      + intros h' Hr Eh. destruct (i_hconn s I h' c Hr Hc (eq_sym Eh)) as (_ & B & _). split; [exact B|].
        right; left. unfold phase_allows. cbn. unfold upd. rewrite !Nat.eqb_refl. cbn. split; [reflexivity|discriminate].
      + intros i tr w Hin. now left.
    - (* LReadTimeout *)
      destruct (k_phase V (s_conn V s c)) as [|h| | | |] eqn:Hph; try discriminate.
      destruct ((c <? s_nconn V s) && k_open V (s_conn V s c)) eqn:Ec; [|discriminate].
      pose proof (opened_of s c Ec) as Hc. pose proof (i_own s I c Hc) as Ho. unfold own_ok in Ho. rewrite Hph in Ho. destruct Ho as [Ho1 Ho2].
      destruct (cx_tresp V (s_ctx V s (k_ctx V (s_conn V s c)))) as [v|] eqn:Et; injection E as <-.
      + eapply (inv_conn_step s _ c (s_ctx V s (k_ctx V (s_conn V s c))) (with_phase V (s_conn V s c) (PRead V v)) I Hc); try eqs.
        * exact (proj2 Hc).
        * exact (proj2 (i_cctx s I c Hc)).
        * unfold own_ok. cbn. unfold upd. rewrite !Nat.eqb_refl. cbn. split; [exact Ho1|]. split; [intros v' Hv'; rewrite Et in Hv'; now apply Ho2|now apply Ho2].
        * intros h' Hr Eh. destruct (i_hconn s I h' c Hr Hc (eq_sym Eh)) as (_ & B & _). split; [exact B|].
          right; right. exists v. cbn. unfold upd. now rewrite Nat.eqb_refl.
        * intros i tr w Hin. now left.
      + eapply (inv_conn_step s _ c (s_ctx V s (k_ctx V (s_conn V s c))) (with_phase V (s_conn V s c) (PReady V None)) I Hc); try eqs.
        * exact (proj2 Hc).
        * exact (proj2 (i_cctx s I c Hc)).
        * unfold own_ok. cbn. unfold upd. rewrite !Nat.eqb_refl. cbn. split; [exact Ho1|exact Et].
        * intros h' Hr Eh. exfalso. destruct (i_hconn s I h' c Hr Hc (eq_sym Eh)) as (_ & _ & C). unfold phase_allows in C. rewrite Hph in C.
          destruct C as [C|[[_ C]|[v C]]]; try discriminate. now apply C.
        * intros i tr w Hin. now left.
    - (* LSwapCtx *)
      destruct (k_phase V (s_conn V s c)) as [|h| |v| |] eqn:Hph; try discriminate.
      destruct ((c <? s_nconn V s) && k_open V (s_conn V s c)) eqn:Ec; [|discriminate].
      destruct (acquire V init_resp s pick) as [s1 x] eqn:Ea. injection E as <-.
      exact (inv_swap s c v pick s1 x I (opened_of s c Ec) Hph Ea).
    - (* LCopyResp *)
      destruct (k_phase V (s_conn V s c)) as [|h| | |v|] eqn:Hph; try discriminate.
      destruct ((c <? s_nconn V s) && k_open V (s_conn V s c)) eqn:Ec; [|discriminate]. injection E as <-.
      pose proof (opened_of s c Ec) as Hc. pose proof (i_own s I c Hc) as Ho. unfold own_ok in Ho. rewrite Hph in Ho. destruct Ho as [Ho1 Ho2].
      eapply (inv_conn_step s _ c (with_resp V (s_ctx V s (k_ctx V (s_conn V s c))) v) (with_phase V (s_conn V s c) (PReady V (Some v))) I Hc); try eqs.
      + exact (proj2 Hc).
      + exact (proj2 (i_cctx s I c Hc)).
      + unfold own_ok. cbn. unfold upd. rewrite !Nat.eqb_refl. cbn. split; [reflexivity|]. split; [exact Ho1|exact Ho2].
      + intros h' Hr Eh. exfalso. destruct (i_hconn s I h' c Hr Hc (eq_sym Eh)) as (_ & _ & C). unfold phase_allows in C. rewrite Hph in C.
        destruct C as [C|[[C _]|[v' C]]]; discriminate.
      + intros i tr w Hin. now left.
    - (* LSerialize *)
      destruct (k_phase V (s_conn V s c)) as [|h| | | |tr] eqn:Hph; try discriminate.
      destruct ((c <? s_nconn V s) && k_open V (s_conn V s c)) eqn:Ec; [|discriminate].
      destruct (cx_tresp V (s_ctx V s (k_ctx V (s_conn V s c)))) eqn:Et; [discriminate|]. injection E as <-.
      pose proof (opened_of s c Ec) as Hc. pose proof (i_own s I c Hc) as Ho. unfold own_ok in Ho. rewrite Hph in Ho.
      eapply (inv_conn_step s _ c (with_resp V (s_ctx V s (k_ctx V (s_conn V s c))) (mkRV V (c, S (k_req V (s_conn V s c))) init_resp))
                (mkConn V true (k_ctx V (s_conn V s c)) (S (k_req V (s_conn V s c))) (PIdle V)
                        (k_log V (s_conn V s c) ++ [(k_req V (s_conn V s c), tr, cx_resp V (s_ctx V s (k_ctx V (s_conn V s c))))])) I Hc); try eqs.
      + exact (proj2 (i_cctx s I c Hc)).
      + unfold own_ok. cbn. unfold upd. rewrite !Nat.eqb_refl. cbn. split; [reflexivity|exact Et].
      + intros h' Hr Eh. exfalso. destruct (i_hconn s I h' c Hr Hc (eq_sym Eh)) as (_ & _ & C). unfold phase_allows in C. rewrite Hph in C.
        destruct C as [C|[[C _]|[v' C]]]; discriminate.
      + intros i tr' w Hin. cbn in Hin. apply in_app_or in Hin as [Hin|[Hin|[]]]; [now left|]. right. injection Hin as <- <- <-.
        destruct tr as [v|].
        * destruct Ho as (A & B & _). split; [rewrite A; exact B|]. intros v' Hv. injection Hv as <-. exact A.
        * destruct Ho as (A & _). split; [exact A|]. intros v' Hv. discriminate.
    - (* LConnClose *)
      destruct ((c <? s_nconn V s) && k_open V (s_conn V s c) && is_idle V (k_phase V (s_conn V s c))) eqn:Ec; [|discriminate].
      apply andb_true_iff in Ec as [Ec Eid]. pose proof (opened_of s c Ec) as Hc.
      assert (Hph : k_phase V (s_conn V s c) = PIdle V) by (destruct (k_phase V (s_conn V s c)); try discriminate; reflexivity).
      destruct (cx_tresp V (s_ctx V s (k_ctx V (s_conn V s c)))) eqn:Et; [discriminate|]. injection E as <-.
      exact (inv_close s c I Hc Hph).
  Qed.

  Theorem reachable_inv s : reachable s -> Inv s.
  Proof. induction 1 as [|s l s' Hr IH E]; [exact inv_init|exact (step_inv s l s' IH E)]. Qed.

  (* ---------- the properties ---------- *)
  (* the response serialised for a request that had a timeout response is that timeout response *)
  Theorem exact_timeout_response s c i v w : reachable s -> c < s_nconn V s ->
    In (i, Some v, w) (k_log V (s_conn V s c)) -> w = v /\ rv_own V v = (c, i).
  Proof.
    intros Hr Hc Hin. destruct (i_log s (reachable_inv s Hr) c i (Some v) w Hc Hin) as [A B].
    pose proof (B v eq_refl) as E. subst w. split; [reflexivity|exact A].
  Qed.

  (* every response serialised on a connection was written on behalf of that very request *)
  Theorem responses_are_own s c i tr w : reachable s -> c < s_nconn V s ->
    In (i, tr, w) (k_log V (s_conn V s c)) -> rv_own V w = (c, i).
  Proof. intros Hr Hc Hin. exact (proj1 (i_log s (reachable_inv s Hr) c i tr w Hc Hin)). Qed.

  (* between two requests no running handler goroutine refers to the connection's ctx, nor to a pooled ctx *)
  Theorem idle_ctx_is_private s c h : reachable s -> opened s c -> k_phase V (s_conn V s c) = PIdle V -> running s h ->
    h_ctx (s_h V s h) <> k_ctx V (s_conn V s c).
  Proof.
    intros Hr Hc Hph Hh E. destruct (i_hconn s (reachable_inv s Hr) h c Hh Hc (eq_sym E)) as (_ & _ & C).
    unfold phase_allows in C. rewrite Hph in C. destruct C as [C|[[C _]|[v C]]]; discriminate.
  Qed.
  Theorem pooled_ctx_is_private s h : reachable s -> running s h -> cx_pooled V (s_ctx V s (h_ctx (s_h V s h))) = false.
  Proof. intros Hr Hh. exact (proj2 (i_hctx s (reachable_inv s Hr) h Hh)). Qed.

  (* while a response is being written its ctx has no timeout response (writeResponse does not fail, releaseCtx does not panic) *)
  Theorem no_stuck_serialize s c tr : reachable s -> opened s c -> k_phase V (s_conn V s c) = PReady V tr ->
    cx_tresp V (s_ctx V s (k_ctx V (s_conn V s c))) = None.
  Proof.
    intros Hr Hc Hph. pose proof (i_own s (reachable_inv s Hr) c Hc) as Ho. unfold own_ok in Ho. rewrite Hph in Ho.
    destruct tr; [exact (proj2 (proj2 Ho))|exact (proj2 Ho)].
  Qed.
  Theorem no_panic_release s c : reachable s -> opened s c -> k_phase V (s_conn V s c) = PIdle V ->
    cx_tresp V (s_ctx V s (k_ctx V (s_conn V s c))) = None.
  Proof.
    intros Hr Hc Hph. pose proof (i_own s (reachable_inv s Hr) c Hc) as Ho. unfold own_ok in Ho. rewrite Hph in Ho. exact (proj2 Ho).
  Qed.

  (* the semaphore counts the goroutines that are in h(ctx) or have not yet given the slot back; never more than cap *)
  Definition in_handler (t : hth) : bool := match h_st t with HRunning => true | _ => false end.
  Fixpoint cnt_running (f : nat -> hth) (n : nat) : nat :=
    match n with O => O | S m => (if in_handler (f m) then 1 else 0) + cnt_running f m end.
  Lemma cnt_running_le f n : cnt_running f n <= cnt f n.
  Proof. induction n as [|m IH]; [cbn; lia|]. cbn [cnt_running cnt]. unfold in_handler, holds. destruct (h_st (f m)); lia. Qed.

  Theorem at_most_cap_handlers s : reachable s ->
    cnt_running (s_h V s) (s_nh V s) <= s_sem V s /\ s_sem V s = cnt (s_h V s) (s_nh V s) /\ s_sem V s <= cap.
  Proof.
    intros Hr. destruct (i_sem s (reachable_inv s Hr)) as [A B]. split; [rewrite A; apply cnt_running_le|]. split; assumption.
  Qed.

  (* a wrapped call starts its handler exactly when a slot is free; otherwise the response becomes the 429 one and
     no goroutine is started *)
  Theorem excess_gets_429 s c s' : step s (LReqStart c) = Some s' ->
    (s_sem V s < cap /\ s_nh V s' = S (s_nh V s) /\ s_sem V s' = S (s_sem V s) /\ k_phase V (s_conn V s' c) = PWaiting V (s_nh V s) /\
       h_st (s_h V s' (s_nh V s)) = HRunning) \/
    (cap <= s_sem V s /\ s_nh V s' = s_nh V s /\ s_sem V s' = s_sem V s /\ k_phase V (s_conn V s' c) = PReturned V /\
       rv_val V (cx_resp V (s_ctx V s' (k_ctx V (s_conn V s' c)))) = too_many).
  Proof.
    cbn [Timeout.step]. destruct ((c <? s_nconn V s) && k_open V (s_conn V s c) && is_idle V (k_phase V (s_conn V s c))); [|discriminate].
    destruct (Nat.ltb_spec (s_sem V s) cap) as [Hs|Hs]; intros E; injection E as <-.
    - left. cbn. unfold upd. rewrite !Nat.eqb_refl. cbn. repeat split; try reflexivity. exact Hs.
    - right. cbn. unfold upd. rewrite !Nat.eqb_refl. cbn. repeat split; try reflexivity. exact Hs.
  Qed.
End Proofs.
