(* UriProof.v — URI.parse / FullURI / RequestURI (Model/Uri.v): a URI that was parsed successfully and whose host holds no
   literal %, serialised and parsed again, gives the same scheme, host, path, query string and fragment.
   Main results: parseHost_stable, parse_good, fulluri_reparse, requesturi_reparse.
   Uses Proof/PathNormProof.v (norm_tail_fixpoint: an output of normalizePath is a fixpoint of the slash and dot passes) and
   Proof/IPv6Proof.v (validateIPv6Literal = IPv6 text, and that lower-casing keeps a text an IPv6 text). *)
From Coq Require Import Lia ZifyBool ZifyN ZifyNat.
From FH Require Import Model.Base Gen.GenC27 Model.IPv6 Model.PathNorm Model.Uri Spec.IntsSpec Spec.IPv4Spec Spec.IPv6Text Spec.Rfc3986
  Proof.IPv6Proof Proof.PathNormProof.
Open Scope N_scope.

(* ---------- checking a fact for each of the 256 byte values ---------- *)
Lemma byte_forall (P : N -> bool) : forallb P (map N.of_nat (seq 0 256)) = true -> forall c, c < 256 -> P c = true.
Proof.
  intros H c Hc. rewrite forallb_forall in H. apply H. apply in_map_iff. exists (N.to_nat c). split; [lia|]. apply in_seq. lia.
Qed.
Ltac bytes256 c Hc := clear -Hc; revert c Hc; apply byte_forall; vm_compute; reflexivity.

Definition L (c : N) : N := tbl toLowerTable c.
Definition hostchar (c : N) : bool := (128 <=? c) || negb (shouldEscape c encodeHost).
Definition isctl (b : N) : bool := (b <? 32) || (b =? 127).

Lemma L_lt c : c < 256 -> L c < 256.
Proof. intros Hc. apply N.ltb_lt. bytes256 c Hc. Qed.
Lemma L_idem c : c < 256 -> L (L c) = L c.
Proof. intros Hc. apply N.eqb_eq. bytes256 c Hc. Qed.
Lemma L_keeps c : c < 256 ->
  ((L c =? 58) = (c =? 58)) /\ ((L c =? 46) = (c =? 46)) /\ ((L c =? 91) = (c =? 91)) /\ ((L c =? 93) = (c =? 93)) /\
  ((L c =? 37) = (c =? 37)) /\ ((L c =? 48) = (c =? 48)) /\ is_hexdig (L c) = is_hexdig c /\ is_digit (L c) = is_digit c.
Proof.
  intros Hc.
  assert (H : (Bool.eqb (L c =? 58) (c =? 58) && Bool.eqb (L c =? 46) (c =? 46) && Bool.eqb (L c =? 91) (c =? 91) && Bool.eqb (L c =? 93) (c =? 93)
     && Bool.eqb (L c =? 37) (c =? 37) && Bool.eqb (L c =? 48) (c =? 48) && Bool.eqb (is_hexdig (L c)) (is_hexdig c) && Bool.eqb (is_digit (L c)) (is_digit c)) = true)
    by (bytes256 c Hc).
  repeat (apply andb_true_iff in H as [H ?]). repeat split; now apply Bool.eqb_prop.
Qed.
Lemma L_digit c : is_digit c = true -> L c = c.
Proof.
  intros Hd. assert (Hc : c < 256) by (unfold is_digit in Hd; lia). revert Hd.
  assert (H : (negb (is_digit c) || (L c =? c)) = true) by (bytes256 c Hc). intros Hd. rewrite Hd in H. now apply N.eqb_eq.
Qed.
Lemma L_colon : L 58 = 58. Proof. reflexivity. Qed.

Lemma hostchar_facts c : c < 256 -> hostchar c = true ->
  hostchar (L c) = true /\ c <> 47 /\ c <> 63 /\ c <> 35 /\ c <> 64 /\ isctl c = false /\ (c <> 37 -> L c <> 37).
Proof.
  intros Hc Hh.
  assert (H : (negb (hostchar c) || (hostchar (L c) && negb (c =? 47) && negb (c =? 63) && negb (c =? 35) && negb (c =? 64) && negb (isctl c)
                && ((c =? 37) || negb (L c =? 37)))) = true) by (bytes256 c Hc).
  rewrite Hh in H. cbn [negb orb] in H. repeat (apply andb_true_iff in H as [H ?]). repeat split; lia.
Qed.
Lemma pct_not_hostchar : hostchar 37 = false. Proof. reflexivity. Qed.

(* scheme bytes *)
Definition schemechar (c : N) : bool := isAlnum c || inset c schemeExtraChars.
Lemma scheme_facts c : c < 256 -> schemechar c = true ->
  schemechar (L c) = true /\ c <> 47 /\ isctl c = false /\ isctl (L c) = false /\ L c <> 47 /\ (isAlpha c = true -> isAlpha (L c) = true).
Proof.
  intros Hc Hs.
  assert (H : (negb (schemechar c) || (schemechar (L c) && negb (c =? 47) && negb (isctl c) && negb (isctl (L c)) && negb (L c =? 47)
                && (negb (isAlpha c) || isAlpha (L c)))) = true) by (bytes256 c Hc).
  rewrite Hs in H. cbn [negb orb] in H. repeat (apply andb_true_iff in H as [H ?]). repeat split; lia.
Qed.

(* ---------- quoting ---------- *)
Lemma tbl_overflow (t : list N) c : (length t <= N.to_nat c)%nat -> tbl t c = 0.
Proof. intros H. unfold tbl. now apply nth_overflow. Qed.

Definition model_pair26 (c1 c2 : N) : option N :=
  let x2 := tbl GenC26.hex2intTable c2 in
  let x1 := tbl GenC26.hex2intTable c1 in
  if (x1 =? 16) || (x2 =? 16) then None else Some (N.lor (N.shiftl x1 4 mod 256) x2).

Definition quote_ok (c : N) : bool :=
  if negb (tbl quotedPathShouldEscapeTable c =? 0)
  then match model_pair26 (tbl upperhex (N.shiftr c 4)) (tbl upperhex (N.land c 15)) with Some v => v =? c | None => false end
       && negb (isctl (tbl upperhex (N.shiftr c 4))) && negb (isctl (tbl upperhex (N.land c 15)))
       && negb (tbl upperhex (N.shiftr c 4) =? 63) && negb (tbl upperhex (N.shiftr c 4) =? 35)
       && negb (tbl upperhex (N.land c 15) =? 63) && negb (tbl upperhex (N.land c 15) =? 35)
       && (tbl upperhex (N.shiftr c 4) <? 256) && (tbl upperhex (N.land c 15) <? 256)
  else negb (c =? 37) && negb (c =? 63) && negb (c =? 35) && negb (isctl c).
Lemma quote_ok_all c : quote_ok c = true.
Proof.
  destruct (N.lt_ge_cases c 256) as [Hc|Hc]; [bytes256 c Hc|].
  unfold quote_ok. rewrite tbl_overflow by (change (length quotedPathShouldEscapeTable) with 256%nat; lia). cbn [N.eqb negb].
  unfold isctl. lia.
Qed.

Lemma quote_slash : quote_byte 47 = [47]. Proof. reflexivity. Qed.

(* decoding a quoted byte gives the byte back *)
Lemma loop_quote_byte c rest : decodeNoPlus_loop (quote_byte c ++ rest) = c :: decodeNoPlus_loop rest.
Proof.
  pose proof (quote_ok_all c) as H. unfold quote_ok in H. unfold quote_byte.
  destruct (negb (tbl quotedPathShouldEscapeTable c =? 0)).
  - repeat (apply andb_true_iff in H as [H _]). cbn [app decodeNoPlus_loop]. unfold PCT. cbn [N.eqb Pos.eqb].
    unfold model_pair26 in H. cbv zeta in H.
    destruct ((tbl GenC26.hex2intTable (tbl upperhex (N.shiftr c 4)) =? 16) || (tbl GenC26.hex2intTable (tbl upperhex (N.land c 15)) =? 16)); [discriminate|].
    apply N.eqb_eq in H. now rewrite H.
  - apply andb_true_iff in H as [H _]. apply andb_true_iff in H as [H _]. apply andb_true_iff in H as [H _].
    cbn [app decodeNoPlus_loop]. unfold PCT. destruct (N.eqb_spec c 37); [discriminate|reflexivity].
Qed.
Lemma loop_quote p rest : decodeNoPlus_loop (flat_map quote_byte p ++ rest) = p ++ decodeNoPlus_loop rest.
Proof. induction p as [|c p IH]; [reflexivity|]. cbn [flat_map]. rewrite <- app_assoc, loop_quote_byte, IH. reflexivity. Qed.

Lemma loop_nopct a b : ~ In PCT a -> decodeNoPlus_loop (a ++ b) = a ++ decodeNoPlus_loop b.
Proof.
  induction a as [|c a IH]; intros H; [reflexivity|]. cbn [app decodeNoPlus_loop].
  destruct (N.eqb_spec c PCT) as [->|]; [exfalso; apply H; left; reflexivity|]. rewrite IH; [reflexivity|]. intros Hin; apply H; right; exact Hin.
Qed.
Lemma decode_eq dst s : decodeArgAppendNoPlus dst s = dst ++ decodeNoPlus_loop s.
Proof.
  unfold decodeArgAppendNoPlus. destruct (indexByte s PCT) as [idx|] eqn:E.
  - apply indexByte_Some in E. destruct E as (x & y & -> & <- & Hx). rewrite firstn_len_app, skipn_len_app0, <- app_assoc. f_equal.
    symmetry. now apply loop_nopct.
  - apply indexByte_None in E. f_equal. rewrite <- (app_nil_r s) at 2. rewrite loop_nopct by exact E. cbn. now rewrite app_nil_r.
Qed.

Definition Q (p : bytes) : bytes := flat_map quote_byte p.
Lemma appendQuoted_Q p : p <> [42] -> appendQuotedPath [] p = Q p.
Proof.
  intros H. unfold appendQuotedPath, Q. destruct p as [|c [|d r]]; try reflexivity.
  destruct (N.eqb_spec c 42) as [->|]; [congruence|]. cbn. now rewrite app_nil_r.
Qed.
Lemma Q_chars p c : In c (Q p) -> c <> 63 /\ c <> 35 /\ isctl c = false.
Proof.
  unfold Q. intros H. apply in_flat_map in H as (x & _ & Hx). pose proof (quote_ok_all x) as Hq. unfold quote_ok in Hq. unfold quote_byte in Hx.
  destruct (negb (tbl quotedPathShouldEscapeTable x =? 0)).
  - repeat (apply andb_true_iff in Hq as [Hq ?]). unfold PCT in Hx. destruct Hx as [<-|[<-|[<-|[]]]]; repeat split; try lia; try reflexivity.
  - repeat (apply andb_true_iff in Hq as [Hq ?]). destruct Hx as [<-|[]]. repeat split; lia.
Qed.
Lemma Q_slash r : Q (47 :: r) = 47 :: Q r. Proof. reflexivity. Qed.
(* Q r starts with '/' only if r does *)
Lemma Q_second r rest : Q r = 47 :: rest -> exists r', r = 47 :: r'.
Proof.
  destruct r as [|c r]; [discriminate|]. unfold Q. cbn [flat_map]. unfold quote_byte.
  destruct (negb (tbl quotedPathShouldEscapeTable c =? 0)); cbn [app]; [discriminate|]. intros [= -> _]. eauto.
Qed.

(* ---------- searching ---------- *)
Lemma idx_app_ge (a b : bytes) c : ~ In c a ->
  idxByte (a ++ b) c = match idxByte b c with Some n => Some (length a + n)%nat | None => None end.
Proof.
  induction a as [|x a IH]; intros Hn; cbn [app idxByte length].
  - destruct (idxByte b c); reflexivity.
  - destruct (N.eqb_spec x c) as [->|]; [exfalso; apply Hn; left; reflexivity|]. rewrite IH by (intros H; apply Hn; right; exact H).
    destruct (idxByte b c); reflexivity.
Qed.
Lemma lastidx_notin (s : bytes) c : ~ In c s -> lastIdxByte s c = None.
Proof.
  induction s as [|x s IH]; intros Hn; [reflexivity|]. cbn [lastIdxByte]. rewrite IH by (intros H; apply Hn; right; exact H).
  destruct (N.eqb_spec x c) as [->|]; [exfalso; apply Hn; left; reflexivity|reflexivity].
Qed.
Lemma lastidx_app_notin (y x : bytes) c : ~ In c x -> lastIdxByte (y ++ c :: x) c = Some (length y).
Proof.
  intros Hn. induction y as [|z y IH]; cbn [app lastIdxByte length].
  - rewrite lastidx_notin by exact Hn. now rewrite N.eqb_refl.
  - now rewrite IH.
Qed.
Lemma index_slsl_first (a b : bytes) : ~ In 47 a -> index (a ++ 47 :: 47 :: b) uStrSlashSlash = Some (length a).
Proof.
  induction a as [|x a IH]; intros Hn.
  - cbn [app]. rewrite index_unfold. change (47 :: 47 :: b) with (uStrSlashSlash ++ b). now rewrite hasPrefix_app.
  - cbn [app]. rewrite index_unfold. 
    assert (Hx : x <> 47) by (intros ->; apply Hn; left; reflexivity).
    assert (Hp : hasPrefix (x :: a ++ 47 :: 47 :: b) uStrSlashSlash = false).
    { destruct (hasPrefix (x :: a ++ 47 :: 47 :: b) uStrSlashSlash) eqn:E; [|reflexivity]. apply hasPrefix_iff in E as [y E]. injection E as E _. contradiction. }
    rewrite Hp, IH by (intros H; apply Hn; right; exact H). reflexivity.
Qed.
Lemma index_pct_none (s : bytes) : ~ In 37 s -> index s strPct25 = None.
Proof. intros Hn. apply index_None_of. intros (x & y & ->). apply Hn, in_or_app. right. left. reflexivity. Qed.

Lemma idx_firstn_notin (b : bytes) c f : idxByte b c = Some f -> ~ In c (firstn f b).
Proof. intros H. destruct (idx_some _ _ _ H) as (x & y & -> & <- & Hn). now rewrite head_nosplit. Qed.

(* ---------- the query / fragment split of the serialised request URI ---------- *)
Definition qpart (qs : bytes) : bytes := match qs with [] => [] | _ => QM :: qs end.
Definition fpart (h : bytes) : bytes := match h with [] => [] | _ => HASH :: h end.

Lemma skipn_app_len {A} (a b : list A) : skipn (length a) (a ++ b) = b.
Proof. induction a; [reflexivity|assumption]. Qed.

Lemma idx_hd (r : bytes) c : idxByte (c :: r) c = Some O.
Proof. cbn. now rewrite N.eqb_refl. Qed.
Lemma idx_cons_ne (r : bytes) d c : d <> c -> idxByte (d :: r) c = match idxByte r c with Some n => Some (S n) | None => None end.
Proof. intros H. cbn [idxByte]. destruct (N.eqb_spec d c); [contradiction|reflexivity]. Qed.

Lemma tail_R sch h un pw Qp qs hash :
  (forall c, In c Qp -> c <> 63 /\ c <> 35) -> ~ In 35 qs ->
  parse_tail sch h un pw (Qp ++ qpart qs ++ fpart hash) = mkURI sch h Qp (normalizePath Qp) qs hash un pw.
Proof.
  intros HQ Hqs.
  assert (Hq63 : ~ In 63 Qp) by (intros H; destruct (HQ _ H) as [A B]; congruence).
  assert (Hq35 : ~ In 35 Qp) by (intros H; destruct (HQ _ H) as [A B]; congruence).
  unfold parse_tail, qpart, fpart, QM, HASH. destruct qs as [|q0 qr]; destruct hash as [|h0 hr]; cbn [app].
  - rewrite app_nil_r. rewrite (idx_notin Qp 63 Hq63), (idx_notin Qp 35 Hq35). reflexivity.
  - rewrite (idx_app_ge Qp _ 35 Hq35), idx_hd. rewrite (idx_app_ge Qp _ 63 Hq63), idx_cons_ne by discriminate.
    destruct (idxByte (h0 :: hr) 63) as [k|].
    + replace (length Qp + 0 <? length Qp + S k)%nat with true by lia.
      rewrite Nat.add_0_r, head_nosplit. rewrite skipn_mid. reflexivity.
    + rewrite Nat.add_0_r, head_nosplit. rewrite skipn_mid. reflexivity.
  - rewrite app_nil_r. rewrite (idx_app_ge Qp _ 63 Hq63), idx_hd. rewrite (idx_app_ge Qp _ 35 Hq35), idx_cons_ne by discriminate.
    rewrite (idx_notin (q0 :: qr) 35 Hqs). rewrite Nat.add_0_r, head_nosplit, skipn_mid. reflexivity.
  - rewrite (idx_app_ge Qp _ 63 Hq63), idx_hd. rewrite (idx_app_ge Qp _ 35 Hq35), idx_cons_ne by discriminate.
    change (q0 :: qr ++ 35 :: h0 :: hr) with ((q0 :: qr) ++ 35 :: h0 :: hr). rewrite (idx_app_notin (q0 :: qr) 35 (h0 :: hr) Hqs).
    replace (length Qp + S (length (q0 :: qr)) <? length Qp + 0)%nat with false by lia.
    rewrite Nat.add_0_r, head_nosplit, skipn_mid.
    replace (length Qp + S (length (q0 :: qr)) - S (length Qp))%nat with (length (q0 :: qr)) by lia. rewrite head_nosplit.
    replace (S (length Qp + S (length (q0 :: qr)))) with (S (length (Qp ++ 63 :: q0 :: qr))) by (rewrite app_length; cbn [length]; lia).
    change (Qp ++ 63 :: (q0 :: qr) ++ 35 :: h0 :: hr) with (Qp ++ (63 :: q0 :: qr) ++ 35 :: h0 :: hr). rewrite app_assoc, skipn_mid. reflexivity.
Qed.

(* what parse_tail leaves in the query string and the fragment *)
Lemma In_firstn {A} n (l : list A) x : In x (firstn n l) -> In x l.
Proof. revert l; induction n; intros l; cbn; [tauto|]. destruct l; cbn; [auto|]. intros [H|H]; auto. Qed.
Lemma In_skipn {A} n (l : list A) x : In x (skipn n l) -> In x l.
Proof. revert l; induction n; intros l; [auto|]. destruct l; cbn; [auto|]. intros H; right; auto. Qed.
Lemma In_firstn_skipn (b : bytes) k m x : In x (firstn m (skipn k b)) -> In x b.
Proof. intros H. apply In_firstn in H. eapply In_skipn; exact H. Qed.

Lemma tail_fields sch h un pw b u : u = parse_tail sch h un pw b ->
  ~ In 35 (u_queryString u) /\ incl (u_queryString u) b /\ incl (u_hash u) b /\ u_scheme u = sch /\ u_host u = h /\
  exists x, u_path u = normalizePath x.
Proof.
  intros ->. unfold parse_tail. destruct (idxByte b HASH) as [f|] eqn:Ef; destruct (idxByte b QM) as [q|] eqn:Eq.
  - destruct (Nat.ltb_spec f q); cbn [u_queryString u_hash u_scheme u_host u_path].
    + split; [intros []|]. split; [apply incl_nil_l|]. split; [intros x Hx; eapply In_skipn; exact Hx|]. eauto.
    + split.
      { rewrite firstn_skipn_comm.
        assert (q <> f).
        { intros ->. destruct (idx_some _ _ _ Ef) as (x1 & y1 & E1 & L1 & _). destruct (idx_some _ _ _ Eq) as (x2 & y2 & E2 & L2 & _).
          rewrite E1 in E2. assert (Hx : x1 = x2 /\ HASH :: y1 = QM :: y2) by (apply app_eq_len; [exact E2|congruence]). destruct Hx as [_ Hx]. discriminate. }
        replace (S q + (f - S q))%nat with f by lia.
        intros Hin. apply In_skipn in Hin. revert Hin. apply (idx_firstn_notin b HASH f Ef). }
      split; [intros x Hx; eapply In_firstn_skipn; exact Hx|]. split; [intros x Hx; eapply In_skipn; exact Hx|]. eauto.
  - cbn [u_queryString u_hash u_scheme u_host u_path].
    split; [intros []|]. split; [apply incl_nil_l|]. split; [intros x Hx; eapply In_skipn; exact Hx|]. eauto.
  - cbn [u_queryString u_hash u_scheme u_host u_path].
    split; [intros Hin; apply In_skipn in Hin; apply idx_none in Ef; contradiction|].
    split; [intros x Hx; eapply In_skipn; exact Hx|]. split; [apply incl_nil_l|]. eauto.
  - cbn [u_queryString u_hash u_scheme u_host u_path].
    split; [intros []|]. split; [apply incl_nil_l|]. split; [apply incl_nil_l|]. eauto.
Qed.

(* ---------- lower-casing does not change which texts are IPv6 addresses ---------- *)
Definition mL (s : bytes) : bytes := map L s.
Lemma lower_eq s : lowercaseBytes s = mL s. Proof. reflexivity. Qed.
Lemma wf_mL s : wf_bytes s -> wf_bytes (mL s).
Proof. induction 1 as [|c s Hc Hs IH]; [constructor|]. constructor; [now apply L_lt|exact IH]. Qed.
Lemma mL_idem s : wf_bytes s -> mL (mL s) = mL s.
Proof. induction 1 as [|c s Hc Hs IH]; [reflexivity|]. unfold mL in *. cbn [map]. now rewrite L_idem, IH. Qed.

Lemma cut_mL s : wf_bytes s -> cut_dcolon (mL s) = match cut_dcolon s with Some (l, r) => Some (mL l, mL r) | None => None end.
Proof.
  induction 1 as [|c s Hc Hs IH]; [reflexivity|]. destruct s as [|d r]; [reflexivity|].
  change (mL (c :: d :: r)) with (L c :: L d :: mL r). 
  change (cut_dcolon (L c :: L d :: mL r)) with
    (if (L c =? 58) && (L d =? 58) then Some (@nil N, mL r)
     else match cut_dcolon (L d :: mL r) with Some (l, r') => Some (L c :: l, r') | None => None end).
  change (cut_dcolon (c :: d :: r)) with
    (if (c =? 58) && (d =? 58) then Some (@nil N, r)
     else match cut_dcolon (d :: r) with Some (l, r') => Some (c :: l, r') | None => None end).
  assert (Hd : d < 256) by (apply wf_cons in Hs; tauto).
  destruct (L_keeps c Hc) as (-> & _). destruct (L_keeps d Hd) as (-> & _).
  destruct ((c =? 58) && (d =? 58)); [reflexivity|].
  change (L d :: mL r) with (mL (d :: r)). rewrite IH. destruct (cut_dcolon (d :: r)) as [[l r']|]; reflexivity.
Qed.
Lemma split_mL k s : wf_bytes s -> (forall c, c < 256 -> (L c =? k) = (c =? k)) -> split_on k (mL s) = map mL (split_on k s).
Proof.
  intros Hwf Hk. induction Hwf as [|c s Hc Hs IH]; [reflexivity|]. cbn [mL map split_on]. fold (mL s). rewrite Hk by exact Hc.
  rewrite IH. destruct (c =? k); [reflexivity|]. destruct (split_on k s); reflexivity.
Qed.
Lemma hexgroup_mL f : wf_bytes f -> hexgroup (mL f) = hexgroup f.
Proof.
  intros Hwf. unfold hexgroup, mL. rewrite map_length. f_equal. induction Hwf as [|c s Hc Hs IH]; [reflexivity|]. cbn [map forallb].
  destruct (L_keeps c Hc) as (_ & _ & _ & _ & _ & _ & -> & _). now rewrite IH.
Qed.
Lemma digits_mL f : all_digits f = true -> mL f = f.
Proof.
  unfold all_digits, mL. induction f as [|c f IH]; [reflexivity|]. cbn [map forallb]. intros H. apply andb_true_iff in H as [Hc Hf]. now rewrite L_digit, IH.
Qed.
Lemma all_digits_mL f : wf_bytes f -> all_digits (mL f) = all_digits f.
Proof.
  unfold all_digits, mL. induction 1 as [|c s Hc Hs IH]; [reflexivity|]. cbn [map forallb]. destruct (L_keeps c Hc) as (_ & _ & _ & _ & _ & _ & _ & ->). now rewrite IH.
Qed.
Lemma v4field_mL f : wf_bytes f -> v4field (mL f) = v4field f.
Proof.
  intros Hwf. destruct (all_digits f) eqn:E.
  - now rewrite digits_mL.
  - pose proof (all_digits_mL f Hwf) as E2. rewrite E in E2. unfold v4field. destruct f as [|c r]; [reflexivity|]. rewrite E.
    change (mL (c :: r)) with (L c :: mL r) in *. now rewrite E2.
Qed.
Lemma Forall_split_wf k s : wf_bytes s -> Forall wf_bytes (split_on k s).
Proof.
  induction 1 as [|c s Hc Hs IH]; [repeat constructor|]. cbn [split_on]. destruct (c =? k); [constructor; [constructor|exact IH]|].
  destruct (split_on k s) as [|f fs]; [repeat constructor; exact Hc|]. inversion IH; subst. constructor; [constructor; assumption|assumption].
Qed.
Lemma quad_mL f : wf_bytes f -> dotted_quad (mL f) = dotted_quad f.
Proof.
  intros Hwf. unfold dotted_quad. rewrite split_mL by (exact Hwf || (intros c Hc; now destruct (L_keeps c Hc) as (_ & -> & _))).
  pose proof (Forall_split_wf 46 f Hwf) as HF.
  destruct (split_on 46 f) as [|a [|b [|c [|d [|e l]]]]]; try reflexivity. cbn [map].
  inversion HF as [|? ? Ha HF1]; subst. inversion HF1 as [|? ? Hb HF2]; subst. inversion HF2 as [|? ? Hc HF3]; subst. inversion HF3 as [|? ? Hd _]; subst.
  now rewrite !v4field_mL.
Qed.
Lemma count_mL v4 fs : Forall wf_bytes fs -> count_fields v4 (map mL fs) = count_fields v4 fs.
Proof.
  induction 1 as [|f fs Hf Hfs IH]; [reflexivity|]. destruct fs as [|g fs'].
  - cbn [map]. rewrite !count_one. unfold lastw. now rewrite hexgroup_mL, quad_mL.
  - cbn [map] in *. rewrite !count_cons. now rewrite hexgroup_mL, IH.
Qed.
Lemma side_mL v4 s : wf_bytes s -> side v4 (mL s) = side v4 s.
Proof.
  intros Hwf. unfold side. destruct s as [|c r]; [reflexivity|]. change (mL (c :: r)) with (L c :: mL r). change (L c :: mL r) with (mL (c :: r)).
  rewrite split_mL by (exact Hwf || (intros x Hx; now destruct (L_keeps x Hx) as (-> & _))). apply count_mL. now apply Forall_split_wf.
Qed.
Lemma text_mL a : wf_bytes a -> ipv6_addr_text (mL a) = ipv6_addr_text a.
Proof.
  intros Hwf. unfold ipv6_addr_text. rewrite cut_mL by exact Hwf. destruct (cut_dcolon a) as [[l r]|] eqn:E.
  - apply cut_sound in E. rewrite E in Hwf. apply wf_app in Hwf as [Hl Hr]. apply wf_cons in Hr as [_ Hr]. apply wf_cons in Hr as [_ Hr].
    now rewrite !side_mL.
  - now rewrite side_mL.
Qed.
Lemma cut_zone_nopct a : ~ In 37 a -> cut_zone a = (a, None).
Proof. apply cut_zone_none. Qed.
Lemma notin_mL k s : wf_bytes s -> (forall c, c < 256 -> (L c =? k) = (c =? k)) -> ~ In k s -> ~ In k (mL s).
Proof.
  intros Hwf Hk Hn Hin. apply in_map_iff in Hin as (x & Hx & Hin). assert (Hlt : x < 256) by (unfold wf_bytes in Hwf; rewrite Forall_forall in Hwf; auto).
  specialize (Hk x Hlt). rewrite Hx, N.eqb_refl in Hk. symmetry in Hk. apply N.eqb_eq in Hk. subst x. contradiction.
Qed.
Lemma spec_v6_mL a : wf_bytes a -> ~ In 37 a -> spec_ipv6 (mL a) = spec_ipv6 a.
Proof.
  intros Hwf Hn. unfold spec_ipv6. rewrite (cut_zone_none a Hn).
  rewrite (cut_zone_none (mL a)) by (apply notin_mL; [exact Hwf | intros c Hc; now destruct (L_keeps c Hc) as (_ & _ & _ & _ & -> & _) | exact Hn]).
  now apply text_mL.
Qed.

(* ---------- unescape ---------- *)
Definition dec_byte (x1 x2 : N) : N := N.lor (N.shiftl x1 4 mod 256) x2.
Lemma unhex_lt c : unhex c < 16.
Proof. unfold unhex. change 15 with (N.ones 4). rewrite N.land_ones. apply N.mod_lt. discriminate. Qed.
Lemma dec_byte_facts x1 x2 : x1 < 16 -> x2 < 16 -> dec_byte x1 x2 < 256 /\ (8 <= x1 -> 128 <= dec_byte x1 x2).
Proof.
  intros H1 H2.
  assert (H : forallb (fun a => forallb (fun b => (dec_byte a b <? 256) && (negb (8 <=? a) || (128 <=? dec_byte a b))) (map N.of_nat (seq 0 16))) (map N.of_nat (seq 0 16)) = true)
    by (vm_compute; reflexivity).
  rewrite forallb_forall in H. assert (I1 : In x1 (map N.of_nat (seq 0 16))) by (apply in_map_iff; exists (N.to_nat x1); split; [lia|apply in_seq; lia]).
  specialize (H _ I1). rewrite forallb_forall in H. assert (I2 : In x2 (map N.of_nat (seq 0 16))) by (apply in_map_iff; exists (N.to_nat x2); split; [lia|apply in_seq; lia]).
  specialize (H _ I2). lia.
Qed.
Lemma pct25_dec c1 c2 : is_pct25 c1 c2 = true -> dec_byte (unhex c1) (unhex c2) = 37.
Proof. unfold is_pct25. intros H. apply andb_true_iff in H as [H1 H2]. apply N.eqb_eq in H1, H2. subst. reflexivity. Qed.

Lemma check_S c r m : unescape_check (c :: r) m =
      if c =? PCT then
        match r with
        | c1 :: c2 :: r' =>
            if negb (ishex c1) || negb (ishex c2) then Some ErrEscape
            else if (match m with encodeHost => true | _ => false end) && (unhex c1 <? 8) && negb (is_pct25 c1 c2) then Some ErrEscape
            else if (match m with encodeZone => true | _ => false end)
                    && (let v := dec_byte (unhex c1) (unhex c2) in
                        negb (is_pct25 c1 c2) && negb (v =? SP) && shouldEscape v encodeHost) then Some ErrEscape
            else unescape_check r' m
        | _ => Some ErrEscape
        end
      else if (c <? 128) && shouldEscape c m then Some ErrHostChar
      else unescape_check r m.
Proof. reflexivity. Qed.
Lemma decode_S c r : unescape_decode (c :: r) =
      if c =? PCT then match r with c1 :: c2 :: r' => dec_byte (unhex c1) (unhex c2) :: unescape_decode r' | _ => [c] end
      else c :: unescape_decode r.
Proof. reflexivity. Qed.

Lemma shouldEscape_mode c m : shouldEscape c m = shouldEscape c encodeHost. Proof. reflexivity. Qed.

(* bytes of a decoded host: literal bytes that may stand unescaped in a host, or decoded escapes (>= 0x80, or '%' from "%25") *)
Lemma decode_chars n : forall s, (length s <= n)%nat -> unescape_check s encodeHost = None ->
  forall c, In c (unescape_decode s) -> (In c s /\ hostchar c = true) \/ (128 <= c /\ c < 256) \/ c = 37.
Proof.
  induction n as [|n IH]; intros s Hn Hc c Hin.
  - destruct s; [destruct Hin|cbn in Hn; lia].
  - destruct s as [|x r]; [destruct Hin|]. rewrite check_S in Hc. rewrite decode_S in Hin. destruct (x =? PCT) eqn:Ex.
    + destruct r as [|c1 [|c2 r']]; try discriminate.
      destruct (negb (ishex c1) || negb (ishex c2)); [discriminate|]. cbn [andb] in Hc.
      destruct ((unhex c1 <? 8) && negb (is_pct25 c1 c2)) eqn:E8; [discriminate|].
      destruct Hin as [<-|Hin].
      * destruct (is_pct25 c1 c2) eqn:E25; [right; right; now apply pct25_dec|].
        right; left. rewrite andb_false_r in E8 || idtac. 
        assert (8 <= unhex c1) by (cbn [negb] in E8; rewrite andb_true_r in E8; lia).
        destruct (dec_byte_facts (unhex c1) (unhex c2) (unhex_lt c1) (unhex_lt c2)) as [A B]. split; [now apply B|exact A].
      * cbn [length] in Hn. destruct (IH r' ltac:(lia) Hc c Hin) as [[H1 H2]|H]; [left; split; [right; right; right; exact H1|exact H2]|right; exact H].
    + destruct ((x <? 128) && shouldEscape x encodeHost) eqn:Ee; [discriminate|]. destruct Hin as [<-|Hin].
      * left. split; [left; reflexivity|]. unfold hostchar. lia.
      * cbn [length] in Hn. destruct (IH r ltac:(lia) Hc c Hin) as [[H1 H2]|H]; [left; split; [right; exact H1|exact H2]|right; exact H].
Qed.

Lemma wf_decode n : forall s, (length s <= n)%nat -> wf_bytes s -> wf_bytes (unescape_decode s).
Proof.
  induction n as [|n IH]; intros s Hn Hwf.
  - destruct s; [constructor|cbn in Hn; lia].
  - destruct s as [|x r]; [constructor|]. rewrite decode_S. apply wf_cons in Hwf as [Hx Hr]. destruct (x =? PCT).
    + destruct r as [|c1 [|c2 r']]; try (repeat constructor; exact Hx).
      apply wf_cons in Hr as [_ Hr]. apply wf_cons in Hr as [_ Hr]. apply wf_cons. split.
      * now destruct (dec_byte_facts (unhex c1) (unhex c2) (unhex_lt c1) (unhex_lt c2)).
      * apply IH; [cbn [length] in Hn; lia|exact Hr].
    + apply wf_cons. split; [exact Hx|]. apply IH; [cbn [length] in Hn; lia|exact Hr].
Qed.

(* a byte that is neither '%' nor a hex digit is never part of an escape: the string splits there *)
Lemma check_split c m n : ishex c = false -> c <> 37 -> forall a b, (length a <= n)%nat -> unescape_check (a ++ c :: b) m = None ->
  unescape_check a m = None /\ unescape_check b m = None /\ unescape_decode (a ++ c :: b) = unescape_decode a ++ c :: unescape_decode b.
Proof.
  intros Hh Hp. induction n as [|n IH]; intros a b Hn Hc.
  - destruct a; [|cbn in Hn; lia]. cbn [app] in *. rewrite check_S in Hc. rewrite decode_S. unfold PCT in *. destruct (N.eqb_spec c 37); [contradiction|].
    destruct ((c <? 128) && shouldEscape c m); [discriminate|]. repeat split; try reflexivity; exact Hc.
  - destruct a as [|x a].
    + cbn [app] in *. rewrite check_S in Hc. rewrite decode_S. unfold PCT in *. destruct (N.eqb_spec c 37); [contradiction|].
      destruct ((c <? 128) && shouldEscape c m); [discriminate|]. repeat split; try reflexivity; exact Hc.
    + cbn [app] in *. rewrite check_S in Hc. rewrite !decode_S. rewrite check_S. destruct (x =? PCT) eqn:Ex.
      * destruct a as [|c1 a].
        { cbn [app] in Hc. destruct b as [|c2 b']; [discriminate|]. rewrite Hh in Hc. discriminate. }
        destruct a as [|c2 a].
        { cbn [app] in Hc. rewrite Hh in Hc. rewrite orb_true_r in Hc. discriminate. }
        cbn [app] in *. destruct (negb (ishex c1) || negb (ishex c2)); [discriminate|].
        destruct ((match m with encodeHost => true | encodeZone => false end) && (unhex c1 <? 8) && negb (is_pct25 c1 c2)); [discriminate|].
        destruct ((match m with encodeHost => false | encodeZone => true end) &&
                  (let v := dec_byte (unhex c1) (unhex c2) in negb (is_pct25 c1 c2) && negb (v =? SP) && shouldEscape v encodeHost)); [discriminate|].
        cbn [length] in Hn. destruct (IH a b ltac:(lia) Hc) as (A & B & C). repeat split; [exact A|exact B|]. rewrite C. reflexivity.
      * destruct ((x <? 128) && shouldEscape x m); [discriminate|].
        cbn [length] in Hn. destruct (IH a b ltac:(lia) Hc) as (A & B & C). repeat split; [exact A|exact B|]. rewrite C. reflexivity.
Qed.

Lemma decode_nopct s : ~ In 37 s -> unescape_decode s = s.
Proof.
  induction s as [|c s IH]; intros Hn; [reflexivity|]. rewrite decode_S. unfold PCT. destruct (N.eqb_spec c 37) as [->|]; [exfalso; apply Hn; left; reflexivity|].
  rewrite IH; [reflexivity|]. intros H; apply Hn; right; exact H.
Qed.
Lemma check_plain s : ~ In 37 s -> Forall (fun c => hostchar c = true) s -> unescape_check s encodeHost = None.
Proof.
  induction s as [|c s IH]; intros Hn HF; [reflexivity|]. rewrite check_S. unfold PCT. destruct (N.eqb_spec c 37) as [->|]; [exfalso; apply Hn; left; reflexivity|].
  inversion HF as [|? ? Hc HF']; subst. unfold hostchar in Hc. replace ((c <? 128) && shouldEscape c encodeHost) with false by lia.
  apply IH; [intros H; apply Hn; right; exact H|exact HF'].
Qed.
Lemma plain_stable h : ~ In 37 h -> Forall (fun c => hostchar c = true) h -> unescape h encodeHost = UOk h.
Proof. intros Hn HF. unfold unescape. rewrite check_plain by assumption. now rewrite decode_nopct. Qed.

(* ---------- parseHost: its result (lower-cased) parses to itself ---------- *)
Definition plain (host : bytes) : ures bytes :=
  match unescape host encodeHost with UErr e => UErr e | UOk host => v6_then host end.

Lemma plain_ok host ph : plain host = UOk ph ->
  unescape_check host encodeHost = None /\ ph = unescape_decode host /\ validateIPv6Literal ph = V6Nil.
Proof.
  unfold plain, unescape, v6_then. destruct (unescape_check host encodeHost); [discriminate|].
  destruct (validateIPv6Literal (unescape_decode host)) eqn:E; try discriminate. intros [= <-]. auto.
Qed.
Lemma plain_intro h : ~ In 37 h -> Forall (fun c => hostchar c = true) h -> validateIPv6Literal h = V6Nil -> plain h = UOk h.
Proof. intros Hn HF Hv. unfold plain. rewrite plain_stable by assumption. unfold v6_then. now rewrite Hv. Qed.

Lemma port_digits_mL p : forallb isdigit p = true -> mL p = p /\ ~ In 37 p /\ ~ In 58 p.
Proof.
  intros H. assert (Hd : all_digits p = true).
  { unfold all_digits. rewrite forallb_forall in *. intros c Hc. rewrite <- isdigit_ok. now apply H. }
  split; [now apply digits_mL|]. unfold all_digits in Hd. rewrite forallb_forall in Hd. split; intros Hin; specialize (Hd _ Hin); discriminate.
Qed.

Lemma hostchars_of_decode host : wf_bytes host -> unescape_check host encodeHost = None -> ~ In 37 (unescape_decode host) ->
  Forall (fun c => hostchar c = true) (unescape_decode host) /\
  (forall c, c < 128 -> In c (unescape_decode host) -> In c host).
Proof.
  intros Hwf Hc Hn. split.
  - apply Forall_forall. intros c Hin. destruct (decode_chars _ host (le_n _) Hc c Hin) as [[_ H]|[[H _]|H]]; [exact H| |subst; contradiction].
    unfold hostchar. lia.
  - intros c Hlt Hin. destruct (decode_chars _ host (le_n _) Hc c Hin) as [[H _]|[[H _]|H]]; [exact H|lia|subst; contradiction].
Qed.

Lemma mL_hostchars s : wf_bytes s -> Forall (fun c => hostchar c = true) s -> Forall (fun c => hostchar c = true) (mL s).
Proof.
  intros Hwf HF. unfold mL. apply Forall_forall. intros x Hx. apply in_map_iff in Hx as (c & <- & Hc).
  rewrite Forall_forall in HF. unfold wf_bytes in Hwf. rewrite Forall_forall in Hwf. now destruct (hostchar_facts c (Hwf _ Hc) (HF _ Hc)).
Qed.
Lemma keep37 c : c < 256 -> (L c =? 37) = (c =? 37). Proof. intros Hc. now destruct (L_keeps c Hc) as (_ & _ & _ & _ & -> & _). Qed.
Lemma keep58 c : c < 256 -> (L c =? 58) = (c =? 58). Proof. intros Hc. now destruct (L_keeps c Hc) as (-> & _). Qed.
Lemma keep91 c : c < 256 -> (L c =? 91) = (c =? 91). Proof. intros Hc. now destruct (L_keeps c Hc) as (_ & _ & -> & _). Qed.
Lemma keep93 c : c < 256 -> (L c =? 93) = (c =? 93). Proof. intros Hc. now destruct (L_keeps c Hc) as (_ & _ & _ & -> & _). Qed.

Lemma mL_app a b : mL (a ++ b) = mL a ++ mL b. Proof. apply map_app. Qed.

Theorem parseHost_stable host0 ph : wf_bytes host0 -> parseHost host0 = UOk ph -> ~ In 37 ph ->
  let h := lowercaseBytes ph in
  parseHost h = UOk h /\ lowercaseBytes h = h /\ Forall (fun c => hostchar c = true) h /\ wf_bytes h /\ ~ In 37 h.
Proof.
  intros Hwf Hp Hn. cbv zeta. rewrite !lower_eq.
  (* common tail: once the shape facts are known *)
  assert (Hcommon : forall host, wf_bytes host -> unescape_check host encodeHost = None -> ph = unescape_decode host ->
            wf_bytes ph /\ Forall (fun c => hostchar c = true) (mL ph) /\ wf_bytes (mL ph) /\ ~ In 37 (mL ph) /\ mL (mL ph) = mL ph /\
            (forall c, c < 128 -> In c ph -> In c host)).
  { intros host Hw Hc ->. pose proof (wf_decode _ host (le_n _) Hw) as Hwd. destruct (hostchars_of_decode host Hw Hc Hn) as [HF Hlit].
    repeat split; auto.
    - now apply mL_hostchars. - now apply wf_mL. - apply notin_mL; auto. apply keep37. - now apply mL_idem. }
  unfold parseHost in Hp. fold (plain host0) in Hp.
  destruct host0 as [|c0 t0].
  { (* empty host *) apply plain_ok in Hp as (_ & -> & _). cbn. repeat split; auto; try constructor. }
  destruct (N.eqb_spec c0 LBR) as [->|Hc0].
  - (* "[...]" *)
    destruct (lastIdxByte (LBR :: t0) RBR) as [i|] eqn:Ei; [|discriminate].
    destruct (negb (validOptionalPort (skipn (S i) (LBR :: t0)))); [discriminate|].
    destruct (index (firstn i (LBR :: t0)) strPct25) as [zone|] eqn:Ez.
    { (* a zone decodes to a literal '%': excluded *)
      exfalso. apply index_Some in Ez as (x & y & Ez & Hlen & _).
      destruct (unescape (firstn zone (LBR :: t0)) encodeHost) as [h1|]; [|discriminate].
      assert (Esk : skipn zone (firstn i (LBR :: t0)) = strPct25 ++ y) by (rewrite Ez, <- Hlen; apply skipn_app_len).
      rewrite Esk in Hp. unfold unescape at 1 in Hp. destruct (unescape_check (strPct25 ++ y) encodeZone); [discriminate|].
      destruct (unescape (skipn i (LBR :: t0)) encodeHost) as [h3|]; [|discriminate].
      unfold v6_then in Hp. destruct (validateIPv6Literal _); try discriminate. injection Hp as <-.
      apply Hn. apply in_or_app. right. left. reflexivity. }
    fold (plain (LBR :: t0)) in Hp. apply plain_ok in Hp as (Hc & Eph & Hv).
    destruct (Hcommon _ Hwf Hc Eph) as (Hwph & HF & Hwm & Hn' & Hid & Hlit).
    assert (Eph' : ph = 91 :: unescape_decode t0) by (rewrite Eph; reflexivity).
    rewrite Eph' in Hv, Hwph, Hn. apply wf_cons in Hwph as [_ Hwt].
    assert (Hok : v6_ok (validateIPv6Literal (91 :: unescape_decode t0)) = true) by (now rewrite Hv).
    destruct (ipv6_only_valid_gen _ Hwt Hok) as (a & port & Et & Hna & Hnp & Hport & Hspec).
    rewrite Et in *. apply wf_app in Hwt as [Hwa Hwp]. apply wf_cons in Hwp as [_ Hwp].
    assert (Hna37 : ~ In 37 a) by (intros H; apply Hn; right; apply in_or_app; left; exact H).
    assert (Hportd : mL port = port /\ ~ In 93 (mL port)).
    { destruct port as [|p0 pr]; [split; [reflexivity|intros []]|]. cbn [is_port] in Hport. apply andb_true_iff in Hport as [Hp0 Hpr]. apply N.eqb_eq in Hp0. subst p0.
      assert (Hm : mL pr = pr) by (now apply digits_mL). split; [cbn [mL map]; fold (mL pr); now rewrite Hm|]. cbn [mL map]. fold (mL pr). rewrite Hm.
      intros [H|H]; [discriminate|]. apply Hnp. right. exact H. }
    destruct Hportd as [Emp Hnp'].
    assert (Eh : mL ph = 91 :: mL a ++ 93 :: port).
    { rewrite Eph'. cbn [mL map]. fold (mL (a ++ 93 :: port)). rewrite mL_app. cbn [mL map]. fold (mL port). now rewrite Emp. }
    rewrite Eh in *.
    assert (Hnla : ~ In 93 (mL a)) by (apply notin_mL; auto; apply keep93).
    assert (Hval : validateIPv6Literal (91 :: mL a ++ 93 :: port) = V6Nil).
    { apply ipv6_all_zoneless_accepted_gen; auto.
      - now apply wf_mL.
      - rewrite spec_v6_mL by assumption. exact Hspec.
      - unfold zoneless. rewrite cut_zone_none; [reflexivity|]. apply notin_mL; auto. apply keep37. }
    repeat split; auto.
    unfold parseHost. unfold LBR, RBR. cbn [N.eqb Pos.eqb].
    change (91 :: mL a ++ 93 :: port) with ((91 :: mL a) ++ 93 :: port). rewrite (lastidx_app_notin (91 :: mL a) port 93) by (rewrite <- Emp; exact Hnp').
    rewrite skipn_mid. rewrite port_spec, Hport. cbn [negb].
    rewrite index_pct_none by (intros H; apply Hn'; apply (In_firstn _ _ _ H)).
    fold (plain ((91 :: mL a) ++ 93 :: port)). apply plain_intro; auto.
  - (* not bracketed *)
    destruct (N.eqb_spec c0 LBR); [contradiction|].
    destruct (idxByte (c0 :: t0) LBR) eqn:E91; [discriminate|]. destruct (idxByte (c0 :: t0) RBR) eqn:E93; [discriminate|]. cbn [orb] in Hp.
    apply idx_none in E91, E93. unfold LBR, RBR in E91, E93.
    assert (Hplain : plain (c0 :: t0) = UOk ph /\ 
             (lastIdxByte (mL ph) COLON = None \/ exists y p, mL ph = y ++ COLON :: p /\ ~ In COLON y /\ ~ In COLON p /\ forallb isdigit p = true)).
    { destruct (lastIdxByte (c0 :: t0) COLON) as [i|] eqn:Ei.
      - destruct (idxByte (firstn i (c0 :: t0)) COLON) eqn:Em; [discriminate|].
        destruct (negb (validOptionalPort (skipn i (c0 :: t0)))) eqn:Evp; [discriminate|]. split; [exact Hp|]. right.
        apply plain_ok in Hp as (Hc & Eph & _). destruct (Hcommon _ Hwf Hc Eph) as (Hwph & _ & _ & _ & _ & Hlit).
        destruct (lastidx_some _ _ _ Ei) as (y0 & p0 & E0 & Hl0 & Hnp0). subst i. rewrite E0 in *. rewrite head_nosplit in Em. apply idx_none in Em.
        rewrite skipn_app_len in Evp. cbn [validOptionalPort] in Evp. unfold COLON in Evp. cbn [N.eqb Pos.eqb negb] in Evp. apply negb_false_iff in Evp.
        destruct (port_digits_mL p0 Evp) as (Emp & Hp37 & Hp58).
        destruct (check_split 58 encodeHost _ ltac:(reflexivity) ltac:(discriminate) y0 p0 (le_n _) Hc) as (Hcy & _ & Edec).
        rewrite (decode_nopct p0 Hp37) in Edec.
        exists (mL (unescape_decode y0)), p0. rewrite Eph. unfold COLON. rewrite Edec, mL_app. cbn [mL map]. fold (mL p0). rewrite Emp. repeat split; auto.
        apply wf_app in Hwf as [Hwy _]. apply notin_mL; [now apply (wf_decode _ y0 (le_n _))|apply keep58|].
        intros Hin. apply Em. 
        assert (Hn37y : ~ In 37 (unescape_decode y0)). { intros H. apply Hn. rewrite Eph. unfold COLON. rewrite Edec. apply in_or_app. left. exact H. }
        destruct (hostchars_of_decode y0 Hwy Hcy Hn37y) as [_ Hl]. apply Hl; [unfold COLON; lia|exact Hin].
      - split; [exact Hp|]. left. apply lastidx_none in Ei. apply plain_ok in Hp as (Hc & Eph & _).
        destruct (Hcommon _ Hwf Hc Eph) as (Hwph & _ & _ & _ & _ & Hlit). apply lastidx_notin. apply notin_mL; auto; [apply keep58|].
        intros H. apply Ei. apply Hlit; [unfold COLON; lia|exact H]. }
    destruct Hplain as [Hp' Hcolon]. apply plain_ok in Hp' as (Hc & Eph & _).
    destruct (Hcommon _ Hwf Hc Eph) as (Hwph & HF & Hwm & Hn' & Hid & Hlit).
    assert (H91 : ~ In 91 (mL ph)) by (apply notin_mL; auto; [apply keep91|]; intros H; apply E91; apply Hlit; [lia|exact H]).
    assert (H93 : ~ In 93 (mL ph)) by (apply notin_mL; auto; [apply keep93|]; intros H; apply E93; apply Hlit; [lia|exact H]).
    assert (Hval : validateIPv6Literal (mL ph) = V6Nil).
    { unfold validateIPv6Literal. destruct (mL ph) as [|m0 mr]; [reflexivity|]. unfold LBR. destruct (N.eqb_spec m0 91) as [->|]; [exfalso; apply H91; left; reflexivity|reflexivity]. }
    pose proof (plain_intro _ Hn' HF Hval) as Hpl.
    repeat split; auto.
    unfold parseHost. fold (plain (mL ph)). destruct (mL ph) as [|m0 mr] eqn:Em; [exact Hpl|]. unfold LBR, RBR.
    destruct (N.eqb_spec m0 91) as [->|]; [exfalso; apply H91; left; reflexivity|].
    rewrite (idx_notin _ 91 H91), (idx_notin _ 93 H93). cbn [orb].
    destruct Hcolon as [Hnone|(y & p & Ey & Hny & Hnp & Hdig)].
    + now rewrite Hnone.
    + unfold COLON in *. rewrite Ey. rewrite (lastidx_app_notin y p 58 Hnp). rewrite head_nosplit, (idx_notin y 58 Hny). rewrite skipn_app_len.
      cbn [validOptionalPort]. unfold COLON. cbn [N.eqb Pos.eqb negb]. rewrite Hdig. cbn [negb]. rewrite <- Ey. exact Hpl.
Qed.

(* ---------- what a successful parse guarantees ---------- *)
Lemma In_removelast {A} (l : list A) x : In x (removelast l) -> In x l.
Proof. induction l as [|a l IH]; [auto|]. cbn [removelast]. destruct l; [intros []|]. intros [H|H]; [left; exact H|right; apply IH; exact H]. Qed.
Lemma Forall_firstn' {A} (P : A -> Prop) n l : Forall P l -> Forall P (firstn n l).
Proof. rewrite !Forall_forall. intros H x Hx. apply H. eapply In_firstn; exact Hx. Qed.
Lemma Forall_skipn' {A} (P : A -> Prop) n l : Forall P l -> Forall P (skipn n l).
Proof. rewrite !Forall_forall. intros H x Hx. apply H. eapply In_skipn; exact Hx. Qed.
Lemma Forall_removelast {A} (P : A -> Prop) l : Forall P l -> Forall P (removelast l).
Proof. rewrite !Forall_forall. intros H x Hx. apply H. now apply In_removelast. Qed.

Lemma split_preserves (P : N -> Prop) host uri : Forall P host -> Forall P uri -> Forall P uStrHTTP -> Forall P uStrSlash ->
  let '(sch, h', u') := splitHostURI host uri in Forall P sch /\ Forall P h' /\ Forall P u'.
Proof.
  intros Hh Hu H1 H2. unfold splitHostURI. destruct (index uri uStrSlashSlash) as [n|]; [|auto].
  destruct (idxByte (firstn n uri) SLASH); [auto|].
  set (scheme := match rev (firstn n uri) with [] => firstn n uri | c :: _ => if c =? COLON then removelast (firstn n uri) else firstn n uri end).
  assert (Hs : Forall P scheme).
  { unfold scheme. destruct (rev (firstn n uri)); [now apply Forall_firstn'|]. destruct (n0 =? COLON); [apply Forall_removelast|]; now apply Forall_firstn'. }
  set (rest := skipn (n + length uStrSlashSlash) uri). assert (Hr : Forall P rest) by (now apply Forall_skipn').
  destruct (pick_min (pick_min (idxByte rest SLASH) (idxByte rest QM)) (idxByte rest HASH)) as [k|].
  - repeat split; [exact Hs | now apply Forall_firstn' | now apply Forall_skipn'].
  - repeat split; assumption.
Qed.

Record good (u : URI) : Prop := mkGood {
  g_scheme : u_scheme u = [] \/ exists s, wf_bytes s /\ isValidScheme s = true /\ u_scheme u = mL s;
  g_host : exists host0 ph, wf_bytes host0 /\ parseHost host0 = UOk ph /\ u_host u = lowercaseBytes ph;
  g_path : exists x, u_path u = normalizePath x;
  g_qs : ~ In 35 (u_queryString u) /\ Forall (fun c => isctl c = false) (u_queryString u);
  g_hash : Forall (fun c => isctl c = false) (u_hash u) }.

Lemma ctl_forall s : stringContainsCTLByte s = false -> Forall (fun c => isctl c = false) s.
Proof.
  unfold stringContainsCTLByte. intros H. apply Forall_forall. intros c Hc. destruct (isctl c) eqn:E; [|reflexivity].
  assert (existsb (fun b => (b <? 32) || (b =? 127)) s = true) by (apply existsb_exists; exists c; split; [exact Hc|exact E]). congruence.
Qed.
Lemma forall_ctl s : Forall (fun c => isctl c = false) s -> stringContainsCTLByte s = false.
Proof.
  unfold stringContainsCTLByte. intros H. destruct (existsb _ s) eqn:E; [|reflexivity]. apply existsb_exists in E as (c & Hc & E).
  rewrite Forall_forall in H. specialize (H _ Hc). unfold isctl in H. congruence.
Qed.

Lemma parse_rest_good scheme0 hst un pw uri1 u : wf_bytes scheme0 ->
  match scheme0 with [] => true | _ => isValidScheme scheme0 end = true -> wf_bytes hst -> (forall c, In c uri1 -> isctl c = false) ->
  match parseHost hst with UErr e => UErr e | UOk ph => UOk (parse_tail (lowercaseBytes scheme0) (lowercaseBytes ph) un pw uri1) end = UOk u -> good u.
Proof.
  intros Hws Eok Hui Hctl1 Hp.
  destruct (parseHost hst) as [ph|] eqn:Eph; [|discriminate]. injection Hp as <-.
  destruct (tail_fields (lowercaseBytes scheme0) (lowercaseBytes ph) un pw uri1 _ eq_refl) as (Hq35 & Hqi & Hhi & Esch & Ehost & Hpath).
  constructor.
  - rewrite Esch. destruct scheme0 as [|s0 sr]; [left; reflexivity|]. right. exists (s0 :: sr). auto.
  - rewrite Ehost. exists hst, ph. auto.
  - exact Hpath.
  - split; [exact Hq35|]. apply Forall_forall. intros c Hc. apply Hctl1. now apply Hqi.
  - apply Forall_forall. intros c Hc. apply Hctl1. now apply Hhi.
Qed.

Theorem parse_good hostArg uri u : wf_bytes hostArg -> wf_bytes uri -> parse hostArg uri = UOk u -> good u.
Proof.
  intros Hwh Hwu Hp. unfold parse in Hp. destruct (stringContainsCTLByte uri) eqn:Ectl; [discriminate|]. apply ctl_forall in Ectl.
  set (split := match hostArg with [] => true | _ :: _ => match index uri uStrColonSlashSlash with Some _ => true | None => false end end) in Hp.
  (* the four values after the optional split *)
  assert (Hs : exists scheme0 host1 uri1, wf_bytes scheme0 /\ wf_bytes host1 /\ Forall (fun c => isctl c = false) uri1 /\
     (let '(schemeOk, scheme, host, uri') :=
          if split then let '(scheme, newHost, newURI) := splitHostURI hostArg uri in
                        (match scheme with [] => true | _ => isValidScheme scheme end, lowercaseBytes scheme, newHost, newURI)
          else (true, [], hostArg, uri) in (schemeOk, scheme, host, uri'))
     = ((match scheme0 with [] => true | _ => isValidScheme scheme0 end), lowercaseBytes scheme0, host1, uri1)).
  { destruct split.
    - pose proof (split_preserves (fun c => c < 256) hostArg uri Hwh Hwu ltac:(repeat constructor) ltac:(repeat constructor)) as H1.
      pose proof (split_preserves (fun c => isctl c = false) [] uri ltac:(constructor) Ectl ltac:(repeat constructor) ltac:(repeat constructor)) as H2.
      assert (Heq : forall h1 h2, snd (splitHostURI h1 uri) = snd (splitHostURI h2 uri) /\ fst (fst (splitHostURI h1 uri)) = fst (fst (splitHostURI h2 uri))).
      { intros h1 h2. unfold splitHostURI. destruct (index uri uStrSlashSlash); [|auto]. destruct (idxByte _ SLASH); [auto|].
        destruct (pick_min _ _); auto. }
      destruct (Heq hostArg []) as [E1 E2].
      destruct (splitHostURI hostArg uri) as [[sch h'] u']. destruct (splitHostURI [] uri) as [[sch2 h2] u2]. cbn [fst snd] in *. subst u2 sch2.
      destruct H1 as (A & B & C). destruct H2 as (_ & _ & D). exists sch, h', u'. repeat split; auto.
    - exists [], hostArg, uri. repeat split; auto. constructor. }
  destruct Hs as (scheme0 & host1 & uri1 & Hws & Hwh1 & Hctl1 & Es).
  destruct (if split then _ else _) as [[[schemeOk scheme] host] uri'] eqn:E4. injection Es as -> -> -> ->.
  destruct (match scheme0 with [] => true | _ => isValidScheme scheme0 end) eqn:Eok; [|discriminate]. cbn [negb] in Hp.
  rewrite Forall_forall in Hctl1.
  (* userinfo *)
  destruct (lastIdxByte host1 AT) as [n|].
  - destruct (negb (validUserinfo (firstn n host1))); [discriminate|].
    assert (Hwhst : wf_bytes (skipn (S n) host1)) by (now apply Forall_skipn').
    destruct (idxByte (firstn n host1) COLON); exact (parse_rest_good scheme0 (skipn (S n) host1) _ _ uri1 u Hws Eok Hwhst Hctl1 Hp).
  - exact (parse_rest_good scheme0 host1 _ _ uri1 u Hws Eok Hwh1 Hctl1 Hp).
Qed.

(* ---------- re-parsing what was serialised ---------- *)
Lemma pick_min_keep (a : nat) o : (match o with Some k => (a <= k)%nat | None => True end) -> pick_min (Some a) o = Some a.
Proof. destruct o as [k|]; [|reflexivity]. intros H. unfold pick_min. replace (k <? a)%nat with false by lia. reflexivity. Qed.

Lemma idx_after (h R : bytes) c : ~ In c h -> match idxByte (h ++ R) c with Some k => (length h <= k)%nat | None => True end.
Proof. intros Hn. rewrite idx_app_ge by exact Hn. destruct (idxByte R c); [lia|exact I]. Qed.

Lemma parse_serialised sch h R' :
  sch <> [] -> ~ In 47 sch -> isValidScheme sch = true -> lowercaseBytes sch = sch ->
  parseHost h = UOk h -> lowercaseBytes h = h -> Forall (fun c => hostchar c = true) h -> wf_bytes h ->
  stringContainsCTLByte (sch ++ uStrColonSlashSlash ++ h ++ 47 :: R') = false ->
  parse [] (sch ++ uStrColonSlashSlash ++ h ++ 47 :: R') = UOk (parse_tail sch h [] [] (47 :: R')).
Proof.
  intros Hne H47 Hval Hlow Hph Hlh HF Hwf Hctl. unfold parse. rewrite Hctl.
  assert (Hh : ~ In 47 h /\ ~ In 63 h /\ ~ In 35 h /\ ~ In 64 h).
  { rewrite Forall_forall in HF. unfold wf_bytes in Hwf. rewrite Forall_forall in Hwf.
    repeat split; intros Hin; destruct (hostchar_facts _ (Hwf _ Hin) (HF _ Hin)) as (_ & A & B & C & D & _); congruence. }
  destruct Hh as (Hh47 & Hh63 & Hh35 & Hh64).
  (* splitHostURI *)
  assert (Esplit : splitHostURI [] (sch ++ uStrColonSlashSlash ++ h ++ 47 :: R') = (sch, h, 47 :: R')).
  { unfold splitHostURI, uStrColonSlashSlash.
    change (sch ++ [58; 47; 47] ++ h ++ 47 :: R') with (sch ++ [58] ++ 47 :: 47 :: (h ++ 47 :: R')). rewrite app_assoc.
    assert (Hn : ~ In 47 (sch ++ [58])) by (intros H; apply in_app_or in H as [H|[H|[]]]; [contradiction|discriminate]).
    set (a := sch ++ [58]) in *.
    rewrite (index_slsl_first a (h ++ 47 :: R') Hn). rewrite head_nosplit. unfold SLASH. rewrite (idx_notin _ 47 Hn).
    assert (Hrev : match rev a with [] => a | c :: _ => if c =? COLON then removelast a else a end = sch).
    { unfold a. rewrite rev_app_distr. cbn [rev app]. unfold COLON. cbn [N.eqb Pos.eqb]. now rewrite removelast_last. }
    rewrite Hrev.
    change (length uStrSlashSlash) with 2%nat.
    replace (skipn (length a + 2) (a ++ 47 :: 47 :: h ++ 47 :: R')) with (h ++ 47 :: R').
    2:{ change (a ++ 47 :: 47 :: h ++ 47 :: R') with (a ++ [47; 47] ++ (h ++ 47 :: R')). rewrite app_assoc.
        replace (length a + 2)%nat with (length (a ++ [47; 47])) by (rewrite !app_length; reflexivity). now rewrite skipn_app_len. }
    rewrite (idx_app_notin h 47 R' Hh47). unfold QM, HASH.
    rewrite (pick_min_keep (length h) _ (idx_after h (47 :: R') 63 Hh63)). rewrite (pick_min_keep (length h) _ (idx_after h (47 :: R') 35 Hh35)).
    rewrite head_nosplit, skipn_app_len. reflexivity. }
  rewrite Esplit. destruct sch as [|s0 sr]; [congruence|]. rewrite Hval. cbn [negb]. rewrite Hlow.
  unfold AT. rewrite (lastidx_notin h 64 Hh64). rewrite Hph, Hlh. reflexivity.
Qed.

Lemma parse_request h R' : (match R' with 47 :: _ => False | _ => True end) ->
  parseHost h = UOk h -> lowercaseBytes h = h -> Forall (fun c => hostchar c = true) h -> wf_bytes h ->
  stringContainsCTLByte (47 :: R') = false ->
  exists s, parse h (47 :: R') = UOk (parse_tail s h [] [] (47 :: R')).
Proof.
  intros HR Hph Hlh HF Hwf Hctl. unfold parse. rewrite Hctl.
  assert (Hh64 : ~ In 64 h).
  { rewrite Forall_forall in HF. unfold wf_bytes in Hwf. rewrite Forall_forall in Hwf. intros Hin. destruct (hostchar_facts _ (Hwf _ Hin) (HF _ Hin)) as (_ & _ & _ & _ & D & _). congruence. }
  (* whenever splitHostURI runs it returns its arguments with scheme http: the text before the first "//" starts with '/' *)
  assert (Esplit : splitHostURI h (47 :: R') = (uStrHTTP, h, 47 :: R')).
  { unfold splitHostURI. destruct (index (47 :: R') uStrSlashSlash) as [n|] eqn:En; [|reflexivity].
    destruct n as [|n].
    - exfalso. apply index_Some in En as (x & y & E & Hl & _). destruct x; [|discriminate]. cbn in E. destruct R' as [|r0 R'']; [discriminate|].
      injection E as -> _. exact HR.
    - cbn [firstn idxByte]. unfold SLASH. cbn [N.eqb Pos.eqb]. reflexivity. }
  set (split := match h with [] => true | _ :: _ => match index (47 :: R') uStrColonSlashSlash with Some _ => true | None => false end end).
  destruct split.
  - rewrite Esplit. exists (lowercaseBytes uStrHTTP). cbn [negb uStrHTTP isValidScheme]. 
    replace (isValidScheme uStrHTTP) with true by reflexivity. cbn [negb].
    unfold AT. rewrite (lastidx_notin h 64 Hh64). rewrite Hph, Hlh. reflexivity.
  - exists []. cbn [negb]. unfold AT. rewrite (lastidx_notin h 64 Hh64). rewrite Hph, Hlh. reflexivity.
Qed.

(* the facts about a parsed URI that serialisation relies on *)
Lemma scheme_good u : good u ->
  Scheme u <> [] /\ ~ In 47 (Scheme u) /\ isValidScheme (Scheme u) = true /\ lowercaseBytes (Scheme u) = Scheme u /\
  Forall (fun c => isctl c = false) (Scheme u).
Proof.
  intros G. destruct (g_scheme u G) as [E|(s & Hws & Hv & E)]; unfold Scheme; rewrite E.
  - cbn. repeat split; try discriminate; try reflexivity. + intros H; repeat (destruct H as [H|H]; [discriminate|]); exact H. + repeat constructor.
  - destruct s as [|s0 sr]; [discriminate|]. change (mL (s0 :: sr)) with (L s0 :: mL sr). cbn iota.
    cbn [isValidScheme] in Hv. apply andb_true_iff in Hv as [Ha Hr]. apply wf_cons in Hws as [Hs0 Hwr].
    assert (Hsc0 : schemechar s0 = true) by (unfold schemechar, isAlnum; now rewrite Ha).
    destruct (scheme_facts s0 Hs0 Hsc0) as (A0 & B0 & C0 & D0 & E0 & F0).
    assert (HR : Forall (fun c => schemechar (L c) = true /\ L c <> 47 /\ isctl (L c) = false) sr).
    { apply Forall_forall. intros c Hc. rewrite forallb_forall in Hr. unfold wf_bytes in Hwr. rewrite Forall_forall in Hwr.
      destruct (scheme_facts c (Hwr _ Hc) (Hr _ Hc)) as (A & B & C & D & E' & F). auto. }
    repeat split; try discriminate.
    + intros [H|H]; [congruence|]. apply in_map_iff in H as (c & Ec & Hc). rewrite Forall_forall in HR. destruct (HR _ Hc) as (_ & B & _). congruence.
    + cbn [isValidScheme]. rewrite (F0 Ha). cbn [andb]. apply forallb_forall. intros x Hx. apply in_map_iff in Hx as (c & <- & Hc).
      rewrite Forall_forall in HR. now destruct (HR _ Hc).
    + rewrite lower_eq. change (L s0 :: mL sr) with (mL (s0 :: sr)). apply mL_idem. apply wf_cons. auto.
    + constructor; [exact D0|]. apply Forall_forall. intros x Hx. apply in_map_iff in Hx as (c & <- & Hc). rewrite Forall_forall in HR. now destruct (HR _ Hc).
Qed.

Lemma path_good u : good u -> exists r, u_path u = 47 :: r /\ normalizePath (Q (u_path u)) = u_path u /\ (match r with 47 :: _ => False | _ => True end).
Proof.
  intros G. destruct (g_path u G) as [x E]. rewrite E.
  pose proof (normalizePath_opt_total x) as Ht. destruct (norm_tail_fixpoint _ _ Ht) as [Hfix [r Er]]. exists r. split; [exact Er|]. split.
  - unfold normalizePath at 1. unfold normalizePath_opt. rewrite Er at 1 2. rewrite Q_slash. cbn [addLeadingSlash]. unfold SLASH. cbn [N.eqb Pos.eqb].
    rewrite decode_eq. cbn [app]. change (47 :: Q r) with (Q (47 :: r)). rewrite <- (app_nil_r (Q (47 :: r))). unfold Q. rewrite loop_quote. cbn [decodeNoPlus_loop]. rewrite app_nil_r.
    unfold SLASH in Er. rewrite <- Er. now rewrite Hfix.
  - destruct r as [|r0 r']; [exact I|]. destruct (N.eq_dec r0 47) as [->|Hne].
    + destruct (path_shape x) as (_ & Hss & _). apply Hss. exists [], r'. rewrite Er. reflexivity.
    + destruct r0 as [|p0]; [exact I|]. destruct p0 as [p0|p0|]; try exact I; destruct p0 as [p0|p0|]; try exact I; destruct p0 as [p0|p0|]; try exact I;
      destruct p0 as [p0|p0|]; try exact I; destruct p0 as [p0|p0|]; try exact I; destruct p0 as [p0|p0|]; try exact I. congruence.
Qed.

Lemma host_good u : good u -> ~ In 37 (u_host u) ->
  parseHost (u_host u) = UOk (u_host u) /\ lowercaseBytes (u_host u) = u_host u /\ Forall (fun c => hostchar c = true) (u_host u) /\ wf_bytes (u_host u).
Proof.
  intros G Hn. destruct (g_host u G) as (host0 & ph & Hw & Hp & E). rewrite E in *.
  assert (Hn' : ~ In 37 ph). { intros H. apply Hn. rewrite lower_eq. unfold mL. change 37 with (L 37). now apply in_map. }
  destruct (parseHost_stable host0 ph Hw Hp Hn') as (A & B & C & D & _). auto.
Qed.

Lemma serial_shapes u r : u_path u = 47 :: r ->
  RequestURI u = Q (u_path u) ++ qpart (u_queryString u) /\
  FullURI u = Scheme u ++ uStrColonSlashSlash ++ u_host u ++ Q (u_path u) ++ qpart (u_queryString u) ++ fpart (u_hash u).
Proof.
  intros Ep. assert (HP : Path u = u_path u) by (unfold Path; now rewrite Ep).
  assert (HR : RequestURI u = Q (u_path u) ++ qpart (u_queryString u)).
  { unfold RequestURI. rewrite HP, appendQuoted_Q by (rewrite Ep; destruct r; discriminate).
    unfold qpart. destruct (u_queryString u); [now rewrite app_nil_r|]. now rewrite <- app_assoc. }
  split; [exact HR|]. unfold FullURI, AppendBytes, appendSchemeHost, Host. rewrite HR. cbn [app]. unfold fpart.
  destruct (u_hash u); rewrite <- ?app_assoc; [now rewrite app_nil_r|]. cbn [app]. reflexivity.
Qed.

Lemma serial_ctl u : good u -> Forall (fun c => isctl c = false) (Q (u_path u) ++ qpart (u_queryString u) ++ fpart (u_hash u)).
Proof.
  intros G. apply Forall_app. split; [apply Forall_forall; intros c Hc; now destruct (Q_chars _ _ Hc)|]. apply Forall_app. split.
  - unfold qpart. destruct (u_queryString u) eqn:E; [constructor|]. constructor; [reflexivity|]. rewrite <- E. now destruct (g_qs u G).
  - unfold fpart. destruct (u_hash u) eqn:E; [constructor|]. constructor; [reflexivity|]. rewrite <- E. exact (g_hash u G).
Qed.

Lemma Qpath_chars u c : In c (Q (u_path u)) -> c <> 63 /\ c <> 35.
Proof. intros H. destruct (Q_chars _ _ H) as (A & B & _). auto. Qed.

Theorem fulluri_reparse_good u : good u -> ~ In PCT (Host u) ->
  exists u', parse [] (FullURI u) = UOk u' /\
    Scheme u' = Scheme u /\ Host u' = Host u /\ Path u' = Path u /\ QueryString u' = QueryString u /\ Hash u' = Hash u.
Proof.
  intros G Hn. unfold Host, PCT in Hn.
  destruct (scheme_good u G) as (S1 & S2 & S3 & S4 & S5). destruct (host_good u G Hn) as (H1 & H2 & H3 & H4).
  destruct (path_good u G) as (r & Ep & Enorm & Hr). destruct (serial_shapes u r Ep) as [_ EF].
  assert (EQ : exists R', Q (u_path u) ++ qpart (u_queryString u) ++ fpart (u_hash u) = 47 :: R').
  { rewrite Ep, Q_slash. cbn [app]. eauto. }
  destruct EQ as [R' EQ]. rewrite EF, EQ.
  assert (Hctl : stringContainsCTLByte (Scheme u ++ uStrColonSlashSlash ++ u_host u ++ 47 :: R') = false).
  { apply forall_ctl. apply Forall_app. split; [exact S5|]. apply Forall_app. split; [repeat constructor|]. apply Forall_app. split.
    - apply Forall_forall. intros c Hc. rewrite Forall_forall in H3. unfold wf_bytes in H4. rewrite Forall_forall in H4.
      now destruct (hostchar_facts c (H4 _ Hc) (H3 _ Hc)) as (_ & _ & _ & _ & _ & A & _).
    - rewrite <- EQ. now apply serial_ctl. }
  rewrite (parse_serialised _ _ R' S1 S2 S3 S4 H1 H2 H3 H4 Hctl). rewrite <- EQ.
  rewrite (tail_R _ _ _ _ _ _ _ (Qpath_chars u) (proj1 (g_qs u G))). eexists. split; [reflexivity|].
  unfold Scheme, Host, Path, QueryString, Hash. cbn [u_scheme u_host u_path u_queryString u_hash]. rewrite Enorm.
  repeat split. destruct (u_scheme u) eqn:E; [reflexivity|]. unfold Scheme in S1. rewrite E in S1. reflexivity.
Qed.

Theorem requesturi_reparse_good u : good u -> ~ In PCT (Host u) ->
  exists u', parse (Host u) (RequestURI u) = UOk u' /\
    Host u' = Host u /\ Path u' = Path u /\ QueryString u' = QueryString u.
Proof.
  intros G Hn. unfold Host, PCT in Hn.
  destruct (host_good u G Hn) as (H1 & H2 & H3 & H4).
  destruct (path_good u G) as (r & Ep & Enorm & Hr). destruct (serial_shapes u r Ep) as [ER _].
  assert (EQ : exists R', Q (u_path u) ++ qpart (u_queryString u) = 47 :: R' /\ match R' with 47 :: _ => False | _ => True end).
  { rewrite Ep, Q_slash. cbn [app]. eexists. split; [reflexivity|].
    destruct (Q r) as [|q0 qr] eqn:EQr.
    - cbn [app]. unfold qpart. destruct (u_queryString u); [exact I|]. unfold QM. exact I.
    - cbn [app]. destruct (N.eq_dec q0 47) as [->|Hne].
      + destruct (Q_second r qr EQr) as [r' ->]. exact Hr.
      + destruct q0 as [|p0]; [exact I|]. destruct p0 as [p0|p0|]; try exact I; destruct p0 as [p0|p0|]; try exact I; destruct p0 as [p0|p0|]; try exact I;
        destruct p0 as [p0|p0|]; try exact I; destruct p0 as [p0|p0|]; try exact I; destruct p0 as [p0|p0|]; try exact I. congruence. }
  destruct EQ as (R' & EQ & HR'). unfold Host. rewrite ER, EQ.
  assert (Hctl : stringContainsCTLByte (47 :: R') = false).
  { apply forall_ctl. rewrite <- EQ. pose proof (serial_ctl u G) as Hc. rewrite app_assoc in Hc. apply Forall_app in Hc. tauto. }
  destruct (parse_request _ R' HR' H1 H2 H3 H4 Hctl) as [s Es]. rewrite Es. rewrite <- EQ.
  pose proof (tail_R s (u_host u) [] [] (Q (u_path u)) (u_queryString u) [] (Qpath_chars u) (proj1 (g_qs u G))) as Et.
  cbn [fpart] in Et. rewrite app_nil_r in Et. rewrite Et. eexists. split; [reflexivity|].
  unfold Path, QueryString. cbn [u_host u_path u_queryString]. rewrite Enorm. auto.
Qed.

Theorem fulluri_reparse hostArg uri u : wf_bytes hostArg -> wf_bytes uri -> parse hostArg uri = UOk u -> ~ In PCT (Host u) ->
  exists u', parse [] (FullURI u) = UOk u' /\
    Scheme u' = Scheme u /\ Host u' = Host u /\ Path u' = Path u /\ QueryString u' = QueryString u /\ Hash u' = Hash u.
Proof. intros Hwh Hwu Hp. apply fulluri_reparse_good. exact (parse_good _ _ _ Hwh Hwu Hp). Qed.
Theorem requesturi_reparse hostArg uri u : wf_bytes hostArg -> wf_bytes uri -> parse hostArg uri = UOk u -> ~ In PCT (Host u) ->
  exists u', parse (Host u) (RequestURI u) = UOk u' /\
    Host u' = Host u /\ Path u' = Path u /\ QueryString u' = QueryString u.
Proof. intros Hwh Hwu Hp. apply requesturi_reparse_good. exact (parse_good _ _ _ Hwh Hwu Hp). Qed.

(* ---------- the setters keep a URI object in the class `good` (so the round trip also holds after editing) ---------- *)
Lemma good_set_path u v : good u -> good (mkURI (u_scheme u) (u_host u) v (normalizePath v) (u_queryString u) (u_hash u) (u_username u) (u_password u)).
Proof. intros G. constructor; cbn; [exact (g_scheme u G)|exact (g_host u G)|eauto|exact (g_qs u G)|exact (g_hash u G)]. Qed.
Lemma good_set_hash u v : good u -> stringContainsCTLByte v = false ->
  good (mkURI (u_scheme u) (u_host u) (u_pathOriginal u) (u_path u) (u_queryString u) v (u_username u) (u_password u)).
Proof. intros G Hv. constructor; cbn; [exact (g_scheme u G)|exact (g_host u G)|exact (g_path u G)|exact (g_qs u G)|now apply ctl_forall]. Qed.
Lemma good_set_qs u v : good u -> stringContainsCTLByte v = false -> ~ In HASH v ->
  good (mkURI (u_scheme u) (u_host u) (u_pathOriginal u) (u_path u) v (u_hash u) (u_username u) (u_password u)).
Proof. intros G Hv Hh. constructor; cbn; [exact (g_scheme u G)|exact (g_host u G)|exact (g_path u G)|split; [exact Hh|now apply ctl_forall]|exact (g_hash u G)]. Qed.
Lemma good_set_scheme u v : good u -> wf_bytes v -> isValidScheme v = true ->
  good (mkURI (lowercaseBytes v) (u_host u) (u_pathOriginal u) (u_path u) (u_queryString u) (u_hash u) (u_username u) (u_password u)).
Proof. intros G Hw Hv. constructor; cbn; [right; exists v; auto|exact (g_host u G)|exact (g_path u G)|exact (g_qs u G)|exact (g_hash u G)]. Qed.
Lemma good_set_userinfo u a b : good u ->
  good (mkURI (u_scheme u) (u_host u) (u_pathOriginal u) (u_path u) (u_queryString u) (u_hash u) a b).
Proof. intros G. constructor; cbn; [exact (g_scheme u G)|exact (g_host u G)|exact (g_path u G)|exact (g_qs u G)|exact (g_hash u G)]. Qed.

(* ---------- what parseHost lets through (used by C31): the result always passed validateIPv6Literal ---------- *)
Lemma parseHost_validated h0 ph : parseHost h0 = UOk ph -> validateIPv6Literal ph = V6Nil.
Proof.
  assert (Hv : forall x, v6_then x = UOk ph -> validateIPv6Literal ph = V6Nil).
  { intros x. unfold v6_then. destruct (validateIPv6Literal x) eqn:E; try discriminate. now intros [= <-]. }
  assert (Hpl : forall x, plain x = UOk ph -> validateIPv6Literal ph = V6Nil).
  { intros x. unfold plain. destruct (unescape x encodeHost); [apply Hv|discriminate]. }
  unfold parseHost. fold (plain h0). destruct h0 as [|c0 t0]; [apply Hpl|].
  destruct (c0 =? LBR).
  - destruct (lastIdxByte (c0 :: t0) RBR) as [i|]; [|discriminate]. destruct (negb _); [discriminate|].
    destruct (index _ strPct25) as [zone|]; [|apply Hpl].
    destruct (unescape (firstn zone (c0 :: t0)) encodeHost); [|discriminate]. destruct (unescape (skipn zone _) encodeZone); [|discriminate].
    destruct (unescape (skipn i (c0 :: t0)) encodeHost); [|discriminate]. apply Hv.
  - destruct (_ || _); [discriminate|]. destruct (lastIdxByte (c0 :: t0) COLON) as [i|]; [|apply Hpl].
    destruct (match idxByte _ COLON with Some _ => true | None => false end); [discriminate|]. destruct (negb _); [discriminate|]. apply Hpl.
Qed.
Lemma unescape_wf s m t : wf_bytes s -> unescape s m = UOk t -> wf_bytes t.
Proof. unfold unescape. intros Hw. destruct (unescape_check s m); [discriminate|]. intros [= <-]. now apply (wf_decode _ s (le_n _)). Qed.
Lemma parseHost_wf h0 ph : wf_bytes h0 -> parseHost h0 = UOk ph -> wf_bytes ph.
Proof.
  intros Hw.
  assert (Hv : forall x, wf_bytes x -> v6_then x = UOk ph -> wf_bytes ph).
  { intros x Hx. unfold v6_then. destruct (validateIPv6Literal x); try discriminate. now intros [= <-]. }
  assert (Hpl : forall x, wf_bytes x -> plain x = UOk ph -> wf_bytes ph).
  { intros x Hx. unfold plain. destruct (unescape x encodeHost) eqn:E; [|discriminate]. apply Hv. eapply unescape_wf; eauto. }
  unfold parseHost. fold (plain h0). destruct h0 as [|c0 t0]; [now apply Hpl|].
  destruct (c0 =? LBR).
  - destruct (lastIdxByte (c0 :: t0) RBR) as [i|]; [|discriminate]. destruct (negb _); [discriminate|].
    destruct (index _ strPct25) as [zone|]; [|now apply Hpl].
    destruct (unescape (firstn zone (c0 :: t0)) encodeHost) eqn:E1; [|discriminate]. destruct (unescape (skipn zone _) encodeZone) eqn:E2; [|discriminate].
    destruct (unescape (skipn i (c0 :: t0)) encodeHost) eqn:E3; [|discriminate]. apply Hv.
    apply wf_app. split; [eapply unescape_wf; [|exact E1]; now apply Forall_firstn'|]. apply wf_app. split.
    + eapply unescape_wf; [|exact E2]. apply Forall_skipn'. now apply Forall_firstn'.
    + eapply unescape_wf; [|exact E3]. now apply Forall_skipn'.
  - destruct (_ || _); [discriminate|]. destruct (lastIdxByte (c0 :: t0) COLON) as [i|]; [|now apply Hpl].
    destruct (match idxByte _ COLON with Some _ => true | None => false end); [discriminate|]. destruct (negb _); [discriminate|]. now apply Hpl.
Qed.

Lemma cut_zone_mL a : wf_bytes a -> cut_zone (mL a) = (mL (fst (cut_zone a)), option_map mL (snd (cut_zone a))).
Proof.
  induction 1 as [|c s Hc Hs IH]; [reflexivity|]. change (mL (c :: s)) with (L c :: mL s). cbn [cut_zone]. rewrite keep37 by exact Hc.
  destruct (c =? 37); [reflexivity|]. rewrite IH. destruct (cut_zone s) as [x z]. reflexivity.
Qed.
Lemma spec_v6_mL_zone a : wf_bytes a -> spec_ipv6 (mL a) = spec_ipv6 a.
Proof.
  intros Hw. unfold spec_ipv6. rewrite cut_zone_mL by exact Hw.
  assert (Hwx : wf_bytes (fst (cut_zone a))).
  { clear -Hw. induction Hw as [|c s Hc Hs IH]; [constructor|]. cbn [cut_zone]. destruct (c =? 37); [constructor|]. destruct (cut_zone s). cbn [fst] in *. now constructor. }
  destruct (cut_zone a) as [x [z|]]; cbn [fst snd option_map].
  - destruct z; [reflexivity|]. cbn [mL map]. now apply text_mL.
  - now apply text_mL.
Qed.

(* every bracketed host a successful URI.parse leaves in Host() is "[" IPv6-address "]" optional-port *)
Theorem uri_bracket_host_valid hostArg uri u t : wf_bytes hostArg -> wf_bytes uri -> parse hostArg uri = UOk u -> Host u = 91 :: t ->
  exists a port, t = a ++ 93 :: port /\ ~ In 93 a /\ ~ In 93 port /\ is_port port = true /\ spec_ipv6 a = true.
Proof.
  intros Hwh Hwu Hp Eh. destruct (g_host u (parse_good _ _ _ Hwh Hwu Hp)) as (h0 & ph & Hw0 & Hph & E). unfold Host in Eh. rewrite E, lower_eq in Eh.
  pose proof (parseHost_validated _ _ Hph) as Hv. pose proof (parseHost_wf _ _ Hw0 Hph) as Hwp.
  destruct ph as [|p0 pt]; [discriminate|]. change (mL (p0 :: pt)) with (L p0 :: mL pt) in Eh. injection Eh as E0 Et.
  apply wf_cons in Hwp as [Hp0 Hwt].
  assert (p0 = 91) by (pose proof (keep91 p0 Hp0) as K; rewrite E0 in K; cbn in K; symmetry in K; now apply N.eqb_eq in K). subst p0.
  assert (Hok : v6_ok (validateIPv6Literal (91 :: pt)) = true) by (now rewrite Hv).
  destruct (ipv6_only_valid_gen _ Hwt Hok) as (a & port & -> & Hna & Hnp & Hport & Hs).
  apply wf_app in Hwt as [Hwa Hwport]. apply wf_cons in Hwport as [_ Hwport].
  exists (mL a), (mL port). rewrite <- Et, mL_app. cbn [mL map]. repeat split.
  - apply notin_mL; auto. apply keep93.
  - apply notin_mL; auto. apply keep93.
  - destruct port as [|q0 qr]; [reflexivity|]. cbn [is_port] in Hport. apply andb_true_iff in Hport as [Hq0 Hqr]. apply N.eqb_eq in Hq0. subst q0.
    change (mL (58 :: qr)) with (58 :: mL qr). now rewrite digits_mL.
  - now rewrite spec_v6_mL_zone.
Qed.
