(* Proofs about the worker-pool LTS (property C13). *)
From Coq Require Import List ZArith Bool Arith Lia Sorted.
From FH Require Import Model.WorkerPool Spec.WorkerPoolSpec.
Import ListNotations.
Open Scope Z_scope.

(* ---------- small list facts ---------- *)
Lemma cnt_app x l1 l2 : cnt x (l1 ++ l2) = (cnt x l1 + cnt x l2)%nat.
Proof. induction l1 as [|y l1 IH]; cbn; [reflexivity|]. rewrite IH. lia. Qed.

Lemma memb_false_cnt x l : memb x l = false -> cnt x l = 0%nat.
Proof.
  unfold memb. induction l as [|y l IH]; cbn; [reflexivity|].
  intros H. apply orb_false_iff in H as [H1 H2]. rewrite Nat.eqb_sym, H1. cbn. auto.
Qed.

Lemma cnt_In x l : (0 < cnt x l)%nat <-> In x l.
Proof.
  induction l as [|y l IH]; cbn; [split; [lia|tauto]|].
  destruct (Nat.eqb_spec y x); split; intros H; try lia; auto.
  - right. apply IH. lia.
  - destruct H as [H|H]; [congruence|]. apply IH in H. lia.
Qed.

Lemma unsnoc_spec {A} (l : list A) l' x : unsnoc l = Some (l', x) -> l = l' ++ [x].
Proof.
  revert l' x. induction l as [|y l IH]; cbn; [discriminate|].
  intros l' x. destruct (unsnoc l) as [[r' z]|] eqn:E.
  - intros H. injection H as <- <-. cbn. f_equal. now apply IH.
  - intros H. injection H as <- <-. destruct l; [reflexivity|]. cbn in E. destruct (unsnoc l) as [[? ?]|]; discriminate.
Qed.

Lemma unsnoc_none {A} (l : list A) : unsnoc l = None -> l = [].
Proof. destruct l; cbn; [reflexivity|]. destruct (unsnoc l) as [[? ?]|]; discriminate. Qed.

Lemma take_hold_spec c h w h' : take_hold c h = Some (w, h') ->
  exists h1 h2, h = h1 ++ (c, w) :: h2 /\ h' = h1 ++ h2.
Proof.
  revert w h'. induction h as [|[c' w'] h IH]; cbn; [discriminate|].
  intros w h'. destruct (Nat.eqb_spec c' c).
  - intros H. injection H as <- <-. subst. exists [], h. auto.
  - destruct (take_hold c h) as [[w1 r1]|]; [|discriminate].
    intros H. injection H as <- <-. destruct (IH _ _ eq_refl) as (h1 & h2 & -> & ->).
    exists ((c', w') :: h1), h2. auto.
Qed.

(* ---------- sums over worker ids ---------- *)

Lemma sumw_S n f : sumw (S n) f = (sumw n f + f n)%nat.
Proof. unfold sumw. rewrite seq_S, map_app, list_sum_app. cbn. lia. Qed.

Lemma sumw_ext n f g : (forall w, (w < n)%nat -> f w = g w) -> sumw n f = sumw n g.
Proof.
  induction n as [|n IH]; intros H; [reflexivity|]. rewrite !sumw_S, IH, (H n) by (intros; try apply H; lia). reflexivity.
Qed.

Lemma sumw_upd n f g w : (w < n)%nat -> (forall w', w' <> w -> g w' = f w') ->
  (sumw n g + f w = sumw n f + g w)%nat.
Proof.
  induction n as [|n IH]; intros Hw H; [lia|]. rewrite !sumw_S.
  destruct (Nat.eq_dec w n) as [->|Hn].
  - rewrite (sumw_ext n g f) by (intros; apply H; lia). lia.
  - specialize (IH ltac:(lia) H). rewrite (H n) by lia. lia.
Qed.

Lemma sumw_zero n f : (forall w, (w < n)%nat -> f w = 0%nat) -> sumw n f = 0%nat.
Proof. induction n as [|n IH]; intros H; [reflexivity|]. rewrite sumw_S, IH, (H n) by (intros; try apply H; lia). reflexivity. Qed.

(* ---------- token counts ---------- *)
Definition running (p : wpc) : nat := match p with WWait => 0 | _ => 1 end.
Definition wown (o : option wstate) : nat :=
  match o with Some x => length (ch x) + running (pc x) | None => 0 end.
Definition alive (o : option wstate) : nat := match o with Some _ => 1 | None => 0 end.

(* references to worker w: in ready, held by an acceptor, in the cleaner's scratch, queued items, or running *)
Definition wtok (s : st) (w : wid) : nat :=
  cnt w (map r_w (ready s)) + cnt w (map snd (holding s)) + cnt w (clist (cln s)) + wown (wk s w).

Definition citem (c : conn) (it : item) : nat :=
  match it with IConn c' => if Nat.eqb c' c then 1 else 0 | INil => 0 end.
Definition cbusy (c : conn) (p : wpc) : nat :=
  match p with WBusy c' => if Nat.eqb c' c then 1 else 0 | _ => 0 end.
Definition cin (c : conn) (o : option wstate) : nat :=
  match o with Some x => list_sum (map (citem c) (ch x)) + cbusy c (pc x) | None => 0 end.
Definition sconn (e : conn * wid * bool) : conn := fst (fst e).

(* places where connection c is: rejected, held by its acceptor, in a channel / being served, in the served log *)
Definition ctok (s : st) (c : conn) : nat :=
  cnt c (rejected s) + cnt c (map fst (holding s)) + sumw (nextw s) (fun w => cin c (wk s w))
  + cnt c (map sconn (served s)).

Record Inv (cf : cfg) (s : st) : Prop := {
  i_wtok : forall w, wtok s w = alive (wk s w);
  i_fresh : forall w, (nextw s <= w)%nat -> wk s w = None;
  i_ctok : forall c, ctok s c = cnt c (seen s);
  i_seen : forall c, (cnt c (seen s) <= 1)%nat;
  i_count : Z.of_nat (sumw (nextw s) (fun w => alive (wk s w))) = wcount s;
  i_bound : wcount s <= maxw cf;
  i_stop : mustStop s = true -> ready s = []
}.

Lemma inv_init cf : 0 <= maxw cf -> Inv cf init.
Proof.
  intros H. constructor; cbn; intros; auto; try lia.
Qed.

(* consequences of the worker token law *)
Lemma wtok_parts cf s w : Inv cf s ->
  (cnt w (map r_w (ready s)) + cnt w (map snd (holding s)) + cnt w (clist (cln s)) + wown (wk s w) <= 1)%nat.
Proof. intros HI. pose proof (i_wtok _ _ HI w) as H. unfold wtok in H. destruct (wk s w); cbn [alive] in H; lia. Qed.

Lemma referenced_alive cf s w : Inv cf s ->
  (0 < cnt w (map r_w (ready s)) + cnt w (map snd (holding s)) + cnt w (clist (cln s)))%nat ->
  wk s w = Some (mkW WWait []).
Proof.
  intros HI H. pose proof (i_wtok _ _ HI w) as HW. unfold wtok in HW.
  destruct (wk s w) as [[p q]|] eqn:E; cbn [alive wown pc ch] in HW; [|lia].
  destruct p; cbn [running] in HW; try lia. destruct q; cbn [length] in HW; try lia. reflexivity.
Qed.

Lemma push_some f w it x : f w = Some x -> push f w it = upd f w (Some (mkW (pc x) (ch x ++ [it]))).
Proof. unfold push. now intros ->. Qed.


(* Stop's loop *)
Lemma fold_push_spec (rd : list rent) : forall f w,
  let f' := fold_left (fun f r => push f (r_w r) INil) rd f in
  alive (f' w) = alive (f w) /\
  wown (f' w) = (wown (f w) + alive (f w) * cnt w (map r_w rd))%nat /\
  (forall c, cin c (f' w) = cin c (f w)).
Proof.
  induction rd as [|r rd IH]; intros f w; cbn [fold_left map cnt].
  - cbn. repeat split; lia.
  - destruct (IH (push f (r_w r) INil) w) as (A & B & C). cbn zeta. rewrite A, B.
    assert (P : alive (push f (r_w r) INil w) = alive (f w) /\
                wown (push f (r_w r) INil w) = (wown (f w) + alive (f w) * (if Nat.eqb (r_w r) w then 1 else 0))%nat /\
                forall c, cin c (push f (r_w r) INil w) = cin c (f w)).
    { unfold push. destruct (f (r_w r)) as [x|] eqn:E.
      - unfold upd. destruct (Nat.eqb_spec w (r_w r)) as [->|N].
        + rewrite E, Nat.eqb_refl. cbn [alive wown cin pc ch]. rewrite app_length. repeat split; intros; rewrite ?map_app, ?list_sum_app; cbn; lia.
        + destruct (Nat.eqb_spec (r_w r) w); [congruence|]. repeat split; intros; lia.
      - destruct (Nat.eqb_spec (r_w r) w) as [<-|N]; [rewrite E; cbn|]; repeat split; intros; lia. }
    destruct P as (P1 & P2 & P3). rewrite P1, P2. repeat split; try lia.
    intros c. rewrite C. apply P3.
Qed.

(* ---------- preservation of the invariant ---------- *)
Lemma sumw_upd_F (F : option wstate -> nat) n (f : wid -> option wstate) w v : (w < n)%nat ->
  (sumw n (fun w' => F (upd f w v w')) + F (f w) = sumw n (fun w' => F (f w')) + F v)%nat.
Proof.
  intros Hw.
  pose proof (sumw_upd n (fun w' => F (f w')) (fun w' => F (upd f w v w')) w Hw) as H. cbn beta in H.
  replace (F (upd f w v w)) with (F v) in H by (unfold upd; now rewrite Nat.eqb_refl).
  apply H. intros w' N. unfold upd. destruct (Nat.eqb_spec w' w); congruence.
Qed.

Lemma alive_lt (f : wid -> option wstate) n w x : (forall w, (n <= w)%nat -> f w = None) -> f w = Some x -> (w < n)%nat.
Proof. intros Hf E. destruct (Nat.lt_ge_cases w n) as [L|G]; [exact L|]. rewrite (Hf w G) in E. discriminate. Qed.

Ltac brk H := repeat match type of H with
  | (if ?b then _ else _) = Some _ => let E := fresh "E" in destruct b eqn:E; try discriminate H
  | match ?x with _ => _ end = Some _ =>
      let E := fresh "E" in
      lazymatch type of x with
      | wstate => let p := fresh "wp" in let q := fresh "wq" in destruct x as [p q] eqn:E
      | _ => destruct x eqn:E
      end; try discriminate H
  end.

Ltac projs := cbn [ready wk nextw wcount mustStop clock seen rejected holding cln served set_wk pc ch clist] in *.

Ltac start s HI Hs :=
  destruct s as [rd wkf nw wc ms ck sn rj hd cl sv]; cbn [step] in Hs; projs; brk Hs;
  injection Hs as <-; destruct HI as [Hw Hf Hc Hsn Hcnt Hb Hst]; unfold wtok, ctok in *; projs.

Lemma pres_getchpop cf s c s' : Inv cf s -> step cf s (GetChPop c) = Some s' -> Inv cf s'.
Proof.
  intros HI Hs. start s HI Hs. apply unsnoc_spec in E0. subst rd.
  constructor; unfold wtok, ctok; projs; cbn [map cnt fst snd]; auto.
  - intros w. specialize (Hw w). rewrite map_app, cnt_app in Hw. cbn [map cnt] in Hw. lia.
  - intros c0. specialize (Hc c0). lia.
  - intros c0. specialize (Hsn c0). destruct (Nat.eqb_spec c c0) as [->|]; [rewrite (memb_false_cnt _ _ E)|]; lia.
  - intros M. specialize (Hst M). destruct l; discriminate.
Qed.

Lemma pres_getchspawn cf s c s' : Inv cf s -> step cf s (GetChSpawn c) = Some s' -> Inv cf s'.
Proof.
  intros HI Hs. start s HI Hs.
  assert (Hnone : wkf nw = None) by (apply Hf; lia).
  constructor; unfold wtok, ctok; projs; cbn [map cnt fst snd]; auto.
  - intros w. specialize (Hw w). unfold upd. destruct (Nat.eqb_spec w nw) as [->|N].
    + rewrite Nat.eqb_refl. rewrite Hnone in Hw. cbn in *. lia.
    + destruct (Nat.eqb_spec nw w); [congruence|]. cbn in Hw. lia.
  - intros w L. unfold upd. destruct (Nat.eqb_spec w nw); [lia|]. apply Hf. lia.
  - intros c0. specialize (Hc c0). rewrite sumw_S.
    rewrite (sumw_ext nw _ (fun w => cin c0 (wkf w))).
    + unfold upd at 1. rewrite Nat.eqb_refl. cbn [cin ch pc map cbusy]. simpl list_sum. lia.
    + intros w L. unfold upd. destruct (Nat.eqb_spec w nw); [lia|reflexivity].
  - intros c0. specialize (Hsn c0). destruct (Nat.eqb_spec c c0) as [->|]; [rewrite (memb_false_cnt _ _ E)|]; lia.
  - rewrite sumw_S. rewrite (sumw_ext nw _ (fun w => alive (wkf w))).
    + unfold upd at 1. rewrite Nat.eqb_refl. cbn [alive]. lia.
    + intros w L. unfold upd. destruct (Nat.eqb_spec w nw); [lia|reflexivity].
  - apply Z.ltb_lt in E1. lia.
Qed.

Lemma pres_getchfail cf s c s' : Inv cf s -> step cf s (GetChFail c) = Some s' -> Inv cf s'.
Proof.
  intros HI Hs. start s HI Hs.
  constructor; unfold wtok, ctok; projs; cbn [map cnt fst snd]; auto.
  - intros c0. specialize (Hc c0). lia.
  - intros c0. specialize (Hsn c0). destruct (Nat.eqb_spec c c0) as [->|]; [rewrite (memb_false_cnt _ _ E)|]; lia.
Qed.

Lemma sendable_some cf f w : sendable cf f w = true -> exists x, f w = Some x.
Proof. unfold sendable. destruct (f w); [eauto|discriminate]. Qed.

Lemma pres_send cf s c s' : Inv cf s -> step cf s (Send c) = Some s' -> Inv cf s'.
Proof.
  intros HI Hs. start s HI Hs.
  apply take_hold_spec in E as (h1 & h2 & -> & ->).
  destruct (sendable_some _ _ _ E1) as [x Ex]. rewrite (push_some _ _ _ _ Ex).
  pose proof (alive_lt _ _ _ _ Hf Ex) as Lw.
  constructor; unfold wtok, ctok; projs; auto.
  - intros w0. specialize (Hw w0). rewrite !map_app, !cnt_app in *. cbn [map cnt snd] in Hw.
    unfold upd. destruct (Nat.eqb_spec w0 w) as [->|N].
    + rewrite Ex in Hw. rewrite Nat.eqb_refl in Hw. cbn [wown alive pc ch] in *. rewrite app_length. cbn. lia.
    + destruct (Nat.eqb_spec w w0); [congruence|]. lia.
  - intros w0 L. unfold upd. destruct (Nat.eqb_spec w0 w); [lia|]. auto.
  - intros c0. specialize (Hc c0). rewrite !map_app, !cnt_app in *. cbn [map cnt fst] in Hc.
    pose proof (sumw_upd_F (cin c0) nw wkf w (Some {| pc := pc x; ch := ch x ++ [IConn c] |}) Lw) as HS.
    rewrite Ex in HS. cbn [cin pc ch] in HS. rewrite map_app, list_sum_app in HS.
    change (list_sum (map (citem c0) [IConn c])) with ((if Nat.eqb c c0 then 1 else 0) + 0)%nat in HS. lia.
  - rewrite <- Hcnt. f_equal. apply sumw_ext. intros w0 L. unfold upd. destruct (Nat.eqb_spec w0 w) as [->|]; [rewrite Ex|]; reflexivity.
Qed.

(* updating one live worker *)
Lemma upd_alive_sum n (f : wid -> option wstate) w x x' : f w = Some x ->
  sumw n (fun w0 => alive (upd f w (Some x') w0)) = sumw n (fun w0 => alive (f w0)).
Proof.
  intros E. apply sumw_ext. intros w0 _. unfold upd. destruct (Nat.eqb_spec w0 w) as [->|]; [rewrite E|]; reflexivity.
Qed.

Lemma upd_fresh n (f : wid -> option wstate) w x v : (forall w, (n <= w)%nat -> f w = None) -> f w = Some x ->
  forall w0, (n <= w0)%nat -> upd f w v w0 = None.
Proof.
  intros Hf E w0 L. unfold upd. destruct (Nat.eqb_spec w0 w) as [->|]; [|auto].
  rewrite (Hf w L) in E. discriminate.
Qed.

Ltac updw w0 w := unfold upd; destruct (Nat.eqb_spec w0 w) as [->|].

Lemma pres_recv cf s w s' : Inv cf s -> step cf s (WorkerRecv w) = Some s' -> Inv cf s'.
Proof.
  intros HI Hs. start s HI Hs. pose proof (alive_lt _ _ _ _ Hf E) as Lw.
  constructor; unfold wtok, ctok; projs; auto.
  - intros u. specialize (Hw u). updw u w; [|exact Hw].
    rewrite E in Hw. cbn [wown alive pc ch length running] in *. destruct i; cbn [running]; lia.
  - eapply upd_fresh; eauto.
  - intros c0. specialize (Hc c0).
    pose proof (sumw_upd_F (cin c0) nw wkf w (Some {| pc := match i with INil => WExiting | IConn c => WBusy c end; ch := l |}) Lw) as HS.
    rewrite E in HS. cbn [cin pc ch map] in HS. simpl list_sum in HS. destruct i; cbn [citem cbusy] in HS; lia.
  - erewrite upd_alive_sum; eauto.
Qed.

Lemma pres_serve cf s w hij s' : Inv cf s -> step cf s (WorkerServe w hij) = Some s' -> Inv cf s'.
Proof.
  intros HI Hs. start s HI Hs. pose proof (alive_lt _ _ _ _ Hf E) as Lw.
  constructor; unfold wtok, ctok; projs; auto.
  - intros u. specialize (Hw u). updw u w; [|exact Hw].
    rewrite E in Hw. cbn [wown alive pc ch length running] in *. lia.
  - eapply upd_fresh; eauto.
  - intros c0. specialize (Hc c0).
    pose proof (sumw_upd_F (cin c0) nw wkf w (Some {| pc := WStamp; ch := wq |}) Lw) as HS.
    rewrite E in HS. cbn [cin pc ch cbusy map cnt sconn fst] in *. lia.
  - erewrite upd_alive_sum; eauto.
Qed.

Lemma pres_stamp cf s w s' : Inv cf s -> step cf s (WorkerStamp w) = Some s' -> Inv cf s'.
Proof.
  intros HI Hs. start s HI Hs. pose proof (alive_lt _ _ _ _ Hf E) as Lw.
  constructor; unfold wtok, ctok; projs; auto.
  - intros u. specialize (Hw u). updw u w; [|exact Hw].
    rewrite E in Hw. cbn [wown alive pc ch length running] in *. lia.
  - eapply upd_fresh; eauto.
  - intros c0. specialize (Hc c0).
    pose proof (sumw_upd_F (cin c0) nw wkf w (Some {| pc := WRel ck; ch := wq |}) Lw) as HS.
    rewrite E in HS. cbn [cin pc ch cbusy] in *. lia.
  - erewrite upd_alive_sum; eauto.
Qed.

Lemma pres_release cf s w ok s' : Inv cf s -> step cf s (WorkerRelease w ok) = Some s' -> Inv cf s'.
Proof.
  intros HI Hs. start s HI Hs; pose proof (alive_lt _ _ _ _ Hf E) as Lw.
  - (* mustStop: leave the loop *)
    constructor; unfold wtok, ctok; projs; auto.
    + intros u. specialize (Hw u). updw u w; [|exact Hw].
      rewrite E in Hw. cbn [wown alive pc ch length running] in *. lia.
    + eapply upd_fresh; eauto.
    + intros c0. specialize (Hc c0).
      pose proof (sumw_upd_F (cin c0) nw wkf w (Some {| pc := WExiting; ch := wq |}) Lw) as HS.
      rewrite E in HS. cbn [cin pc ch cbusy] in *. lia.
    + erewrite upd_alive_sum; eauto.
  - (* back to ready *)
    constructor; unfold wtok, ctok; projs; auto.
    + intros u. specialize (Hw u). rewrite map_app, cnt_app. cbn [map cnt r_w]. updw u w.
      * rewrite E in Hw. rewrite Nat.eqb_refl. cbn [wown alive pc ch length running] in *. lia.
      * destruct (Nat.eqb_spec w u); [congruence|]. lia.
    + eapply upd_fresh; eauto.
    + intros c0. specialize (Hc c0).
      pose proof (sumw_upd_F (cin c0) nw wkf w (Some {| pc := WWait; ch := wq |}) Lw) as HS.
      rewrite E in HS. cbn [cin pc ch cbusy] in *. lia.
    + erewrite upd_alive_sum; eauto.
    + intros M. congruence.
Qed.

Lemma pres_exit cf s w s' : Inv cf s -> step cf s (WorkerExit w) = Some s' -> Inv cf s'.
Proof.
  intros HI Hs. start s HI Hs. pose proof (alive_lt _ _ _ _ Hf E) as Lw.
  assert (Hch : wq = []).
  { specialize (Hw w). rewrite E in Hw. cbn [wown alive pc ch running] in Hw. destruct wq; [reflexivity|cbn in Hw; lia]. }
  subst wq.
  constructor; unfold wtok, ctok; projs; auto.
  - intros u. specialize (Hw u). updw u w; [|exact Hw].
    rewrite E in Hw. cbn [wown alive pc ch length running] in *. lia.
  - intros u L. unfold upd. destruct (Nat.eqb_spec u w); auto.
  - intros c0. specialize (Hc c0).
    pose proof (sumw_upd_F (cin c0) nw wkf w None Lw) as HS.
    rewrite E in HS. cbn [cin pc ch cbusy map] in *. simpl list_sum in HS. lia.
  - pose proof (sumw_upd_F alive nw wkf w None Lw) as HS. rewrite E in HS. cbn [alive] in HS. lia.
  - lia.
Qed.

Lemma pres_cleanbegin cf s s' : Inv cf s -> step cf s CleanBegin = Some s' -> Inv cf s'.
Proof. intros HI Hs. start s HI Hs. constructor; unfold wtok, ctok; projs; auto. Qed.

Lemma pres_cleancollect cf s k s' : Inv cf s -> step cf s (CleanCollect k) = Some s' -> Inv cf s'.
Proof.
  intros HI Hs. start s HI Hs.
  - constructor; unfold wtok, ctok; projs; auto.
  - constructor; unfold wtok, ctok; projs; auto.
    + intros u. specialize (Hw u). cbn [cnt] in Hw.
      rewrite <- (firstn_skipn (Z.to_nat (z + 1)) rd) in Hw at 1. rewrite map_app, cnt_app in Hw. lia.
    + intros M. rewrite (Hst M). now rewrite skipn_nil.
Qed.

Lemma clist_tail (w : wid) rest : clist (match rest with [] => CIdle | _ :: _ => CNotify rest end) = rest.
Proof. destruct rest; reflexivity. Qed.

Lemma pres_cleannotify cf s s' : Inv cf s -> step cf s CleanNotify = Some s' -> Inv cf s'.
Proof.
  intros HI Hs. start s HI Hs.
  { constructor; unfold wtok, ctok; projs; auto. }
  destruct (sendable_some _ _ _ E1) as [x Ex]. rewrite (push_some _ _ _ _ Ex).
  pose proof (alive_lt _ _ _ _ Hf Ex) as Lw.
  constructor; unfold wtok, ctok; projs; auto.
  - intros u. specialize (Hw u). rewrite (clist_tail w). cbn [cnt] in Hw. updw u w.
    + rewrite Ex in Hw. rewrite Nat.eqb_refl in Hw. cbn [wown alive pc ch] in *. rewrite app_length. cbn. lia.
    + destruct (Nat.eqb_spec w u); [congruence|]. lia.
  - eapply upd_fresh; eauto.
  - intros c0. specialize (Hc c0).
    pose proof (sumw_upd_F (cin c0) nw wkf w (Some {| pc := pc x; ch := ch x ++ [INil] |}) Lw) as HS.
    rewrite Ex in HS. cbn [cin pc ch] in HS. rewrite map_app, list_sum_app in HS.
    change (list_sum (map (citem c0) [INil])) with 0%nat in HS. lia.
  - erewrite upd_alive_sum; eauto.
Qed.

Lemma pres_stop cf s s' : Inv cf s -> step cf s Stop = Some s' -> Inv cf s'.
Proof.
  intros HI Hs. start s HI Hs.
  constructor; unfold wtok, ctok; projs; auto.
  - intros u. specialize (Hw u). destruct (fold_push_spec rd wkf u) as (A & B & _). cbn zeta in A, B.
    rewrite A, B. cbn [map cnt]. destruct (wkf u); cbn [alive wown] in *; lia.
  - intros u L. destruct (fold_push_spec rd wkf u) as (A & _). cbn zeta in A.
    rewrite (Hf u L) in A. destruct (fold_left _ rd wkf u); [discriminate|reflexivity].
  - intros c0. specialize (Hc c0). rewrite (sumw_ext nw _ (fun w => cin c0 (wkf w))); [exact Hc|].
    intros u _. destruct (fold_push_spec rd wkf u) as (_ & _ & C). apply C.
  - rewrite (sumw_ext nw _ (fun w => alive (wkf w))); [exact Hcnt|].
    intros u _. destruct (fold_push_spec rd wkf u) as (A & _). apply A.
Qed.

Lemma pres_tick cf s d s' : Inv cf s -> step cf s (Tick d) = Some s' -> Inv cf s'.
Proof. intros HI Hs. start s HI Hs. constructor; unfold wtok, ctok; projs; auto. Qed.

Theorem inv_step cf s l s' : Inv cf s -> step cf s l = Some s' -> Inv cf s'.
Proof.
  destruct l.
  - apply pres_getchpop. - apply pres_getchspawn. - apply pres_getchfail. - apply pres_send. - apply pres_recv.
  - apply pres_serve. - apply pres_stamp. - apply pres_release. - apply pres_exit. - apply pres_cleanbegin.
  - apply pres_cleancollect. - apply pres_cleannotify. - apply pres_stop. - apply pres_tick.
Qed.

Theorem inv_reach cf s : 0 <= maxw cf -> reach cf s -> Inv cf s.
Proof. intros H R. induction R; [now apply inv_init|eauto using inv_step]. Qed.

(* ---------- the property theorems ---------- *)
Lemma sumw_add n f g : sumw n (fun w => (f w + g w)%nat) = (sumw n f + sumw n g)%nat.
Proof. induction n as [|n IH]; [reflexivity|]. rewrite !sumw_S, IH. lia. Qed.

Lemma ctok_places s c : ctok s c = places s c.
Proof.
  unfold ctok, places, n_rejected, n_held, n_queued, n_serving, n_served.
  assert (A : sumw (nextw s) (fun w => cin c (wk s w)) =
              (sumw (nextw s) (fun w => queued_in c (wk s w)) + sumw (nextw s) (fun w => serving_in c (wk s w)))%nat).
  { rewrite <- sumw_add. apply sumw_ext. intros w _. unfold cin, queued_in, serving_in, cbusy.
    destruct (wk s w) as [[p q]|]; cbn [pc ch]; reflexivity. }
  rewrite A. unfold sconn, conn_of, citem, item_is. lia.
Qed.

Theorem each_conn_once cf s : 0 <= maxw cf -> reach cf s ->
  forall c, (In c (seen s) -> places s c = 1%nat) /\ (~ In c (seen s) -> places s c = 0%nat).
Proof.
  intros H R c. apply (inv_reach _ _ H) in R. rewrite <- ctok_places, (i_ctok _ _ R c).
  pose proof (i_seen _ _ R c) as L. pose proof (cnt_In c (seen s)) as I. split; intros HI.
  - apply I in HI. lia.
  - destruct (cnt c (seen s)) eqn:E; [reflexivity|]. exfalso. apply HI, I. lia.
Qed.

Theorem bound cf s : 0 <= maxw cf -> reach cf s ->
  wcount s <= maxw cf /\ Z.of_nat (live_workers s) = wcount s /\ (forall w, (nextw s <= w)%nat -> wk s w = None).
Proof.
  intros H R. apply (inv_reach _ _ H) in R. repeat split; [apply (i_bound _ _ R)| |apply (i_fresh _ _ R)].
  rewrite <- (i_count _ _ R). reflexivity.
Qed.

Lemma idle_can_send cf : 0 <= cap cf -> can_send cf (mkW WWait []) = true.
Proof.
  intros H. unfold can_send. cbn [pc ch length]. destruct (cap cf <=? 0) eqn:E; [reflexivity|].
  apply Z.leb_gt in E. apply Z.ltb_lt. lia.
Qed.

Lemma ref_sendable cf s w : 0 <= cap cf -> Inv cf s ->
  (0 < cnt w (map r_w (ready s)) + cnt w (map snd (holding s)) + cnt w (clist (cln s)))%nat ->
  sendable cf (wk s) w = true.
Proof.
  intros Hc HI H. unfold sendable. rewrite (referenced_alive _ _ _ HI H). now apply idle_can_send.
Qed.

Theorem chan_len cf s w x : 0 <= maxw cf -> reach cf s -> wk s w = Some x -> (length (ch x) <= 1)%nat.
Proof.
  intros H R E. apply (inv_reach _ _ H) in R. pose proof (wtok_parts _ _ w R) as P. rewrite E in P. cbn [wown] in P. lia.
Qed.

Theorem send_enabled cf s c w h' : 0 <= maxw cf -> 0 <= cap cf -> reach cf s ->
  take_hold c (holding s) = Some (w, h') -> step cf s (Send c) <> None.
Proof.
  intros H Hc R E. apply (inv_reach _ _ H) in R. cbn [step]. rewrite E.
  rewrite (ref_sendable _ _ _ Hc R); [discriminate|].
  apply take_hold_spec in E as (h1 & h2 & -> & _). rewrite map_app, cnt_app. cbn [map cnt snd]. rewrite Nat.eqb_refl. lia.
Qed.

Theorem notify_enabled cf s ws : 0 <= maxw cf -> 0 <= cap cf -> reach cf s ->
  cln s = CNotify ws -> step cf s CleanNotify <> None.
Proof.
  intros H Hc R E. apply (inv_reach _ _ H) in R. cbn [step]. rewrite E. destruct ws as [|w rest]; [discriminate|].
  rewrite (ref_sendable _ _ _ Hc R); [discriminate|]. rewrite E. cbn [clist cnt]. rewrite Nat.eqb_refl. lia.
Qed.

Theorem stop_enabled cf s : 0 <= maxw cf -> 0 <= cap cf -> reach cf s ->
  mustStop s = false -> step cf s Stop <> None.
Proof.
  intros H Hc R E. apply (inv_reach _ _ H) in R. cbn [step]. rewrite E.
  assert (F : forallb (fun r => sendable cf (wk s) (r_w r)) (ready s) = true).
  { apply forallb_forall. intros r Hr. apply (ref_sendable _ _ _ Hc R).
    assert (In (r_w r) (map r_w (ready s))) by now apply in_map. apply cnt_In in H0. lia. }
  rewrite F. discriminate.
Qed.

(* quiescence *)
Lemma quiescent_parts s : quiescent s = true ->
  holding s = [] /\ cln s = CIdle /\ forall w, (w < nextw s)%nat -> idle_worker (wk s w) = true.
Proof.
  unfold quiescent. destruct (holding s); [|discriminate]. destruct (cln s); try discriminate.
  intros F. repeat split. intros w L. rewrite forallb_forall in F. apply F. apply in_seq. lia.
Qed.

Theorem quiescent_all_done cf s : 0 <= maxw cf -> reach cf s -> quiescent s = true ->
  forall c, In c (seen s) ->
    (n_rejected s c + n_served s c = 1)%nat /\ n_held s c = 0%nat /\ n_queued s c = 0%nat /\ n_serving s c = 0%nat.
Proof.
  intros H R Q c Hc. destruct (each_conn_once _ _ H R c) as [P _]. specialize (P Hc).
  destruct (quiescent_parts _ Q) as (Hh & _ & Hi).
  assert (A : n_held s c = 0%nat) by (unfold n_held; now rewrite Hh).
  assert (B : n_queued s c = 0%nat).
  { apply sumw_zero. intros w L. specialize (Hi w L). destruct (wk s w) as [[p q]|]; [|reflexivity].
    cbn in Hi. destruct p; try discriminate. destruct q; [reflexivity|discriminate]. }
  assert (C : n_serving s c = 0%nat).
  { apply sumw_zero. intros w L. specialize (Hi w L). destruct (wk s w) as [[p q]|]; [|reflexivity].
    cbn in Hi. destruct p; try discriminate. reflexivity. }
  unfold places in P. lia.
Qed.

Theorem stop_quiescent cf s : 0 <= maxw cf -> reach cf s -> mustStop s = true ->
  ready s = [] /\
  (quiescent s = true -> wcount s = 0 /\ (forall w, wk s w = None) /\
     forall c, In c (seen s) -> (n_rejected s c + n_served s c = 1)%nat).
Proof.
  intros H R M. pose proof (inv_reach _ _ H R) as HI. pose proof (i_stop _ _ HI M) as Hr. split; [exact Hr|].
  intros Q. destruct (quiescent_parts _ Q) as (Hh & Hcl & Hi).
  assert (D : forall w, wk s w = None).
  { intros w. destruct (Nat.lt_ge_cases w (nextw s)) as [L|G]; [|now apply (i_fresh _ _ HI)].
    specialize (Hi w L). pose proof (i_wtok _ _ HI w) as T. unfold wtok in T. rewrite Hr, Hh, Hcl in T.
    destruct (wk s w) as [[p q]|]; [|reflexivity]. cbn in Hi. destruct p; try discriminate. destruct q; [|discriminate].
    cbn in T. lia. }
  repeat split; [|exact D|].
  - rewrite <- (i_count _ _ HI). rewrite sumw_zero; [reflexivity|]. intros w _. now rewrite D.
  - intros c Hc. now destruct (quiescent_all_done _ _ H R Q c Hc).
Qed.

(* a worker that exits leaves nothing behind: its channel is empty and nobody refers to it,
   so handing its workerChan back to the sync.Pool is safe *)
Theorem exit_clean cf s w s' : 0 <= maxw cf -> reach cf s -> step cf s (WorkerExit w) = Some s' ->
  exists x, wk s w = Some x /\ ch x = [] /\
    ~ In w (map r_w (ready s)) /\ ~ In w (map snd (holding s)) /\ ~ In w (clist (cln s)).
Proof.
  intros H R Hs. apply (inv_reach _ _ H) in R. cbn [step] in Hs.
  destruct (wk s w) as [[p q]|] eqn:E; [|discriminate]. destruct p; try discriminate.
  pose proof (wtok_parts _ _ w R) as P. rewrite E in P. cbn [wown pc ch running] in P.
  exists (mkW WExiting q). split; [reflexivity|]. cbn [ch].
  repeat split; try (intros I; apply cnt_In in I; lia). destruct q; [reflexivity|cbn in P; lia].
Qed.

(* ---------- progress: a non-quiescent reachable state can always take an internal step ---------- *)
Lemma forallb_false_ex {A} (f : A -> bool) l : forallb f l = false -> exists x, In x l /\ f x = false.
Proof.
  induction l as [|a l IH]; cbn; [discriminate|]. destruct (f a) eqn:E; cbn.
  - intros H. destruct (IH H) as (x & I & F). eauto.
  - intros _. eauto.
Qed.

Lemma bsearch_spec crit rd : forall fuel l r, 0 <= l -> r < Z.of_nat (length rd) -> l <= r + 1 ->
  (Z.to_nat (r - l + 1) <= fuel)%nat ->
  exists res, bsearch fuel crit rd l r = Some res /\ l - 1 <= res <= r /\
    forall p, 0 <= p <= r ->
      (forall q e, 0 <= q <= p -> nth_error rd (Z.to_nat q) = Some e -> r_stamp e < crit) -> p <= res.
Proof.
  induction fuel as [|f IH]; intros l r Hl Hr Hlr Hf.
  - cbn [bsearch]. destruct (l <=? r) eqn:E; [apply Z.leb_le in E; lia|]. apply Z.leb_gt in E.
    exists r. repeat split; try lia. 
  - cbn [bsearch]. destruct (l <=? r) eqn:E.
    2:{ apply Z.leb_gt in E. exists r. repeat split; lia. }
    apply Z.leb_le in E. cbn zeta.
    assert (Hm : l <= (l + r) / 2 <= r) by (split; [apply Z.div_le_lower_bound|apply Z.div_le_upper_bound]; lia).
    set (mid := (l + r) / 2) in *.
    destruct (nth_error rd (Z.to_nat mid)) as [e|] eqn:En.
    2:{ apply nth_error_None in En. lia. }
    destruct (crit >? r_stamp e) eqn:Ec.
    + destruct (IH (mid + 1) r) as (res & R1 & R2 & R3); try lia.
      exists res. repeat split; try lia; [exact R1|]. intros p Hp Hq. apply R3; auto.
    + destruct (IH l (mid - 1)) as (res & R1 & R2 & R3); try lia.
      exists res. repeat split; try lia; [exact R1|]. intros p Hp Hq.
      assert (p < mid).
      { destruct (Z_lt_ge_dec p mid) as [L|G]; [exact L|]. exfalso.
        specialize (Hq mid e ltac:(lia) En). rewrite Z.gtb_ltb in Ec. apply Z.ltb_ge in Ec. lia. }
      apply R3; [lia|auto].
Qed.

Lemma clean_index_spec crit rd : exists i, clean_index crit rd = Some i /\ -1 <= i < Z.of_nat (length rd) /\
  forall p, 0 <= p < Z.of_nat (length rd) ->
    (forall q e, 0 <= q <= p -> nth_error rd (Z.to_nat q) = Some e -> r_stamp e < crit) -> p <= i.
Proof.
  unfold clean_index. destruct (bsearch_spec crit rd (S (length rd)) 0 (Z.of_nat (length rd) - 1)) as (res & R1 & R2 & R3); try lia.
  exists res. repeat split; try lia; [exact R1|]. intros p Hp Hq. apply R3; [lia|auto].
Qed.

Theorem progress cf s : 0 <= maxw cf -> 0 <= cap cf -> reach cf s -> quiescent s = false -> can_progress cf s.
Proof.
  intros H Hc R Q. unfold can_progress. unfold quiescent in Q.
  destruct (holding s) as [|[c w] h] eqn:Eh.
  2:{ exists (Send c). split; [reflexivity|]. apply (send_enabled cf s c w h); auto. rewrite Eh. cbn. now rewrite Nat.eqb_refl. }
  destruct (cln s) as [|crit|ws] eqn:Ec.
  - apply forallb_false_ex in Q as (w & _ & F).
    destruct (wk s w) as [[p q]|] eqn:E; [|discriminate].
    destruct p.
    + destruct q as [|it rest]; [discriminate|]. exists (WorkerRecv w). split; [reflexivity|]. cbn [step]. rewrite E. discriminate.
    + exists (WorkerServe w false). split; [reflexivity|]. cbn [step]. rewrite E. discriminate.
    + exists (WorkerStamp w). split; [reflexivity|]. cbn [step]. rewrite E. discriminate.
    + exists (WorkerRelease w (negb (mustStop s))). split; [reflexivity|]. cbn [step]. rewrite E.
      destruct (mustStop s); cbn; discriminate.
    + exists (WorkerExit w). split; [reflexivity|]. cbn [step]. rewrite E. discriminate.
  - destruct (clean_index_spec crit (ready s)) as (i & Ei & _).
    exists (CleanCollect (i + 1)). split; [reflexivity|]. cbn [step]. rewrite Ec, Ei, Z.eqb_refl. cbn [negb].
    destruct (i =? -1); discriminate.
  - exists CleanNotify. split; [reflexivity|]. eapply notify_enabled; eauto.
Qed.

(* ---------- logical time: idle workers are collected ---------- *)
Definition enq_le (a b : rent) : Prop := r_enq a <= r_enq b.

Record TInv (s : st) : Prop := {
  t_entries : Forall (fun r => r_stamp r <= r_enq r <= clock s) (ready s);
  t_sorted : StronglySorted enq_le (ready s);
  t_rel : forall w t q, wk s w = Some (mkW (WRel t) q) -> t <= clock s
}.

Lemma ss_app_l {A} (R : A -> A -> Prop) l1 l2 : StronglySorted R (l1 ++ l2) -> StronglySorted R l1.
Proof.
  induction l1 as [|a l1 IH]; cbn; intros H; [constructor|]. inversion H; subst. constructor; [auto|].
  apply Forall_app in H3. tauto.
Qed.

Lemma ss_snoc {A} (R : A -> A -> Prop) l x : StronglySorted R l -> Forall (fun a => R a x) l -> StronglySorted R (l ++ [x]).
Proof.
  induction l as [|a l IH]; cbn; intros H F; [repeat constructor|]. inversion H; subst. inversion F; subst.
  constructor; [auto|]. apply Forall_app. split; [assumption|repeat constructor; assumption].
Qed.

Lemma ss_skipn {A} (R : A -> A -> Prop) n l : StronglySorted R l -> StronglySorted R (skipn n l).
Proof.
  revert l. induction n as [|n IH]; intros l H; [exact H|]. destruct l; [constructor|]. cbn. inversion H; subst. auto.
Qed.

Lemma Forall_skipn {A} (P : A -> Prop) n l : Forall P l -> Forall P (skipn n l).
Proof. revert l. induction n as [|n IH]; intros l H; [exact H|]. destruct l; [constructor|]. inversion H; subst. cbn. auto. Qed.

Lemma ss_nth {A} (R : A -> A -> Prop) l : StronglySorted R l -> forall i j a b, (i < j)%nat ->
  nth_error l i = Some a -> nth_error l j = Some b -> R a b.
Proof.
  induction 1 as [|x l S IH F]; intros i j a b L Ha Hb; [destruct i; discriminate|].
  destruct j as [|j]; [lia|]. destruct i as [|i]; cbn in Ha, Hb.
  - injection Ha as <-. rewrite Forall_forall in F. apply F. eapply nth_error_In; eauto.
  - apply (IH i j a b); [lia|exact Ha|exact Hb].
Qed.

Lemma push_pc f w0 it w x' : push f w0 it w = Some x' -> exists x, f w = Some x /\ pc x = pc x'.
Proof.
  unfold push. destruct (f w0) as [x0|] eqn:E; [|eauto]. unfold upd. destruct (Nat.eqb_spec w w0) as [->|]; [|eauto].
  intros H. injection H as <-. eauto.
Qed.

Lemma fold_push_pc rd : forall f w x', fold_left (fun f r => push f (r_w r) INil) rd f w = Some x' ->
  exists x, f w = Some x /\ pc x = pc x'.
Proof.
  induction rd as [|r rd IH]; cbn [fold_left]; intros f w x' H; [eauto|].
  destruct (IH _ _ _ H) as (x1 & E1 & P1). destruct (push_pc _ _ _ _ _ E1) as (x & E & P). exists x. split; [exact E|congruence].
Qed.

Lemma tinv_init : TInv init.
Proof. constructor; cbn; [constructor|constructor|discriminate]. Qed.

Ltac startT s HT Hs :=
  destruct s as [rd wkf nw wc ms ck sn rj hd cl sv]; cbn [step] in Hs; projs; brk Hs;
  injection Hs as <-; destruct HT as [Te Ts Tr]; projs.

Ltac updrel Tr :=
  let u := fresh "u" in let t := fresh "t" in let q := fresh "q" in let HH := fresh "HH" in
  intros u t q HH; unfold upd in HH;
  match type of HH with context [Nat.eqb u ?w] => destruct (Nat.eqb_spec u w) as [->|] end;
  [try discriminate HH; try (injection HH as <- <-; lia)|eapply Tr; eauto].

Theorem tinv_step cf s l s' : TInv s -> step cf s l = Some s' -> TInv s'.
Proof.
  intros HT Hs. destruct l.
  - startT s HT Hs. apply unsnoc_spec in E0. subst rd. constructor; projs; eauto.
    + apply Forall_app in Te. tauto.
    + eapply ss_app_l; eauto.
  - startT s HT Hs. constructor; projs; eauto. updrel Tr.
  - startT s HT Hs. constructor; projs; eauto.
  - startT s HT Hs. constructor; projs; eauto.
    intros u t q HH. destruct (push_pc _ _ _ _ _ HH) as ([p' q'] & E' & P). cbn in P. subst p'. eauto.
  - startT s HT Hs. constructor; projs; eauto. updrel Tr. destruct i; discriminate.
  - startT s HT Hs. constructor; projs; eauto. updrel Tr.
  - startT s HT Hs. constructor; projs; eauto. updrel Tr.
  - startT s HT Hs.
    + constructor; projs; eauto. updrel Tr.
    + assert (t <= ck) by (eapply Tr; eauto).
      constructor; projs; eauto.
      * apply Forall_app. split; [exact Te|]. repeat constructor; cbn; lia.
      * apply ss_snoc; [exact Ts|]. eapply Forall_impl; [|exact Te]. unfold enq_le. cbn. intros a Ha. lia.
      * updrel Tr.
  - startT s HT Hs. constructor; projs; eauto. updrel Tr.
  - startT s HT Hs. constructor; projs; eauto.
  - startT s HT Hs.
    + constructor; projs; eauto.
    + constructor; projs; eauto; [now apply Forall_skipn|now apply ss_skipn].
  - startT s HT Hs.
    + constructor; projs; eauto.
    + constructor; projs; eauto.
      intros u t q HH. destruct (push_pc _ _ _ _ _ HH) as ([p' q'] & E' & P). cbn in P. subst p'. eauto.
  - startT s HT Hs. constructor; projs; eauto; [constructor|].
    intros u t q HH. destruct (fold_push_pc _ _ _ _ HH) as ([p' q'] & E' & P). cbn in P. subst p'. eauto.
  - startT s HT Hs. apply Z.ltb_ge in E. constructor; projs; eauto.
    + eapply Forall_impl; [|exact Te]. cbn. intros a Ha. lia.
    + intros u t q HH. specialize (Tr _ _ _ HH). lia.
Qed.

Theorem tinv_reach cf s : reach cf s -> TInv s.
Proof. intros R. induction R; [apply tinv_init|eauto using tinv_step]. Qed.

Lemma nth_firstn_lt {A} (l : list A) : forall n p, (p < n)%nat -> nth_error (firstn n l) p = nth_error l p.
Proof.
  induction l as [|a l IH]; intros n p L; [now rewrite firstn_nil|].
  destruct n; [lia|]. destruct p; cbn; [reflexivity|]. apply IH. lia.
Qed.

(* every worker that has been sitting in `ready` since before the critical time is taken out by the clean pass
   and will be sent nil — although the binary search assumes an order on lastUseTime that the code does not maintain *)
Theorem idle_retired cf s crit k s' : 0 <= maxw cf -> reach cf s -> cln s = CCrit crit ->
  step cf s (CleanCollect k) = Some s' ->
  forall e, In e (ready s) -> r_enq e < crit ->
    In (r_w e) (clist (cln s')) /\ ~ In (r_w e) (map r_w (ready s')).
Proof.
  intros H R Ec Hs e Ie Le.
  pose proof (tinv_reach _ _ R) as [Te Ts _].
  assert (R' : reach cf s') by (econstructor; eauto).
  pose proof (inv_reach _ _ H R') as HI'.
  destruct (In_nth_error _ _ Ie) as (p & Ep).
  assert (Lp : (p < length (ready s))%nat) by (apply nth_error_Some; congruence).
  destruct (clean_index_spec crit (ready s)) as (i & Ei & Bi & Si).
  assert (Hpi : Z.of_nat p <= i).
  { apply Si; [lia|]. intros q e' Hq Eq.
    assert (Se : r_stamp e' <= r_enq e').
    { rewrite Forall_forall in Te. apply Te. eapply nth_error_In; eauto. }
    destruct (Nat.eq_dec (Z.to_nat q) p) as [Eqp|N].
    - rewrite Eqp, Ep in Eq. injection Eq as <-. lia.
    - assert (enq_le e' e) by (eapply (ss_nth _ _ Ts (Z.to_nat q) p); eauto; lia). unfold enq_le in *. lia. }
  cbn [step] in Hs. rewrite Ec, Ei in Hs.
  destruct (negb (k =? i + 1)); [discriminate|]. destruct (i =? -1) eqn:E1; [apply Z.eqb_eq in E1; lia|].
  injection Hs as <-. cbn [cln clist ready].
  assert (I1 : In (r_w e) (map r_w (firstn (Z.to_nat (i + 1)) (ready s)))).
  { apply in_map. apply (nth_error_In _ p). rewrite nth_firstn_lt by lia. exact Ep. }
  split; [exact I1|]. intros I2.
  pose proof (wtok_parts _ _ (r_w e) HI') as P. cbn [ready holding cln clist] in P.
  apply cnt_In in I1. apply cnt_In in I2. lia.
Qed.

Lemma run_reach cf tr : forall s s', reach cf s -> run cf s tr = Some s' -> reach cf s'.
Proof.
  induction tr as [|l tr IH]; cbn; intros s s' R H; [now injection H as <-|].
  destruct (step cf s l) eqn:E; [|discriminate]. eapply IH; [|exact H]. econstructor; eauto.
Qed.
