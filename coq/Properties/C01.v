(* C01 — Server request framing follows RFC 9112 (no request smuggling).  Statements only;
   proofs live in Proof/FramingProof.v.

   Vocabulary.  Model/Framing.v: serve_frames cfg stream = (dispatched requests, responses, outcome) models
   Server.serveConnCounted restricted to framing (head via ReqHead.req_head_parse, body via Model/Body.v);
   code_decision (HTTP/1.0?) TEs CLs = what RequestHeader.parseHeaders decides from the Transfer-Encoding and
   Content-Length values it scanned: reject, or accept with contentLength (-2 none / -1 chunked / n) and a forced
   connectionClose.  HeadFields w line l: in the buffered bytes w the code's own first-line parser finds the
   request line `line` and its own header scanner yields exactly the fields l (key, value, keyHasSpace) and stops
   without error; te_vals / cl_vals pick the values of the fields parseHeaders treats as Transfer-Encoding /
   Content-Length.  Spec/Rfc9112.v: rfc_decision (HTTP/1.1?) TEs CLs = RFC 9112 section 6.3 (class Clean /
   AmbiguousMustClose / Invalid and body length); rfc_frame = the whole RFC framing of a byte stream (the oracle
   prop_ok runs on the implementation's observed dispatch sequence, Check/C01Check.v).
   wf_bytes: every element is < 256 (the streams are byte strings).

   C01_dispatch_is_rfc_prefix is proved at full strength (theorem 7): every dispatched request IS the message
   RFC 9112 framing (Spec.Rfc9112.rfc_message, run on the raw bytes at the request's offset) assigns — same
   method, target, body and end — and consecutive requests are consecutive messages; corollary
   C01_model_meets_oracle: the dispatch sequence satisfies the oracle prop_ok for every stream and configuration.
   Stages: C01_fields_agree_on_accepted_head (the RFC's lexical reading of an accepted head yields the same
   Transfer-Encoding / Content-Length value lists as the code's scanner), C01_chunk_decoding_is_rfc and
   C01_trailer_end_is_rfc (chunk sequence and trailer-section end are the RFC's). *)
From FH Require Import Model.Base Model.Lines Model.ReqHead Model.Body Model.Framing Spec.Rfc9112 Spec.HeadSpec
  Check.C01Check Proof.FramingProof Proof.FramingLexProof.
Open Scope nat_scope.

(* ---- 1. the framing decision table: for EVERY version flag and EVERY pair of value lists, whenever the code
        accepts, the RFC does not call the framing Invalid, every non-Clean class forces connectionClose, and the
        body length source is the RFC's ---- *)
Theorem C01_framing_decision : forall (v11 : bool) (tes cls : list bytes),
  Forall wf_bytes tes -> Forall wf_bytes cls ->
  match code_decision (negb v11) tes cls with
  | CReject => True                                  (* 400 + close is always allowed *)
  | CAccept cl close =>
      d_class (rfc_decision v11 tes cls) <> Invalid /\
      (d_class (rfc_decision v11 tes cls) <> Clean -> close = true) /\
      match d_len (rfc_decision v11 tes cls) with
      | BFixed n => cl = Z.of_N n \/ (n = 0%N /\ cl = (-2)%Z)
      | BChunked => cl = (-1)%Z
      | BNone => True
      end
  end.
Proof. exact framing_decision. Qed.
Print Assumptions C01_framing_decision.

(* ---- 2. parseHeaders' loop IS that decision: folded over any list of scanned fields (any interleaving of
        CL / TE / other fields), success means code_decision accepts with exactly the resulting state ---- *)
Theorem C01_parseHeaders_is_decision : forall cfg noHTTP11 (l : list kv3) st,
  disable_special cfg = false ->
  steps cfg noHTTP11 rq_init l = Ok (StOk st) ->
  code_decision noHTTP11 (te_vals cfg l) (cl_vals cfg l) =
    CAccept (q_cl st) (q_closeAfter st || (q_clSeen st && q_teSeen st)).
Proof. exact steps_decision. Qed.
Print Assumptions C01_parseHeaders_is_decision.

(* ---- 3. an accepted head (RequestHeader.parse + validate returned nil on the buffered bytes w): the framing
        it carries away (contentLength, connectionClose) is the RFC's for the fields its scanner produced ---- *)
Theorem C01_accepted_head_framing : forall cfg w hd n,
  disable_special cfg = false -> wf_bytes w -> req_head_parse cfg w = HOk (hd, n) ->
  exists line l, HeadFields w line l /\ http11 hd = negb (rl_noHTTP11 line) /\
    meth hd = rl_method line /\ target hd = rl_uri line /\
    let r := rfc_decision (http11 hd) (te_vals cfg l) (cl_vals cfg l) in
    d_class r <> Invalid /\ (d_class r <> Clean -> conn_close hd = true) /\
    match d_len r with
    | BFixed k => content_length hd = Z.of_N k \/ (k = 0%N /\ content_length hd = (-2)%Z)
    | BChunked => content_length hd = (-1)%Z
    | BNone => True
    end.
Proof. exact head_decision_sound. Qed.
Print Assumptions C01_accepted_head_framing.

(* ---- 4. a request whose framing is not Clean is never followed by another request on the connection:
        all configurations, all byte streams ---- *)
Theorem C01_ambiguous_is_last : forall c s i d line l,
  wf_bytes s ->
  nth_error (disp (serve_frames c s)) i = Some d ->
  HeadFields (dp_win d) line l ->
  d_class (rfc_decision (negb (rl_noHTTP11 line)) (te_vals (hcfg_of c) l) (cl_vals (hcfg_of c) l)) <> Clean ->
  S i = length (disp (serve_frames c s)).
Proof. exact ambiguous_is_last. Qed.
Print Assumptions C01_ambiguous_is_last.

(* ---- 5. Invalid framing is never dispatched ... ---- *)
Theorem C01_invalid_never_dispatched : forall c s i d line l,
  wf_bytes s ->
  nth_error (disp (serve_frames c s)) i = Some d ->
  HeadFields (dp_win d) line l ->
  d_class (rfc_decision (negb (rl_noHTTP11 line)) (te_vals (hcfg_of c) l) (cl_vals (hcfg_of c) l)) <> Invalid.
Proof. exact invalid_not_dispatched. Qed.
Print Assumptions C01_invalid_never_dispatched.

(* ---- ... it is answered with the error response (400, Connection: close) and the connection is closed,
        in ANY state of the serve loop (rem = the unread input, whatever was served before) ---- *)
Theorem C01_invalid_rejected_and_closed : forall c fuel rem off line l,
  rem <> [] -> wf_bytes rem ->
  HeadFields (firstn (c_bsize c) rem) line l ->
  d_class (rfc_decision (negb (rl_noHTTP11 line)) (te_vals (hcfg_of c) l) (cl_vals (hcfg_of c) l)) = Invalid ->
  serve (S fuel) c rem off = ([], [{| rs_status := 400%Z; rs_close := true |}], OErr).
Proof. exact invalid_rejected. Qed.
Print Assumptions C01_invalid_rejected_and_closed.

(* ---- 6. after each dispatched request the server continues at the exact next message boundary, or closes:
        the requests occupy consecutive stream segments starting at offset 0; a request followed by another one
        did not carry connectionClose; when none follows, the connection is closed (every outcome of
        serve_frames is a close: OEof / OEofBody / OClosed / OErr) ---- *)
Theorem C01_continue_or_close : forall c s i d,
  nth_error (disp (serve_frames c s)) i = Some d ->
  dp_off d + dp_len d <= length s /\ 0 < dp_hlen d <= dp_len d /\
  (i = 0 -> dp_off d = 0) /\
  match nth_error (disp (serve_frames c s)) (S i) with
  | Some d' => dp_off d' = dp_off d + dp_len d /\ dp_close d = false
  | None => True
  end.
Proof. exact continue_or_close. Qed.
Print Assumptions C01_continue_or_close.

(* ---- 7. C01_dispatch_is_rfc_prefix (FULL): for every configuration and byte stream, every dispatched request is
        the message RFC 9112 assigns to the bytes at its offset: rfc_message — the RFC's own line splitting, request
        line, field lines, list reading, section 6.3 length rules and chunked grammar, run on the raw bytes — returns a
        message that is not Invalid, with the request's method and target; when the RFC assigns a length
        (rest = Some x) the message ends exactly where the request ended (x = the input from dp_off + dp_len on, which by
        C01_continue_or_close is where the next request starts) and the handler's body is the RFC's body (None: the
        bytes were pre-parsed into a multipart form); when it assigns none (lone identity, Transfer-Encoding on
        HTTP/1.0) the class is AmbiguousMustClose; and whenever the class is not Clean the request is the last ---- *)
Theorem C01_dispatch_is_rfc_prefix : forall c s i d,
  wf_bytes s -> nth_error (disp (serve_frames c s)) i = Some d ->
  exists r cl rest,
    rfc_message (skipn (dp_off d) s) = MMsg r cl rest /\ cl <> Invalid /\
    r_method r = dp_method d /\ r_target r = dp_uri d /\
    (cl <> Clean -> S i = length (disp (serve_frames c s))) /\
    match rest with
    | Some x => x = skipn (dp_off d + dp_len d) s /\ r_body r <> None /\ (dp_body d = None \/ dp_body d = r_body r)
    | None => cl = AmbiguousMustClose /\ r_body r = None
    end.
Proof. exact dispatch_is_rfc. Qed.
Print Assumptions C01_dispatch_is_rfc_prefix.

(* corollary: the model's dispatch sequence passes the property oracle (Check.C01Check.judge over rfc_frame of the
   raw stream) — what prop_ok demands of the implementation's observations holds of the model for ALL inputs *)
Theorem C01_model_meets_oracle : forall c s, wf_bytes s ->
  judge (rfc_requests s) (map obs_of (disp (serve_frames c s))) = true.
Proof. exact model_meets_oracle. Qed.
Print Assumptions C01_model_meets_oracle.

(* ---- 7a. stage (a): on every head the code accepts (w = the buffered bytes, z = whatever follows in the stream),
        the RFC's reading of w ++ z finds the same request line (method, target; HTTP/1.1 whenever the code says
        so), ends the header block after exactly the n bytes the code consumed, and its Transfer-Encoding /
        Content-Length value lists are the code's scanner's (te_vals / cl_vals of HeadFields) ---- *)
Theorem C01_fields_agree_on_accepted_head : forall cfg w z hd n,
  disable_special cfg = false -> wf_bytes w -> req_head_parse cfg w = HOk (hd, n) ->
  exists ln r1 q fs line l,
    skip_empty_lines (length (w ++ z)) (w ++ z) <> [] /\
    take_line (skip_empty_lines (length (w ++ z)) (w ++ z)) = Some (ln, r1) /\
    parse_request_line ln = Some q /\ rq_method q = meth hd /\ rq_target q = target hd /\
    (http11 hd = true -> rq_v11 q = true) /\
    field_lines (S (length r1)) [] r1 = FsOk fs (skipn n (w ++ z)) /\
    HeadFields w line l /\ http11 hd = negb (rl_noHTTP11 line) /\
    field_values name_transfer_encoding fs = te_vals cfg l /\
    field_values name_content_length fs = cl_vals cfg l.
Proof. exact accepted_head_rfc. Qed.
Print Assumptions C01_fields_agree_on_accepted_head.

(* the head boundary is also the one of fasthttp's own line rule (Spec.HeadSpec, C09) *)
Theorem C01_head_boundary_is_line_rule : forall c s i d,
  wf_bytes s -> nth_error (disp (serve_frames c s)) i = Some d ->
  head_len (skipn (dp_off d) s) = Some (dp_hlen d).
Proof. exact head_boundary_line_rule. Qed.
Print Assumptions C01_head_boundary_is_line_rule.

(* ---- 7b. chunked bodies: whatever readBodyChunked accepts (any limit, any input), the chunk grammar of
        RFC 9112 section 7.1 accepts, with the same decoded data and the same unread rest (= where the
        trailer section starts) ---- *)
Theorem C01_chunk_decoding_is_rfc : forall max b d r pk,
  wf_bytes b -> readBodyChunked max [] b = BOk d r pk -> chunks (S (length b)) b = ChOk d r.
Proof. exact readBodyChunked_rfc. Qed.
Print Assumptions C01_chunk_decoding_is_rfc.

(* ---- 7c. stage (b): where header.ReadTrailer stops (parseTrailer over the reader window), the RFC's
        trailer-section CRLF ends ---- *)
Theorem C01_trailer_end_is_rfc : forall dn bsize r rest tf,
  read_trailer dn bsize r = TrDone rest tf -> trailer_section (S (length r)) r = Some rest.
Proof. exact read_trailer_rfc. Qed.
Print Assumptions C01_trailer_end_is_rfc.

(* ---- 7d. trailer fields are merged into the request's header list (parseTrailer appends to h.h) and the serve
        loop evaluates MayContinue() again after the body: a trailer that Peek("Expect") finds would make it write
        "100 Continue" and read a SECOND body from the bytes behind the message (Model.Framing.read_req_message).
        That never happens: whatever parseTrailer accepts (key trimmed, then isBadTrailer, then canonicalised),
        the merged list answers Peek("Expect") exactly as the head alone — for every configuration and input —
        so the message the handler gets is the first body read and the loop continues right behind it.
        (All theorems above are about serve_frames, which contains that second read.) ---- *)
Theorem C01_trailer_cannot_inject_expect : forall c hd b body rest tf,
  read_req_body c hd b = RbOk body rest tf ->
  peekArgBytes (fields hd ++ tf) GenC09.strExpect = peekArgBytes (fields hd) GenC09.strExpect.
Proof. exact no_expect_injection. Qed.
Print Assumptions C01_trailer_cannot_inject_expect.

Theorem C01_no_second_body_read : forall c hd b,
  read_req_message c hd (head_expect hd) b =
  match read_req_body c hd b with
  | RbOk body rest _ => RmOk body rest false
  | RbFail e => RmFail e false
  | RbEof => RmEof false
  | RbBug => RmBug
  end.
Proof. exact read_req_message_eq. Qed.
Print Assumptions C01_no_second_body_read.

(* ---- 8. configuration.  FULL statement ("the dispatched sequence is the same for all configurations") is
        false by design of the options: GetOnly rejects other methods, DisablePreParseMultipartForm changes how a
        multipart body is handed over, ReadBufferSize bounds the head, and with DisableHeaderNamesNormalizing the
        exact-name lookups of Connection (HTTP/1.0 keep-alive) and Content-Encoding miss non-canonical spellings.
        Proved: ReduceMemoryUsage is not consulted at all, and which fields count as Content-Length /
        Transfer-Encoding — hence the framing decision and its RFC class — does not depend on
        DisableHeaderNamesNormalizing. ---- *)
Theorem C01_cfg_independent_reduce : forall b c s,
  serve_frames (set_reduce b c) s = serve_frames c s.
Proof. exact serve_frames_reduce_indep. Qed.
Print Assumptions C01_cfg_independent_reduce.

Theorem C01_cfg_independent_fields : forall cfg cfg' (l : list kv3),
  Forall (fun x => wf_bytes (fst (fst x))) l ->
  te_vals cfg l = te_vals cfg' l /\ cl_vals cfg l = cl_vals cfg' l.
Proof. exact framing_fields_norm_indep. Qed.
Print Assumptions C01_cfg_independent_fields.

(* ================= non-vacuity ================= *)
Definition crlf : bytes := [CR; LF].
Definition get (p : string) : bytes := s2b "GET " ++ s2b p ++ s2b " HTTP/1.1" ++ crlf ++ s2b "Host: h" ++ crlf ++ crlf.
Definition cfg0 : fcfg := mkc false false false false 4096 4194304.

(* a three-request pipeline whose middle request has a chunked body with extensions and trailers is dispatched
   as three requests, and these are the RFC's three messages *)
Definition ex_pipeline : bytes :=
  get "/1" ++
  s2b "POST /2 HTTP/1.1" ++ crlf ++ s2b "Host: h" ++ crlf ++ s2b "Transfer-Encoding: chunked" ++ crlf ++ crlf ++
  s2b "3;a=b" ++ crlf ++ s2b "abc" ++ crlf ++ s2b "A" ++ crlf ++ s2b "0123456789" ++ crlf ++ s2b "0;l" ++ crlf ++
  s2b "X-T: v" ++ crlf ++ crlf ++
  get "/3".
Example C01_ex_three_requests :
  model_obs cfg0 ex_pipeline =
    Some ([(s2b "GET", s2b "/1", Some []); (s2b "POST", s2b "/2", Some (s2b "abc0123456789")); (s2b "GET", s2b "/3", Some [])],
          [(200%Z, false); (200%Z, false); (200%Z, false)], false)
  /\ map (fun x => snd x) (rfc_requests ex_pipeline) = [Clean; Clean; Clean]
  /\ prop_ok (C01Case ex_pipeline [Run cfg0 [Obs [(s2b "GET", s2b "/1", Some []); (s2b "POST", s2b "/2", Some (s2b "abc0123456789")); (s2b "GET", s2b "/3", Some [])] []]]) = true.
Proof. vm_compute. repeat split; reflexivity. Qed.

(* the three repaired defects: the ambiguous request is served, answered with Connection: close, and the
   request pipelined behind it is not; the oracle rejects the old behaviour (both served) *)
Definition ex_te_identity : bytes :=
  s2b "POST /a HTTP/1.1" ++ crlf ++ s2b "Host: h" ++ crlf ++ s2b "Transfer-Encoding: identity" ++ crlf ++
  s2b "Content-Length: 3" ++ crlf ++ crlf ++ s2b "abc" ++ get "/b".
Definition ex_cl_te : bytes :=
  s2b "POST /a HTTP/1.1" ++ crlf ++ s2b "Host: h" ++ crlf ++ s2b "Content-Length: 3" ++ crlf ++
  s2b "Transfer-Encoding: chunked" ++ crlf ++ crlf ++ s2b "3" ++ crlf ++ s2b "abc" ++ crlf ++ s2b "0" ++ crlf ++ crlf ++ get "/b".
Example C01_ex_ambiguous_closed :
  model_obs cfg0 ex_te_identity = Some ([(s2b "POST", s2b "/a", Some (s2b "abc"))], [(200%Z, true)], false)
  /\ model_obs cfg0 ex_cl_te = Some ([(s2b "POST", s2b "/a", Some (s2b "abc"))], [(200%Z, true)], false)
  /\ map (fun x => snd x) (rfc_requests ex_te_identity) = [AmbiguousMustClose]
  /\ map (fun x => snd x) (rfc_requests ex_cl_te) = [AmbiguousMustClose]
  /\ code_decision false [s2b "identity"] [s2b "3"] = CAccept 3%Z true
  /\ code_decision false [s2b "chunked"] [s2b "3"] = CAccept (-1)%Z true
  /\ prop_ok (C01Case ex_cl_te [Run cfg0 [Obs [(s2b "POST", s2b "/a", Some (s2b "abc")); (s2b "GET", s2b "/b", Some [])] []]]) = false
  /\ prop_ok (C01Case ex_te_identity [Run cfg0 [Obs [(s2b "POST", s2b "/a", Some (s2b "abc")); (s2b "GET", s2b "/b", Some [])] []]]) = false.
Proof. vm_compute. repeat split; reflexivity. Qed.

(* Invalid framing: rejected by the code, Invalid for the RFC, and the oracle rejects a server that dispatches it *)
Definition ex_dup_cl : bytes :=
  s2b "POST /a HTTP/1.1" ++ crlf ++ s2b "Host: h" ++ crlf ++ s2b "Content-Length: 3" ++ crlf ++
  s2b "Content-Length: 4" ++ crlf ++ crlf ++ s2b "abcd" ++ get "/b".
Example C01_ex_invalid :
  model_obs cfg0 ex_dup_cl = Some ([], [(400%Z, true)], false)
  /\ map (fun x => snd x) (rfc_requests ex_dup_cl) = [Invalid]
  /\ code_decision false [] [s2b "3"; s2b "4"] = CReject
  /\ d_class (rfc_decision true [] [s2b "3"; s2b "4"]) = Invalid
  /\ d_class (rfc_decision true [s2b "gzip"] []) = Invalid /\ code_decision false [s2b "gzip"] [] = CReject
  /\ d_class (rfc_decision false [s2b "chunked"] []) = AmbiguousMustClose /\ code_decision true [s2b "chunked"] [] = CReject
  /\ prop_ok (C01Case ex_dup_cl [Run cfg0 [Obs [(s2b "POST", s2b "/a", Some (s2b "abc"))] []]]) = false.
Proof. vm_compute. repeat split; reflexivity. Qed.
