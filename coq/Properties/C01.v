(* C01 — Server request framing follows RFC 9112 (no request smuggling).  Statements only;
   proofs live in Proof/FramingProof.v. *)
From FH Require Import Model.Base Model.Lines Model.ReqHead Model.Body Model.Framing Spec.Rfc9112 Check.C01Check Proof.FramingProof.
Open Scope nat_scope.

Definition crlf : bytes := [CR; LF].
Definition get (p : string) : bytes := s2b "GET " ++ s2b p ++ s2b " HTTP/1.1" ++ crlf ++ s2b "Host: h" ++ crlf ++ crlf.
Definition cfg0 : fcfg := mkc false false false false 4096 4194304.

(* non-vacuity: a three-request pipeline whose middle request has a chunked body with extensions and
   trailers is dispatched as three requests, and these are the RFC's three messages *)
Definition ex_pipeline : bytes :=
  get "/1" ++
  s2b "POST /2 HTTP/1.1" ++ crlf ++ s2b "Host: h" ++ crlf ++ s2b "Transfer-Encoding: chunked" ++ crlf ++ crlf ++
  s2b "3;a=b" ++ crlf ++ s2b "abc" ++ crlf ++ s2b "A" ++ crlf ++ s2b "0123456789" ++ crlf ++ s2b "0;l" ++ crlf ++
  s2b "X-T: v" ++ crlf ++ crlf ++
  get "/3".
Example C01_ex_three_requests :
  model_obs cfg0 ex_pipeline =
    Some ([(s2b "GET", s2b "/1", Some []); (s2b "POST", s2b "/2", Some (s2b "abc0123456789")); (s2b "GET", s2b "/3", Some [])],
          [(200%Z, false); (200%Z, false); (200%Z, false)], false)
  /\ map (fun x => snd x) (rfc_requests ex_pipeline) = [Clean; Clean; Clean]
  /\ prop_ok (C01Case ex_pipeline [Run cfg0 [Obs [(s2b "GET", s2b "/1", Some []); (s2b "POST", s2b "/2", Some (s2b "abc0123456789")); (s2b "GET", s2b "/3", Some [])] []]]) = true.
Proof. vm_compute. repeat split; reflexivity. Qed.
