(* C02 — Unread request bodies never turn into requests.  Statements only. *)
From FH Require Import Model.Base Model.BodyConsume Spec.BodyConsumeSpec.
Open Scope Z_scope.

Example C02_ex_placeholder : framed_len (FFixed 3) = Some 3.
Proof. reflexivity. Qed.
