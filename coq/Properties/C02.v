(* C02 — Unread request bodies never turn into requests.  Statements only; proofs live in
   Proof/BodyConsumeProof.v.  Model: Model/BodyConsume.v (serveConnCounted's body reading, Expect
   branch, handler call, bodyStreamUnread / timeout check, post-handler drain, requestStream.Read with
   its sticky framing error); spec: Spec/BodyConsumeSpec.v.

   The theorems are unconditional in the handler's behaviour: reading nothing / k bytes / to EOF or
   into an error, then nothing / detaching the stream (CloseBodyStream, ResetBody, SetBody...) /
   TimeoutError / Hijack / Connection: close.  (Before the fixes 53c42a2 and 4a38611 they held only
   under a guard and three refutation witnesses were theorems here; see findings/fixed.txt.) *)
From FH Require Import Model.Base Model.BodyConsume Spec.BodyConsumeSpec Proof.BodyConsumeProof.
Open Scope Z_scope.

(* The requestStream objects of requestStreamPool are shared by all requests of all connections.
   Every statement below holds for ANY pool of released objects (pool_ok), any choice of the object
   sync.Pool hands out (r_pick) and ANY release function that leaves the object like a new one
   (rel_resets); releaseRequestStream, modelled assignment by assignment, is such a function, and
   C02_pool_reset_matters shows the statements fail for a release that forgets a single field. *)
Theorem C02_releaseRequestStream_resets : rel_resets releaseRequestStream.
Proof. exact releaseRequestStream_resets. Qed.
Print Assumptions C02_releaseRequestStream_resets.

(* Whatever the configuration (StreamRequestBody on/off, MaxRequestBodySize, GetOnly, multipart
   pre-parsing, expectation callbacks, keep-alive), framing (none / Content-Length / any chunk split,
   extensions, trailer, broken chunk terminators), body size, bytes inside the body (r_alt) and handler
   behaviour: if the connection is kept alive, the next head parse starts exactly at the end of the
   framed body; in particular a body without an end is never followed by another parse. *)
Theorem C02_next_starts_at_body_end : forall rel c r p evs off p',
  rel_resets rel -> pool_ok p ->
  wf_cfg c -> wf_req r -> r_lim r = None ->
  serve_one rel c r p = (evs, Some off, p') -> framed_len (r_fr r) = Some off.
Proof. exact next_starts_at_body_end. Qed.
Print Assumptions C02_next_starts_at_body_end.

(* the pool stays clean, whatever happened to the stream (abandoned mid-chunk, errors, detach, hijack) *)
Theorem C02_pool_stays_clean : forall rel c r p,
  rel_resets rel -> pool_ok p -> pool_ok (snd (serve_one rel c r p)).
Proof. exact serve_one_pool. Qed.
Print Assumptions C02_pool_stays_clean.

(* the behaviours that used to desynchronise the connection now end it; a stream that was read to its
   end may be detached without losing keep-alive *)
Theorem C02_former_findings_close :
  nxt_of (serve_one releaseRequestStream wit_cfg wit_detach []) = None /\
  nxt_of (serve_one releaseRequestStream wit_cfg wit_timeout []) = None /\
  nxt_of (serve_one releaseRequestStream wit_cfg wit_sticky []) = None /\
  nxt_of (serve_one releaseRequestStream wit_cfg wit_detach_read []) = Some 10000.
Proof. exact former_findings_close. Qed.
Print Assumptions C02_former_findings_close.

(* After a rejected expectation (ExpectHandler answering anything but 100, or ContinueHandler
   answering false) the iteration consists of the server's own response carrying Connection: close
   and the connection is finished: no handler call, no "100 Continue", no further parse, no pooled
   object touched — for every request, configuration, body and pool. *)
Theorem C02_rejected_expectation_closes : forall rel c r p,
  expectation_rejected c r = true ->
  exists status, serve_one rel c r p = ([EResp status true], None, p).
Proof. exact rejected_expectation_closes. Qed.
Print Assumptions C02_rejected_expectation_closes.

(* Whole connections, any number of pipelined requests, over any clean pool: every head parse starts
   at a message boundary, the server never goes on at another offset, and the pool is clean again. *)
Theorem C02_body_bytes_never_parsed : forall rel c, rel_resets rel -> wf_cfg c -> forall rs base p,
  pool_ok p -> Forall wf_req rs -> Forall (fun r => r_lim r = None) rs ->
  pool_ok (snd (serve_p rel c rs base p)) /\
  forall e, In e (fst (serve_p rel c rs base p)) ->
    match e with
    | EParse off => In off (boundaries base rs)
    | EDesync _ _ _ => False
    | _ => True
    end.
Proof. exact body_bytes_never_parsed. Qed.
Print Assumptions C02_body_bytes_never_parsed.

(* ... and a message boundary is never strictly inside a request (head or body) *)
Theorem C02_boundary_not_inside : forall rs, Forall wf_lens rs -> forall base off,
  In off (boundaries base rs) -> inside_some_message base rs off = false.
Proof. exact boundary_not_inside. Qed.
Print Assumptions C02_boundary_not_inside.

(* The trace the model produces for any connection satisfies the property oracle `judge` — the
   same function Check/C02Check.v evaluates on the implementation's observed trace. *)
Theorem C02_model_trace_judged : forall rel c, rel_resets rel -> wf_cfg c -> forall rs base p,
  pool_ok p -> Forall wf_req rs -> Forall (fun r => r_lim r = None) rs ->
  judge c rs (filter visible (fst (serve_p rel c rs base p))) = true.
Proof. intros rel c Hr Wc rs base p Hp W L. exact (proj1 (model_trace_judged rel c Hr Wc rs base p Hp W L)). Qed.
Print Assumptions C02_model_trace_judged.

(* Any number of connections served one after the other over the same pool (streams abandoned in any
   state by earlier connections included): each connection's trace is judged fine and parses only at
   its own message boundaries. *)
Theorem C02_connections_share_a_clean_pool : forall rel c, rel_resets rel -> wf_cfg c -> forall conns p,
  pool_ok p -> Forall (Forall wf_req) conns -> Forall (Forall (fun r => r_lim r = None)) conns ->
  Forall2 (fun rs tr => judge c rs (filter visible tr) = true /\
                        forall e, In e tr -> match e with EParse off => In off (boundaries 0 rs) | EDesync _ _ _ => False | _ => True end)
          conns (serve_conns rel c conns p).
Proof. exact conns_judged. Qed.
Print Assumptions C02_connections_share_a_clean_pool.

(* The statements depend on the reset: with a release that forgets rs.chunkLeft, a body abandoned 60
   bytes into a 200-byte chunk on one connection makes the next chunked body on ANOTHER connection end
   147 bytes in, and the server goes on parsing inside it; likewise for totalBytesRead and eof. *)
Theorem C02_pool_reset_matters :
  serve_conns releaseRequestStream pool_cfg [[pool_att]; [pool_vic; pool_next]] []
  = [[EParse 0; EDispatch 1 60 RcErr; EResp 200 true; EClose];
     [EParse 0; EDispatch 1 0 RcOk; EResp 200 false; EParse 470; EDispatch 2 0 RcOk; EResp 200 false; EClose]]
  /\ serve_conns release_forgets_chunkLeft pool_cfg [[pool_att]; [pool_vic; pool_next]] []
  = [[EParse 0; EDispatch 1 60 RcErr; EResp 200 true; EClose];
     [EParse 0; EDispatch 1 0 RcOk; EResp 200 false; EDesync 1 147 205]]
  /\ inside_some_message 0 [pool_vic; pool_next] 205 = true.
Proof. exact pool_reset_matters. Qed.
Print Assumptions C02_pool_reset_matters.

Theorem C02_pool_reset_matters_other_fields :
  (exists id rel off, In (EDesync id rel off) (concat (serve_conns release_forgets_total pool_cfg [[fix_a; pool_next]; [fix_b; pool_next]] []))) /\
  (exists id rel off, In (EDesync id rel off) (concat (serve_conns release_forgets_eof pool_cfg [[chk_a; pool_next]; [chk_a; pool_next]] []))).
Proof. exact pool_reset_matters_other_fields. Qed.
Print Assumptions C02_pool_reset_matters_other_fields.

(* partial: requests whose body is cut off by the peer (r_lim = Some a) are modelled and compared
   with the implementation on every run (the server ends up at the end of input or closes), and the
   pool theorems cover the objects they leave behind, but the offset theorems above are stated for
   complete inputs. *)

(* non-vacuity *)
Example C02_ex_stream_ignored_body :
  serve wit_cfg [mkReq 1 58 false false false (FFixed 10000) None None 0 false RNone FinNone 0 true O None;
                 mkReq 2 29 true false false FNone None None 0 false RNone FinNone 0 true O None] 0
  = [EParse 0; EDispatch 1 0 RcOk; EResp 200 false; EParse 10058; EDispatch 2 0 RcOk; EResp 200 false; EClose].
Proof. vm_compute. reflexivity. Qed.
Example C02_ex_too_big_closes :
  serve wit_cfg [mkReq 1 58 false false false (FFixed 40002) None None 0 false (RUpTo 100) FinNone 0 true O None;
                 mkReq 2 29 true false false FNone None None 0 false RNone FinNone 0 true O None] 0
  = [EParse 0; EDispatch 1 100 RcOk; EResp 200 true; EClose].
Proof. vm_compute. reflexivity. Qed.
Example C02_ex_rejected :
  serve (mkCfg true 20000 false true false true false)
        [mkReq 1 80 false false true (FFixed 64) None None 0 false RNone FinNone 0 true O None;
         mkReq 2 29 true false false FNone None None 0 false RNone FinNone 0 true O None] 0
  = [EParse 0; EResp 417 true; EClose].
Proof. vm_compute. reflexivity. Qed.
Example C02_ex_judge_rejects_smuggling :
  judge wit_cfg [wit_detach; mkReq 2 29 true false false FNone None None 0 false RNone FinNone 0 true O None]
        [EDispatch 1 0 RcOk; EResp 200 false; EDispatch 1000256 0 RcOk; EResp 200 false] = false.
Proof. vm_compute. reflexivity. Qed.
