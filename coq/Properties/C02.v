(* C02 — Unread request bodies never turn into requests.  Statements only; proofs live in
   Proof/BodyConsumeProof.v.  Model: Model/BodyConsume.v (serveConnCounted's body reading, Expect
   branch, handler call, post-handler drain, requestStream.Read); spec: Spec/BodyConsumeSpec.v.

   The full statement ("for EVERY handler behaviour ...") is FALSE of the code as it is: see the
   _refuted theorems (findings stream-detached-undrained, timeout-stream-undrained,
   stream-error-not-sticky).  It is proved under the exact guard `safe`: when the handler was given
   a live request stream, it leaves it attached to the request (no CloseBodyStream / ResetBody /
   SetBody... / TimeoutError) and none of its Read calls returned an error other than io.EOF. *)
From FH Require Import Model.Base Model.BodyConsume Spec.BodyConsumeSpec Proof.BodyConsumeProof.
Open Scope Z_scope.

(* Whatever the configuration (StreamRequestBody on/off, MaxRequestBodySize, GetOnly, multipart
   pre-parsing, expectation callbacks, keep-alive), framing (none / Content-Length / any chunk split,
   extensions, trailer, broken chunk terminators), body size and handler reads (none, k bytes, to EOF):
   if the connection is kept alive, the next head parse starts exactly at the end of the framed body;
   in particular a body without an end is never followed by another parse. *)
Theorem C02_next_starts_at_body_end : forall c r evs off,
  wf_cfg c -> wf_req r -> r_lim r = None -> safe c r ->
  serve_one c r = (evs, Some off) -> framed_len (r_fr r) = Some off.
Proof. exact next_starts_at_body_end. Qed.
Print Assumptions C02_next_starts_at_body_end.

(* the guard in terms of inputs: any reading behaviour on a body that has an end, and not reading at
   all on any body, is safe as long as the handler leaves the stream attached *)
Theorem C02_safe_of_inputs : forall c r,
  wf_cfg c -> wf_req r -> r_lim r = None -> kept r = true ->
  (framed_len (r_fr r) <> None \/ r_rd r = RNone) -> safe c r.
Proof. exact safe_of_inputs. Qed.
Print Assumptions C02_safe_of_inputs.

(* the unguarded statement is false: a handler that detaches the stream (witness), calls TimeoutError,
   or reads into a broken chunk terminator leaves the server parsing at offset 8192 of a 10000-byte body
   (resp. keeps the connection after a body that has no end) *)
Theorem C02_next_starts_at_body_end_refuted :
  exists c r evs off, wf_cfg c /\ wf_req r /\ r_lim r = None /\
    serve_one c r = (evs, Some off) /\ framed_len (r_fr r) <> Some off.
Proof. exact next_starts_at_body_end_refuted. Qed.
Print Assumptions C02_next_starts_at_body_end_refuted.

Theorem C02_refuted_witnesses :
  (snd (serve_one wit_cfg wit_detach) = Some 8192 /\ framed_len (r_fr wit_detach) = Some 10000) /\
  (snd (serve_one wit_cfg wit_timeout) = Some 8192 /\ framed_len (r_fr wit_timeout) = Some 10000) /\
  (snd (serve_one wit_cfg wit_sticky) = Some 84 /\ framed_len (r_fr wit_sticky) = None).
Proof. exact (conj refuted_detach (conj refuted_timeout refuted_sticky)). Qed.
Print Assumptions C02_refuted_witnesses.

(* After a rejected expectation (ExpectHandler answering anything but 100, or ContinueHandler
   answering false) the iteration consists of the server's own response carrying Connection: close
   and the connection is finished: no handler call, no "100 Continue", no further parse — for every
   request, configuration, body and amount of body already sent. *)
Theorem C02_rejected_expectation_closes : forall c r,
  expectation_rejected c r = true ->
  exists status, serve_one c r = ([EResp status true], None).
Proof. exact rejected_expectation_closes. Qed.
Print Assumptions C02_rejected_expectation_closes.

(* Whole connections, any number of pipelined requests: every head parse starts at a message
   boundary and the server never goes on at another offset. *)
Theorem C02_body_bytes_never_parsed : forall c, wf_cfg c -> forall rs base,
  Forall wf_req rs -> Forall (fun r => r_lim r = None) rs -> Forall (safe c) rs ->
  forall e, In e (serve c rs base) ->
    match e with
    | EParse off => In off (boundaries base rs)
    | EDesync _ _ _ => False
    | _ => True
    end.
Proof. exact body_bytes_never_parsed. Qed.
Print Assumptions C02_body_bytes_never_parsed.

(* ... and a message boundary is never strictly inside a request (head or body) *)
Theorem C02_boundary_not_inside : forall rs, Forall wf_lens rs -> forall base off,
  In off (boundaries base rs) -> inside_some_message base rs off = false.
Proof. exact boundary_not_inside. Qed.
Print Assumptions C02_boundary_not_inside.

Theorem C02_body_bytes_never_parsed_refuted :
  exists c rs id rel off, Forall wf_req rs /\ Forall (fun r => r_lim r = None) rs /\
    In (EDesync id rel off) (serve c rs 0) /\ inside_some_message 0 rs off = true.
Proof. exact body_bytes_never_parsed_refuted. Qed.
Print Assumptions C02_body_bytes_never_parsed_refuted.

(* The trace the model produces for any connection satisfies the property oracle `judge` — the
   same function Check/C02Check.v evaluates on the implementation's observed trace. *)
Theorem C02_model_trace_judged : forall c, wf_cfg c -> forall rs base,
  Forall wf_req rs -> Forall (fun r => r_lim r = None) rs -> Forall (safe c) rs ->
  judge c rs (filter visible (serve c rs base)) = true.
Proof. intros c Wc rs base W L S. exact (proj1 (model_trace_judged c Wc rs base W L S)). Qed.
Print Assumptions C02_model_trace_judged.

(* partial: requests whose body is cut off by the peer (r_lim = Some a) are modelled and compared
   with the implementation on every run (the server ends up at the end of input or parses what was
   sent of the body, see the findings), but the theorems above are stated for complete inputs. *)

(* non-vacuity *)
Example C02_ex_stream_ignored_body :
  serve wit_cfg [mkReq 1 58 false false false (FFixed 10000) None None 0 false RNone FinNone;
                 mkReq 2 29 true false false FNone None None 0 false RNone FinNone] 0
  = [EParse 0; EDispatch 1 0 RcOk; EResp 200 false; EParse 10058; EDispatch 2 0 RcOk; EResp 200 false; EClose].
Proof. vm_compute. reflexivity. Qed.
Example C02_ex_too_big_closes :
  serve wit_cfg [mkReq 1 58 false false false (FFixed 40002) None None 0 false (RUpTo 100) FinNone;
                 mkReq 2 29 true false false FNone None None 0 false RNone FinNone] 0
  = [EParse 0; EDispatch 1 100 RcOk; EResp 200 true; EClose].
Proof. vm_compute. reflexivity. Qed.
Example C02_ex_rejected :
  serve (mkCfg true 20000 false true false true false)
        [mkReq 1 80 false false true (FFixed 64) None None 0 false RNone FinNone;
         mkReq 2 29 true false false FNone None None 0 false RNone FinNone] 0
  = [EParse 0; EResp 417 true; EClose].
Proof. vm_compute. reflexivity. Qed.
Example C02_ex_judge_rejects_smuggling :
  judge wit_cfg [wit_detach; mkReq 2 29 true false false FNone None None 0 false RNone FinNone]
        [EDispatch 1 0 RcOk; EResp 200 false; EDispatch 1000256 0 RcOk; EResp 200 false] = false.
Proof. vm_compute. reflexivity. Qed.
