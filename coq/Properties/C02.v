(* C02 — Unread request bodies never turn into requests.  Statements only; proofs live in
   Proof/BodyConsumeProof.v.  Model: Model/BodyConsume.v (serveConnCounted's body reading, Expect
   branch, handler call, bodyStreamUnread / timeout check, post-handler drain, requestStream.Read with
   its sticky framing error); spec: Spec/BodyConsumeSpec.v.

   The theorems are unconditional in the handler's behaviour: reading nothing / k bytes / to EOF or
   into an error, then nothing / detaching the stream (CloseBodyStream, ResetBody, SetBody...) /
   TimeoutError / Hijack / Connection: close.  (Before the fixes 53c42a2 and 4a38611 they held only
   under a guard and three refutation witnesses were theorems here; see findings/fixed.txt.) *)
From FH Require Import Model.Base Model.BodyConsume Spec.BodyConsumeSpec Proof.BodyConsumeProof.
Open Scope Z_scope.

(* Whatever the configuration (StreamRequestBody on/off, MaxRequestBodySize, GetOnly, multipart
   pre-parsing, expectation callbacks, keep-alive), framing (none / Content-Length / any chunk split,
   extensions, trailer, broken chunk terminators), body size and handler behaviour: if the connection
   is kept alive, the next head parse starts exactly at the end of the framed body; in particular a
   body without an end is never followed by another parse. *)
Theorem C02_next_starts_at_body_end : forall c r evs off,
  wf_cfg c -> wf_req r -> r_lim r = None ->
  serve_one c r = (evs, Some off) -> framed_len (r_fr r) = Some off.
Proof. exact next_starts_at_body_end. Qed.
Print Assumptions C02_next_starts_at_body_end.

(* the behaviours that used to desynchronise the connection now end it; a stream that was read to its
   end may be detached without losing keep-alive *)
Theorem C02_former_findings_close :
  snd (serve_one wit_cfg wit_detach) = None /\ snd (serve_one wit_cfg wit_timeout) = None /\
  snd (serve_one wit_cfg wit_sticky) = None /\ snd (serve_one wit_cfg wit_detach_read) = Some 10000.
Proof. exact former_findings_close. Qed.
Print Assumptions C02_former_findings_close.

(* After a rejected expectation (ExpectHandler answering anything but 100, or ContinueHandler
   answering false) the iteration consists of the server's own response carrying Connection: close
   and the connection is finished: no handler call, no "100 Continue", no further parse — for every
   request, configuration, body and amount of body already sent. *)
Theorem C02_rejected_expectation_closes : forall c r,
  expectation_rejected c r = true ->
  exists status, serve_one c r = ([EResp status true], None).
Proof. exact rejected_expectation_closes. Qed.
Print Assumptions C02_rejected_expectation_closes.

(* Whole connections, any number of pipelined requests: every head parse starts at a message
   boundary and the server never goes on at another offset. *)
Theorem C02_body_bytes_never_parsed : forall c, wf_cfg c -> forall rs base,
  Forall wf_req rs -> Forall (fun r => r_lim r = None) rs ->
  forall e, In e (serve c rs base) ->
    match e with
    | EParse off => In off (boundaries base rs)
    | EDesync _ _ _ => False
    | _ => True
    end.
Proof. exact body_bytes_never_parsed. Qed.
Print Assumptions C02_body_bytes_never_parsed.

(* ... and a message boundary is never strictly inside a request (head or body) *)
Theorem C02_boundary_not_inside : forall rs, Forall wf_lens rs -> forall base off,
  In off (boundaries base rs) -> inside_some_message base rs off = false.
Proof. exact boundary_not_inside. Qed.
Print Assumptions C02_boundary_not_inside.

(* The trace the model produces for any connection satisfies the property oracle `judge` — the
   same function Check/C02Check.v evaluates on the implementation's observed trace. *)
Theorem C02_model_trace_judged : forall c, wf_cfg c -> forall rs base,
  Forall wf_req rs -> Forall (fun r => r_lim r = None) rs ->
  judge c rs (filter visible (serve c rs base)) = true.
Proof. intros c Wc rs base W L. exact (proj1 (model_trace_judged c Wc rs base W L)). Qed.
Print Assumptions C02_model_trace_judged.

(* partial: requests whose body is cut off by the peer (r_lim = Some a) are modelled and compared
   with the implementation on every run (the server ends up at the end of input or closes), but the theorems above are stated for complete inputs. *)

(* non-vacuity *)
Example C02_ex_stream_ignored_body :
  serve wit_cfg [mkReq 1 58 false false false (FFixed 10000) None None 0 false RNone FinNone;
                 mkReq 2 29 true false false FNone None None 0 false RNone FinNone] 0
  = [EParse 0; EDispatch 1 0 RcOk; EResp 200 false; EParse 10058; EDispatch 2 0 RcOk; EResp 200 false; EClose].
Proof. vm_compute. reflexivity. Qed.
Example C02_ex_too_big_closes :
  serve wit_cfg [mkReq 1 58 false false false (FFixed 40002) None None 0 false (RUpTo 100) FinNone;
                 mkReq 2 29 true false false FNone None None 0 false RNone FinNone] 0
  = [EParse 0; EDispatch 1 100 RcOk; EResp 200 true; EClose].
Proof. vm_compute. reflexivity. Qed.
Example C02_ex_rejected :
  serve (mkCfg true 20000 false true false true false)
        [mkReq 1 80 false false true (FFixed 64) None None 0 false RNone FinNone;
         mkReq 2 29 true false false FNone None None 0 false RNone FinNone] 0
  = [EParse 0; EResp 417 true; EClose].
Proof. vm_compute. reflexivity. Qed.
Example C02_ex_judge_rejects_smuggling :
  judge wit_cfg [wit_detach; mkReq 2 29 true false false FNone None None 0 false RNone FinNone]
        [EDispatch 1 0 RcOk; EResp 200 false; EDispatch 1000256 0 RcOk; EResp 200 false] = false.
Proof. vm_compute. reflexivity. Qed.
