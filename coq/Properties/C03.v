(* C03 — Server responses are framed exactly as the handler built them.  Statements only; proofs live in
   Proof/RespParseProof.v, Proof/RespWriteProof.v, Proof/RespWriteMain.v, Proof/RespWriteRefute.v.

   Vocabulary.
     hop / hrun / srv_init / srv_finish / respWrite / serve_one  the model (Model/RespWrite.v, Model/HeaderWrite.v)
     resp_parse / parse_seq    the independent HTTP/1.1 response reader (Spec/RespParse.v)
     want_of / want_data       status and body the handler program asked for, read off the calls (Spec/RespSpec.v)
     hop_wf        header names passed to Set/Add/SetCanonical are RFC 9110 tokens other than "Trailer", values are
                   bytes; no SetProtocol / SetTrailer / AddTrailer call (trailers: see C03_trailers below)
     guard m R     the response handed to Response.Write is consistent: SkipBody iff the request was HEAD, and a body
                   stream of known size still has its Content-Length line and no chunked marker
     stream_small  a body stream holds fewer than 16^15 bytes (writeHexInt's range for one chunk)
   The full statement of the property quantifies over ALL handler programs; it is FALSE of the faithful model outside
   guard: the `_refuted` theorems give the witnesses (findings/C03.txt), and the theorems are proved under
   exactly that guard. *)
From FH Require Import Model.Base Gen.GenC03 Model.HeaderWrite Spec.HeadLines Proof.HeaderWriteProof Model.RespWrite Spec.RespParse Spec.RespSpec
  Proof.RespParseProof Proof.RespWriteProof Proof.RespWriteMain Proof.RespWriteRefute Proof.RespWriteGuard Proof.RespWriteFields.
Open Scope N_scope.

(* The bytes written for one request, followed by ANY bytes `tail`, are read by the independent reader as exactly one
   response with the handler's status and body (no body for HEAD / 204 / 304), not delimited by the connection close,
   and the reader stops exactly at `tail`.
   _partial: programs with trailers (SetTrailer / AddTrailer / a header named Trailer) and SetProtocol are excluded by
   hop_wf.  Why trailers are not lifted here: with a non-empty h.trailer (a) AppendBytes drops from the head every h.h
   entry whose key is listed, so the invariant behind the framing theorems (Proof/RespWriteProof.v: inv, htrailer = [])
   must be replaced by "no listed name is Transfer-Encoding" — true only through isBadTrailer's 60-case table applied to
   the key BEFORE normalizeHeaderKeyValidated — and the user-field theorem below by "user fields not announced as
   trailers"; (b) the chunked body is followed by TrailerHeader(), whose values come from ResponseHeader.peek (nine
   special names read from their slots, Set-Cookie joined, the rest the first h.h value) and need their own CR/LF-freeness
   and token-name proofs before Spec/RespParse.parse_fields can be shown to read them back; (c) with a fixed-size body the
   announced fields are written nowhere.  The model has all of it (RespTrailerHeader, resp_h_keep) and the harness
   compares trailer programs byte for byte with the real server; only the theorems stop at htrailer = [].
   Header-field fidelity ("those header fields") is the subject of C03_header_fields_carried below. *)
Theorem C03_exactly_one_response_partial : forall smsg date, nc smsg -> nc date ->
  forall c q m prog tail wire cl,
  Forall hop_wf prog -> q_head q = is_head m ->
  guard m (finished c q prog) -> stream_small (finished c q prog) ->
  status_in_scope (w_status (want_of prog)) = true ->
  serve_one smsg date c q prog = (wire, WrOk, cl) ->
  exists p, resp_parse m (wire ++ tail) = Some p /\
    p_status p = w_status (want_of prog) /\
    p_body p = (if bodyless m (w_status (want_of prog)) then [] else want_data (want_of prog)) /\
    p_trailers p = [] /\ p_rest p = tail /\ p_until_close p = false.
Proof. exact exactly_one_response. Qed.
Print Assumptions C03_exactly_one_response_partial.

(* A syntactic class for which the guard always holds (hop_ok = hop_wf, and: no SkipBody call; no status code 1xx / 204 /
   304 anywhere in the program, also not in ctx.Error; Content-Length is only managed by SetContentLength / SetBodyStream /
   the body setters: no Set / Add / SetCanonical / Del of a header named Content-Length; Del only of token names).
   For every program of the class, every server configuration, request method / version / Connection option: *)
Theorem C03_guard_of_class : forall c q m prog, Forall hop_ok prog -> q_head q = is_head m -> guard m (finished c q prog).
Proof. exact guard_of_class. Qed.
Print Assumptions C03_guard_of_class.

Theorem C03_exactly_one_response_class_partial : forall smsg date, nc smsg -> nc date ->
  forall c q m prog tail wire cl,
  Forall hop_ok prog -> q_head q = is_head m -> stream_small (finished c q prog) ->
  status_in_scope (w_status (want_of prog)) = true ->
  serve_one smsg date c q prog = (wire, WrOk, cl) ->
  exists p, resp_parse m (wire ++ tail) = Some p /\
    p_status p = w_status (want_of prog) /\
    p_body p = (if bodyless m (w_status (want_of prog)) then [] else want_data (want_of prog)) /\
    p_trailers p = [] /\ p_rest p = tail /\ p_until_close p = false.
Proof.
  intros smsg date Hs Hd c q m prog tail wire cl Hok Hq Hsm Hsc E.
  assert (Hwf : Forall hop_wf prog) by (apply Forall_forall; intros o Ho; rewrite Forall_forall in Hok; exact (proj1 (Hok o Ho))).
  exact (exactly_one_response smsg date Hs Hd c q m prog tail wire cl Hwf Hq (guard_of_class c q m prog Hok Hq) Hsm Hsc E).
Qed.
Print Assumptions C03_exactly_one_response_class_partial.

(* The statuses for which fasthttp writes neither Content-Length nor body are tied to the source: mscl_ints (Gen/GenC03.v,
   regenerated on every run) lists the integer constants of ResponseHeader.mustSkipContentLength; the model's function is
   that list read as "< a or == b: no; == c or == d or < e: yes", and for every status >= 100 this is exactly RFC 9112's
   body-less set (1xx, 204, 304), the one the independent reader uses.  A status added to or removed from the Go
   function changes the list and breaks these two theorems and everything proved from them. *)
Theorem C03_bodyless_statuses_from_source : forall r, mscl_of mscl_ints (RStatusCode r) = Some (mustSkipContentLength r).
Proof. exact mustSkip_from_source. Qed.
Print Assumptions C03_bodyless_statuses_from_source.
Theorem C03_bodyless_statuses_are_rfc : forall r, (100 <= RStatusCode r)%Z -> mustSkipContentLength r = no_body_status (RStatusCode r).
Proof. exact mustSkip_rfc. Qed.
Print Assumptions C03_bodyless_statuses_are_rfc.

(* Header-field fidelity, stated on what the INDEPENDENT reader reports (p_fields of Spec/RespParse.resp_parse), not on the
   writer: for every well-formed handler program, server configuration and request, whenever the reader accepts the
   written bytes (followed by any bytes):
     * the user header fields it reports — every field whose name is not one of special_names (Server, Date,
       Content-Type, Content-Encoding, Content-Length, Transfer-Encoding, Trailer, Set-Cookie, Connection: the names the
       library adds or keeps in slots of its own) — are exactly the user entries of the handler's final Response
       (ctx.Response.Header.h after the last call of the program): the same names, the same values up to surrounding
       blanks (which field-value syntax does not carry), in the same order;
     * every other reported field bears one of those special names.
   No guard is needed (the fields do not depend on the body framing).  The link from the handler's Set/Add/Del calls to
   the final h.h is the header-map semantics of C29 (Spec/HeaderSpec.v); prop_ok judges exactly that composition on the
   real server's bytes (Spec/RespSpec.fields_ok).
   _partial in one respect only: as everywhere in this file, programs with trailers / SetProtocol are outside hop_wf. *)
Theorem C03_header_fields_carried_partial : forall smsg date, nc smsg -> nc date ->
  forall c q m prog wire res cl tail p,
  Forall hop_wf prog -> (100 <= w_status (want_of prog) <= 999)%Z ->
  serve_one smsg date c q prog = (wire, res, cl) ->
  resp_parse m (wire ++ tail) = Some p ->
  user_of (p_fields p) = trimmed (user_of (hh (rh (r_hd (hrun (srv_init c) prog))))) /\
  Forall (fun f => is_user (fst f) = true \/ exists n, In n special_names /\ name_is n (fst f) = true) (p_fields p).
Proof. exact header_fields_carried. Qed.
Print Assumptions C03_header_fields_carried_partial.

(* together with C03_exactly_one_response_partial: the one response the reader finds carries status, user fields and body *)
Theorem C03_one_response_with_fields_partial : forall smsg date, nc smsg -> nc date ->
  forall c q m prog tail wire cl,
  Forall hop_wf prog -> q_head q = is_head m ->
  guard m (finished c q prog) -> stream_small (finished c q prog) ->
  status_in_scope (w_status (want_of prog)) = true ->
  serve_one smsg date c q prog = (wire, WrOk, cl) ->
  exists p, resp_parse m (wire ++ tail) = Some p /\
    p_status p = w_status (want_of prog) /\
    user_of (p_fields p) = trimmed (user_of (hh (rh (r_hd (hrun (srv_init c) prog))))) /\
    p_body p = (if bodyless m (w_status (want_of prog)) then [] else want_data (want_of prog)) /\
    p_rest p = tail.
Proof.
  intros smsg date Hs Hd c q m prog tail wire cl Hw Hq Hg Hsm Hsc E.
  destruct (exactly_one_response smsg date Hs Hd c q m prog tail wire cl Hw Hq Hg Hsm Hsc E) as (p & Ep & A1 & A2 & _ & A4 & _).
  assert (Hst : (100 <= w_status (want_of prog) <= 999)%Z).
  { unfold status_in_scope in Hsc. apply andb_true_iff in Hsc as [H1 H2]. apply Z.leb_le in H1. apply Z.leb_le in H2. split; [|exact H2].
    apply Z.le_trans with 200%Z; [discriminate|exact H1]. }
  destruct (header_fields_carried smsg date Hs Hd c q m prog wire WrOk cl tail p Hw Hst E Ep) as [F _].
  exists p. repeat split; assumption.
Qed.
Print Assumptions C03_one_response_with_fields_partial.

(* the same at the level of Response.Write, for every consistent Response state (not only reachable ones) *)
Theorem C03_write_parses : forall smsg date, nc smsg -> nc date ->
  forall m R wire tail,
  Rinv R -> guard m R -> in_scope (r_hd R) -> stream_small R ->
  respWrite smsg date R = (wire, WrOk) ->
  exists p, resp_parse m (wire ++ tail) = Some p /\
    p_status p = RStatusCode (r_hd R) /\
    p_body p = (if bodyless m (RStatusCode (r_hd R)) then [] else final_body R) /\
    p_trailers p = [] /\ p_rest p = tail /\ p_until_close p = false.
Proof. exact write_parses. Qed.
Print Assumptions C03_write_parses.

(* HEAD requests and 204 / 304 statuses: the wire is the head and nothing else *)
Theorem C03_no_body_for_head_204_304 : forall smsg date, nc smsg -> nc date ->
  forall c q m prog wire cl,
  Forall hop_wf prog -> q_head q = is_head m ->
  guard m (finished c q prog) -> stream_small (finished c q prog) ->
  status_in_scope (w_status (want_of prog)) = true ->
  bodyless m (w_status (want_of prog)) = true ->
  serve_one smsg date c q prog = (wire, WrOk, cl) ->
  exists p, resp_parse m wire = Some p /\ p_status p = w_status (want_of prog) /\ p_body p = [] /\ p_rest p = [] /\
            p_until_close p = false.
Proof. exact no_body_for_head_204_304. Qed.
Print Assumptions C03_no_body_for_head_204_304.

(* the next response on the connection starts exactly where this one ends *)
Theorem C03_next_response_starts_at_end : forall date smsg1 smsg2 c q1 q2 m1 m2 prog1 prog2 w1 w2 cl1 cl2,
  nc date -> nc smsg1 -> nc smsg2 ->
  Forall hop_wf prog1 -> Forall hop_wf prog2 ->
  q_head q1 = is_head m1 -> q_head q2 = is_head m2 ->
  guard m1 (finished c q1 prog1) -> guard m2 (finished c q2 prog2) ->
  stream_small (finished c q1 prog1) -> stream_small (finished c q2 prog2) ->
  status_in_scope (w_status (want_of prog1)) = true -> status_in_scope (w_status (want_of prog2)) = true ->
  serve_one smsg1 date c q1 prog1 = (w1, WrOk, cl1) -> serve_one smsg2 date c q2 prog2 = (w2, WrOk, cl2) ->
  exists p1 p2, parse_seq [m1; m2] (w1 ++ w2) = Some [p1; p2] /\
    p_status p1 = w_status (want_of prog1) /\ p_status p2 = w_status (want_of prog2) /\
    p_body p1 = (if bodyless m1 (w_status (want_of prog1)) then [] else want_data (want_of prog1)) /\
    p_body p2 = (if bodyless m2 (w_status (want_of prog2)) then [] else want_data (want_of prog2)) /\
    p_rest p1 = w2 /\ p_rest p2 = [].
Proof. exact next_response_starts_at_end. Qed.
Print Assumptions C03_next_response_starts_at_end.

(* a body stream read through Read that yields a different number of bytes than the size declared for it: Write
   hands at most the declared size to the connection (a prefix of the stream) and fails ... *)
Theorem C03_stream_size_mismatch : forall smsg date R s n,
  r_stream R = Some s -> st_kind s = SKReader -> hcl (rh (r_hd R)) = n -> (0 <= n)%Z -> blen (st_data s) <> n ->
  exists b, respWrite smsg date R = (head_of smsg date (r_hd R) ++ (if sendBody R then b else []), if sendBody R then WrErr else WrOk) /\
            (blen b <= n)%Z /\ b = firstn (length b) (st_data s).
Proof. exact stream_size_mismatch. Qed.
Print Assumptions C03_stream_size_mismatch.
(* ... and a failed Write closes the connection *)
Theorem C03_failed_write_closes : forall smsg date c q prog wire cl,
  serve_one smsg date c q prog = (wire, WrErr, cl) -> cl = true.
Proof. intros smsg date c q prog wire cl H. destruct (serve_one_write smsg date c q prog wire WrErr cl H) as [_ E]. now apply E. Qed.
Print Assumptions C03_failed_write_closes.

(* ---- where the full statement fails (findings/C03.txt) ---- *)
(* key=stream-writerto-oversize: an io.WriterTo stream copies itself unlimited: 20 body bytes after "Content-Length: 5" *)
Theorem C03_stream_size_mismatch_writerto_refuted :
  exists wire, serve_one ok d0 cfg0 q_get prog_writerto_oversize = (wire, WrErr, true) /\
    option_map (fun x => match x with (st, fs, after) => (st, values_of "content-length" fs, length after) end) (head_parse wire)
      = Some (200%Z, [s2b "5"], 20%nat).
Proof. exact refuted_writerto_oversize. Qed.
(* key=skipbody-on-non-head: "Content-Length: 5" and no body; the connection is closed after it (since /repo a4aa200;
   before, the reader took "HTTP/" of the next response as the body): the response is truncated, not mis-framed *)
Theorem C03_exactly_one_response_refuted_skipbody :
  Forall hop_wf prog_skipbody /\ w_status (want_of prog_skipbody) = 200%Z /\
  exists wire, serve_one ok d0 cfg0 q_get prog_skipbody = (wire, WrOk, true) /\
    values_of "content-length" (match head_parse wire with Some (_, fs, _) => fs | None => [] end) = [s2b "5"] /\
    match head_parse wire with Some (_, _, after) => after | None => [1] end = [] /\
    resp_parse MGet wire = None.
Proof. exact refuted_skipbody. Qed.
(* key=stream-length-header-lost: no length, no chunking, no close: the next response is read as this body *)
Theorem C03_exactly_one_response_refuted_length_lost :
  Forall hop_wf prog_length_lost /\ w_status (want_of prog_length_lost) = 200%Z /\
  exists wire, serve_one ok d0 cfg0 q_get prog_length_lost = (wire, WrOk, false) /\
    option_map (fun p => (p_until_close p, beq (p_body p) second_wire)) (resp_parse MGet (wire ++ second_wire)) = Some (true, true).
Proof. exact refuted_length_lost. Qed.
(* ---- former findings, repaired in /repo (6f630cd, 8762a11): now instances of the theorems ---- *)
Example C03_ex_manual_cl_fixed :
  Forall hop_wf prog_manual_cl /\ guard MGet (finished cfg0 q_get prog_manual_cl) /\
  exists wire, serve_one ok d0 cfg0 q_get prog_manual_cl = (wire, WrOk, false) /\
    values_of "transfer-encoding" (match head_parse wire with Some (_, fs, _) => fs | None => [] end) = [] /\
    option_map (fun p => (p_body p, p_rest p)) (resp_parse MGet wire) = Some (s2b "hello", []).
Proof. exact fixed_manual_cl. Qed.
Example C03_ex_raw_append_fixed :
  want_data (want_of prog_raw_append) = s2b "XYZd" /\
  exists wire, serve_one ok d0 cfg0 q_get prog_raw_append = (wire, WrOk, false) /\
    option_map p_body (resp_parse MGet wire) = Some (s2b "XYZd").
Proof. exact fixed_raw_append. Qed.

(* ---- non-vacuity: the guard holds for ordinary programs, and the theorem's conclusion is what one expects ---- *)
Definition ex_prog : list hop :=
  [HHdr (ROSetStatusCode 201); HHdr (ROSet (s2b "X-Foo") (s2b "bar")); HSetBody (s2b "hel"); HAppendBody (s2b "lo")].
Example C03_ex_plain :
  Forall hop_wf ex_prog /\ guard MGet (finished cfg0 q_get ex_prog) /\
  option_map (fun p => (p_status p, p_body p, p_rest p)) (resp_parse MGet (fst (fst (serve_one (s2b "Created") d0 cfg0 q_get ex_prog)) ++ s2b "NEXT"))
    = Some (201%Z, s2b "hello", s2b "NEXT").
Proof.
  split; [repeat constructor; cbn [hop_wf rop_wf]; repeat split; try reflexivity; repeat constructor|].
  split; [split; [reflexivity|intros s E; discriminate E]|]. vm_compute. reflexivity.
Qed.
Definition ex_chunked : list hop := [HSetBodyStream (-1) (mkStream SKReader [s2b "abc"; s2b "defg"] false false)].
Example C03_ex_chunked :
  guard MGet (finished cfg0 q_get ex_chunked) /\
  fst (fst (serve_one ok d0 cfg0 q_get ex_chunked)) =
    s2b "HTTP/1.1 200 OK" ++ [13;10] ++ s2b "Server: fasthttp" ++ [13;10] ++ s2b "Date: Thu, 01 Jan 1970 00:00:00 GMT" ++ [13;10] ++
    s2b "Content-Type: text/plain; charset=utf-8" ++ [13;10] ++ s2b "Transfer-Encoding: chunked" ++ [13;10;13;10] ++
    s2b "3" ++ [13;10] ++ s2b "abc" ++ [13;10] ++ s2b "4" ++ [13;10] ++ s2b "defg" ++ [13;10] ++ s2b "0" ++ [13;10;13;10] /\
  option_map p_body (resp_parse MHead (fst (fst (serve_one ok d0 cfg0 (mkRq true true false) ex_chunked)))) = Some [].
Proof.
  split; [split; [reflexivity|]|].
  - intros s E Hs Hc. exfalso. vm_compute in Hc. now apply Hc.
  - vm_compute. split; reflexivity.
Qed.

(* a stream whose Read returns its last bytes together with io.EOF (iotest.DataErrReader): nothing is lost *)
Definition ex_data_eof : list hop := [HSetBodyStream (-1) (mkStream SKReader [s2b "abc"; s2b "defg"] false true)].
Example C03_ex_data_with_eof :
  option_map (fun p => (p_body p, p_rest p)) (resp_parse MGet (fst (fst (serve_one ok d0 cfg0 q_get ex_data_eof)) ++ s2b "NEXT"))
    = Some (s2b "abcdefg", s2b "NEXT").
Proof. vm_compute. reflexivity. Qed.

(* the header-field oracle of prop_ok is not vacuous: a dropped, altered or reordered user field is rejected *)
Example C03_ex_fields_oracle :
  let prog := [HHdr (ROSet (s2b "x-foo") (s2b " bar")); HHdr (ROAdd (s2b "X-Foo") (s2b "baz")); HHdr (ROSet (s2b "ETag") (s2b "1")); HDel (s2b "etag")] in
  fields_ok false prog [(s2b "Server", s2b "s"); (s2b "X-Foo", s2b "bar"); (s2b "X-Foo", s2b "baz")] = true /\
  fields_ok false prog [(s2b "X-Foo", s2b "baz"); (s2b "X-Foo", s2b "bar")] = false /\
  fields_ok false prog [(s2b "X-Foo", s2b "bar")] = false /\
  fields_ok false prog [(s2b "X-Foo", s2b "bar"); (s2b "X-Foo", s2b "baz"); (s2b "Etag", s2b "1")] = false.
Proof. vm_compute. repeat split; reflexivity. Qed.
