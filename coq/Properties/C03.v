(* C03 — placeholder while the pipeline is brought up; theorems follow. *)
From FH Require Import Model.Base Model.RespWrite Spec.RespParse Spec.RespSpec.
Example C03_placeholder : True. Proof. exact I. Qed.
