(* C04 — placeholder while the pipeline is brought up *)
From FH Require Import Model.Base Model.ClientConn.
Example C04_placeholder : True.
Proof. exact I. Qed.
