(* C04 — Client calls return their own response, never another request's bytes.
   Statements only; proofs live in Proof/ClientConnProof.v.

   HostClient ([reach max s]): s is reachable from the empty pool by ANY interleaving, for any number of calls, connections and
   any server, of: AcquireConn (pooled or dialled) / req.Write / ReadLimitBody symbol by symbol (any caller options: HEAD,
   StreamBody, SkipBody, Connection: close) / errors and deadlines at any point / the deferred release of a streamed body (reads,
   premature EOF, CloseBodyStream, closeBodyStream(err)) / CloseConn | ReleaseConn / the cleaner, and of the server reading a
   request, producing ANY response, sending it at any speed, closing at any point.  Assumptions visible in the model: the
   server sends the wire form of its responses and nothing else ([wf_resp] in [srv_read]); a connection is lent to one call at a
   time (C18; structural here). *)
From FH Require Import Model.Base Model.ClientConn Spec.ClientConnSpec Proof.ClientConnProof.
Open Scope nat_scope.
Open Scope list_scope.

(* every connection in the idle pool has no unanswered request, no unread inbound symbol, and nothing still to arrive
   (nothing in flight, or the peer has closed) *)
Theorem C04_pooled_conn_is_clean : forall max s, reach max s -> pool_clean s.
Proof. exact pooled_clean. Qed.
Print Assumptions C04_pooled_conn_is_clean.

(* every successful call (incl. a streamed body at any moment, closed early or not) was given an initial part of the response
   the server produced for ITS OWN request, so every delivered symbol carries the call's own tag *)
Theorem C04_own_response : forall max s t o g,
  reach max s -> delivered s t = Some (o, g) -> response_of s t o g /\ all_own t g.
Proof. exact own_response. Qed.
Print Assumptions C04_own_response.

(* ... and all of it when the body was read in full (not streamed, not skipped, not an until-close body cut by the peer) *)
Theorem C04_own_response_complete : forall max s t x kept,
  reach max s -> s_thr s t = TDone x OOk kept ->
  o_stream (x_opts x) = false -> o_skip (x_opts x) = false ->
  exists r, s_ans s t = Some r /\ (h_fr (r_head r) <> FIdent -> x_got x = twire t (o_kind (x_opts x)) r).
Proof. exact own_response_complete. Qed.
Print Assumptions C04_own_response_complete.

(* The pooled bufio.Reader a response is read through belongs to its call from AcquireReader on, and - when RoundTrip returns a
   streamed body - to that body stream until the stream is closed (closeBodyStream): in every reachable state every call that
   is reading or has an open body stream has a reader, that reader is not in the reader pool, and no other call has it.  So
   whatever other calls do between Do returning and the body being read, they cannot Reset the reader a stream reads from. *)
Theorem C04_stream_owns_reader : forall max s, reach max s -> readers_owned s.
Proof. exact readers_owned_reach. Qed.
Print Assumptions C04_stream_owns_reader.

(* PipelineClient ([preach s]): any interleaving of callers enqueueing, the writer (deadline drop, write, push to chR, exit), the
   reader (pop, resp.Read symbol by symbol with SkipBody for HEAD, failure, exit), the worker (dial, teardown, drain) and the
   server (any delimited response per request, any speed, close at any point).  Caller timeouts do not touch the queues, so
   they are not steps: they cannot reorder anything.  Every item signalled with a nil error was given exactly the wire form of
   the response the server produced for its own request: the k-th response read is matched with the k-th request written. *)
Theorem C04_pipeline_fifo : forall s id kd g,
  preach s -> p_done s id = Some (kd, OOk, g) -> p_response_of s id kd g.
Proof. exact pipeline_own_response. Qed.
Print Assumptions C04_pipeline_fifo.

(* a HEAD response consumes its head and nothing else, whatever Content-Length it announces *)
Theorem C04_pipeline_head_no_body : forall s id g,
  preach s -> p_done s id = Some (KHead, OOk, g) -> exists h, g = [(id, SHead h)].
Proof. exact pipeline_head_no_body. Qed.
Print Assumptions C04_pipeline_head_no_body.

(* ---- non-vacuity ---------------------------------------------------------------------------------------------------------- *)
Definition r2 : resp := mkResp (mkHead (FLen 2) false false) [Some (mkHead (FLen 1) false false); None].
Definition r1 : resp := mkResp (mkHead (FLen 1) false false) [None].
Definition stream_get : opts := mkOpts KGet false true false.

(* a streamed body (limit 1 unit) closed after one unit, exactly where a crafted response starts: the connection is closed,
   the next call dials; a call that reads to the end puts its connection back and the next call re-uses it *)
Example C04_ex_early_close :
  match run (init 1) [LAcquire 0 stream_get None; LWrite 0 false None; LSrvRead (HeldBy 0) r2; LSrvSend (HeldBy 0); LSrvSend (HeldBy 0);
                      LSrvSend (HeldBy 0); LRead 0; LStreamRead 0; LCloseStream 0 false] with
  | Some s => (length (s_idle s), delivered s 0) = (0, Some (stream_get, [(0, SHead (r_head r2)); (0, SBody (Some (mkHead (FLen 1) false false)))]))
  | None => False
  end.
Proof. vm_compute. reflexivity. Qed.

Example C04_ex_read_to_end_reuse :
  match run (init 1) [LAcquire 0 stream_get None; LWrite 0 false None; LSrvRead (HeldBy 0) r2; LSrvSend (HeldBy 0); LSrvSend (HeldBy 0);
                      LSrvSend (HeldBy 0); LRead 0; LStreamRead 0; LStreamRead 0; LCloseStream 0 false;
                      LAcquire 1 plain_get (Some 0); LWrite 1 false None; LSrvRead (HeldBy 1) r1; LSrvSend (HeldBy 1); LSrvSend (HeldBy 1);
                      LRead 1; LRead 1] with
  | Some s => (map c_id (s_idle s), option_map snd (delivered s 1)) = ([0], Some (twire 1 KGet r1))
  | None => False
  end.
Proof. vm_compute. reflexivity. Qed.

(* GET with resp.SkipBody and a response that carries a (crafted) body: the body stays on the wire, so the connection is closed,
   not pooled (before the clause for skipped bodies was added to RoundTrip this history poisoned the pool) *)
Example C04_ex_skip_get_closes :
  match run (init 0) [LAcquire 0 skip_get None; LWrite 0 false None; LSrvRead (HeldBy 0) crafted_resp; LSrvSend (HeldBy 0); LRead 0] with
  | Some s => (length (s_idle s), s_thr s 0) = (0, TDone (mkCtx skip_get 0 false (Some (r_head crafted_resp)) [(0, SHead (r_head crafted_resp))] (Some 0)) OOk false)
  | None => False
  end.
Proof. vm_compute. reflexivity. Qed.

(* two overlapping streamed calls: the second one dials, takes a NEW reader (the pool is empty: reader 0 is still the first stream's),
   and each body is its own response; once stream 0 is closed its reader is back in the pool *)
Example C04_ex_overlap :
  match run (init 1) [LAcquire 0 stream_get None; LWrite 0 false None; LSrvRead (HeldBy 0) r2; LSrvSend (HeldBy 0); LSrvSend (HeldBy 0);
                      LSrvSend (HeldBy 0); LRead 0;
                      LAcquire 1 stream_get None; LWrite 1 false None; LSrvRead (HeldBy 1) r2; LSrvSend (HeldBy 1); LSrvSend (HeldBy 1);
                      LSrvSend (HeldBy 1); LRead 1;
                      LStreamRead 0; LStreamRead 0; LStreamRead 1; LStreamRead 1; LCloseStream 0 false] with
  | Some s => (option_map snd (delivered s 0), option_map snd (delivered s 1), holds_reader (s_thr s 1), s_rfree s) =
              (Some (twire 0 KGet r2), Some (twire 1 KGet r2), Some 1, [0])
  | None => False
  end.
Proof. vm_compute. reflexivity. Qed.

(* pipeline: GET and HEAD written back to back, answered in order; the HEAD answer announces 2 units and carries none *)
Example C04_ex_pipeline :
  match prun pinit [PCall KGet; PCall KHead; PCall KGet; PDial; PWPop false true; PWPush; PWPop false true; PWPush; PWPop false true; PWPush;
                    PSrvRead r2; PSrvRead r2; PSrvRead r2; PSrvSend; PSrvSend; PSrvSend; PSrvSend; PSrvSend; PSrvSend; PSrvSend;
                    PRPop; PRRead; PRRead; PRRead; PRPop; PRRead; PRPop; PRRead; PRRead; PRRead] with
  | Some s => (p_done s 0, p_done s 1, p_done s 2) =
              (Some (KGet, OOk, twire 0 KGet r2), Some (KHead, OOk, [(1, SHead (r_head r2))]), Some (KGet, OOk, twire 2 KGet r2))
  | None => False
  end.
Proof. vm_compute. reflexivity. Qed.
