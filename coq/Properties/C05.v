(* C05 — Setter inputs cannot inject header lines or extra messages.  Statements only. *)
From FH Require Import Model.Base Gen.GenC05 Model.ByteClassModel Model.Cookie Model.HeaderWrite Spec.HeadLines.
Open Scope N_scope.

Example C05_placeholder : True.
Proof. exact I. Qed.
