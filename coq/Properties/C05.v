(* C05 — Setter inputs cannot inject header lines or extra messages.
   Statements only; proofs live in Proof/HeaderWriteProof.v.

   The ENUMERATED setter list is the constructor list of HeaderWrite.rop (ResponseHeader) and HeaderWrite.qop
   (RequestHeader); props/C05.json maps every exported Set*/Add* method of RequestHeader / ResponseHeader /
   Request / Response to a constructor or to the "irrelevant" list, and the harness checks that mapping against the
   real API by reflection on every run.

   StatusMessage (status.go's keyed table) is a parameter: the theorems assume its answers are CR/LF-free, which
   the harness checks on the real function for every code in -5..1200. *)
From FH Require Import Model.Base Gen.GenC05 Model.ByteClassModel Model.Cookie Model.HeaderWrite Spec.HeadLines
  Model.ReqUri Proof.HeaderWriteProof Proof.ReqUriProof Check.C05Check.
From FH Require Model.Args.
Open Scope N_scope.

(* removeNewLines: no CR/LF in the result, length preserved, every other byte unchanged — for all byte strings *)
Theorem C05_removeNewLines_spec : forall s,
  no_crlf (removeNewLines s) = true /\ length (removeNewLines s) = length s /\
  forall i, nth i (removeNewLines s) 0 = if is_crlf (nth i s 0) then 32 else nth i s 0.
Proof. intros s. rewrite removeNewLines_neutralise. split; [apply neutralise_nc|]. split; [apply neutralise_length|apply neutralise_nth]. Qed.
Print Assumptions C05_removeNewLines_spec.

(* normalising key setters: the stored name is CR/LF-free and is the neutralised key up to ASCII case *)
Theorem C05_key_normalised : forall k disable,
  no_crlf (normalizeHeaderKey k disable) = true /\ map lower (normalizeHeaderKey k disable) = map lower (neutralise k).
Proof. intros. split; [apply normalizeHeaderKey_nc|apply normalizeHeaderKey_lower]. Qed.
Print Assumptions C05_key_normalised.

(* every enumerated setter keeps every stored byte string (keys, values, status message, protocol, method, URI, host,
   user agent, content type/encoding, server, Content-Length bytes, trailer names, cookies) CR/LF-free.
   Only SetCanonical has a precondition: its key is taken as is ("assuming that key is in canonical form") — the
   property speaks of header names "through the normalising setters". *)
Theorem C05_setters_sanitise :
  (forall r o, resp_clean r -> rop_pre o -> resp_clean (rstep r o)) /\
  (forall q o, req_clean q -> qop_pre o -> req_clean (qstep q o)) /\
  (forall ops, Forall rop_pre ops -> resp_clean (rrun ops)) /\
  (forall ops, Forall qop_pre ops -> req_clean (qrun ops)).
Proof. split; [exact rstep_clean|]. split; [exact qstep_clean|]. split; [exact rrun_clean|exact qrun_clean]. Qed.
Print Assumptions C05_setters_sanitise.

(* AppendBytes output = first line CRLF, then lines `key ": " value CRLF` with CR/LF-free key and value, then exactly
   one empty line (render_head); the first line has no CR/LF inside *)
Theorem C05_serialised_lines :
  (forall StatusMessage, (forall n, nc (StatusMessage n)) -> forall ops date, Forall rop_pre ops -> nc date ->
     let r := rrun ops in
     RespAppendBytes StatusMessage date r = render_head (resp_first StatusMessage r) (resp_entries date r) /\
     nc (resp_first StatusMessage r) /\ Forall (fun kv => nc (fst kv) /\ nc (snd kv)) (resp_entries date r)) /\
  (forall ops, Forall qop_pre ops ->
     let q := qrun ops in
     ReqAppendBytes [] q = render_head (req_first q) (req_entries q) /\
     nc (req_first q) /\ Forall (fun kv => nc (fst kv) /\ nc (snd kv)) (req_entries q)).
Proof.
  split.
  - intros SM HSM ops date Hp Hd r. destruct (resp_one_message SM HSM ops date [] Hp Hd) as (A & B & C & _). auto.
  - intros ops Hp q. destruct (req_one_message ops [] Hp) as (A & B & C & _). auto.
Qed.
Print Assumptions C05_serialised_lines.

(* what the independent line reader (Spec/HeadLines.read_head) sees in the serialised head followed by ANY bytes `body`:
   either it rejects everything (a caller-chosen header name was empty), or exactly one head — the first line written,
   CR/LF-free names and values, every name either one fasthttp writes itself or the part before the first colon of a
   case-variant of a neutralised key that was passed to a setter — and the bytes after the head are exactly `body`:
   no additional header, no second message, no moved boundary *)
Theorem C05_one_message :
  (forall StatusMessage, (forall n, nc (StatusMessage n)) -> forall ops date body, Forall rop_pre ops -> nc date ->
     peer_sees resp_auto (flat_map rop_keys ops) (resp_first StatusMessage (rrun ops)) body
       (read_head (RespAppendBytes StatusMessage date (rrun ops) ++ body))) /\
  (forall ops body, Forall qop_pre ops ->
     peer_sees req_auto (flat_map qop_keys ops) (req_first (qrun ops)) body
       (read_head (ReqAppendBytes [] (qrun ops) ++ body))).
Proof.
  split.
  - intros SM HSM ops date body Hp Hd. now destruct (resp_one_message SM HSM ops date body Hp Hd) as (_ & _ & _ & D).
  - intros ops body Hp. now destruct (req_one_message ops body Hp) as (_ & _ & _ & D).
Qed.
Print Assumptions C05_one_message.

(* rejection happens only for an empty name, and the reader sees exactly as many fields as lines were written *)
Theorem C05_no_extra_field : forall auto asked first es body,
  (forall n, In n auto -> cut_colon n = n) -> In strTransferEncoding auto ->
  nc first -> Forall (fun kv => nc (fst kv) /\ nc (snd kv)) es -> Forall (entry_ok auto asked) es ->
  (read_head (render_head first es ++ body) = None <-> Exists (fun e => cut_colon (fst e) = []) es) /\
  (forall f fs rest, read_head (render_head first es ++ body) = Some (Head f fs rest) -> length fs = length es).
Proof. intros. now destruct (peer_sees_render auto asked first es body) as (_ & A & B). Qed.
Print Assumptions C05_no_extra_field.

(* whole messages: Response.Write / Request.Write put the body right after the head they serialise; the peer's head ends
   where the body starts, and the Content-Length line carries the body length.  (Request.Write: host, request URI and
   userinfo come from the URI object — arbitrary byte strings here — and go through the sanitising setters.) *)
Theorem C05_body_boundary :
  (forall StatusMessage, (forall n, nc (StatusMessage n)) -> forall ops date skip body, Forall rop_pre ops -> nc date ->
     let '(r', out) := ResponseWrite StatusMessage date (rrun ops) skip body in
     let sent := if negb (skip || mustSkipContentLength (rrun ops)) then body else [] in
     out = render_head (resp_first StatusMessage r') (resp_entries date r') ++ sent /\
     peer_sees resp_auto (flat_map rop_keys ops) (resp_first StatusMessage r') sent (read_head out) /\
     (negb (skip || mustSkipContentLength (rrun ops)) = true ->
        In (strContentLength, Ints.dec_digits (Z.of_nat (length body))) (resp_entries date r'))) /\
  (forall ops parsed useHost uh uu user pass body q' out, Forall qop_pre ops ->
     RequestWrite (qrun ops) parsed useHost uh uu user pass body = Some (q', out) ->
     exists sent', (sent' = body \/ sent' = []) /\
       out = render_head (req_first q') (req_entries q') ++ sent' /\
       peer_sees req_auto (strAuthorization :: flat_map qop_keys ops) (req_first q') sent' (read_head out)).
Proof. split; [exact ResponseWrite_one_message|exact RequestWrite_one_message]. Qed.
Print Assumptions C05_body_boundary.

(* the URI object (req.URI()): Request.Write rebuilds the request line and Host from it.  Its setters store bytes
   verbatim — SetQueryString(Bytes) raw, SetPath(Bytes) raw in PathOriginal (sent as is under DisablePathNormalizing) —
   and URI.RequestURI() composes path + '?' + raw query string / encoded query args (Model/ReqUri.v).  Whatever the
   state of the object, i.e. after ANY sequence of URI setter calls with ANY byte strings and any normalizePath:
   the request line carries the NEUTRALISED RequestURI(), and the message is one message as in C05_body_boundary. *)
Theorem C05_uri_object : forall normalizePath ops parsed useHost u0 uops body q' out,
  Forall qop_pre ops ->
  let u := urun normalizePath u0 uops in
  RequestWriteU (qrun ops) parsed useHost u body = Some (q', out) ->
  (beq (QHost (qrun ops)) [] || parsed = true -> quri q' = neutralise (URequestURI u)) /\
  nc (req_first q') /\
  exists sent', (sent' = body \/ sent' = []) /\
    out = render_head (req_first q') (req_entries q') ++ sent' /\
    peer_sees req_auto (strAuthorization :: flat_map qop_keys ops) (req_first q') sent' (read_head out).
Proof. exact RequestWriteU_one_message. Qed.
Print Assumptions C05_uri_object.

(* and the rebuilt request line is exactly the sanitised input, for arbitrary URI-derived bytes *)
Theorem C05_request_line_sanitised : forall q parsed useHost uh uu user pass body q' out,
  RequestWrite q parsed useHost uh uu user pass body = Some (q', out) ->
  (beq (QHost q) [] || parsed = true -> quri q' = neutralise uu) /\
  (beq (QHost q) [] || parsed = false -> quri q' = quri q).
Proof. exact RequestWrite_request_line. Qed.
Print Assumptions C05_request_line_sanitised.

(* proxy CONNECT: refused exactly when the target has CR or LF; otherwise one head with Host (+ Proxy-Authorization) *)
Theorem C05_connect_target : forall addr auth body, nc auth ->
  match connectRequest addr auth with
  | None => nc addr -> False
  | Some out =>
      nc addr /\
      exists fs, read_head (out ++ body) = Some (Head (s2b "CONNECT " ++ addr ++ s2b " HTTP/1.1") fs body) /\
        map fst fs = s2b "Host" :: (match auth with [] => [] | _ => [s2b "Proxy-Authorization"] end) /\
        Forall (fun nv => nc (fst nv) /\ nc (snd nv)) fs
  end.
Proof. exact connect_one_message. Qed.
Print Assumptions C05_connect_target.

(* ---- non-vacuity and scope ---- *)
Definition D0 := s2b "Thu, 01 Jan 1970 00:00:00 GMT".
Definition SM (_ : Z) := s2b "OK".
Example C05_ex_injection_neutralised :
  RespAppendBytes SM D0 (rrun [ROSetNoDefaultDate true; ROSet (h "580d0a45") (h "610d0a4576696c3a2031"); ROSetStatusMessage (h "4f4b0d0a0d0a")])
  = s2b "HTTP/1.1 200 OK    " ++ [13; 10] ++ s2b "X  E: a  Evil: 1" ++ [13; 10; 13; 10].
Proof. vm_compute. reflexivity. Qed.
Example C05_ex_request :
  ReqAppendBytes [] (qrun [QOSetMethod (h "4745540d0a58"); QOSetHost (h "680d0a483a69"); QOSetCookie (h "61") (h "623b0d0a633d64")])
  = s2b "GET  X / HTTP/1.1" ++ [13; 10] ++ s2b "Host: h  H:i" ++ [13; 10] ++ s2b "Cookie: a=b   c=d" ++ [13; 10; 13; 10].
Proof. vm_compute. reflexivity. Qed.
(* the raw query string of the URI object reaches the request line only neutralised *)
Example C05_ex_uri_query :
  match RequestWriteU (qrun [QOSetRequestURI (s2b "http://example.com/p")]) true false
          (urun (fun p => p) (mkUriObj (s2b "example.com") (s2b "/p") (s2b "/p") [] Args.emptyArgs false false [] [])
             [UOSetQueryString (s2b "a=1 HTTP/1.1" ++ [13; 10] ++ s2b "X-Injected: yes")]) [] with
  | Some (_, out) => out = s2b "GET /p?a=1 HTTP/1.1  X-Injected: yes HTTP/1.1" ++ [13; 10] ++ s2b "Host: example.com" ++ [13; 10; 13; 10]
  | None => False
  end.
Proof. vm_compute. reflexivity. Qed.
(* scope: SetCanonical stores its key verbatim — a CR/LF in that key is outside the property ("normalising setters") *)
Example C05_scope_setcanonical_key :
  RespAppendBytes SM D0 (rrun [ROSetNoDefaultDate true; ROSetCanonical (h "580d0a593a7a") (h "76")])
  = s2b "HTTP/1.1 200 OK" ++ [13; 10] ++ s2b "X" ++ [13; 10] ++ s2b "Y:z: v" ++ [13; 10; 13; 10].
Proof. vm_compute. reflexivity. Qed.
(* the property oracle used on the implementation's bytes does reject an injected line, a bare LF, an injected
   second message and a moved body boundary *)
Example C05_ex_oracle_sensitive :
  prop_ok (CResp [ROSetNoDefaultDate true; ROSet (s2b "X") (s2b "a")] (s2b "OK")
            (s2b "HTTP/1.1 200 OK" ++ [13;10] ++ s2b "X: a" ++ [13;10] ++ s2b "Evil: 1" ++ [13;10;13;10]) [13;10] []) = false /\
  prop_ok (CResp [ROSetNoDefaultDate true; ROSet (s2b "X") (s2b "a")] (s2b "OK")
            (s2b "HTTP/1.1 200 OK" ++ [13;10] ++ s2b "X: a" ++ [10] ++ s2b "b" ++ [13;10;13;10]) [13;10] []) = false /\
  prop_ok (CResp [ROSetNoDefaultDate true; ROSet (s2b "X") (s2b "a")] (s2b "OK")
            (s2b "HTTP/1.1 200 OK" ++ [13;10] ++ s2b "X: a" ++ [13;10;13;10] ++ s2b "HTTP/1.1 200 OK" ++ [13;10;13;10]) [13;10] []) = false /\
  prop_ok (CResp [ROSetNoDefaultDate true; ROSet (s2b "X") (s2b "a")] (s2b "OK")
            (s2b "HTTP/1.1 200 OK" ++ [13;10] ++ s2b "X: a" ++ [13;10] ++ s2b "X: b" ++ [13;10;13;10]) [13;10] []) = false /\
  prop_ok (CResp [ROSetNoDefaultDate true; ROSet (s2b "X") (s2b "a")] (s2b "OK")
            (s2b "HTTP/1.1 200 OK" ++ [13;10] ++ s2b "X: a" ++ [13;10;13;10]) [13;10] []) = true.
Proof. vm_compute. repeat split; reflexivity. Qed.
