(* C06 — placeholder while the proofs are written. *)
From FH Require Import Model.Base Model.Cookie Spec.CookieSpec.
Example C06_placeholder : True. Proof. exact I. Qed.
