(* C06 — Cookie values cannot smuggle cookies or attributes; cookies round-trip.
   Statements only; proofs live in Proof/CookieProof.v.

   Cookie objects: state after ANY sequence of setter calls (crun, normalizePath an arbitrary function).
   Times are whole seconds; expire_ok = zero Time or year 0..9999 (the range C31 proves the date codec for);
   maxAge is a Go int (<= maxInt 64). *)
From FH Require Import Model.Base Gen.GenC06 Model.Ints Model.Cookie Spec.CookieSpec Proof.DateProof Proof.CookieProof Check.C06Check.
Open Scope N_scope.

(* no ';' CR LF survives in key, value, domain, path of a response cookie (any setter sequence incl. Reset and CopyTo from
   a cookie that is itself the product of setters — cop_ok —, any normalizePath),
   nor in a request cookie's key or value; the stored text is the input with separators turned into spaces *)
Theorem C06_setters_strip_separators :
  (forall normalizePath ops, Forall cop_ok ops -> let c := crun normalizePath ops in
     no_sep (ck_key c) = true /\ no_sep (ck_value c) = true /\ no_sep (ck_domain c) = true /\ no_sep (ck_path c) = true) /\
  (forall s, removeSemicolons (ByteClassModel.removeNewLines s) = clean s /\ no_sep (clean s) = true) /\
  (forall sets, jar_run sets = jar_of sets /\ Forall (fun kv => no_sep (fst kv) = true /\ no_sep (snd kv) = true) (jar_of sets)).
Proof.
  split; [intros np ops Hok; exact (crun_ns np ops Hok)|]. split; [intros s; split; [apply clean_model|apply clean_ns]|].
  intros sets. split; [apply jar_run_spec|apply jar_of_ns].
Qed.
Print Assumptions C06_setters_strip_separators.

(* (a) attribute non-injection: whenever the serialised cookie parses, the parsed attributes are exactly the ones the
   object carries (max-age wins over expires, negative max-age reads back as 0, domain/path up to outer blanks and one
   pair of quotes), whatever bytes key, value, domain and path were given *)
Theorem C06_no_attribute_injection : forall c c',
  cookie_ns c -> (ck_maxAge c <= maxInt 64)%Z -> expire_ok c ->
  ParseBytes (Cookie_ c) = PCookie c' -> attrs_as_set c c'.
Proof. exact no_attribute_injection. Qed.
Print Assumptions C06_no_attribute_injection.

Corollary C06_no_attribute_injection_setters : forall normalizePath ops c', Forall cop_ok ops ->
  let c := crun normalizePath ops in
  (ck_maxAge c <= maxInt 64)%Z -> expire_ok c -> ParseBytes (Cookie_ c) = PCookie c' -> attrs_as_set c c'.
Proof. intros np ops c' Hok c. apply no_attribute_injection. now apply crun_ns. Qed.
Print Assumptions C06_no_attribute_injection_setters.

(* the complete outcome of parsing what was serialised: the first pair, then each attribute group on its own; the only
   possible errors are "no cookie" and "invalid value" — never the unmodelled time.Parse fallback, never a max-age error *)
Theorem C06_parse_outcome : forall c, cookie_ns c -> (ck_maxAge c <= maxInt 64)%Z -> expire_ok c ->
  Cookie_ c = first_seg c ++ sj (attr_segs c) /\ ParseBytes (Cookie_ c) = parse_spec c.
Proof. intros c H1 H2 H3. split; [apply Cookie_shape|now apply ParseBytes_spec]. Qed.
Print Assumptions C06_parse_outcome.

(* (b) request side: what parseRequestCookies reads from the Cookie header built by any sequence of SetCookie calls is
   exactly the cookies that were set (last value per neutralised key, in first-insertion order), each read as its text
   key=value split at the first '=', minus those the server refuses: never more cookies than distinct keys, never a cookie
   that does not stem from one that was set *)
Theorem C06_request_no_extra_cookie : forall sets,
  parseRequestCookies [] (appendRequestCookieBytes [] (jar_run sets)) =
    Some (flat_map (fun kv => if keep (seen_pair kv) then [seen_pair kv] else []) (jar_of sets)) /\
  forall seen, parseRequestCookies [] (appendRequestCookieBytes [] (jar_run sets)) = Some seen ->
    (length seen <= length (jar_of sets))%nat /\ (length (jar_of sets) <= length sets)%nat /\ NoDup (map fst (jar_of sets)) /\
    (forall p, In p seen -> exists kv, In kv (jar_of sets) /\ p = seen_pair kv).
Proof. intros sets. split; [apply request_cookies_exact|apply request_no_extra_cookie]. Qed.
Print Assumptions C06_request_no_extra_cookie.

(* (b') the request jar under every operation of the API — SetCookie, DelCookie, DelAllCookies and raw Cookie header
   lines given to Set/Add: its content never holds a separator, the server reads exactly its pairs (as above), and
   without raw lines the keys are distinct and there are at most as many cookies as SetCookie calls *)
Theorem C06_request_jar_ops : forall ops,
  let j := jrun ops in
  Forall (fun kv => no_sep (fst kv) = true /\ no_sep (snd kv) = true) j /\
  parseRequestCookies [] (appendRequestCookieBytes [] j) =
    Some (flat_map (fun kv => if keep (seen_pair kv) then [seen_pair kv] else []) j) /\
  (Forall no_raw ops -> NoDup (map fst j) /\ (length j <= length (filter is_jset ops))%nat).
Proof. intros ops j. split; [apply jrun_ns|]. split; [apply request_jar_exact, jrun_ns|apply jrun_keys]. Qed.
Print Assumptions C06_request_jar_ops.

(* (a') the response jar under SetCookie / DelCookie / DelClientCookie / DelAllCookies: one entry per distinct key,
   each entry's value is verbatim the serialisation of a cookie that was given to SetCookie (or the deletion cookie), so
   C06_no_attribute_injection applies to every Set-Cookie line; never more entries than cookies given *)
Theorem C06_response_jar : forall ops, Forall rjop_ok ops ->
  Forall (fun kv => exists c, In c (rj_cookies ops) /\ cookie_ns c /\ snd kv = Cookie_ c) (rjrun ops) /\
  NoDup (map fst (rjrun ops)) /\ (length (rjrun ops) <= length (rj_cookies ops))%nat.
Proof. exact rjrun_entries. Qed.
Print Assumptions C06_response_jar.

(* (c) exact round trip for cookie-octet values/domains and token keys (expiry to the second) *)
Theorem C06_roundtrip_octets :
  (forall c, cookie_name (ck_key c) = true -> octets (ck_value c) = true -> octets (ck_domain c) = true ->
     forallb path_byte (ck_path c) = true -> (0 <= ck_maxAge c <= maxInt 64 \/ ck_maxAge c < 0)%Z -> expire_ok c ->
     exists c', ParseBytes (Cookie_ c) = PCookie c' /\
       ck_key c' = ck_key c /\ ck_value c' = ck_value c /\ ck_domain c' = ck_domain c /\ ck_path c' = attr_norm (ck_path c) /\
       attrs_as_set c c') /\
  (forall sets, Forall (fun kv => cookie_name (fst kv) = true /\ octets (snd kv) = true) sets ->
     parseRequestCookies [] (appendRequestCookieBytes [] (jar_run sets)) = Some (jar_of sets) /\
     jar_of sets = fold_left (fun j kv => assoc_set j (fst kv) (snd kv)) sets []).
Proof. split; [exact roundtrip_octets|exact request_roundtrip_octets]. Qed.
Print Assumptions C06_roundtrip_octets.

(* ---- non-vacuity ---- *)
Definition idp (p : bytes) := p.
Example C06_ex_smuggle_neutralised :
  Cookie_ (crun idp [OKey (s2b "sid"); OValue (s2b "x; Secure; Domain=evil.com"); OPath (s2b "/a;b"); OHTTPOnly true])
  = s2b "sid=x  Secure  Domain=evil.com; path=/a b; HttpOnly".
Proof. vm_compute. reflexivity. Qed.
Example C06_ex_parse_back :
  match ParseBytes (Cookie_ (crun idp [OKey (s2b "sid"); OValue (s2b "x; Secure"); OMaxAge (-5); OExpire 1257894000; OSameSite SSNone])) with
  | PCookie p => ck_secure p = true /\ ck_maxAge p = 0%Z /\ ck_expire p = zeroTime /\ ck_sameSite p = SSNone /\ ck_value p = s2b "x  Secure" /\ ck_domain p = []
  | _ => False
  end.
Proof. vm_compute. repeat split; reflexivity. Qed.
Example C06_ex_expiry_roundtrip :
  match ParseBytes (Cookie_ (crun idp [OKey (s2b "k"); OValue (s2b "v"); OExpire 1257894000])) with
  | PCookie p => ck_expire p = 1257894000%Z | _ => False end.
Proof. vm_compute. reflexivity. Qed.
Example C06_ex_request :
  appendRequestCookieBytes [] (jar_run [(s2b "a", s2b "b; c=d"); (s2b "e", s2b "f"); (s2b "a", s2b "g")]) = s2b "a=g; e=f" /\
  appendRequestCookieBytes [] (jar_run [(s2b "a", s2b "b; c=d")]) = s2b "a=b  c=d" /\
  parseRequestCookies [] (s2b "a=b  c=d") = Some [(s2b "a", s2b "b  c=d")].
Proof. vm_compute. repeat split; reflexivity. Qed.
(* the oracle rejects the pre-fix behaviour: one SetCookie, two cookies seen *)
Example C06_ex_oracle_sensitive :
  prop_ok (CReqCookies [(s2b "a", s2b "b; c=d")] (s2b "a=b; c=d") [(s2b "a", s2b "b"); (s2b "c", s2b "d")] None) = false /\
  prop_ok (CReqCookies [(s2b "a", s2b "b; c=d")] (s2b "a=b  c=d") [(s2b "a", s2b "b  c=d")] None) = true /\
  prop_ok (CCookie [] [] (mkCookie (s2b "k") (s2b "v") [] [] zeroTime 0 SSDisabled false false false) (s2b "k=v; secure")
             (Some (mkCookie (s2b "k") (s2b "v") [] [] zeroTime 0 SSDisabled false true false)) None) = false.
Proof. vm_compute. repeat split; reflexivity. Qed.
