(* C07 — Configured size limits bound what is buffered.
   Statements only; proofs live in Proof/BodyProof.v, Proof/SizeLimitsProof.v, Proof/SizeLimitsHeadProof.v. *)
From FH Require Import Model.Base Gen.GenC30 Gen.GenC34 Gen.GenC07 Model.Ints Model.Body Model.BodyWrite Model.SizeLimits
     Model.Lines Model.ReqHead Proof.BodyProof Proof.SizeLimitsProof Proof.SizeLimitsHeadProof.
Open Scope Z_scope.

(* With a positive limit L, for EVERY input (well-formed or not), every framing (cl >= 0 fixed,
   -1 chunked, otherwise identity) and, in identity mode, every split of the input into reads:
   a body that is returned has at most L bytes, and the body buffer is never asked to be longer
   than slack = max(L + 2, the buffer it started with [1024 when none]) — +2 because the CRLF
   behind a chunk is read into the buffer, +1 in identity mode. *)
Theorem C07_body_bounded_response : forall parseTr cl L cap0 rs b, L > 0 -> wf_bytes b ->
  (forall body rest p, respReadBody parseTr cl L cap0 rs b = BOk body rest p -> blen body <= L) /\
  bres_peak (respReadBody parseTr cl L cap0 rs b) <= Z.max (L + 2) (if cap0 <=? 0 then 1024 else cap0).
Proof. exact respReadBody_bounded. Qed.
Print Assumptions C07_body_bounded_response.

Theorem C07_body_bounded_request : forall parseTr cl L b, L > 0 -> wf_bytes b ->
  (forall body rest p, reqReadBody parseTr cl L b = BOk body rest p -> blen body <= L) /\
  bres_peak (reqReadBody parseTr cl L b) <= Z.max (L + 2) 1024.
Proof. exact reqReadBody_bounded. Qed.
Print Assumptions C07_body_bounded_request.

(* the sharper per-mode bounds *)
Theorem C07_fixed_exact : forall cl L b d r p, L > 0 -> readBody cl L [] b 0 = BOk d r p -> blen d = cl /\ cl <= L /\ p <= L.
Proof. exact readBody_bounded. Qed.
Print Assumptions C07_fixed_exact.
Theorem C07_chunked_bounded : forall L b, L > 0 -> wf_bytes b ->
  (forall d rest p, readBodyChunked L [] b = BOk d rest p -> blen d <= L) /\ bres_peak (readBodyChunked L [] b) <= L + 2.
Proof. exact readBodyChunked_bounded. Qed.
Print Assumptions C07_chunked_bounded.
Theorem C07_identity_exact : forall L cap0 rs b, L > 0 ->
  match readBodyIdentity L cap0 rs b with
  | BOk d r p => d = b /\ r = [] /\ blen b <= L /\ p <= Z.max (L + 1) (identityCap cap0)
  | BErr e d p => e = EBodyTooLarge /\ blen b > L /\ p <= Z.max (L + 1) (identityCap cap0)
  | BPanic | BOutOfFuel => False
  end.
Proof. exact readBodyIdentity_spec. Qed.
Print Assumptions C07_identity_exact.

(* A body whose framing announces more than L bytes is rejected with ErrBodyTooLarge, never
   returned truncated: fixed (any input), identity (any input, any read split), chunked (any
   encoding with any chunk split and chunk extensions). *)
Theorem C07_oversize_rejected_fixed : forall parseTr cl L cap0 rs b, L > 0 -> cl > L ->
  reqReadBody parseTr cl L b = BErr EBodyTooLarge [] 0 /\ respReadBody parseTr cl L cap0 rs b = BErr EBodyTooLarge [] 0.
Proof. exact oversize_fixed. Qed.
Print Assumptions C07_oversize_rejected_fixed.
Theorem C07_oversize_rejected_identity : forall parseTr cl L cap0 rs b, L > 0 -> cl < -1 -> blen b > L ->
  exists d p, respReadBody parseTr cl L cap0 rs b = BErr EBodyTooLarge d p.
Proof. exact oversize_identity. Qed.
Print Assumptions C07_oversize_rejected_identity.
Theorem C07_oversize_rejected_chunked : forall parseTr L cs elast rest, L > 0 -> L + 2 <= maxAlloc ->
  Forall chunk_good cs -> ext_good elast -> wf_bytes rest -> total cs > L ->
  exists d p, respReadBody parseTr (-1) L 0 [] (enc_chunks_ext cs elast ++ rest) = BErr EBodyTooLarge d p /\
              reqReadBody parseTr (-1) L (enc_chunks_ext cs elast ++ rest) = BErr EBodyTooLarge d p /\ blen d <= L.
Proof. exact oversize_chunked. Qed.
Print Assumptions C07_oversize_rejected_chunked.

(* Server: a non-positive MaxRequestBodySize means DefaultMaxRequestBodySize (4 MiB, from the
   source); the limit in force is always positive, also after the HeaderReceived hook. *)
Theorem C07_default_limit : forall cfg, cfg <= 0 ->
  serverMaxBody cfg = DefaultMaxRequestBodySize /\ serverMaxBody cfg = 4 * 1024 * 1024 /\ serverMaxBody cfg > 0.
Proof. exact default_limit. Qed.
Print Assumptions C07_default_limit.
Theorem C07_server_limit_positive : forall cfg rc,
  serverMaxBody cfg > 0 /\ (cfg > 0 -> serverMaxBody cfg = cfg) /\
  serverMaxBodyHook cfg rc > 0 /\ (rc <= 0 -> serverMaxBodyHook cfg rc = serverMaxBody cfg).
Proof. intros cfg rc. destruct (server_limit_positive cfg). destruct (hook_limit_positive cfg rc). tauto. Qed.
Print Assumptions C07_server_limit_positive.

(* Server: what reaches the handler is within the limit; an oversize body is answered with an
   error response (400), the connection is closed and the handler is not called. *)
Theorem C07_server_body_bounded : forall parseTr cfg cl b body rest, wf_bytes b ->
  serveReadBody parseTr cfg cl b = SDispatch body rest -> blen body <= serverMaxBody cfg.
Proof. exact serve_body_bounded. Qed.
Print Assumptions C07_server_body_bounded.
Theorem C07_server_oversize_fixed : forall parseTr cfg cl b, cl > serverMaxBody cfg ->
  serveReadBody parseTr cfg cl b = SAnswerClose StatusBadRequest.
Proof. exact serve_oversize_fixed. Qed.
Print Assumptions C07_server_oversize_fixed.
Theorem C07_server_oversize_chunked : forall parseTr cfg cs elast rest, serverMaxBody cfg + 2 <= maxAlloc ->
  Forall chunk_good cs -> ext_good elast -> wf_bytes rest -> total cs > serverMaxBody cfg ->
  serveReadBody parseTr cfg (-1) (enc_chunks_ext cs elast ++ rest) = SAnswerClose StatusBadRequest.
Proof. exact serve_oversize_chunked. Qed.
Print Assumptions C07_server_oversize_chunked.

(* Request.ContinueReadBody (Request.ReadLimitBody, the server, with or without Expect: 100-continue):
   the limit guard precedes the multipart pre-parse branch, so a Content-Length above the limit is
   ErrBodyTooLarge whatever the Content-Type and the pre-parse setting, and a pre-parsed form has
   at most L bytes; in the server: error response + close, no dispatch. *)
Theorem C07_multipart_preparse_oversize : forall parseTr preParse isForm formOk cl L b, L > 0 -> cl > L ->
  continueReadBody parseTr preParse isForm formOk cl L b = RQBody (BErr EBodyTooLarge [] 0).
Proof. exact continue_oversize. Qed.
Print Assumptions C07_multipart_preparse_oversize.
Theorem C07_multipart_preparse_bounded : forall parseTr preParse isForm formOk cl L b, L > 0 -> wf_bytes b ->
  match continueReadBody parseTr preParse isForm formOk cl L b with
  | RQBody (BOk body _ _) => blen body <= L
  | RQForm form _ => blen form <= L
  | _ => True
  end.
Proof. exact continue_bounded. Qed.
Print Assumptions C07_multipart_preparse_bounded.
Theorem C07_server_preparse_oversize : forall parseTr preParse isForm formOk cfg cl b, cl > serverMaxBody cfg ->
  serveContinueReadBody parseTr preParse isForm formOk cfg cl b = SAnswerClose StatusBadRequest.
Proof. exact serve_continue_oversize. Qed.
Print Assumptions C07_server_preparse_oversize.
Theorem C07_server_preparse_bounded : forall parseTr preParse isForm formOk cfg cl b body rest, wf_bytes b ->
  serveContinueReadBody parseTr preParse isForm formOk cfg cl b = SDispatch body rest -> blen body <= serverMaxBody cfg.
Proof. exact serve_continue_bounded. Qed.
Print Assumptions C07_server_preparse_bounded.

(* The *WithLimit decompression helpers, for EVERY stream a decoder may yield (and whether it
   ends cleanly or in an error): the result is the whole inflated data and has at most L bytes,
   or an error; more than L inflated bytes is always ErrBodyTooLarge; at most L + 1 bytes are
   ever appended to the buffer. *)
Theorem C07_withlimit_helpers : forall L inflated bad_end, L > 0 ->
  match withLimit L inflated bad_end with
  | (WLOk out, buffered) => out = inflated /\ blen out <= L /\ buffered <= L
  | (WLTooLarge, buffered) => blen inflated > L /\ buffered = L + 1
  | (WLErr, buffered) => bad_end = true /\ buffered <= L
  end.
Proof. exact withLimit_bounded. Qed.
Print Assumptions C07_withlimit_helpers.
Theorem C07_withlimit_oversize : forall L inflated bad_end, L > 0 -> blen inflated > L ->
  fst (withLimit L inflated bad_end) = WLTooLarge.
Proof. exact withLimit_oversize. Qed.
Print Assumptions C07_withlimit_oversize.

(* MultipartFormWithLimit: the multipart parser never sees more than L bytes (body in memory);
   the streamed variant pulls at most L + 1 bytes *)
Theorem C07_multipart_limit : forall L ce body inflated bad_end form, L > 0 ->
  multipartWithLimit L ce body inflated bad_end = MPParse form -> blen form <= L.
Proof. exact multipart_bounded. Qed.
Print Assumptions C07_multipart_limit.
Theorem C07_multipart_stream_budget : forall L, L > 0 -> multipartStreamBudget L = Some (L + 1).
Proof. exact multipart_stream_budget. Qed.
Print Assumptions C07_multipart_stream_budget.

(* A request head that does not complete within the ReadBufferSize bytes the reader can hold
   (the parse of the full buffer says "need more") is classified ErrSmallBuffer by
   RequestHeader.Read (Model/ReqHead.v) and answered with 431; writeErrorResponse always closes. *)
Theorem C07_big_head_431 : forall cfg bsize input final,
  let b := firstn bsize input in
  b <> [] -> (bsize <= length input)%nat -> req_head_parse cfg b = HNeedMore -> isOnlyCRLF b = false ->
  option_map writeErrorResponse (srv_err_of_head (req_read cfg bsize input final)) = Some (SAnswerClose 431).
Proof. exact big_head_431. Qed.
Print Assumptions C07_big_head_431.
Theorem C07_error_status :
  defaultErrorHandler SESmallBuffer = 431 /\ defaultErrorHandler SETimeout = 408 /\ defaultErrorHandler SEOther = 400
  /\ forall e, exists s, writeErrorResponse e = SAnswerClose s.
Proof. exact error_status. Qed.
Print Assumptions C07_error_status.

(* non-vacuity *)
Example C07_ex_reads :
  readBody 5 4 [] (s2b "hello") 0 = BErr EBodyTooLarge [] 0
  /\ readBody 5 5 [] (s2b "helloX") 0 = BOk (s2b "hello") (s2b "X") 5
  /\ readBodyIdentity 4 0 [1; 1; 9] (s2b "hello") = BErr EBodyTooLarge (s2b "hello") 1024
  /\ readBodyIdentity 5 3 [2] (s2b "hello") = BOk (s2b "hello") [] 6
  /\ readBodyChunked 4 [] (s2b "3" ++ [13;10]%N ++ s2b "abc" ++ [13;10]%N ++ s2b "fffffff" ++ [13;10]%N) = BErr EBodyTooLarge (s2b "abc") 5.
Proof. vm_compute. repeat split; reflexivity. Qed.
Example C07_ex_limits :
  serverMaxBody 0 = 4194304 /\ serverMaxBody (-7) = 4194304 /\ serverMaxBody 10 = 10
  /\ withLimit 3 (s2b "abc") false = (WLOk (s2b "abc"), 3) /\ withLimit 3 (s2b "abcd") true = (WLTooLarge, 4)
  /\ withLimit 3 (s2b "ab") true = (WLErr, 2).
Proof. vm_compute. repeat split; reflexivity. Qed.
