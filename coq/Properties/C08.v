(* C08 — Message parsers terminate, never panic and never over-read.  Statements only; proofs live in
   Proof/ScannerProof.v and Proof/HeadTotalProof.v.

   FULL STATEMENT of the property: for every parser P in {request read, response read (head, body, trailers),
   Set-Cookie, URI, query args, byte range, header parameters, multipart form}, every input and every positive
   body limit: P returns a result or an error, does not panic, terminates, and consumes no input beyond the
   message it returns.

   STATUS of the parser list (see the three sections of this file):
     head parsers (RequestHeader.parse + validate, ResponseHeader.parse and all they call) ... PROVED here, first
       section; the theorems keep the suffix _partial because each covers one family of the property's list.  In the
       models every Go index / slice expression is a checked accessor returning Panic and every search loop runs
       on fuel returning OutOfFuel; both are unreachable for ALL inputs and configurations, and an accepted head
       consumes exactly the head's own length by fasthttp's line rule.
     body readers and trailer framing ... PROVED, second section (Model/Body.v, owner m-c07-c34).
     VisitHeaderParams ... PROVED panic-free and terminating (Model/HeaderParams.v, explicit bounds checks).
     Args.ParseBytes, Cookie.ParseBytes, URI.Parse, ParseByteRange ... PROVED to terminate with a result or an error
       on the value-level models of C28 / C06 / C27+C26+C31 / C24 (no Panic constructor there: Go panics of these
       four are searched for by the fuzzing harness).
     multipart form ... harness only (the model stands for mime/multipart; see the third section's header). *)
From FH Require Import Model.Base Model.Lines Model.ReqHead Model.RespHead Spec.HeadSpec
  Proof.ScannerProof Proof.HeadTotalProof.
Open Scope nat_scope.

Theorem C08_req_head_total_partial : forall cfg input,
  req_head_parse cfg input <> HPanic /\ req_head_parse cfg input <> HOutOfFuel.
Proof. exact req_head_total. Qed.
Print Assumptions C08_req_head_total_partial.

Theorem C08_resp_head_total_partial : forall cfg input,
  resp_head_parse cfg input <> HPanic /\ resp_head_parse cfg input <> HOutOfFuel.
Proof. exact resp_head_total. Qed.
Print Assumptions C08_resp_head_total_partial.

(* an accepted head consumes exactly the shortest prefix of the input that is a head by the line rule:
   never more than the input, never past the head's blank line *)
Theorem C08_req_head_no_overread_partial : forall cfg input hd n,
  req_head_parse cfg input = HOk (hd, n) -> head_len input = Some n /\ n <= length input.
Proof. exact req_head_no_overread. Qed.
Print Assumptions C08_req_head_no_overread_partial.

Theorem C08_resp_head_no_overread_partial : forall cfg input hd n,
  resp_head_parse cfg input = HOk (hd, n) -> head_len input = Some n /\ n <= length input.
Proof. exact resp_head_no_overread. Qed.
Print Assumptions C08_resp_head_no_overread_partial.

(* the unguarded s.b[s.r] of headerScanner.skipSpace: at a position followed by an LF-terminated line it is
   in bounds and stops inside that line (P = bytes before s.r, l = the line, X = the rest) ... *)
Theorem C08_skipSpace_safe_partial : forall P l X,
  skipSpace (P ++ l ++ LF :: X) (length P) =
    Ok (length P + length (take_while is_sp_ht l), negb (length (take_while is_sp_ht l) =? 0)).
Proof. exact skipSpace_lines. Qed.
Print Assumptions C08_skipSpace_safe_partial.

(* ... and the scanner only calls it there: in a block that ends in LF CR LF — what scan_init hands over on both sides (tail_inv: the remaining lines
   end with the lone CR of the final CRLF) the continuation loop stops before the last line, so every
   skipSpace call has a line in front of it; scan_next as a whole returns Ok *)
Theorem C08_scan_next_safe_partial : forall P l rem,
  tail_inv (l :: rem) -> starts_spht l = false ->
  exists res, scan_next (P ++ join (l :: rem)) (length P) = Ok res.
Proof. exact scan_next_safe. Qed.
Print Assumptions C08_scan_next_safe_partial.

Theorem C08_block_is_lines_partial : forall q, exists ls, q ++ [LF; CR; LF] = join ls /\ tail_inv ls.
Proof. exact block_lines_lf. Qed.
Print Assumptions C08_block_is_lines_partial.

(* the value-level helpers called from the header loop are total as well *)
Theorem C08_SetTrailerBytes_total_partial : forall dn v, exists r, SetTrailerBytes dn v = Ok r.
Proof. exact SetTrailerBytes_total. Qed.
Print Assumptions C08_SetTrailerBytes_total_partial.

(* non-vacuity: the model does reach Panic when the invariant is broken (a block that does not end in a
   blank line), so the totality theorems are not true by construction of the accessors *)
Example C08_ex_panic_reachable :
  scan_next (s2b "A: b" ++ [LF]) 0 = Panic /\ skipSpace (s2b "  ") 0 = Panic /\ slice (s2b "abc") 2 5 = Panic.
Proof. vm_compute. repeat split; reflexivity. Qed.

Example C08_ex_heads :
  (exists hd, req_head_parse default_cfg (s2b "GET / HTTP/1.1" ++ [CR; LF] ++ s2b "Host: h" ++ [CR; LF; CR; LF] ++ s2b "BODY") = HOk (hd, 27)) /\
  req_head_parse default_cfg (s2b "GET / HTTP/1.1" ++ [CR; LF] ++ s2b "Host: h" ++ [CR; LF]) = HNeedMore /\
  req_head_parse default_cfg (s2b "GET / HTTP/1.1" ++ [CR; LF] ++ s2b "Host h" ++ [CR; LF; CR; LF]) = HErr EMissingColon.
Proof. vm_compute. repeat split; try reflexivity. eexists; reflexivity. Qed.

(* ====================================================================================================== *)
(* body readers (Model/Body.v) — section added by the owner of Model/Body.v (m-c07-c34); the theorems above
   are unchanged.  Proofs live in Proof/BodyProof.v and Proof/BodyTotalProof.v.

   Model/Body.v models readBody, appendBodyFixedSize, readBodyChunked, parseChunkSize (readHexInt, chunk
   extensions, readCrLf), readBodyIdentity, the framing part of ReadTrailer, and Request.ContinueReadBody+ReadBody
   / Response.ReadBody (reqReadBody / respReadBody) over "the unread input, then io.EOF".  Go panics are explicit:
   BPanic = make([]byte, n) above runtime.maxAlloc = 2^48 ("makeslice: len out of range"), a negative slice bound,
   or readBodyChunked's "BUG: expected zero-length buffer"; BOutOfFuel = the model's loop fuel ran out.
   These theorems are NOT _partial for the body readers: they hold for every framing (cl >= 0 fixed, -1 chunked
   incl. extensions and the trailer framing, anything else identity), every input of bytes, every split of an
   identity body into reads (rs) and every positive limit L with L + 2 <= maxAlloc.  The trailer FIELDS are parsed
   by parseTrailer (head-scanner territory): it is the parameter parseTr here, any function. *)
From FH Require Import Gen.GenC30 Gen.GenC34 Model.Ints Model.Body Model.BodyWrite Proof.BodyProof Proof.BodyTotalProof.
Open Scope Z_scope.

(* no panic, no non-termination *)
Theorem C08_body_total : forall parseTr cl L cap0 rs b, 0 < L -> L + 2 <= maxAlloc -> wf_bytes b ->
  respReadBody parseTr cl L cap0 rs b <> BPanic /\ respReadBody parseTr cl L cap0 rs b <> BOutOfFuel /\
  reqReadBody parseTr cl L b <> BPanic /\ reqReadBody parseTr cl L b <> BOutOfFuel.
Proof.
  intros parseTr cl L cap0 rs b HL Ha Hwf.
  pose proof (respReadBody_total parseTr cl L cap0 rs b HL Ha Hwf) as H1.
  pose proof (reqReadBody_total parseTr cl L b HL Ha Hwf) as H2. unfold bad in *. tauto.
Qed.
Print Assumptions C08_body_total.

(* no over-read.  When a body is returned, `rest` is a suffix of the input and what was consumed in front of it
   is exactly the framed body:
     fixed     b = body ++ rest with |body| = Content-Length;
     chunked   b = pre ++ tr ++ rest where `framed pre body` — pre is chunk-size lines as parseChunkSize accepts
               them, each followed by exactly that many data bytes and CRLF, up to and including the size-0
               line, body the concatenation of the data — and tr is the trailer section up to and including its
               terminating CRLF: the bare CRLF, or the k bytes parseTrailer consumed of the block that ends at
               the first CRLFCRLF;
     identity  the whole input (until the peer closes). *)
Theorem C08_body_no_overread_response : forall parseTr cl L cap0 rs b body rest pk, 0 < L -> wf_bytes b ->
  respReadBody parseTr cl L cap0 rs b = BOk body rest pk ->
  if cl >=? 0 then b = body ++ rest /\ blen body = cl
  else if cl =? -1 then
    exists pre tr, b = pre ++ tr ++ rest /\ framed pre body /\
                   (tr = strCRLF \/ exists blk k, parseTr blk = Some k /\ tr = btake k blk)
  else body = b /\ rest = [].
Proof. exact respReadBody_no_overread. Qed.
Print Assumptions C08_body_no_overread_response.

(* requests: the same, and no body at all is read without Content-Length / Transfer-Encoding (cl = -2) *)
Theorem C08_body_no_overread_request : forall parseTr cl L b body rest pk, 0 < L -> wf_bytes b ->
  reqReadBody parseTr cl L b = BOk body rest pk ->
  if cl =? -2 then body = [] /\ rest = b else consumed_exactly parseTr cl b body rest.
Proof. exact reqReadBody_no_overread. Qed.
Print Assumptions C08_body_no_overread_request.

(* the chunk-size line is delimited by its own bytes: parseChunkSize never looks behind its CRLF *)
Theorem C08_parseChunkSize_local : forall b n r, parseChunkSize b = PCOk n r ->
  exists hdr, b = hdr ++ r /\ forall r', parseChunkSize (hdr ++ r') = PCOk n r'.
Proof. exact parseChunkSize_local. Qed.
Print Assumptions C08_parseChunkSize_local.

(* the boundary fact: maxHexIntChars = 15 hex digits, so a chunk size is below 16^15 = 2^60 and
   len(dst) + chunkSize (+ 2 for the CRLF) cannot wrap a 64-bit int for any buffer Go can hold (< 2^62) *)
Theorem C08_chunk_size_cannot_wrap : forall b n r, wf_bytes b -> parseChunkSize b = PCOk n r ->
  0 <= n < 2 ^ 60 /\ forall dstlen, 0 <= dstlen < 2 ^ 62 -> dstlen + n + 2 < 2 ^ 63.
Proof.
  intros b n r Hwf E. pose proof (chunk_size_range b n r Hwf E) as H. split; [exact H|].
  intros dstlen Hd. change (2 ^ 62) with 4611686018427387904 in Hd. change (2 ^ 60) with 1152921504606846976 in H.
  change (2 ^ 63) with 9223372036854775808. Lia.lia.
Qed.
Print Assumptions C08_chunk_size_cannot_wrap.

Example C08_ex_chunk_size_boundary :
  maxHexIntChars64 = 15
  /\ parseChunkSize (s2b "fffffffffffffff" ++ [13; 10; 120]%N) = PCOk (2 ^ 60 - 1) [120%N]
  /\ parseChunkSize (s2b "1000000000000000" ++ [13; 10]%N) = PCErr ETooLargeHex
  /\ parseChunkSize (s2b "7fffffffffffffff" ++ [13; 10]%N) = PCErr ETooLargeHex
  (* with a limit the huge size is rejected before anything is allocated; without one the allocation panics *)
  /\ readBodyChunked 4096 [] (s2b "fffffffffffffff" ++ [13; 10; 120]%N) = BErr EBodyTooLarge [] 0
  /\ readBodyChunked 0 [] (s2b "fffffffffffffff" ++ [13; 10; 120]%N) = BPanic.
Proof. vm_compute. repeat split; reflexivity. Qed.

(* ====================================================================================================== *)
(* value parsers — the parsers of the property's list that other properties model.  Each theorem says
   "a result or an error, never the out-of-fuel artefact of the model" for EVERY byte string; proofs live in the
   owners' Proof files, Proof/C08Extra.v, Proof/C08ExtraUri.v and Proof/HeaderParamsProof.v.
   Panic-freedom is explicit only where the model has a Panic result (VisitHeaderParams, written for C08 with
   checked idx / slice); the models of C06 / C24 / C26 / C27 / C28 / C31 are value-level (firstn / skipn / pattern
   matching), so for them the theorems state termination with a result — Go panics of those parsers are searched
   for by the fuzzing harness.  Multipart: no theorem — Model/Multipart.v stands for the standard library's
   mime/multipart and its read_form returns a bare option in which "error" and "fuel exhausted" are the same None. *)
From FH Require Model.Args Model.Cookie Model.ByteRange Model.IPv6 Model.PathNorm Model.Uri Model.HeaderParams
  Proof.C08Extra Proof.C08ExtraUri Proof.HeaderParamsProof.

(* Args.ParseBytes (args.go; model of C28): always Some *)
Theorem C08_args_total : forall a input, exists a', Args.ParseBytes a input = Some a'.
Proof. exact C08Extra.args_total. Qed.
Print Assumptions C08_args_total.

(* Cookie.ParseBytes (cookie.go; model of C06): a cookie or one of the error classes, never POutOfFuel *)
Theorem C08_cookie_total : forall input, Cookie.ParseBytes input <> Cookie.POutOfFuel.
Proof. exact C08Extra.cookie_total. Qed.
Print Assumptions C08_cookie_total.

(* ParseByteRange (fs.go; model of C24, fuel-free): an error, or a range inside the resource *)
Theorem C08_byterange_total : forall input n, wf_bytes input ->
  ByteRange.ParseByteRange input n = ByteRange.BRErr \/
  exists s e, ByteRange.ParseByteRange input n = ByteRange.BROk s e /\ 0 <= s /\ s <= e /\ e < n.
Proof. exact C08Extra.byterange_total. Qed.
Print Assumptions C08_byterange_total.

(* URI.Parse (uri.go; model of C27 over PathNorm C26 and IPv6 C31): a URI or an error other than the IPv6
   validator's out-of-fuel artefact; the path normaliser inside never runs out of fuel *)
Theorem C08_uri_total : forall host uri, wf_bytes host -> wf_bytes uri ->
  (exists u, Uri.parse host uri = Uri.UOk u) \/
  (exists e, Uri.parse host uri = Uri.UErr e /\ e <> Uri.ErrIPv6 IPv6.V6OutOfFuel).
Proof. exact C08ExtraUri.uri_parse_total. Qed.
Print Assumptions C08_uri_total.

Theorem C08_uri_ipv6_total : forall host, wf_bytes host -> IPv6.validateIPv6Literal host <> IPv6.V6OutOfFuel.
Proof. exact C08Extra.ipv6_total. Qed.
Print Assumptions C08_uri_ipv6_total.

Theorem C08_uri_path_total : forall src, exists r, PathNorm.normalizePath_opt src = Some r.
Proof. exact C08Extra.normalizePath_total. Qed.
Print Assumptions C08_uri_path_total.

(* VisitHeaderParams (header.go; Model/HeaderParams.v, bounds checks explicit): never Panic, never OutOfFuel *)
Theorem C08_header_params_total : forall input, exists r, HeaderParams.VisitHeaderParams input = Ok r.
Proof. exact HeaderParamsProof.VisitHeaderParams_total. Qed.
Print Assumptions C08_header_params_total.

Example C08_ex_values :
  HeaderParams.VisitHeaderParams (s2b "a/b; k=v; q=0.5") = Ok [(s2b "k", s2b "v"); (s2b "q", s2b "0.5")]
  /\ HeaderParams.VisitHeaderParams (s2b "a; b=") = Ok []
  /\ ByteRange.ParseByteRange (s2b "bytes=2-5") 10 = ByteRange.BROk 2 5
  /\ ByteRange.ParseByteRange (s2b "bytes=5-") 3 = ByteRange.BRErr.
Proof. vm_compute. repeat split; reflexivity. Qed.
