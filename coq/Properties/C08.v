(* C08 — Message parsers terminate, never panic and never over-read.  Statements only; proofs live in
   Proof/ScannerProof.v and Proof/HeadTotalProof.v.

   FULL STATEMENT of the property: for every parser P in {request read, response read (head, body, trailers),
   Set-Cookie, URI, query args, byte range, header parameters, multipart form}, every input and every positive
   body limit: P returns a result or an error, does not panic, terminates, and consumes no input beyond the
   message it returns.

   What is PROVED here (hence the suffix _partial: the theorems cover the HEAD parsers only — RequestHeader.parse
   + validate and ResponseHeader.parse with everything they call: nextLine, readRawHeaders, the headerScanner,
   isValidHeaderKey, parseContentLength, SetTrailerBytes/isBadTrailer, ...).  In the models every Go index and
   slice expression is a checked accessor returning Panic, every search loop runs on fuel returning OutOfFuel;
   the theorems say these two results are unreachable for ALL inputs and configurations, and that an accepted
   head consumes exactly the head's own length by fasthttp's line rule.  The remaining parsers of the list
   (bodies, trailers, Cookie, URI, Args, ParseByteRange, VisitHeaderParams, multipart) are covered by the
   fuzzing harness only (search for panics / hangs / over-reads on the real code; see props/C08.json). *)
From FH Require Import Model.Base Model.Lines Model.ReqHead Model.RespHead Spec.HeadSpec
  Proof.ScannerProof Proof.HeadTotalProof.
Open Scope nat_scope.

Theorem C08_req_head_total_partial : forall cfg input,
  req_head_parse cfg input <> HPanic /\ req_head_parse cfg input <> HOutOfFuel.
Proof. exact req_head_total. Qed.
Print Assumptions C08_req_head_total_partial.

Theorem C08_resp_head_total_partial : forall cfg input,
  resp_head_parse cfg input <> HPanic /\ resp_head_parse cfg input <> HOutOfFuel.
Proof. exact resp_head_total. Qed.
Print Assumptions C08_resp_head_total_partial.

(* an accepted head consumes exactly the shortest prefix of the input that is a head by the line rule:
   never more than the input, never past the head's blank line *)
Theorem C08_req_head_no_overread_partial : forall cfg input hd n,
  req_head_parse cfg input = HOk (hd, n) -> head_len input = Some n /\ n <= length input.
Proof. exact req_head_no_overread. Qed.
Print Assumptions C08_req_head_no_overread_partial.

Theorem C08_resp_head_no_overread_partial : forall cfg input hd n,
  resp_head_parse cfg input = HOk (hd, n) -> head_len input = Some n /\ n <= length input.
Proof. exact resp_head_no_overread. Qed.
Print Assumptions C08_resp_head_no_overread_partial.

(* the unguarded s.b[s.r] of headerScanner.skipSpace: at a position followed by an LF-terminated line it is
   in bounds and stops inside that line (P = bytes before s.r, l = the line, X = the rest) ... *)
Theorem C08_skipSpace_safe_partial : forall P l X,
  skipSpace (P ++ l ++ LF :: X) (length P) =
    Ok (length P + length (take_while is_sp_ht l), negb (length (take_while is_sp_ht l) =? 0)).
Proof. exact skipSpace_lines. Qed.
Print Assumptions C08_skipSpace_safe_partial.

(* ... and the scanner only calls it there: in a block that ends in LF CR LF — what scan_init hands over on both sides (tail_inv: the remaining lines
   end with the lone CR of the final CRLF) the continuation loop stops before the last line, so every
   skipSpace call has a line in front of it; scan_next as a whole returns Ok *)
Theorem C08_scan_next_safe_partial : forall P l rem,
  tail_inv (l :: rem) -> starts_spht l = false ->
  exists res, scan_next (P ++ join (l :: rem)) (length P) = Ok res.
Proof. exact scan_next_safe. Qed.
Print Assumptions C08_scan_next_safe_partial.

Theorem C08_block_is_lines_partial : forall q, exists ls, q ++ [LF; CR; LF] = join ls /\ tail_inv ls.
Proof. exact block_lines_lf. Qed.
Print Assumptions C08_block_is_lines_partial.

(* the value-level helpers called from the header loop are total as well *)
Theorem C08_SetTrailerBytes_total_partial : forall dn v, exists r, SetTrailerBytes dn v = Ok r.
Proof. exact SetTrailerBytes_total. Qed.
Print Assumptions C08_SetTrailerBytes_total_partial.

(* non-vacuity: the model does reach Panic when the invariant is broken (a block that does not end in a
   blank line), so the totality theorems are not true by construction of the accessors *)
Example C08_ex_panic_reachable :
  scan_next (s2b "A: b" ++ [LF]) 0 = Panic /\ skipSpace (s2b "  ") 0 = Panic /\ slice (s2b "abc") 2 5 = Panic.
Proof. vm_compute. repeat split; reflexivity. Qed.

Example C08_ex_heads :
  (exists hd, req_head_parse default_cfg (s2b "GET / HTTP/1.1" ++ [CR; LF] ++ s2b "Host: h" ++ [CR; LF; CR; LF] ++ s2b "BODY") = HOk (hd, 27)) /\
  req_head_parse default_cfg (s2b "GET / HTTP/1.1" ++ [CR; LF] ++ s2b "Host: h" ++ [CR; LF]) = HNeedMore /\
  req_head_parse default_cfg (s2b "GET / HTTP/1.1" ++ [CR; LF] ++ s2b "Host h" ++ [CR; LF; CR; LF]) = HErr EMissingColon.
Proof. vm_compute. repeat split; try reflexivity. eexists; reflexivity. Qed.
