(* C09 — Head parsing is decided by the head's own bytes.  Statements only; proofs live in
   Proof/LinesProof.v, Proof/HeadLocalProof.v, Proof/ScannerProof.v, Proof/HeadTotalProof.v.

   Vocabulary:  req_head_parse / resp_head_parse (Model/ReqHead.v, Model/RespHead.v) model
   RequestHeader.parse+validate / ResponseHeader.parse over everything buffered; req_read / resp_read model
   Read over a bufio.Reader.  HeadComplete H (Spec/HeadSpec.v): by fasthttp's own line rule (LF with
   optional CR; a blank line ends the head) H is exactly one head.  crlf_terminated H: the header block
   after the first line is exactly CRLF, or ends in CRLF CRLF.

   FULL STATEMENT of the property:
     forall H S1 S2, HeadComplete H -> parse (H ++ S1) = parse (H ++ S2)      and
     forall H,       HeadComplete H -> parse H <> NeedMore.
   REQUEST side (since fix f7a0f16: RequestHeader.parseHeaders decides from the block readRawHeaders delimited):
   both are proved at FULL strength, no guard.
   RESPONSE side (ResponseHeader.parseHeaders still searches the whole buffer for CRLFCRLF): both are false
   (see the _refuted theorems, finding key=bareLF-blank-line-terminator); proved under the guard
   crlf_terminated H, and the guard is exact.  "consumed = |H|" holds on both sides with no guard. *)
From FH Require Import Model.Base Model.Lines Model.ReqHead Model.RespHead Spec.HeadSpec
  Proof.HeadLocalProof Proof.HeadTotalProof Proof.HeadIdleProof.
Open Scope nat_scope.

(* ---- requests: full strength ---- *)
Theorem C09_req_head_local : forall cfg H S1 S2,
  HeadComplete H -> req_head_parse cfg (H ++ S1) = req_head_parse cfg (H ++ S2).
Proof. exact req_head_local. Qed.
Print Assumptions C09_req_head_local.

Theorem C09_req_no_wait : forall cfg H, HeadComplete H -> req_head_parse cfg H <> HNeedMore.
Proof. exact req_no_wait. Qed.
Print Assumptions C09_req_no_wait.

(* the same at the level of Read over a bufio.Reader whose buffer holds the head: the result does not depend on
   what follows the head nor on how the source ends *)
Theorem C09_req_read_local : forall cfg bsize H S final final',
  HeadComplete H -> length H <= bsize ->
  req_read cfg bsize (H ++ S) final = req_read cfg bsize H final'.
Proof. exact req_read_local. Qed.
Print Assumptions C09_req_read_local.

(* ---- responses: under the guard ---- *)
Theorem C09_resp_head_local_guarded : forall cfg H S1 S2,
  HeadComplete H -> crlf_terminated H = true ->
  resp_head_parse cfg (H ++ S1) = resp_head_parse cfg (H ++ S2).
Proof. exact resp_head_local. Qed.
Print Assumptions C09_resp_head_local_guarded.

Theorem C09_resp_no_wait_guarded : forall cfg H,
  HeadComplete H -> crlf_terminated H = true -> resp_head_parse cfg H <> HNeedMore.
Proof. exact resp_no_wait. Qed.
Print Assumptions C09_resp_no_wait_guarded.

Theorem C09_resp_read_local_guarded : forall cfg bsize H S final final',
  HeadComplete H -> crlf_terminated H = true -> length H <= bsize ->
  resp_read cfg bsize (H ++ S) final = resp_read cfg bsize H final'.
Proof. exact resp_read_local. Qed.
Print Assumptions C09_resp_read_local_guarded.

(* ---- an accepted complete head consumes exactly |H| bytes: all heads, all continuations, no guard ---- *)
Theorem C09_req_consumed_is_head : forall cfg H S hd n,
  HeadComplete H -> req_head_parse cfg (H ++ S) = HOk (hd, n) -> n = length H.
Proof. exact req_consumed_is_head. Qed.
Print Assumptions C09_req_consumed_is_head.

Theorem C09_resp_consumed_is_head : forall cfg H S hd n,
  HeadComplete H -> resp_head_parse cfg (H ++ S) = HOk (hd, n) -> n = length H.
Proof. exact resp_consumed_is_head. Qed.
Print Assumptions C09_resp_consumed_is_head.

(* ---- "answered without waiting for further input", on the read loop itself ----
   req_read_idle / resp_read_idle (Model/ReqHead.v read_idle) model RequestHeader.readLoop / ResponseHeader.Read
   (n := 1, then r.Buffered() + 1; Peek; tryRead) over a DELIVERY SCHEDULE: the i-th Read on the connection returns
   the i-th chunk, after the last chunk the connection is idle and a Read would block for ever.  For every complete
   head, EVERY split of it into non-empty reads and every buffer that can hold it, the loop returns an answer
   (not NeedMore) after at most one Read per chunk — it never issues a Read on the idle connection. *)
Theorem C09_req_answered_without_extra_read : forall cfg bsize H chunks,
  HeadComplete H -> concat chunks = H -> all_nonempty chunks -> length H <= bsize ->
  exists r k, req_read_idle cfg bsize chunks = Answered r k /\ r <> TNeedMore /\ k <= length chunks.
Proof. exact req_read_idle_answers. Qed.
Print Assumptions C09_req_answered_without_extra_read.

Theorem C09_resp_answered_without_extra_read_guarded : forall cfg bsize H chunks,
  HeadComplete H -> crlf_terminated H = true -> concat chunks = H -> all_nonempty chunks -> length H <= bsize ->
  exists r k, resp_read_idle cfg bsize chunks = Answered r k /\ r <> TNeedMore /\ k <= length chunks.
Proof. exact resp_read_idle_answers. Qed.
Print Assumptions C09_resp_answered_without_extra_read_guarded.

(* outside the guard the response loop does park itself in a Read although the head is complete *)
Theorem C09_resp_answered_without_extra_read_refuted :
  exists H, HeadComplete H /\ resp_read_idle default_cfg 4096 [H] = AsksMore 1.
Proof. exact resp_read_idle_refuted. Qed.
Print Assumptions C09_resp_answered_without_extra_read_refuted.

(* ---- responses: the unguarded statements are FALSE of the code (finding key=bareLF-blank-line-terminator) ---- *)
Theorem C09_resp_head_local_refuted : exists H S1 S2,
  HeadComplete H /\ resp_head_parse default_cfg (H ++ S1) <> resp_head_parse default_cfg (H ++ S2).
Proof. exact resp_head_local_refuted. Qed.
Print Assumptions C09_resp_head_local_refuted.

Theorem C09_resp_no_wait_refuted : exists H, HeadComplete H /\ resp_head_parse default_cfg H = HNeedMore.
Proof. exact resp_no_wait_refuted. Qed.
Print Assumptions C09_resp_no_wait_refuted.

(* the response guard is exact: a complete head outside it is answered NeedMore, unless its first line is already
   rejected (and then it is rejected the same way whatever follows) *)
Theorem C09_resp_guard_exact : forall cfg H,
  HeadComplete H -> crlf_terminated H = false ->
  resp_head_parse cfg H = HNeedMore \/ exists e, forall S, resp_head_parse cfg (H ++ S) = HErr e.
Proof. exact resp_guard_exact. Qed.
Print Assumptions C09_resp_guard_exact.

(* ---- non-vacuity ---- *)
Definition crlf := [CR; LF].
(* a non-trivial head inside the guard: leading blank line, bare-LF request line, obs-fold, CRLF CRLF end *)
Definition ex_head : bytes :=
  crlf ++ s2b "POST /p?q=1 HTTP/1.1" ++ [LF] ++ s2b "Host: example.com" ++ crlf ++
  s2b "X-Long: a" ++ crlf ++ s2b "  b" ++ crlf ++ s2b "Content-Length: 5" ++ crlf ++ crlf.
Example C09_ex_head_nontrivial :
  HeadComplete ex_head /\ crlf_terminated ex_head = true /\
  (exists hd, req_head_parse default_cfg (ex_head ++ s2b "hello") = HOk (hd, length ex_head)
              /\ content_length hd = 5%Z /\ fields hd = [(s2b "X-Long", s2b "a b")] /\ host hd = s2b "example.com").
Proof. split; [vm_compute; reflexivity|]. split; [vm_compute; reflexivity|]. eexists. vm_compute. repeat split; reflexivity. Qed.

(* the former request-side witness is now rejected from its own bytes, whatever follows; a bare-LF line before a
   CRLF blank line is accepted; the response-side witness still waits *)
Example C09_ex_witness :
  HeadComplete bareLF_req /\
  req_head_parse default_cfg bareLF_req = HErr EBadBlockEnd /\
  req_head_parse default_cfg (bareLF_req ++ next_req) = HErr EBadBlockEnd /\
  (exists hd, req_head_parse default_cfg (s2b "GET / HTTP/1.1" ++ crlf ++ s2b "Host: h" ++ [LF] ++ crlf ++ crlf) = HOk (hd, 26)) /\
  HeadComplete bareLF_resp /\ crlf_terminated bareLF_resp = false /\
  resp_head_parse default_cfg bareLF_resp = HNeedMore /\
  (exists hd, resp_head_parse default_cfg (bareLF_resp ++ some_body) = HOk (hd, length bareLF_resp)).
Proof. vm_compute. repeat split; try reflexivity; eexists; reflexivity. Qed.

(* the last byte of the head delivered by its own Read: answered after 2 reads, no third Read attempted *)
Example C09_ex_last_byte_alone :
  let H := s2b "GET / HTTP/1.1" ++ crlf ++ s2b "Host: h" ++ crlf ++ crlf in
  exists hd, req_read_idle default_cfg 4096 [firstn 26 H; skipn 26 H] = Answered (TOk hd 27) 2.
Proof. eexists. vm_compute. reflexivity. Qed.
