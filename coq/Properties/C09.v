(* C09 — placeholder while the pipeline is brought up; theorems follow. *)
From FH Require Import Model.Base Model.Lines Model.ReqHead Model.RespHead Spec.HeadSpec.
Open Scope nat_scope.
Example C09_ex_witness :
  req_head_parse default_cfg (s2b "GET / HTTP/1.1" ++ [LF] ++ s2b "Host: h" ++ [LF; LF]) = HNeedMore.
Proof. vm_compute. reflexivity. Qed.
