(* C10 — Connection persistence matches the Connection header sent.  Statements only; proofs in
   Proof/ServeProof.v (serve loop) and Proof/ConnOptProof.v (Connection options).

   "After each response on a connection that is not hijacked, the server keeps the connection open exactly when
   that response does not carry `Connection: close`; it sends `Connection: close` and then closes whenever the
   request asked for close, the request is HTTP/1.0 without keep-alive, DisableKeepalive is set,
   MaxRequestsPerConn has been reached, the handler set it, or CloseOnShutdown applies during shutdown.
   HTTP/1.0 keep-alive responses carry `Connection: keep-alive`, and the client never reuses a connection whose
   response said close."

   "Carries close" / "asked for close" are read as RFC 9110 does (Spec/ServeSpec.v has_close / wants_close:
   comma-separated list over all Connection field lines, optional whitespace SP / HTAB, case-insensitive). *)
From FH Require Import Model.Base Gen.GenC10 Model.ConnOpt Model.Serve Spec.ServeSpec
     Proof.ConnOptProof Proof.ServeProof Check.ServeCheck.
Open Scope nat_scope.

(* ---------------- the serve loop ---------------- *)
(* For every run, every final response that carries a close option is followed only by flush and close, and
   every other final response by the connection going idle (or to a hijack handler) — provided hasHeaderValue
   recognises the close option in every value a handler passes to Response.Header.Set("Connection", v), which
   it does for every RFC 9110 field value (next theorem; only values with control characters other than HTAB,
   which Set cannot even write unchanged, fall outside). *)
Theorem C10_header_iff_close : forall F cfg E, framer_ok F -> handler_guard E -> forall en ad rd,
  conn_ok (serve_conn F cfg E en ad rd) = true.
Proof. intros F cfg E HF Hg en ad rd. apply conn_ok_run; assumption. Qed.
Print Assumptions C10_header_iff_close.

(* the guard holds for every handler whose Set values are field values: no control characters but HTAB *)
Theorem C10_header_iff_close_clean_values : forall F cfg E, framer_ok F ->
  (forall num q v, In (SetHdrConn v) (handler E num q) -> clean v = true) -> forall en ad rd,
  conn_ok (serve_conn F cfg E en ad rd) = true.
Proof. intros F cfg E HF Hc en ad rd. apply conn_ok_run; [assumption|]. apply clean_handler_guard. exact Hc. Qed.
Print Assumptions C10_header_iff_close_clean_values.

(* each listed reason gives a response with close, directly followed by flush and close *)
Theorem C10_close_reasons_complete : forall F cfg E, framer_ok F -> forall en ad rd,
  reasons_ok cfg E (serve_conn F cfg E en ad rd) = true.
Proof. intros F cfg E HF en ad rd. apply reasons_ok_run. exact HF. Qed.
Print Assumptions C10_close_reasons_complete.

(* the response to an HTTP/1.0 request that does not say close says keep-alive *)
Theorem C10_http10_keepalive_header : forall F cfg E, framer_ok F -> forall en ad rd,
  http10_ok (serve_conn F cfg E en ad rd) = true.
Proof. intros F cfg E HF en ad rd. apply http10_ok_run. exact HF. Qed.
Print Assumptions C10_http10_keepalive_header.

(* ---------------- "the request asked for close" / "the response said close" ---------------- *)
(* hasHeaderValue is the RFC list membership on field values (clean: VCHAR / obs-text / SP / HTAB) *)
Theorem C10_hasHeaderValue_rfc : forall v, clean v = true ->
  hasHeaderValue v strClose = has_close [v] /\ hasHeaderValue v strKeepAlive = has_option opt_keep_alive [v].
Proof. intros v H. split; [apply hhv_close_rfc|apply hhv_keepalive_rfc]; exact H. Qed.
Print Assumptions C10_hasHeaderValue_rfc.

(* the request parser's flag (q_close above) is set whenever the request asked for close or is HTTP/1.0
   without keep-alive; vals = the values of the request's Connection lines, fc = the framing reasons *)
Theorem C10_request_close_complete : forall http11 fc vals, all_clean vals = true ->
  wants_close http11 vals = true -> req_conn_flag (negb http11) fc vals = true.
Proof. exact req_flag_complete. Qed.
Print Assumptions C10_request_close_complete.

Theorem C10_request_close_exact_http11 : forall vals, all_clean vals = true ->
  req_conn_flag false false vals = has_close vals.
Proof. exact req_flag_exact_http11. Qed.
Print Assumptions C10_request_close_exact_http11.

(* the client never reuses a connection whose response said close *)
Theorem C10_client_never_reuses_closed : forall vals noHTTP11 ic reset req_close, all_clean vals = true ->
  has_close vals = true -> client_close_conn reset req_close (resp_conn_flag noHTTP11 ic vals) = true.
Proof. exact client_never_reuses. Qed.
Print Assumptions C10_client_never_reuses_closed.

(* both transports (HostClient's RoundTrip and PipelineClient's reader): after a response that said close — or an
   HTTP/1.0 response without keep-alive — HostClient closes the connection whatever its other inputs, and
   PipelineClient writes every later request of the sequence on a different connection.
   resps = (HTTP/1.1?, Connection values) of the successive responses. *)
Theorem C10_clients_never_reuse_closed : forall (resps : list (bool * list bytes)) i j,
  forallb (fun r => all_clean (snd r)) resps = true ->
  (i < j)%nat -> (j < length resps)%nat ->
  wants_close (fst (nth i resps (true, []))) (snd (nth i resps (true, []))) = true ->
  let flags := map (fun r => resp_conn_flag (negb (fst r)) false (snd r)) resps in
  (forall reset reqclose, client_close_conn reset reqclose (nth i flags false) = true) /\
  nth i (pipeline_conn_ids 1 flags) 0%Z <> nth j (pipeline_conn_ids 1 flags) 0%Z.
Proof. exact clients_never_reuse. Qed.
Print Assumptions C10_clients_never_reuse_closed.

Example C10_ex_pipeline :
  pipeline_conn_ids 1 (map (fun r => resp_conn_flag (negb (fst r)) false (snd r))
     [(true, []); (true, [s2b "Close"]); (true, [s2b "keep-alive"]); (false, []); (false, [s2b "keep-alive"]); (true, [])])
  = [1; 1; 2; 2; 3; 3]%Z.
Proof. vm_compute. reflexivity. Qed.

(* regression witness: a close option behind an HTAB is recognised by both parsers (it was not before stripSpace
   learned about HTAB) *)
Example C10_ex_htab : clean htab_value = true /\ has_close [htab_value] = true
  /\ req_conn_flag false false [htab_value] = true
  /\ client_close_conn false false (resp_conn_flag false false [htab_value]) = true.
Proof. exact htab_witness. Qed.

(* ---------------- non-vacuity on the concrete reader ---------------- *)
Definition crlf : bytes := [13; 10]%N.
Definition ex_req (n conn : string) : bytes :=
  s2b "GET /r" ++ s2b n ++ s2b " HTTP/1.1" ++ crlf ++ s2b "Host: h" ++ crlf ++ s2b conn ++ crlf ++ crlf.
Definition ex_cfg := mk_scfg false false false false false 0%N XNone.
(* the repaired defects: Close / "keep-alive, close" / two lines close + foo end the connection with a close header *)
Example C10_ex_close_variants :
  forallb (fun c => list_eqb resp_eqb
     (wire (run ViaServe Admit ex_cfg [] [] None [ex_req "1" "X: y"; ex_req "2" c; ex_req "3" "X: y"] Eof))
     [(200%Z, []); (200%Z, [strClose])])
   ["Connection: close"; "Connection: Close"; "Connection: keep-alive, close";
    "Connection: close" ++ String "013" (String "010" "Connection: foo")]%string = true.
Proof. vm_compute. reflexivity. Qed.
Example C10_ex_keepalive_10 :
  wire (run ViaServe Admit ex_cfg [] [] None
          [s2b "GET /r1 HTTP/1.0" ++ crlf ++ s2b "Host: h" ++ crlf ++ s2b "Connection: keep-alive" ++ crlf ++ crlf;
           s2b "GET /r2 HTTP/1.0" ++ crlf ++ s2b "Host: h" ++ crlf ++ crlf] Eof)
  = [(200%Z, [strKeepAlive]); (200%Z, [strClose])].
Proof. vm_compute. reflexivity. Qed.
Example C10_ex_max_requests :
  wire (run ViaServe Admit (mk_scfg false false false false false 2%N XNone) [] [] None
          [ex_req "1" "X: y"; ex_req "2" "X: y"; ex_req "3" "X: y"] Eof) = [(200%Z, []); (200%Z, [strClose])].
Proof. vm_compute. reflexivity. Qed.
Example C10_ex_handler_set :
  wire (run ViaServe Admit ex_cfg [[SetHdrConn (s2b "Upgrade, Close")]] [] None [ex_req "1" "X: y"; ex_req "2" "X: y"] Eof)
  = [(200%Z, [strClose])].
Proof. vm_compute. reflexivity. Qed.
