From FH Require Import Model.Base Model.CtxReset Spec.CtxResetSpec.
Example C11_ex_placeholder : zero_after KCtxReset "Request.userValues"%string = true.
Proof. reflexivity. Qed.
