(* C11 — No request observes state left over from an earlier request.  Statements only; proofs live
   in Proof/CtxResetProof.v (resets, ctx pool, what a handler sees) and Proof/CtxLoopProof.v (the
   per-connection locals of serveConnCounted).  Model: Model/CtxReset.v; spec: Spec/CtxResetSpec.v. *)
From Coq Require Import String.
From FH Require Import Model.Base Model.CtxReset Spec.CtxResetSpec Proof.CtxResetProof Proof.CtxLoopProof.
Open Scope string_scope.
Open Scope Z_scope.

(* RequestCtx.reset (run by releaseCtx before a ctx goes back to the pool) and the loop-end reset
   (ctx.Request.Reset(); ctx.Response.Reset() plus the hijack marks and the body stream) leave EVERY
   observable field of ANY ctx at its zero value.  The resets are written assignment by assignment as
   the Go functions; the field list is compared with the real structs by reflection on every run and the
   zeroing of each field is compared with the real Reset functions on a fully dirtied object. *)
Theorem C11_reset_is_fresh : forall m, fresh (RequestCtx_reset m) /\ fresh (loop_end_reset m).
Proof. intros m. exact (conj (ctx_reset_is_fresh m) (loop_end_reset_is_fresh m)). Qed.
Print Assumptions C11_reset_is_fresh.

(* every field of RequestCtx (104 flattened paths) is either zeroed by RequestCtx.reset or listed as
   configuration / scratch in the spec: nothing is unaccounted for *)
Theorem C11_all_fields_classified :
  forallb (fun f => zero_after KCtxReset f || mem f config_fields || mem f scratch_fields) all_fields = true.
Proof. exact all_fields_classified. Qed.
Print Assumptions C11_all_fields_classified.

(* For any server (any pool of previously used ctx, each released through RequestCtx.reset), any number
   of connections, any requests, handlers that overwrite the ctx arbitrarily (scribble: ANY function on
   states) and time out at will (the loop then continues with another pooled or new ctx): what each
   handler invocation observes is the parse of its own request into a zero ctx. *)
Theorem C11_handler_sees_own_request : forall cfgv fr, fresh fr -> forall conns p,
  pool_ok p ->
  Forall2 (fun seens c => Forall2 (fun seen h => obs_eq seen (parse_into cfgv (rv_of h) zero)) seens (snd c))
          (server_run cfgv fr p conns) conns.
Proof. exact handler_sees_own_request. Qed.
Print Assumptions C11_handler_sees_own_request.

(* the statement depends on the resets: a loop-end reset that forgets one field is not fresh *)
Theorem C11_forgetful_reset_leaks : exists m, ~ fresh (forgetful_reset m).
Proof. exact forgetful_reset_leaks. Qed.
Print Assumptions C11_forgetful_reset_leaks.

(* The pooled requestStream objects (requestStreamPool is shared by all requests of all connections)
   are state left over from earlier requests too: releaseRequestStream zeroes EVERY field of the
   object whatever state the stream was abandoned in, hence a stream acquired from the pool equals one
   built on a new object; acquireRequestStream itself clears nothing (totalBytesRead, chunkLeft, eof,
   err are taken over), so this rests on the release alone.  The harness compares the field list, the
   real releaseRequestStream on a fully dirtied object, the fields acquireRequestStream sets, and the
   hidden state of the stream later requests get after streams were abandoned in nine different ways. *)
Theorem C11_request_stream_release_is_fresh : forall m f, In f rs_fields -> releaseRequestStream_m m f = 0.
Proof. exact rs_release_is_fresh. Qed.
Print Assumptions C11_request_stream_release_is_fresh.

Theorem C11_request_stream_from_pool_is_new : forall v m f, In f rs_fields ->
  acquireRequestStream_m v (releaseRequestStream_m m) f = acquireRequestStream_m v zero f.
Proof. exact rs_acquire_after_release_is_new. Qed.
Print Assumptions C11_request_stream_from_pool_is_new.

Theorem C11_request_stream_acquire_trusts_the_pool : forall v m,
  acquireRequestStream_m v m "requestStream.totalBytesRead" = m "requestStream.totalBytesRead" /\
  acquireRequestStream_m v m "requestStream.chunkLeft" = m "requestStream.chunkLeft" /\
  acquireRequestStream_m v m "requestStream.eof" = m "requestStream.eof" /\
  acquireRequestStream_m v m "requestStream.err" = m "requestStream.err".
Proof. exact rs_acquire_trusts_the_pool. Qed.
Print Assumptions C11_request_stream_acquire_trusts_the_pool.

(* Whether the handler is called, the status the server answers with, the body size limit and the
   write deadline in force for a request are functions of the server configuration and of that request
   alone (spec_dispatched, spec_status, spec_max, spec_wt) after ANY history on the connection:
   rejected expectations, HeaderReceived overrides of earlier requests, timeouts, errors. *)
Theorem C11_dispatch_independent_of_history : forall c qs q st,
  wf_scfg c -> Forall wf_lreq qs -> wf_lreq q -> lafter c (linit c) qs = Some st ->
  let d := fst (lstep c st q) in
  d_dispatched d = spec_dispatched c q /\ d_status d = spec_status c q /\
  (d_dispatched d = true -> d_max d = spec_max c q /\ d_wt d = spec_wt c q).
Proof. exact dispatch_independent_of_history. Qed.
Print Assumptions C11_dispatch_independent_of_history.

(* The read deadline under which a request's body is read is the one its own HeaderReceived answer or
   the server's ReadTimeout prescribe, after ANY history (unconditional since fix cbb8567; before it
   this held only when the server had a ReadTimeout/IdleTimeout or no earlier request had an override,
   and a refutation witness was a theorem here). *)
Theorem C11_read_deadline_independent_of_history : forall c qs q st,
  wf_scfg c -> lafter c (linit c) qs = Some st -> q_head_ok q = true ->
  d_rdl_body (fst (lstep c st q)) = spec_rdl_body c q.
Proof. exact read_deadline_independent. Qed.
Print Assumptions C11_read_deadline_independent_of_history.

(* the per-request deadline of one request is cleared before the next one is read *)
Theorem C11_override_is_cleared :
  map (fun d => (d_rdl_body d, d_calls d)) (fst (lrun wit_scfg (linit wit_scfg) [wit_q1; wit_q2]))
  = [(5, [DRead 5]); (0, [DRead 0])].
Proof. exact override_is_cleared. Qed.
Print Assumptions C11_override_is_cleared.

(* non-vacuity *)
Example C11_ex_reset_clears : RequestCtx_reset dirty "Request.userValues" = 0 /\ RequestCtx_reset dirty "Response.Header.statusCode" = 0
  /\ RequestCtx_reset dirty "s" = 1 /\ loop_end_reset dirty "Request.Header.header.cookies" = 0.
Proof. vm_compute. auto. Qed.
Example C11_ex_rejection_does_not_stick :
  let c := mkScfg 0 0 0 0 false false true false 0 false in
  let rejected := mkLreq true 0 0 0 10 false false true 0 false HNone in
  let plain := mkLreq true 0 0 0 0 false false false 0 false HNone in
  map d_dispatched (fst (lrun c (linit c) [rejected; plain])) = [false] /\
  map d_dispatched (fst (lrun c (linit c) [plain; plain])) = [true; true].
Proof. vm_compute. auto. Qed.
Example C11_ex_override_does_not_stick :
  let c := mkScfg 0 0 0 500 true false false false 0 false in
  let big_ok := mkLreq true 0 50 100000 1000 false false false 0 false HNone in
  let big := mkLreq true 0 0 0 1000 false false false 0 false HNone in
  map (fun d => (d_dispatched d, d_status d, d_wt d)) (fst (lrun c (linit c) [big_ok; big])) = [(true, 200, 50); (false, 400, 0)].
Proof. vm_compute. reflexivity. Qed.
