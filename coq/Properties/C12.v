(* C12 — placeholder while the proofs are being written. *)
From FH Require Import Model.Base Gen.GenC12 Model.Limits.
Open Scope Z_scope.

Example C12_ex_serveconn :
  match run (mkCfg 1 1 false) init [LServeConn (ATcp [1;1;1;1]%N); LRegister 0; LTryAcquire 0; LOpenInc 0] with
  | Some s => n_serving s = 1 /\ get_open s = 1 /\ get_concurrency s = 1
  | None => False
  end.
Proof. vm_compute. repeat split; reflexivity. Qed.
