(* C12 — Concurrency and per-IP limits hold and their counters balance.  Statements only; proofs in
   Proof/LimitsProof.v (accounting invariant) and Proof/LimitsBounds.v.
   [reach cf s]: s is reachable from the empty server by any interleaving of the atomic steps of Serve (any number of
   calls), acceptConn / wrapPerIPConn, wp.Serve, serveConnCounted / serveConnCleanup, workerFunc, ServeConn (any number of
   concurrent calls), hijackConnHandler and further Close calls, for any remote addresses. *)
From FH Require Import Model.Base Gen.GenC12 Model.Limits Spec.LimitsSpec Proof.LimitsProof Proof.LimitsBounds Proof.LimitsPool Proof.LimitsClose.
Open Scope Z_scope.

(* Never more than Concurrency connections inside their request loop at once, for the uses the documentation of
   Server.Concurrency covers ("Concurrency only works if you either call Serve once, or only ServeConn multiple times"). *)
Theorem C12_concurrency_bound : forall cf s, reach cf s -> documented_use s -> n_serving s <= effConc cf.
Proof. exact concurrency_bound. Qed.
Print Assumptions C12_concurrency_bound.

(* In every use, each entry point keeps the bound for its own connections: all ServeConn calls together, and each Serve call. *)
Theorem C12_concurrency_bound_per_entry : forall cf s, reach cf s ->
  n_serving_sc s <= effConc cf /\ forall k, n_serving_loop s k <= effConc cf.
Proof. exact concurrency_bound_per_entry. Qed.
Print Assumptions C12_concurrency_bound_per_entry.

(* The restriction is needed: with two Serve calls and Concurrency = 1 two connections are served at once (documented behaviour,
   not a finding). *)
Theorem C12_concurrency_bound_needs_documented_use :
  exists cf s, reach cf s /\ ~ documented_use s /\ effConc cf < n_serving s.
Proof. exact concurrency_bound_needs_documented_use. Qed.
Print Assumptions C12_concurrency_bound_needs_documented_use.

(* Never more than MaxConnsPerIP open connections of one IPv4 address inside their request loop (any entry points). *)
Theorem C12_perip_bound : forall cf s, reach cf s -> 0 < maxip cf -> forall ip, ip <> 0%N -> n_served_from s ip <= maxip cf.
Proof. exact perip_bound'. Qed.
Print Assumptions C12_perip_bound.

(* ... the same for every connection that holds a per-IP unit after passing the check (also those still in the acceptor,
   being torn down, or hijacked and not yet closed). *)
Theorem C12_perip_bound_registered : forall cf s, reach cf s -> 0 < maxip cf -> forall ip, n_live s ip <= maxip cf.
Proof. exact live_bound. Qed.
Print Assumptions C12_perip_bound_registered.

(* Over-limit arrivals.  Per IP: 429, closed, counters as before; the goroutine has no other move. *)
Theorem C12_rejections_perip : forall cf s c r, reach cf s -> nth_error (conns s) c = Some r -> ph r = PArrived ->
  maxip cf <= n_live s (cip r) ->
  exists s1 s2 r2, step cf s (LRegister c) = Some s1 /\ step cf s1 (LRejectIP c) = Some s2 /\
    nth_error (conns s2) c = Some r2 /\ rejected_with StatusTooManyRequests r2 /\
    concurrency s2 = concurrency s /\ open s2 = open s /\ (forall ip, perip s2 ip = perip s ip).
Proof. exact reject_ip. Qed.
Print Assumptions C12_rejections_perip.

(* ServeConn with all slots taken: 503, closed, concurrency and open as before, its per-IP unit given back. *)
Theorem C12_rejections_serveconn : forall cf s c r, reach cf s -> nth_error (conns s) c = Some r -> ph r = PChecked -> cvia r = VConn ->
  effConc cf <= concurrency s -> forall e,
  exists s1 s2 s3 r3, step cf s (LTryAcquire c) = Some s1 /\ step cf s1 (LAcquireFail c) = Some s2 /\
    step cf s2 (LRejectConc c e) = Some s3 /\
    nth_error (conns s3) c = Some r3 /\ rejected_with StatusServiceUnavailable r3 /\
    concurrency s3 = concurrency s /\ open s3 = open s /\
    (forall ip, perip s3 ip = if reg r && N.eqb ip (cip r) then norm (sumf (w_ip ip) (conns s) - 1) else perip s ip).
Proof. exact reject_conc_serveconn. Qed.
Print Assumptions C12_rejections_serveconn.

(* Serve with every worker of its pool busy: wp.Serve cannot succeed; 503, closed, the open count taken back. *)
Theorem C12_rejections_serve : forall cf s c r k lp, reach cf s -> nth_error (conns s) c = Some r -> ph r = POpened -> cvia r = VServe k ->
  nth_error (loops s) k = Some lp -> ready lp <= 0 -> effConc cf <= wcount lp -> forall e,
  step cf s (LGetChOk c) = None /\
  exists s1 s2 s3 r3, step cf s (LGetChFail c) = Some s1 /\ step cf s1 (LRejectDec c) = Some s2 /\
    step cf s2 (LRejectConc c e) = Some s3 /\
    nth_error (conns s3) c = Some r3 /\ rejected_with StatusServiceUnavailable r3 /\
    concurrency s3 = concurrency s /\ open s3 = open s - 1 /\
    (forall ip, perip s3 ip = if reg r && N.eqb ip (cip r) then norm (sumf (w_ip ip) (conns s) - 1) else perip s ip).
Proof. exact reject_conc_serve. Qed.
Print Assumptions C12_rejections_serve.

(* On the way to a rejection the connection's goroutine has exactly one move, and a rejected connection stays done and closed
   (so it is never served). *)
Theorem C12_rejections_only_move : forall cf s c r l s', reach cf s -> nth_error (conns s) c = Some r ->
  label_conn l = Some c -> step cf s l = Some s' ->
  match ph r with
  | PArrived => l = LRegister c
  | PIPOver => l = LRejectIP c
  | PConcOver => l = LAcquireFail c
  | PNoWorker => l = LRejectDec c
  | PRejecting => exists e, l = LRejectConc c e
  | _ => True
  end.
Proof. exact only_move_when_rejecting. Qed.
Print Assumptions C12_rejections_only_move.

Theorem C12_rejected_stays_closed : forall cf s, reach cf s ->
  Forall (fun r => resp r <> 0 -> ph r = PDone /\ closed r = true) (conns s).
Proof. exact rejected_stays. Qed.
Print Assumptions C12_rejected_stays_closed.

(* The counters are exact at every moment: each is the number of connections currently holding a unit of it. *)
Theorem C12_exact_accounting : forall cf s, reach cf s ->
  concurrency s = sumf w_conc (conns s) /\ open s = sumf w_open (conns s) /\
  (forall ip, perip s ip = norm (sumf (w_ip ip) (conns s))) /\ serving s = n_running s.
Proof. exact exact_accounting. Qed.
Print Assumptions C12_exact_accounting.

(* Balance: once every connection has been closed, or hijacked and released, everything is back to zero, the per-IP map is
   empty (no key left behind), and s.serving is the number of running Serve calls. *)
Theorem C12_balance : forall cf s, reach cf s -> all_terminal s = true ->
  concurrency s = 0 /\ open s = 0 /\ perip_empty s /\ serving s = n_running s.
Proof. exact balance'. Qed.
Print Assumptions C12_balance.

(* While hijack handlers still hold connections, only their per-IP units remain. *)
Theorem C12_balance_with_hijacked : forall cf s, reach cf s -> all_done s = true ->
  concurrency s = 0 /\ open s = 0 /\ forall ip, perip s ip = norm (sumf (w_ip ip) (conns s)).
Proof. exact balance_with_hijacked. Qed.
Print Assumptions C12_balance_with_hijacked.

(* What GetCurrentConcurrency and GetOpenConnectionsCount RETURN at quiescence is 0 — with one Serve running, with none
   (ServeConn only, or every listener closed), with several: [reach] covers all of them (examples below).  This is the code after
   "fix: GetOpenConnectionsCount must not count Serve loops as connections" (fff04fe); before it the getter returned open - 1. *)
Theorem C12_getter_zero_at_quiescence : forall cf s, reach cf s -> all_terminal s = true ->
  get_concurrency s = 0 /\ get_open s = 0.
Proof. exact getters_zero_at_quiescence. Qed.
Print Assumptions C12_getter_zero_at_quiescence.

Theorem C12_getters_never_negative : forall cf s, reach cf s -> 0 <= get_concurrency s /\ 0 <= get_open s.
Proof. exact getters_nonneg. Qed.
Print Assumptions C12_getters_never_negative.

(* perIPConn.Close is idempotent (first LTS: the wrapper is identified with its connection; see the wrapper objects below). *)
Theorem C12_close_idempotent : forall cf s c r s', nth_error (conns s) c = Some r -> closed r = true -> reg r = false ->
  forall e, step cf s (LUserClose c e) = Some s' ->
  concurrency s' = concurrency s /\ open s' = open s /\ perip s' = perip s /\ conns s' = conns s /\ loops s' = loops s.
Proof. exact close_idempotent. Qed.
Print Assumptions C12_close_idempotent.

(* The outcome of the underlying net.Conn.Close (ok | error: a tls.Conn that cannot send close_notify, a custom connection) is part of every
   closing label (LRejectConc / LCloseAfter / LHijackDone / LUserClose c cerr), so every theorem above - the bounds, exact accounting, balance,
   the getters - covers connections whose Close fails.  Explicitly: the outcome makes no difference to any step, and a registered connection
   whose first Close fails has given its per-IP unit back all the same (a later Close could not: the wrapper has cleared its Conn). *)
Theorem C12_close_outcome_irrelevant : forall cf s c,
  step cf s (LRejectConc c true) = step cf s (LRejectConc c false) /\
  step cf s (LCloseAfter c true) = step cf s (LCloseAfter c false) /\
  step cf s (LHijackDone c true) = step cf s (LHijackDone c false) /\
  step cf s (LUserClose c true) = step cf s (LUserClose c false).
Proof. exact close_outcome_irrelevant. Qed.
Print Assumptions C12_close_outcome_irrelevant.

Theorem C12_failed_close_unregisters : forall cf s c r s', reach cf s -> nth_error (conns s) c = Some r -> reg r = true ->
  step cf s (LUserClose c true) = Some s' ->
  perip s' (cip r) = norm (sumf (w_ip (cip r)) (conns s) - 1) /\
  exists r', nth_error (conns s') c = Some r' /\ reg r' = false /\ closed r' = true.
Proof. exact failed_close_unregisters. Qed.
Print Assumptions C12_failed_close_unregisters.

(* ---- the wrapper objects (second LTS of Model/Limits.v: perIPConn objects keep their identity) ---------------------------------
   Every Close closes the connection the object was acquired for, and only the first one does anything: for any number of
   connections, any number of Close calls through any reference, any interleaving; perIPConnPool stays empty.  (This is the code
   after bf2f4e5 "do not recycle perIPConn wrappers"; before it the statement was false: a stale Close closed the next owner.) *)
Theorem C12_pool_every_close_closes_its_own_connection : forall tr s, prun pinit tr = Some s -> closes_own s = true /\ pool s = [].
Proof. exact closes_own_always. Qed.
Print Assumptions C12_pool_every_close_closes_its_own_connection.

(* the schedule of the former finding is harmless now, and no connection can be given a used object *)
Example C12_ex_stale_close_is_a_noop :
  exists s, prun pinit stale_trace = Some s /\ closes_own s = true /\ uclosed s = [(0, 0)]%nat /\
            pm s 33686018%N = Some 1%Z /\ prun pinit [PAcquire 16843009 None; PClose 0; PAcquire 33686018 (Some 0%nat)] = None.
Proof. exact stale_close_is_a_noop. Qed.

(* ---- perIPConn.Close in steps (third LTS of Model/Limits.v) ----------------------------------------------------------------------------
   Any number of Close calls on the same connection object can overlap (the worker after Connection: close, closeIdleConns, hijackConnHandler,
   a handler or hijack user holding ctx.Conn()), the underlying Close can take arbitrarily long, and connections of the same address arrive
   meanwhile.  Because the locked section claims the connection (c.Conn = nil) before the underlying Close, Unregister runs at most once per
   admitted connection ... *)
Theorem C12_close_unregisters_at_most_once : forall lim s, xreach lim s -> NoDup (xunreg s).
Proof. exact unregister_at_most_once. Qed.
Print Assumptions C12_close_unregisters_at_most_once.

(* ... the counter is exactly the number of admitted connections of the address not yet unregistered, and never more than MaxConnsPerIP connections
   of an address are open or being closed at once (so an arrival beyond that gets its 429) *)
Theorem C12_close_steps_perip_bound : forall lim s, xreach lim s ->
  (forall ip, xm s ip = norm (sumf (holds_ip ip) (xw s))) /\
  (0 < lim -> forall ip, sumf (open_ip ip) (xw s) <= sumf (holds_ip ip) (xw s) /\ sumf (holds_ip ip) (xw s) <= lim).
Proof. exact close_steps_accounting. Qed.
Print Assumptions C12_close_steps_perip_bound.

Example C12_ex_overlapping_closes_give_back_one_unit :
  match xrun 2 xinit (overlap_trace 16843009) with
  | Some s => xm s 16843009%N = Some 2 /\ length (xw s) = 3%nat /\ xunreg s = [1%nat] /\
              xstep 2 s (XUnreg 1) = None /\ xstep 2 s (XUnder 1) = None
  | None => False
  end.
Proof. exact overlapping_closes_give_back_one_unit. Qed.

(* ---- non-vacuity: the three configurations of the getter statement, a 429, a 503 on each path, a hijack -------------------- *)
Definition a1 := ATcp [1;1;1;1]%N.
Definition a2 := ATcp [2;2;2;2]%N.

Definition serve_one (c : nat) (a : addr) (k : nat) : list label :=
  [LAccept k a; LRegister c; LOpenInc c; LGetChOk c; LStart c].
Definition end_serve (c : nat) : list label := [LFinish c; LCleanupOpen c; LCleanupConc c; LCloseAfter c false; LWorkerRelease c].
Definition end_sc (c : nat) : list label := [LFinish c; LCleanupOpen c; LCloseAfter c false; LReleaseConc c].

Example C12_ex_quiescent_one_serve_running :
  match run (mkCfg 2 1 false) init ([LServeStart] ++ serve_one 0 a1 0 ++ serve_one 1 a2 0 ++ end_serve 0 ++ end_serve 1) with
  | Some s => all_terminal s = true /\ n_running s = 1 /\ get_open s = 0 /\ get_concurrency s = 0 /\ perip s 16843009%N = None
  | None => False
  end.
Proof. vm_compute. repeat split; reflexivity. Qed.

Example C12_ex_quiescent_no_serve :
  match run (mkCfg 2 1 false) init ([LServeConn a1; LRegister 0; LTryAcquire 0; LOpenInc 0] ++ end_sc 0) with
  | Some s => all_terminal s = true /\ n_running s = 0 /\ get_open s = 0 /\ get_concurrency s = 0
  | None => False
  end.
Proof. vm_compute. repeat split; reflexivity. Qed.

Example C12_ex_quiescent_listener_closed :
  match run (mkCfg 2 1 false) init ([LServeStart] ++ serve_one 0 a1 0 ++ [LServeStop 0] ++ end_serve 0) with
  | Some s => all_terminal s = true /\ n_running s = 0 /\ serving s = 0 /\ get_open s = 0
  | None => False
  end.
Proof. vm_compute. repeat split; reflexivity. Qed.

Example C12_ex_quiescent_three_serves :
  match run (mkCfg 2 1 false) init ([LServeStart; LServeStart; LServeStart] ++ serve_one 0 a1 2 ++ end_serve 0) with
  | Some s => all_terminal s = true /\ n_running s = 3 /\ serving s = 3 /\ get_open s = 0
  | None => False
  end.
Proof. vm_compute. repeat split; reflexivity. Qed.

Example C12_ex_429_and_503 :
  match run (mkCfg 1 1 false) init
        ([LServeConn a1; LRegister 0; LTryAcquire 0; LOpenInc 0;
          LServeConn a1; LRegister 1; LRejectIP 1;
          LServeConn a2; LRegister 2; LTryAcquire 2; LAcquireFail 2; LRejectConc 2 true;
          LServeStart; LAccept 0 a2; LRegister 3; LOpenInc 3; LGetChOk 3; LStart 3;
          LAccept 0 AOther; LOpenInc 4; LGetChFail 4; LRejectDec 4; LRejectConc 4 false]) with
  | Some s => map resp (conns s) = [0; 429; 503; 0; 503] /\ n_serving s = 2 /\ get_open s = 2 /\ get_concurrency s = 2
              /\ perip s 16843009%N = Some 1 /\ perip s 33686018%N = Some 1
  | None => False
  end.
Proof. vm_compute. repeat split; reflexivity. Qed.

(* MaxConnsPerIP = 1: three connections of one address one after the other, each Close of the underlying connection fails; every one is admitted *)
Example C12_ex_failed_closes_do_not_lock_the_address_out :
  match run (mkCfg 2 1 false) init
        ([LServeConn a1; LRegister 0; LTryAcquire 0; LOpenInc 0; LFinish 0; LCleanupOpen 0; LCloseAfter 0 true; LReleaseConc 0] ++
         [LServeStart; LAccept 0 a1; LRegister 1; LOpenInc 1; LGetChOk 1; LStart 1; LFinish 1; LCleanupOpen 1; LCleanupConc 1; LCloseAfter 1 true; LWorkerRelease 1] ++
         [LServeConn a1; LRegister 2; LTryAcquire 2; LOpenInc 2]) with
  | Some s => map resp (conns s) = [0; 0; 0] /\ n_serving s = 1 /\ perip s 16843009%N = Some 1
  | None => False
  end.
Proof. vm_compute. repeat split; reflexivity. Qed.

Example C12_ex_hijack_keeps_only_the_perip_unit :
  match run (mkCfg 1 1 false) init
        [LServeConn a1; LRegister 0; LTryAcquire 0; LOpenInc 0; LHijack 0; LCleanupOpen 0; LCloseAfter 0 false; LReleaseConc 0] with
  | Some s => all_done s = true /\ all_terminal s = false /\ get_open s = 0 /\ get_concurrency s = 0 /\ perip s 16843009%N = Some 1
              /\ match step (mkCfg 1 1 false) s (LHijackDone 0 true) with
                 | Some s' => all_terminal s' = true /\ perip s' 16843009%N = None
                 | None => False
                 end
  | None => False
  end.
Proof. vm_compute. repeat split; reflexivity. Qed.
