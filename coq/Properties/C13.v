(* C13 — Worker pool serves each connection once and stays within its bound.
   Statements only; model in Model/WorkerPool.v, vocabulary in Spec/WorkerPoolSpec.v, proofs in Proof/WorkerPoolProof.v.
   Every theorem quantifies over ALL reachable states of the LTS: any number of acceptor threads, connections and workers,
   any interleaving of the code's lock regions and channel operations, either channel capacity. *)
From Coq Require Import List ZArith Bool Arith.
From FH Require Import Model.WorkerPool Spec.WorkerPoolSpec Proof.WorkerPoolProof.
Import ListNotations.
Open Scope Z_scope.

(* A connection handed to Serve is in exactly one of: rejected, held by its acceptor for exactly one worker, queued in
   exactly one worker channel, being served by exactly one worker, served (log entry) — and in each at most once.
   In particular it is served at most once and never duplicated or dropped. *)
Theorem C13_each_conn_once : forall cf s, 0 <= maxw cf -> reach cf s ->
  forall c, (In c (seen s) -> places s c = 1%nat) /\ (~ In c (seen s) -> places s c = 0%nat).
Proof. exact each_conn_once. Qed.
Print Assumptions C13_each_conn_once.

(* No connection is lost: when nothing is left to do, every connection was rejected or served exactly once. *)
Theorem C13_quiescent_all_done : forall cf s, 0 <= maxw cf -> reach cf s -> quiescent s = true ->
  forall c, In c (seen s) ->
    (n_rejected s c + n_served s c = 1)%nat /\ n_held s c = 0%nat /\ n_queued s c = 0%nat /\ n_serving s c = 0%nat.
Proof. exact quiescent_all_done. Qed.
Print Assumptions C13_quiescent_all_done.

(* ... and `quiescent` is not an artificial notion: a reachable state that is not quiescent can always take an internal
   step (no deadlock; nothing waits for an event that cannot happen). *)
Theorem C13_progress : forall cf s, 0 <= maxw cf -> 0 <= cap cf -> reach cf s -> quiescent s = false -> can_progress cf s.
Proof. exact progress. Qed.
Print Assumptions C13_progress.

(* workersCount never exceeds MaxWorkersCount and equals the number of worker goroutines that exist. *)
Theorem C13_bound : forall cf s, 0 <= maxw cf -> reach cf s ->
  wcount s <= maxw cf /\ Z.of_nat (live_workers s) = wcount s /\ (forall w, (nextw s <= w)%nat -> wk s w = None).
Proof. exact bound. Qed.
Print Assumptions C13_bound.

(* A worker channel never holds more than one item, and every pending channel send of the code (Serve's `ch.ch <- c`,
   clean's and Stop's `ch <- nil`) can complete: with capacity 1 the channel is empty, with capacity 0 (GOMAXPROCS=1)
   the receiver is parked in `range ch.ch`; the receiver always exists. *)
Theorem C13_chan_never_blocks : forall cf s, 0 <= maxw cf -> 0 <= cap cf -> reach cf s ->
  (forall w x, wk s w = Some x -> (length (ch x) <= 1)%nat) /\
  (forall c w h', take_hold c (holding s) = Some (w, h') -> step cf s (Send c) <> None) /\
  (forall ws, cln s = CNotify ws -> step cf s CleanNotify <> None) /\
  (mustStop s = false -> step cf s Stop <> None).
Proof.
  intros cf s H Hc R. repeat split.
  - intros w x. now apply chan_len with (cf := cf).
  - intros c w h'. now apply send_enabled.
  - intros ws. now apply notify_enabled.
  - now apply stop_enabled.
Qed.
Print Assumptions C13_chan_never_blocks.

(* After Stop the ready list stays empty, and once the workers have finished what they were doing no worker is left,
   workersCount = 0, and every connection — including one handed to a worker that Stop could not see — was rejected or served. *)
Theorem C13_stop_quiescent : forall cf s, 0 <= maxw cf -> reach cf s -> mustStop s = true ->
  ready s = [] /\
  (quiescent s = true -> wcount s = 0 /\ (forall w, wk s w = None) /\
     forall c, In c (seen s) -> (n_rejected s c + n_served s c = 1)%nat).
Proof. exact stop_quiescent. Qed.
Print Assumptions C13_stop_quiescent.

(* A worker that exits has an empty channel and is referenced by nobody: recycling its workerChan via sync.Pool is safe. *)
Theorem C13_exit_clean : forall cf s w s', 0 <= maxw cf -> reach cf s -> step cf s (WorkerExit w) = Some s' ->
  exists x, wk s w = Some x /\ ch x = [] /\
    ~ In w (map r_w (ready s)) /\ ~ In w (map snd (holding s)) /\ ~ In w (clist (cln s)).
Proof. exact exit_clean. Qed.
Print Assumptions C13_exit_clean.

(* Idle retirement, in logical time: a clean pass whose critical time (its start time minus MaxIdleWorkerDuration) is later
   than the moment a worker entered `ready` removes that worker from `ready` and queues it for the nil signal — even though
   `ready` is NOT sorted by lastUseTime in general (C13_ready_not_sorted), which the binary search silently assumes.
   Partial with respect to the property text: real timers (time.Sleep period of the cleaner, clock accuracy) are not modelled;
   that the signalled worker then exits is C13_progress + C13_bound. *)
Theorem C13_idle_retired_partial : forall cf s crit k s', 0 <= maxw cf -> reach cf s -> cln s = CCrit crit ->
  step cf s (CleanCollect k) = Some s' ->
  forall e, In e (ready s) -> r_enq e < crit ->
    In (r_w e) (clist (cln s')) /\ ~ In (r_w e) (map r_w (ready s')).
Proof. exact idle_retired. Qed.
Print Assumptions C13_idle_retired_partial.

(* the binary search never runs out of fuel or indexes out of range, whatever the order of the stamps *)
Theorem C13_clean_index_total : forall crit rd, exists i, clean_index crit rd = Some i /\ -1 <= i < Z.of_nat (length rd).
Proof. intros crit rd. destruct (clean_index_spec crit rd) as (i & E & B & _). eauto. Qed.
Print Assumptions C13_clean_index_total.

(* ---- non-vacuity ---- *)
Definition cf1 := mkCfg 1 2 100.
Definition cf0 := mkCfg 0 1 100.

(* two connections served by two workers, a third rejected, LIFO reuse, Stop, drain *)
Definition tr_basic : list label :=
  [GetChSpawn 0%nat; GetChSpawn 1%nat; GetChFail 2%nat; Send 0%nat; Send 1%nat; WorkerRecv 0%nat; WorkerRecv 1%nat;
   WorkerServe 0%nat false; WorkerServe 1%nat true; WorkerStamp 0%nat; WorkerRelease 0%nat true;
   WorkerStamp 1%nat; WorkerRelease 1%nat true; GetChPop 3%nat; Stop; Send 3%nat; WorkerRecv 0%nat; WorkerExit 0%nat;
   WorkerRecv 1%nat; WorkerServe 1%nat false; WorkerStamp 1%nat; WorkerRelease 1%nat false; WorkerExit 1%nat].
Example C13_ex_basic :
  match run cf1 init tr_basic with
  | Some s => quiescent s = true /\ wcount s = 0 /\ rejected s = [2%nat]
              /\ map fst (served s) = [(3, 1); (1, 1); (0, 0)]%nat /\ mustStop s = true
  | None => False
  end.
Proof. vm_compute. repeat split; reflexivity. Qed.

(* capacity 0: a send needs the parked receiver; after the rendezvous the worker is busy and a second send is refused *)
Example C13_ex_cap0 :
  match run cf0 init [GetChSpawn 0%nat; Send 0%nat] with
  | Some s => quiescent s = false /\ step cf0 s (WorkerRecv 0%nat) <> None /\ step cf0 s (GetChSpawn 1%nat) = None
              /\ step cf0 s (GetChFail 1%nat) <> None
  | None => False
  end.
Proof. vm_compute. repeat split; discriminate. Qed.

(* `ready` not sorted by lastUseTime is reachable (release stamps before taking the lock) ... *)
Definition tr_unsorted : list label :=
  [GetChSpawn 0%nat; GetChSpawn 1%nat; Send 0%nat; Send 1%nat; WorkerRecv 0%nat; WorkerRecv 1%nat;
   WorkerServe 0%nat false; WorkerServe 1%nat false;
   WorkerStamp 0%nat; Tick 50; WorkerStamp 1%nat; WorkerRelease 1%nat true; WorkerRelease 0%nat true].
Example C13_ready_not_sorted :
  match run cf1 init tr_unsorted with
  | Some s => map (fun r => (r_w r, r_stamp r)) (ready s) = [(1%nat, 50); (0%nat, 0)] /\ reach cf1 s
  | None => False
  end.
Proof.
  assert (X : exists s, run cf1 init tr_unsorted = Some s /\
                        map (fun r => (r_w r, r_stamp r)) (ready s) = [(1%nat, 50); (0%nat, 0)]).
  { eexists. split; [vm_compute; reflexivity|]. vm_compute. reflexivity. }
  destruct X as (s & E & M). rewrite E. split; [exact M|]. eapply run_reach; [apply reach_init|exact E].
Qed.

(* ... and then a clean pass can retire a worker whose own lastUseTime is not yet critical (worker 2, stamp 50, critical
   time 30): early by at most the width of the race, harmless for the property, but it shows the model follows the code's
   binary search rather than an idealised "remove the stale ones". *)
Definition cf3 := mkCfg 1 3 100.
Definition tr_unsorted3 : list label :=
  [GetChSpawn 0%nat; GetChSpawn 1%nat; GetChSpawn 2%nat; Send 0%nat; Send 1%nat; Send 2%nat;
   WorkerRecv 0%nat; WorkerRecv 1%nat; WorkerRecv 2%nat;
   WorkerServe 0%nat false; WorkerServe 1%nat false; WorkerServe 2%nat false;
   WorkerStamp 0%nat; WorkerStamp 1%nat; Tick 50; WorkerStamp 2%nat;
   WorkerRelease 2%nat true; WorkerRelease 0%nat true; WorkerRelease 1%nat true].
Example C13_ex_early_retire :
  match run cf3 init (tr_unsorted3 ++ [Tick 80; CleanBegin; CleanCollect 3]) with
  | Some s => cln s = CNotify [2%nat; 0%nat; 1%nat] /\ ready s = []
  | None => False
  end.
Proof. vm_compute. split; reflexivity. Qed.
