(* C14 — ConnState hook follows the documented state machine.  Statements only; proofs in Proof/ServeProof.v.

   "For every connection the ConnState hook is called with StateNew first, then with StateActive and
   StateIdle alternately, and finally with exactly one of StateClosed or StateHijacked, after which it is
   never called again for that connection.  StateActive is reported only once at least one byte of a request
   has been received."

   The theorems quantify over every request reader satisfying the two framer laws (F), every server
   configuration (cfg), every environment (E: handler, expectation handlers, shutdown flag), both entry points
   (en: Serve + worker / ServeConn), every admission outcome (ad) and every client behaviour (rd: the bytes, how
   they are chunked over reads, and whether the client closes or goes silent). *)
From FH Require Import Model.Base Gen.GenC10 Model.ConnOpt Model.Serve Model.ServeInst Spec.ServeSpec
     Proof.ServeProof Proof.ServeInstProof Check.ServeCheck Check.C14Check Gen.GenC14.
Open Scope nat_scope.

(* The hook calls of a connection form a word of  New (Active Idle)* Active? (Closed | Hijacked) — or no call
   at all, for a connection that is turned away by MaxConnsPerIP / ServeConn's concurrency limit. *)
Theorem C14_state_language : forall F cfg E, framer_ok F -> forall en ad rd,
  accepts (sts (serve_conn F cfg E en ad rd)) = true.
Proof. exact state_language. Qed.
Print Assumptions C14_state_language.

(* Exactly one terminal report (Closed or Hijacked), and nothing after it. *)
Theorem C14_terminal_once : forall F cfg E, framer_ok F -> forall en ad rd,
  terminal_once (sts (serve_conn F cfg E en ad rd)).
Proof. intros F cfg E HF en ad rd. apply accepts_terminal_once. apply state_language. exact HF. Qed.
Print Assumptions C14_terminal_once.

(* Every StateActive is reported with a request byte in hand: it is immediately followed by the parse of a
   request whose first byte (stream offset off) has been received: avail >= 1 and off + avail <= bytes sent. *)
Theorem C14_active_after_first_byte : forall F cfg E, framer_ok F -> forall en ad rd,
  active_has_byte (length (remaining rd)) (serve_conn F cfg E en ad rd) = true.
Proof. exact active_after_first_byte. Qed.
Print Assumptions C14_active_after_first_byte.

(* The loop always terminates within the fuel serve_conn gives it (no OutOfFuel event). *)
Theorem C14_loop_terminates : forall F cfg E, framer_ok F -> forall rd,
  snd (serve_loop F cfg E (S (length (remaining rd))) (lst_init rd)) <> LOutOfFuel.
Proof. exact serve_conn_fuel_ok. Qed.
Print Assumptions C14_loop_terminates.

(* The concrete reader used for the correspondence run (Model/ReqHead.v + Model/Body.v) satisfies the laws. *)
Theorem C14_concrete_reader_ok : forall hc bsize maxb, framer_ok (inst_framer hc bsize maxb).
Proof. exact inst_framer_ok. Qed.
Print Assumptions C14_concrete_reader_ok.

(* non-vacuity, on the concrete reader: a silent client gives [New; Closed] through both entry points, with and
   without ReduceMemoryUsage (before the repairs: ServeConn reported no New, and Active was reported for a
   connection that never sent a byte); two requests then EOF; a hijack *)
Definition ex_cfg (rm : bool) := mk_scfg rm false false false false 0%N XNone.
Definition ex_req (n : string) : bytes := s2b "GET /r" ++ s2b n ++ s2b " HTTP/1.1" ++ [13; 10]%N ++ s2b "Host: h" ++ [13; 10; 13; 10]%N.
Example C14_ex_silent :
  forallb (fun rm => forallb (fun en => forallb (fun t =>
     list_eqb state_eqb (sts (run en Admit (ex_cfg rm) [] [] None [] t)) [StNew; StClosed])
     [Eof; Open]) [ViaServe; ViaServeConn]) [false; true] = true.
Proof. vm_compute. reflexivity. Qed.
Example C14_ex_two_requests :
  sts (run ViaServeConn Admit (ex_cfg false) [] [] None [ex_req "1"; ex_req "2"] Eof)
  = [StNew; StActive; StIdle; StActive; StIdle; StClosed].
Proof. vm_compute. reflexivity. Qed.
Example C14_ex_hijack :
  sts (run ViaServe Admit (ex_cfg true) [[]; [HijackOp]] [] None [ex_req "1" ++ ex_req "2"] Eof)
  = [StNew; StActive; StIdle; StActive; StHijacked].
Proof. vm_compute. reflexivity. Qed.
Example C14_ex_rejected :
  sts (run ViaServeConn RejectConcurrency (ex_cfg false) [] [] None [ex_req "1"] Eof) = []
  /\ sts (run ViaServe RejectConcurrency (ex_cfg false) [] [] None [ex_req "1"] Eof) = [StNew; StClosed].
Proof. vm_compute. split; reflexivity. Qed.

(* the ConnState numbering of server.go (regenerated each run) is the one the harness encoding is decoded with:
   the five constants are distinct and st / state_code are inverse on them *)
Example C14_ex_state_codes :
  map st [StateNew; StateActive; StateIdle; StateHijacked; StateClosed] = [StNew; StActive; StIdle; StHijacked; StClosed]
  /\ map state_code [StNew; StActive; StIdle; StHijacked; StClosed] = [0; 1; 2; 3; 4]%Z.
Proof. vm_compute. split; reflexivity. Qed.
(* Shutdown closes the connection as idle just when the second request's first byte arrives: no second Active *)
Example C14_ex_gone_at_start :
  sts (run_gone ViaServe Admit (ex_cfg false) [] (Some 2%N) [ex_req "1"; ex_req "2"] Eof)
  = [StNew; StActive; StIdle; StClosed].
Proof. vm_compute. reflexivity. Qed.
