(* C15 — placeholder while the proofs are being written. *)
From FH Require Import Model.Base Model.Shutdown.
Open Scope Z_scope.
Example C15_ex_trivial : step (mkCfg false false) init LSetStop = Some (set_sd init SReturnedNil).
Proof. reflexivity. Qed.
