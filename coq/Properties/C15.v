(* C15 — Shutdown is graceful.  Statements only; proofs in Proof/ShutdownProof.v (counting invariant) and Proof/ShutdownGraceful.v.
   [reach cf s]: s is reachable from the fresh server by any interleaving of the atomic steps of the Serve accept loops, the
   connection goroutines (request loop of serveConnCounted, serveConnCleanup), ShutdownWithContext (stop flag, closeListenersLocked,
   close(s.done), loop { closeIdleConns; serving / open check; ticker | ctx.Done }), clients (send, close) and the clock, for any
   number of Serve calls and connections, with pipelining and with requests arriving while idle connections are being closed. *)
From FH Require Import Model.Base Model.Shutdown Spec.ShutdownSpec Proof.ShutdownProof Proof.ShutdownReuse Proof.ShutdownGraceful.
Open Scope Z_scope.

(* The Server can be reused: [reach] covers any number of Serve / ShutdownWithContext cycles on one Server, successful and timed-out calls
   mixed, also Serve or Shutdown again after a call that returned ctx.Err().  s.done and s.doneClosed are state (Model/Shutdown.v, dstate):
   Serve makes a fresh channel when s.done is nil, close(s.done) is guarded by s.doneClosed, the success branch resets both, the ctx.Done()
   branch resets nothing.

   When a call of Shutdown has returned nil (no call running, no listener registered since) and no call that returned ctx.Err() is pending:
   every listener is closed, every Serve call has returned, no request handler is running (handlers abandoned by TimeoutHandler and hijack
   handlers are not threads of the model), no connection is counted, the stop flag is reset.  This uses that s.serving is read before
   s.open; no assumption on the listener is needed for this direction. *)
Theorem C15_returns_after_handlers : forall cf s, reach cf s -> just_shut_down s -> at_rest s.
Proof. exact returns_at_rest. Qed.
Print Assumptions C15_returns_after_handlers.

(* [just_shut_down] is what holds when a call returns nil: always when it returns through its loop (in every cycle) ... *)
Theorem C15_return_through_loop : forall cf s s', reach cf s -> step cf s LReadOpen = Some s' -> sd s' = SReturnedNil -> just_shut_down s'.
Proof. exact return_through_loop. Qed.
Print Assumptions C15_return_through_loop.

(* ... and through the `if s.ln == nil { return nil }` shortcut unless an earlier call returned ctx.Err() and is still pending: then the
   shortcut returns nil while handlers may still run (C15_ex_reuse).  The documentation excludes that use ("When ShutdownWithContext returns
   errors, any operation to the Server is unavailable"), so it is a condition here and not a finding. *)
Theorem C15_return_through_shortcut : forall cf s s', step cf s LSetStop = Some s' -> sd s' = SReturnedNil ->
  sd_running s' = false /\ tainted (dn s') = tainted (dn s) /\ Forall (fun lp => inln lp = false) (loops s').
Proof. exact return_through_shortcut. Qed.
Print Assumptions C15_return_through_shortcut.

(* "Serve has returned" as a statement of its own.  That Serve returns AT ALL after the listener was closed (so that Shutdown can return)
   is the step LAcceptFail: ln.Accept() fails once ln.Close() was called - an assumption on the net.Listener / the OS. *)
Theorem C15_serve_returned : forall cf s, reach cf s -> just_shut_down s ->
  Forall (fun lp => lrunning lp = false /\ lnopen lp = false) (loops s) /\ serving s = 0.
Proof. intros cf s R H. destruct (returns_at_rest cf s R H) as (_ & Hl & _ & _ & Hs & _). split; assumption. Qed.
Print Assumptions C15_serve_returned.

(* Requests' Done channels, in EVERY cycle: once a call of ShutdownWithContext is past close(s.done) - and also after it gave up - the
   channel that ctx.Done() gave to any handler that is running has been closed; and a handler never gets a nil channel.  (A Server whose
   success branch forgot `s.doneClosed = false` would skip close(s.done) from the second cycle on: the first theorem is then false.) *)
Theorem C15_done_closed : forall cf s, reach cf s -> shutdown_past_close_done s -> Forall (done_closed_for s) (conns s).
Proof. exact done_closed'. Qed.
Print Assumptions C15_done_closed.

Theorem C15_done_never_nil : forall cf s, reach cf s -> Forall (fun r => pc r = CHandler -> cdone r <> None) (conns s).
Proof. exact done_not_nil. Qed.
Print Assumptions C15_done_never_nil.

(* ... and the stop flag that ends the request loops is set exactly while Shutdown runs *)
Theorem C15_stop_flag : forall cf s, reach cf s -> stop s = sd_active (sd s).
Proof. exact stop_flag. Qed.
Print Assumptions C15_stop_flag.

(* Every started handler is accounted for at every moment: delivered, still in the writer, in progress, undeliverable because the client
   went away, or undeliverable because of the server (lost). *)
Theorem C15_handler_accounting : forall cf s, reach cf s -> Forall cwf (conns s).
Proof. exact accounting. Qed.
Print Assumptions C15_handler_accounting.

(* "Every request whose handler started before or during shutdown had its response written": when a call of Shutdown has returned nil (in any cycle; no ShutdownWithContext of this Server has ever returned an error),
   every handler that was ever started on any connection has its response at the client, unless the client itself had closed the connection (lostc); the server made
   no response undeliverable (lost = 0) - it neither closed a connection under a started handler nor dropped a response from its writer.
   Full strength, all interleavings.  This is the code after three repairs that this property's harness led to (66dbd41 flush on the stop
   check, 3ea360e no handler on a connection closeIdleConns has just closed, ce44e94 a connection in the middle of a pipeline is not marked
   idle); before them the statement was false, the three schedules are replayed in the examples below. *)
Theorem C15_started_handlers_answered : forall cf s, reach cf s -> failed (dn s) = false -> just_shut_down s ->
  Forall (fun r => answered r /\ lost r = 0) (conns s).
Proof. exact answered_at_return. Qed.
Print Assumptions C15_started_handlers_answered.

(* Stronger, at every moment: as long as no ShutdownWithContext call has returned an error the server has lost no response, and every finished connection
   has all its started handlers answered. *)
Theorem C15_nothing_lost_unless_shutdown_gave_up : forall cf s, reach cf s -> failed (dn s) = false ->
  Forall (fun r => lost r = 0) (conns s) /\ Forall (fun r => pc r = CClosed -> answered r) (conns s).
Proof. intros cf s R H. split; [exact (nothing_lost cf s R H)|exact (answered_when_done cf s R H)]. Qed.
Print Assumptions C15_nothing_lost_unless_shutdown_gave_up.

(* The condition is needed: after ShutdownWithContext returned ctx.Err() the stop flag is reset, and a connection that closeIdleConns closed with a
   request in hand serves it on the closed connection ("When ShutdownWithContext returns errors, any operation to the Server is unavailable"). *)
Example C15_ex_after_error_return_a_response_can_be_lost :
  match run (mkCfg false false false) init gave_up_trace with
  | Some s => sd s = SReturnedErr /\ map lost (conns s) = [1; 0]
  | None => False
  end.
Proof. exact after_error_return_a_response_can_be_lost. Qed.

(* Idle keep-alive connections are closed by the next closeIdleConns pass ... *)
Theorem C15_idle_closed : forall cf s s', step cf s LCloseIdle = Some s' ->
  forall c r, nth_error (conns s) c = Some r -> idle_keepalive s r ->
    exists r', nth_error (conns s') c = Some r' /\ srvClosed r' = true /\ pc r' = CPeek /\ buffered r' <= 0.
Proof. exact idle_closed_by_pass. Qed.
Print Assumptions C15_idle_closed.

(* ... and are not waited for: such a connection leaves by its own three steps (no client action, no timeout), giving back its unit of s.open.
   Partial with respect to "Shutdown returns": that needs the remaining handlers to end and Accept to fail after Close (see above);
   the example below runs a whole shutdown with two idle connections and one running handler without any client or clock label. *)
Theorem C15_idle_closed_not_waited_partial : forall cf s c r, nth_error (conns s) c = Some r -> pc r = CPeek -> srvClosed r = true -> buffered r <= 0 ->
  exists s', run cf s [LPeekFail c; LUnregIdle c; LOpenDec c] = Some s' /\ open s' = open s - 1 /\
             exists r', nth_error (conns s') c = Some r' /\ pc r' = CClosed /\ started r' = started r /\ delivered r' = delivered r.
Proof. exact closed_idle_conn_exits. Qed.
Print Assumptions C15_idle_closed_not_waited_partial.

Example C15_ex_graceful :
  match run (mkCfg false false false) init graceful_trace with
  | Some s1 =>
      match run (mkCfg false false false) s1 graceful_shutdown with
      | Some s => sd s = SReturnedNil /\ map started (conns s) = [1; 1; 1] /\ map delivered (conns s) = [1; 1; 1]
                  /\ map srvClosed (conns s) = [true; true; false] /\ n_lost s = 0 /\ closedch (dn s) = [O] /\ done (dn s) = None
      | None => False
      end
  | None => False
  end.
Proof. exact graceful_example. Qed.

Example C15_ex_unflushed_is_flushed_now :
  match run (mkCfg false false false) init unflushed_trace with
  | Some s => sd s = SReturnedNil /\ map started (conns s) = [1] /\ map delivered (conns s) = [1] /\ n_lost s = 0
  | None => False
  end.
Proof. exact unflushed_is_flushed_now. Qed.

Example C15_ex_request_in_hand_is_not_served_now :
  match run (mkCfg false false false) init closeidle_trace with
  | Some s => sd s = SReturnedNil /\ map started (conns s) = [1] /\ map delivered (conns s) = [1] /\ n_lost s = 0
  | None => False
  end.
Proof. exact closeidle_request_in_hand_is_not_served_now. Qed.

Example C15_ex_pipelined_conn_is_not_closed_as_idle_now :
  (match run (mkCfg false false false) init closeidle_unflushed_trace with
   | Some s => sd s = SReturnedNil /\ map started (conns s) = [2] /\ map delivered (conns s) = [2] /\ n_lost s = 0 /\ map srvClosed (conns s) = [false]
   | None => False
   end) /\
  (match run (mkCfg true false false) init closeidle_unflushed_trace with
   | Some s => sd s = SReturnedNil /\ map started (conns s) = [2] /\ map delivered (conns s) = [2] /\ n_lost s = 0
   | None => False
   end).
Proof. exact pipelined_conn_is_not_closed_as_idle_now. Qed.

(* Shutdown on a server on which Serve was never called returns at once; a context that expires gives an error and resets the stop flag *)
(* two cycles on one Server (the second Shutdown closes the fresh channel of the second Serve), then a timed-out call, a call after it
   (shortcut), and Serve once more *)
Example C15_ex_reuse :
  match run (mkCfg false false false) init cycle1 with
  | Some s1 =>
      sd s1 = SReturnedNil /\ done (dn s1) = None /\ dflag (dn s1) = false /\ closedch (dn s1) = [O] /\
      match run (mkCfg false false false) s1 cycle2_until_done_closed with
      | Some s2 =>
          sd s2 = SWait /\ map cdone (conns s2) = [Some O; Some 1%nat] /\ n_handlers s2 = 1 /\
          done (dn s2) = Some 1%nat /\ chan_closed (dn s2) 1 = true /\
          match run (mkCfg false false false) s2 [LCtxExpire; LSetStop] with
          | Some s3 => sd s3 = SReturnedNil /\ tainted (dn s3) = true /\ n_handlers s3 = 1 /\ chan_closed (dn s3) 1 = true /\
                       match run (mkCfg false false false) s3 ([LServeStart] ++ one_request 2 2) with
                       | Some s4 => map cdone (conns s4) = [Some O; Some 1%nat; Some 1%nat] /\ chan_closed (dn s4) 1 = true
                       | None => False
                       end
          | None => False
          end
      | None => False
      end
  | None => False
  end.
Proof. exact reuse_example. Qed.

(* the idle marker of a NEW connection is connTime + 5 s and the clock is part of the model (LRegIdle, LTick): "opened, silent for 5 s, first
   request read just as closeIdleConns closes it" is one of the interleavings C15_started_handlers_answered quantifies over; here it is *)
Example C15_ex_fresh_conn_first_request_is_not_served :
  (match run (mkCfg false false false) init (firstn 13 fresh_conn_trace) with
   | Some s => map srvClosed (conns s) = [true] /\ map pc (conns s) = [CGotByte]
   | None => False
   end) /\
  (match run (mkCfg false false false) init fresh_conn_trace with
   | Some s => sd s = SReturnedNil /\ map started (conns s) = [0] /\ n_lost s = 0
   | None => False
   end) /\
  (match run (mkCfg false false false) init [LServeStart; LAccept 0; LOpenInc 0; LRegIdle 0; LSetDeadline 0; LSend 0; LPeekOk 0;
                                        LSetStop; LCloseListeners; LAcceptFail 0; LCloseDone; LCloseIdle; LReadServing; LReadOpen;
                                        LStore0 0; LLoadStop 0; LLookup 0; LReadReq 0] with
   | Some s => map srvClosed (conns s) = [false] /\ n_handlers s = 1
   | None => False
   end).
Proof. exact fresh_conn_first_request_is_not_served. Qed.

Example C15_ex_no_listener : run (mkCfg false false false) init [LSetStop] = Some (set_sd init SReturnedNil).
Proof. reflexivity. Qed.

Example C15_ex_ctx_expires :
  match run (mkCfg false false false) init
        [LServeStart; LAccept 0; LOpenInc 0; LSend 0; LRegIdle 0; LSetDeadline 0; LPeekOk 0; LStore0 0; LLoadStop 0; LReadReq 0;
         LSetStop; LCloseListeners; LAcceptFail 0; LCloseDone; LCloseIdle; LReadServing; LReadOpen; LCtxExpire] with
  | Some s => sd s = SReturnedErr /\ stop s = false /\ n_handlers s = 1 /\ chan_closed (dn s) 0 = true /\ tainted (dn s) = true
  | None => False
  end.
Proof. vm_compute. repeat split; reflexivity. Qed.
