(* C15 — Shutdown is graceful.  Statements only; proofs in Proof/ShutdownProof.v (counting invariant) and Proof/ShutdownGraceful.v.
   [reach cf s]: s is reachable from the fresh server by any interleaving of the atomic steps of the Serve accept loops, the
   connection goroutines (request loop of serveConnCounted, serveConnCleanup), ShutdownWithContext (stop flag, closeListenersLocked,
   close(s.done), loop { closeIdleConns; serving / open check; ticker | ctx.Done }), clients (send, close) and the clock, for any
   number of Serve calls and connections.  [greach]: the same, restricted by `guard` (Model/Shutdown.v): no closeIdleConns pass
   meets a connection with request data in hand. *)
From FH Require Import Model.Base Model.Shutdown Spec.ShutdownSpec Proof.ShutdownProof Proof.ShutdownGraceful.
Open Scope Z_scope.

(* After Shutdown returned nil: every listener is closed, every Serve call has returned, no request handler is running (handlers
   abandoned by TimeoutHandler and hijack handlers are not threads of the model), no connection is counted, the stop flag is reset.
   This uses that s.serving is read before s.open; no assumption on the listener is needed for this direction. *)
Theorem C15_returns_after_handlers : forall cf s, reach cf s -> sd s = SReturnedNil -> at_rest s.
Proof. exact returns_at_rest. Qed.
Print Assumptions C15_returns_after_handlers.

(* "Serve has returned" as a statement of its own.  That Serve returns AT ALL after the listener was closed (so that Shutdown can return)
   is the step LAcceptFail: ln.Accept() fails once ln.Close() was called - an assumption on the net.Listener / the OS. *)
Theorem C15_serve_returned : forall cf s, reach cf s -> sd s = SReturnedNil ->
  Forall (fun lp => lrunning lp = false /\ lnopen lp = false) (loops s) /\ serving s = 0.
Proof. intros cf s R H. destruct (returns_at_rest cf s R H) as (_ & Hl & _ & _ & Hs & _). split; assumption. Qed.
Print Assumptions C15_serve_returned.

(* Requests' Done channels: s.done is closed from close(s.done) on, for as long as Shutdown runs and after it returned. *)
Theorem C15_done_closed : forall cf s, reach cf s -> done_must_be_closed s -> doneClosed s = true.
Proof. exact done_closed'. Qed.
Print Assumptions C15_done_closed.

(* ... and the stop flag that ends the request loops is set exactly while Shutdown runs *)
Theorem C15_stop_flag : forall cf s, reach cf s -> stop s = sd_active (sd s).
Proof. exact stop_flag. Qed.
Print Assumptions C15_stop_flag.

(* Every started handler is accounted for at every moment: delivered, still in the writer, in progress, undeliverable because the client
   went away, or undeliverable because of the server (lost). *)
Theorem C15_handler_accounting : forall cf s, reach cf s -> Forall cwf (conns s).
Proof. exact accounting. Qed.
Print Assumptions C15_handler_accounting.

(* Full statement: "every request whose handler started before or during shutdown had its response written (on a connection the server had
   not closed)".  It is FALSE of the code (finding closeidle-drops-unflushed-response-of-pipelined-conn, reproduced on the real server by the
   harness): closeIdleConns closes a connection that is marked idle while the response of its last request is still in the writer because a
   pipelined request is buffered.  Two other ways in which it used to fail are repaired and modelled as repaired: the stop check dropping an
   unflushed response (66dbd41) and a request read just before closeIdleConns closed the connection being served on the closed connection
   (3ea360e); the two examples below replay those schedules. *)
Theorem C15_started_handlers_answered_refuted :
  (exists s, reach (mkCfg false false) s /\ sd s = SReturnedNil /\ exists r, In r (conns s) /\ dropped_response r) /\
  (exists s, reach (mkCfg true false) s /\ sd s = SReturnedNil /\ exists r, In r (conns s) /\ dropped_response r).
Proof. destruct refuted_closeidle_unflushed as [H1 H2]. split; eapply refuted_spec; eauto. Qed.
Print Assumptions C15_started_handlers_answered_refuted.

(* It holds on the schedules the guard leaves: at every moment nothing is lost by the server's doing, a finished connection has all its
   started handlers answered (or the client had closed), and so has every connection when Shutdown returns nil. *)
Theorem C15_started_handlers_answered_guarded : forall cf s, greach cf s ->
  Forall (fun r => lost r = 0) (conns s) /\ Forall (fun r => pc r = CClosed -> answered r) (conns s) /\
  (sd s = SReturnedNil -> Forall answered (conns s)).
Proof.
  intros cf s G. split; [exact (nothing_lost cf s G)|]. split; [exact (answered_on_guarded_schedules cf s G)|exact (answered_at_return cf s G)].
Qed.
Print Assumptions C15_started_handlers_answered_guarded.

(* The guard excludes exactly the step the finding is about; pipelining by itself needs no guard.  (The guard is sufficient, not necessary:
   since 3ea360e a connection closed with an unanswered request in hand and an empty writer loses nothing while Shutdown runs.) *)
Theorem C15_guard_is_tight :
  first_unguarded (mkCfg false false) init unflushed_trace = None /\
  first_unguarded (mkCfg false false) init closeidle_unflushed_trace = Some LCloseIdle /\
  first_unguarded (mkCfg true false) init closeidle_unflushed_trace_dl = Some LCloseIdle.
Proof. exact guard_excludes_witnesses. Qed.
Print Assumptions C15_guard_is_tight.

(* Idle keep-alive connections are closed by the next closeIdleConns pass ... *)
Theorem C15_idle_closed : forall cf s s', step cf s LCloseIdle = Some s' ->
  forall c r, nth_error (conns s) c = Some r -> idle_keepalive s r ->
    exists r', nth_error (conns s') c = Some r' /\ srvClosed r' = true /\ pc r' = CPeek /\ buffered r' <= 0.
Proof. exact idle_closed_by_pass. Qed.
Print Assumptions C15_idle_closed.

(* ... and are not waited for: such a connection leaves by its own three steps (no client action, no timeout), giving back its unit of s.open.
   Partial with respect to "Shutdown returns": that needs the remaining handlers to end and Accept to fail after Close (see above);
   the example below runs a whole shutdown with two idle connections and one running handler without any client or clock label. *)
Theorem C15_idle_closed_not_waited_partial : forall cf s c r, nth_error (conns s) c = Some r -> pc r = CPeek -> srvClosed r = true -> buffered r <= 0 ->
  exists s', run cf s [LPeekFail c; LUnregIdle c; LOpenDec c] = Some s' /\ open s' = open s - 1 /\
             exists r', nth_error (conns s') c = Some r' /\ pc r' = CClosed /\ started r' = started r /\ delivered r' = delivered r.
Proof. exact closed_idle_conn_exits. Qed.
Print Assumptions C15_idle_closed_not_waited_partial.

Example C15_ex_graceful :
  match run (mkCfg false false) init graceful_trace with
  | Some s1 =>
      match run (mkCfg false false) s1 graceful_shutdown with
      | Some s => sd s = SReturnedNil /\ map started (conns s) = [1; 1; 1] /\ map delivered (conns s) = [1; 1; 1]
                  /\ map srvClosed (conns s) = [true; true; false] /\ n_lost s = 0 /\ doneClosed s = true
                  /\ first_unguarded (mkCfg false false) init (graceful_trace ++ graceful_shutdown) = None
      | None => False
      end
  | None => False
  end.
Proof. exact graceful_example. Qed.

Example C15_ex_unflushed_is_flushed_now :
  match run (mkCfg false false) init unflushed_trace with
  | Some s => sd s = SReturnedNil /\ map started (conns s) = [1] /\ map delivered (conns s) = [1] /\ n_lost s = 0
  | None => False
  end.
Proof. exact unflushed_is_flushed_now. Qed.

Example C15_ex_request_in_hand_is_not_served_now :
  match run (mkCfg false false) init closeidle_trace with
  | Some s => sd s = SReturnedNil /\ map started (conns s) = [1] /\ map delivered (conns s) = [1] /\ n_lost s = 0
  | None => False
  end.
Proof. exact closeidle_request_in_hand_is_not_served_now. Qed.

(* Shutdown on a server on which Serve was never called returns at once; a context that expires gives an error and resets the stop flag *)
Example C15_ex_no_listener : run (mkCfg false false) init [LSetStop] = Some (set_sd init SReturnedNil).
Proof. reflexivity. Qed.

Example C15_ex_ctx_expires :
  match run (mkCfg false false) init
        [LServeStart; LAccept 0; LOpenInc 0; LSend 0; LRegIdle 0; LSetDeadline 0; LPeekOk 0; LStore0 0; LLoadStop 0; LReadReq 0;
         LSetStop; LCloseListeners; LAcceptFail 0; LCloseDone; LCloseIdle; LReadServing; LReadOpen; LCtxExpire] with
  | Some s => sd s = SReturnedErr /\ stop s = false /\ n_handlers s = 1 /\ doneClosed s = true
  | None => False
  end.
Proof. vm_compute. repeat split; reflexivity. Qed.
