(* C16 — Timed-out handlers cannot affect what is sent.  Statements only; proofs live in Proof/TimeoutProof.v.

   The model (Model/Timeout.v) is a labelled transition system with any number of connections (serve loops), wrapped
   handler goroutines and RequestCtx objects; `reachable` quantifies over ALL interleavings of their steps, all choices
   of pooled objects, all values the handlers write and all moments at which a timer fires.
   A response value carries a ghost owner (connection, request number): the request on whose behalf it was written.
   k_log c lists, for connection c, (request number, timeoutResponse seen by the serve loop, response serialised). *)
From Coq Require Import List Arith.
Import ListNotations.
From FH Require Import Model.Timeout Proof.TimeoutProof.

Section C16.
  Variable V : Type.
  Variables timeout_resp too_many init_resp : V.
  Variable cap : nat.
  Notation reachable := (reachable V timeout_resp too_many init_resp cap).
  Notation step := (step V timeout_resp too_many init_resp cap).

  (* Once the serve loop has seen a timeout response for request i (set by the wrapper when the timer fired, or by the
     handler calling one of the TimeoutError functions), the response serialised for request i IS that timeout response, and it was
     written for request i of this connection: whatever the still-running handler writes before, between and after the
     loop's steps (its writes are steps of the system) is not sent. *)
  Theorem C16_exact_timeout_response : forall s c i v w, reachable s -> c < s_nconn V s ->
    In (i, Some v, w) (k_log V (s_conn V s c)) -> w = v /\ rv_own V v = (c, i).
  Proof. exact (exact_timeout_response V timeout_resp too_many init_resp cap). Qed.

  (* Later (and earlier) requests are unaffected: every response ever serialised on a connection was written on behalf
     of exactly that request — by its own handler before the wrapper returned, by the serve loop (reset, 429), or as
     its own timeout response; never by a handler goroutine of another request or another connection ... *)
  Theorem C16_later_requests_unaffected : forall s c i tr w, reachable s -> c < s_nconn V s ->
    In (i, tr, w) (k_log V (s_conn V s c)) -> rv_own V w = (c, i).
  Proof. exact (responses_are_own V timeout_resp too_many init_resp cap). Qed.

  (* ... because the ctx a connection uses between two requests is referenced by no running handler goroutine (the ctx
     of a timed-out request is swapped out and never released to the pool), and neither is any pooled ctx *)
  Theorem C16_next_ctx_is_fresh : forall s c h, reachable s -> opened V s c -> k_phase V (s_conn V s c) = PIdle V -> running V s h ->
    h_ctx (s_h V s h) <> k_ctx V (s_conn V s c).
  Proof. exact (idle_ctx_is_private V timeout_resp too_many init_resp cap). Qed.
  Theorem C16_pooled_ctx_is_unreferenced : forall s h, reachable s -> running V s h ->
    cx_pooled V (s_ctx V s (h_ctx (s_h V s h))) = false.
  Proof. exact (pooled_ctx_is_private V timeout_resp too_many init_resp cap). Qed.

  (* the serve loop never tries to write a ctx that carries a timeout response ("cannot write timed out response")
     and never releases one ("BUG: cannot release timed out RequestCtx") *)
  Theorem C16_serialize_not_stuck : forall s c tr, reachable s -> opened V s c -> k_phase V (s_conn V s c) = PReady V tr ->
    cx_tresp V (s_ctx V s (k_ctx V (s_conn V s c))) = None.
  Proof. exact (no_stuck_serialize V timeout_resp too_many init_resp cap). Qed.
  Theorem C16_release_does_not_panic : forall s c, reachable s -> opened V s c -> k_phase V (s_conn V s c) = PIdle V ->
    cx_tresp V (s_ctx V s (k_ctx V (s_conn V s c))) = None.
  Proof. exact (no_panic_release V timeout_resp too_many init_resp cap). Qed.

  (* At most Concurrency wrapped handlers run at the same time: the goroutines inside h(ctx) are among those holding a
     semaphore slot, whose number is len(concurrencyCh) <= cap ... *)
  Theorem C16_concurrency_bound : forall s, reachable s ->
    cnt_running (s_h V s) (s_nh V s) <= s_sem V s /\ s_sem V s = cnt (s_h V s) (s_nh V s) /\ s_sem V s <= cap.
  Proof. exact (at_most_cap_handlers V timeout_resp too_many init_resp cap). Qed.
  (* ... and a wrapped call is refused with the 429 response exactly when no slot is free (then no goroutine starts) *)
  Theorem C16_concurrency_429 : forall s c s', step s (LReqStart c) = Some s' ->
    (s_sem V s < cap /\ s_nh V s' = S (s_nh V s) /\ s_sem V s' = S (s_sem V s) /\ k_phase V (s_conn V s' c) = PWaiting V (s_nh V s) /\
       h_st (s_h V s' (s_nh V s)) = HRunning) \/
    (cap <= s_sem V s /\ s_nh V s' = s_nh V s /\ s_sem V s' = s_sem V s /\ k_phase V (s_conn V s' c) = PReturned V /\
       rv_val V (cx_resp V (s_ctx V s' (k_ctx V (s_conn V s' c)))) = too_many).
  Proof. exact (excess_gets_429 V timeout_resp too_many init_resp cap). Qed.
End C16.
Print Assumptions C16_exact_timeout_response.
Print Assumptions C16_later_requests_unaffected.
Print Assumptions C16_next_ctx_is_fresh.
Print Assumptions C16_pooled_ctx_is_unreferenced.
Print Assumptions C16_serialize_not_stuck.
Print Assumptions C16_release_does_not_panic.
Print Assumptions C16_concurrency_bound.
Print Assumptions C16_concurrency_429.

(* ---- non-vacuity: a timed-out request, a late write, then an ordinary request on the same connection ---- *)
Definition ex_trace : list (label nat) :=
  [LConnOpen 0; LReqStart 0; LTimerFire 0; LReadTimeout 0; LSwapCtx 0 0; LCopyResp 0; LSerialize 0;
   LHandlerWrite 0 666; LHandlerTimeoutErr 0 667; LReqStart 0; LHandlerWrite 1 200; LHandlerWrite 0 668; LHandlerFinish 1; LWrapperDone 0;
   LHandlerFinish 0; LHandlerRelease 0; LHandlerRelease 1; LReadTimeout 0; LSerialize 0; LConnClose 0].
Example C16_ex_trace :
  option_map (fun s => (map (fun e => match e with (i, tr, w) => (i, option_map (rv_val nat) tr, rv_val nat w) end) (k_log nat (s_conn nat s 0)), s_sem nat s))
             (run nat 408 429 0 2 (init nat 0) ex_trace)
  = Some ([(0, Some 408, 408); (1, None, 200)], 0).
Proof. vm_compute. reflexivity. Qed.
(* with a single slot the second request is refused while the late handler still holds it *)
Example C16_ex_429 :
  option_map (fun s => map (fun e => match e with (i, tr, w) => (i, rv_val nat w) end) (k_log nat (s_conn nat s 0)))
             (run nat 408 429 0 1 (init nat 0)
                [LConnOpen 0; LReqStart 0; LTimerFire 0; LReadTimeout 0; LSwapCtx 0 0; LCopyResp 0; LSerialize 0;
                 LReqStart 0; LReadTimeout 0; LSerialize 0; LHandlerFinish 0; LHandlerRelease 0;
                 LReqStart 0; LHandlerWrite 1 200; LHandlerFinish 1; LWrapperDone 0; LReadTimeout 0; LSerialize 0])
  = Some [(0, 408); (1, 429); (2, 200)].
Proof. vm_compute. reflexivity. Qed.
