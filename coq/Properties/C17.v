(* C17 — Hijacked connections are handed over intact.  Statements only; proofs in Proof/ServeProof.v.

   "When a handler hijacks the connection, the response (unless suppressed with HijackSetNoResponse) is fully
   written before the hijack handler runs, the hijack handler reads every byte the client sent after the
   hijacking request in order, and the server never reads or writes that connection again.  The connection is
   closed after the hijack handler returns unless KeepHijackedConns is set."

   HijackEv src hb hcs is the start of the hijack handler (go hijackConnHandler): src = which io.Reader it is
   given, hb = what that reader has buffered, hcs = what later reads of the connection return.  All theorems are
   for every request reader F with the framer laws, configuration, environment, entry point and client stream
   (any chunking of any bytes).  (The server skips the hijack handler when the response closes the connection —
   documented at RequestCtx.Hijack — so the theorems speak about runs in which HijackEv occurs.) *)
From FH Require Import Model.Base Gen.GenC10 Model.ConnOpt Model.Serve Spec.ServeSpec Proof.ServeProof Check.ServeCheck.
Open Scope nat_scope.

(* Everything written before the hijack handler starts has been flushed, and unless the handler of the
   hijacking request suppressed it, its response is among that — for a hijack on ANY request of a keep-alive
   connection and whatever the handlers of the earlier requests did: the model carries ctx.hijackNoResponse from
   request to request (lst.l_noresp) and the loop's reset after each request is what makes the hijacking request's
   own operations (req_hstate ... false: starting from a cleared flag) the only ones that count. *)
Theorem C17_response_before_handler : forall F cfg E, framer_ok F -> forall en ad rd src hb hcs,
  In (HijackEv src hb hcs) (serve_conn F cfg E en ad rd) ->
  exists pre post num q,
    serve_conn F cfg E en ad rd = pre ++ HijackEv src hb hcs :: post /\
    unflushed_from false pre = false /\
    In (Dispatch num q) pre /\ h_hijack (req_hstate E num q true StatusOK false) = true /\
    (h_noresp (req_hstate E num q true StatusOK false) = false ->
       In (Resp (resp_of num q true (req_hstate E num q true StatusOK false) false)) pre).
Proof. exact response_before_handler. Qed.
Print Assumptions C17_response_before_handler.

(* What the hijack handler can read is exactly the client's stream from the framed end of the hijacking
   request on: the request starts at offset off, the reader frames it as k bytes, and
   buffered bytes ++ future reads = the suffix at off + k — for every chunking and ReduceMemoryUsage setting. *)
Theorem C17_bytes_intact : forall F cfg E, framer_ok F -> forall en ad rd src hb hcs,
  In (HijackEv src hb hcs) (serve_conn F cfg E en ad rd) ->
  exists pre post num q off k,
    serve_conn F cfg E en ad rd = pre ++ HijackEv src hb hcs :: post /\
    In (Dispatch num q) pre /\ h_hijack (req_hstate E num q true StatusOK false) = true /\
    framed F (skipn off (remaining rd)) q k /\
    hb ++ concat hcs = skipn (off + k) (remaining rd) /\
    forall n, hijack_in hb hcs n = firstn n (skipn (off + k) (remaining rd)).
Proof. exact bytes_intact. Qed.
Print Assumptions C17_bytes_intact.

(* After the hijack handler was started the serve loop does nothing more with the connection: no parse,
   dispatch, response, flush or close event follows, and there is only one hijack per connection. *)
Theorem C17_server_silent_after : forall F cfg E, framer_ok F -> forall en ad rd src hb hcs,
  In (HijackEv src hb hcs) (serve_conn F cfg E en ad rd) ->
  exists pre post,
    serve_conn F cfg E en ad rd = pre ++ HijackEv src hb hcs :: post /\
    forallb (fun e => negb (is_hijack_ev e)) pre = true /\
    forallb (fun e => negb (loop_io e)) post = true.
Proof. exact server_silent_after. Qed.
Print Assumptions C17_server_silent_after.

(* What follows is StateHijacked and, unless KeepHijackedConns, the close after the handler returned; the
   server's own Close never happens on a hijacked connection. *)
Theorem C17_closed_unless_kept : forall F cfg E, framer_ok F -> forall en ad rd src hb hcs,
  In (HijackEv src hb hcs) (serve_conn F cfg E en ad rd) ->
  exists pre,
    serve_conn F cfg E en ad rd =
      pre ++ HijackEv src hb hcs :: St StHijacked :: (if keep_hijacked cfg then [] else [HijackClose]) /\
    ~ In Close (serve_conn F cfg E en ad rd).
Proof. exact closed_unless_kept. Qed.
Print Assumptions C17_closed_unless_kept.

(* KeepHijackedConns: the connection outlives the hijack handler; reads after the handler returned continue the
   stream where the handler stopped (having read k bytes), for every configuration — in particular with
   ReduceMemoryUsage, where the reader goes through ctx.fbr and the ctx must therefore not be reset. *)
Theorem C17_late_reads_intact : forall F cfg E, framer_ok F -> forall en ad rd src hb hcs,
  In (HijackEv src hb hcs) (serve_conn F cfg E en ad rd) ->
  keep_hijacked cfg = true ->
  forall k, hijack_late (reduce_mem cfg) (keep_hijacked cfg) src hb hcs k = LateAll (skipn k (hb ++ concat hcs)).
Proof. exact late_reads_intact. Qed.
Print Assumptions C17_late_reads_intact.

(* the reader through ctx.fbr does occur, and a reset ctx would break it (the repaired defect) *)
Example C17_ex_fbr_reader :
  let cfg := {| reduce_mem := true; stream_body := false; disable_keepalive := false; close_on_shutdown := false;
                keep_hijacked := true; max_reqs := 0%N; xmode := XNone |} in
  In (HijackEv HjBrFbr [1; 2; 3]%N []) (serve_conn toy_framer cfg (toy_env [HijackOp]) ViaServe Admit
                                                   {| buf := []; chunks := [[82; 1; 2; 3]%N]; tl := Eof |})
  /\ ctx_released true true HjBrFbr = false
  /\ hijack_late true true HjBrFbr [1; 2; 3]%N [] 1 = LateAll [2; 3]%N.
Proof. exact late_reads_witness. Qed.

(* non-vacuity on the concrete reader: pipelined bytes behind a hijacking request are handed over from br's
   buffer (no ReduceMemoryUsage) and, with ReduceMemoryUsage, through ctx.fbr; the response precedes *)
Definition ex_req : bytes := s2b "GET /r1 HTTP/1.1" ++ [13; 10]%N ++ s2b "Host: h" ++ [13; 10; 13; 10]%N.
Definition ex_cfg (rm kh : bool) := mk_scfg rm false false false kh 0%N XNone.
Example C17_ex_handover :
  hijack_of (run ViaServe Admit (ex_cfg false false) [[HijackOp]] [] None [ex_req ++ s2b "ABC"; s2b "DEF"] Eof)
    = Some (HjBr, s2b "ABC", [s2b "DEF"])
  /\ hijack_of (run ViaServe Admit (ex_cfg true true) [[HijackOp]] [] None [ex_req ++ s2b "ABC"; s2b "DEF"] Eof)
    = Some (HjBrFbr, s2b "ABC", [s2b "DEF"])
  /\ hijack_of (run ViaServe Admit (ex_cfg true true) [[HijackOp]] [] None [ex_req; s2b "DEF"] Eof)
    = Some (HjConn, [], [s2b "DEF"]).
Proof. vm_compute. repeat split; reflexivity. Qed.
Example C17_ex_skipped_on_close :
  hijack_of (run ViaServe Admit (ex_cfg false false) [[HijackOp; SetConnClose]] [] None [ex_req ++ s2b "ABC"] Eof) = None.
Proof. vm_compute. reflexivity. Qed.
