(* C18 — HostClient connection pool respects MaxConns and keeps exact accounting.
   Statements only; proofs live in Proof/ClientPoolProof.v.  [reach cf s]: s is reachable from the empty pool
   by any interleaving of the lock regions of AcquireConn / queueForIdle / dialConnFor / ReleaseConn / CloseConn /
   decConnsCount / wantConn.cancel / the cleaner, for any number of requesters, dial results and timer firings. *)
From FH Require Import Model.Base Gen.GenC18 Model.ClientPool Spec.ClientPoolSpec Proof.ClientPoolProof.
Open Scope Z_scope.

(* ConnsCount = idle + lent + in hand-over (delivered to a wantConn, or on the way to ReleaseConn / CloseConn)
   + dials in flight (+ failed dialConnFor about to call decConnsCount) *)
Theorem C18_exact_accounting : forall cf s, reach cf s -> exact_accounting s.
Proof. exact exact_accounting_reach. Qed.
Print Assumptions C18_exact_accounting.

Theorem C18_bound : forall cf s, reach cf s -> 0 <= cnt s <= eff_max cf.
Proof. exact count_bound_reach. Qed.
Print Assumptions C18_bound.

(* connections open or being dialled, except those whose CloseConn has released the slot but not finished Close() *)
Theorem C18_open_bound_excl_closing : forall cf s, reach cf s ->
  open_or_dialling s - Z.of_nat (length (closing s)) <= eff_max cf.
Proof. exact open_bound_excl_closing. Qed.
Print Assumptions C18_open_bound_excl_closing.

Theorem C18_open_bound_when_no_close_in_progress : forall cf s, reach cf s -> closing s = [] -> open_bound cf s.
Proof. exact open_bound_no_closing. Qed.
Print Assumptions C18_open_bound_when_no_close_in_progress.

(* FINDING closeconn-slot-freed-before-close: the strict statement "never more than MaxConns connections open or
   being dialled" is false of the code: CloseConn calls decConnsCount before cc.c.Close(), so a new connection can
   be dialled while the old one is still open (MaxConns = 1: Acquire, DialOk, CloseConn up to decConnsCount, Acquire, DialOk). *)
Theorem C18_open_bound_refuted : exists cf ls s, run cf init ls = Some s /\ reach cf s /\ ~ open_bound cf s.
Proof. exact open_bound_refuted. Qed.
Print Assumptions C18_open_bound_refuted.

(* a connection is in at most one of: idle list, one requester, one hand-over, one delivered wantConn, being closed *)
Theorem C18_exclusive_lending : forall cf s, reach cf s -> exclusive s.
Proof. exact exclusive_reach. Qed.
Print Assumptions C18_exclusive_lending.

(* waiters, part 1: no AcquireConn call is inside the wait path after its deadline tick ... *)
Theorem C18_waiter_outcome_by_deadline : forall cf s, reach cf s -> within_deadline s.
Proof. exact within_deadline_reach. Qed.
Print Assumptions C18_waiter_outcome_by_deadline.

(* ... and that is not bought by stopping the clock: whenever time cannot advance, a requester at its deadline can
   return by its own (at most two) steps, whatever state the pool is in *)
Theorem C18_waiter_outcome_progress : forall cf s, reach cf s -> step cf s LTick = None ->
  exists w, pending (getw (wants s) w) = true /\ wdl (getw (wants s) w) = clock s /\
    exists ls s', (ls = [LTimeout w] \/ ls = [LEnqueue w; LTimeout w]) /\ run cf s ls = Some s' /\
                  pending (getw (wants s') w) = false.
Proof. exact time_progress. Qed.
Print Assumptions C18_waiter_outcome_progress.

(* part 2: the timer branch returns ErrNoFreeConns / ErrTimeout and a connection delivered in the meantime is handed to ReleaseConn *)
Theorem C18_waiter_outcome_timeout : forall cf s w,
  in_wait (wst (getw (wants s) w)) = true -> wdl (getw (wants s) w) <= clock s ->
  exists s', step cf s (LTimeout w) = Some s' /\
    (wst (getw (wants s') w) = WRet RNoFree \/ wst (getw (wants s') w) = WRet RTimeout) /\
    (forall c, wst (getw (wants s) w) = WDelivered c -> In c (rel s')).
Proof. exact timeout_enabled. Qed.
Print Assumptions C18_waiter_outcome_timeout.

(* part 3: the ready branch returns the delivered connection to exactly this requester *)
Theorem C18_waiter_outcome_take : forall cf s w c, wst (getw (wants s) w) = WDelivered c ->
  exists s', step cf s (LTake w) = Some s' /\ wst (getw (wants s') w) = WRet (RConn c) /\ In c (lent s').
Proof. exact take_enabled. Qed.
Print Assumptions C18_waiter_outcome_take.

(* part 4, no leak: a connection in hand-over always reaches the idle list or a wantConn that was still waiting *)
Theorem C18_waiter_outcome_no_leak : forall cf s c, In c (rel s) \/ In c (lent s) ->
  exists s', step cf s (LRelease c) = Some s' /\
    (In c (idle s') \/ exists w, waitingb (wants s) w = true /\ wst (getw (wants s') w) = WDelivered c).
Proof. exact release_enabled. Qed.
Print Assumptions C18_waiter_outcome_no_leak.

Theorem C18_quiescent_zero : forall cf s, reach cf s -> quiescent s -> cnt s = 0.
Proof. exact quiescent_zero. Qed.
Print Assumptions C18_quiescent_zero.

(* non-vacuity: a hand-over to a waiter, and a slot transfer through dialConnFor *)
Example C18_ex_handover :
  let cf := {| maxc := 1; waiton := true; fifo := false |} in
  match run cf init [LAcquire 5 false; LDialOk 0; LAcquire 5 false; LEnqueue 0; LRelease 0; LTake 0] with
  | Some s => cnt s = 1 /\ lent s = [0%nat] /\ wst (getw (wants s) 0) = WRet (RConn 0)
  | None => False
  end.
Proof. vm_compute. repeat split; reflexivity. Qed.
Example C18_ex_transfer :
  let cf := {| maxc := 1; waiton := true; fifo := false |} in
  match run cf init [LAcquire 5 false; LDialOk 0; LAcquire 5 false; LEnqueue 0; LClose 0; LTick; LTick; LTick; LTick; LTick; LTimeout 0; LDialOk 0; LRelease 1] with
  | Some s => cnt s = 1 /\ idle s = [1%nat] /\ closing s = [0%nat] /\ wst (getw (wants s) 0) = WRet RNoFree
  | None => False
  end.
Proof. vm_compute. repeat split; reflexivity. Qed.
