(* C18 — HostClient connection pool respects MaxConns and keeps exact accounting.
   Statements only; proofs live in Proof/ClientPoolProof.v.  [reach cf s]: s is reachable from the empty pool
   by any interleaving of the lock regions of AcquireConn / queueForIdle / dialConnFor / ReleaseConn / CloseConn /
   decConnsCount / wantConn.cancel / the cleaner, for any number of requesters, dial results and timer firings. *)
From FH Require Import Model.Base Gen.GenC18 Model.ClientPool Spec.ClientPoolSpec Proof.ClientPoolProof.
Open Scope Z_scope.

(* ConnsCount = idle + lent + in hand-over (delivered to a wantConn, or on the way to ReleaseConn / CloseConn)
   + inside Close() + dials in flight (+ failed dialConnFor about to call decConnsCount) *)
Theorem C18_exact_accounting : forall cf s, reach cf s -> exact_accounting s.
Proof. exact exact_accounting_reach. Qed.
Print Assumptions C18_exact_accounting.

Theorem C18_bound : forall cf s, reach cf s -> 0 <= cnt s <= eff_max cf.
Proof. exact count_bound_reach. Qed.
Print Assumptions C18_bound.

(* the strict reading of the statement: connections open (Close() not finished) or being dialled never exceed
   MaxConns.  (Before the fix "CloseConn frees the MaxConns slot only after the connection is closed" this was
   refuted by: MaxConns = 1, Acquire, DialOk, CloseConn up to decConnsCount, Acquire, DialOk.  That trace is kept in
   the harness corpus.) *)
Theorem C18_open_bound : forall cf s, reach cf s -> open_bound cf s.
Proof. exact open_bound_reach. Qed.
Print Assumptions C18_open_bound.

(* every connection ever dialled is in exactly one place: idle list, one requester, one hand-over, one delivered wantConn,
   the private copy of CloseIdleConnections / the cleaner, or the log of connections whose Close() was called.
   Hence: never lent to two requests, never idle or lent after Close, Close called at most once per connection,
   and no connection drops out of the pool's books while it is open. *)
Theorem C18_exclusive_lending : forall cf s, reach cf s -> exclusive s.
Proof. exact exclusive_reach. Qed.
Print Assumptions C18_exclusive_lending.

(* CloseIdleConnections / connsCleaner are multi-step in the model: LCleanIdle takes a private copy (scratch) of idle
   conns under the lock, then one LClose / LCloseFin pair per entry, interleavable with every other label.
   The copy only ever receives conns that were idle at such a snapshot, and Close() is only ever called (once, by
   C18_exclusive_lending) on a conn held by a requester or by such a copy — never on a conn that is in the idle list. *)
Theorem C18_clean_copy_source : forall cf s l s', step cf s l = Some s' -> forall c, In c (scratch s') ->
  In c (scratch s) \/ exists k, l = LCleanIdle k /\ In c (firstn k (idle s)).
Proof. exact scratch_source. Qed.
Print Assumptions C18_clean_copy_source.

Theorem C18_close_only_held : forall cf s l s', step cf s l = Some s' ->
  closelog s' = closelog s \/
  exists c, l = LClose c /\ closelog s' = closelog s ++ [c] /\ (In c (lent s) \/ In c (scratch s)).
Proof. exact closelog_source. Qed.
Print Assumptions C18_close_only_held.

(* when nothing is held any more, every connection that was ever dialled has had Close() called exactly once *)
Theorem C18_all_closed_once : forall cf s, reach cf s -> held s = [] ->
  NoDup (closelog s) /\ forall c, In c (closelog s) <-> (c < next s)%nat.
Proof. exact quiescent_all_closed. Qed.
Print Assumptions C18_all_closed_once.

(* waiters, part 1: no AcquireConn call is inside the wait path after its deadline tick ... *)
Theorem C18_waiter_outcome_by_deadline : forall cf s, reach cf s -> within_deadline s.
Proof. exact within_deadline_reach. Qed.
Print Assumptions C18_waiter_outcome_by_deadline.

(* ... and that is not bought by stopping the clock: whenever time cannot advance, a requester at its deadline can
   return by its own (at most two) steps, whatever state the pool is in *)
Theorem C18_waiter_outcome_progress : forall cf s, reach cf s -> step cf s LTick = None ->
  exists w, pending (getw (wants s) w) = true /\ wdl (getw (wants s) w) = clock s /\
    exists ls s', (ls = [LTimeout w] \/ ls = [LEnqueue w; LTimeout w]) /\ run cf s ls = Some s' /\
                  pending (getw (wants s') w) = false.
Proof. exact time_progress. Qed.
Print Assumptions C18_waiter_outcome_progress.

(* part 2: the timer branch returns ErrNoFreeConns / ErrTimeout and a connection delivered in the meantime is handed to ReleaseConn *)
Theorem C18_waiter_outcome_timeout : forall cf s w,
  in_wait (wst (getw (wants s) w)) = true -> wdl (getw (wants s) w) <= clock s ->
  exists s', step cf s (LTimeout w) = Some s' /\
    (wst (getw (wants s') w) = WRet RNoFree \/ wst (getw (wants s') w) = WRet RTimeout) /\
    (forall c, wst (getw (wants s) w) = WDelivered c -> In c (rel s')).
Proof. exact timeout_enabled. Qed.
Print Assumptions C18_waiter_outcome_timeout.

(* part 3: the ready branch returns the delivered connection to exactly this requester *)
Theorem C18_waiter_outcome_take : forall cf s w c, wst (getw (wants s) w) = WDelivered c ->
  exists s', step cf s (LTake w) = Some s' /\ wst (getw (wants s') w) = WRet (RConn c) /\ In c (lent s').
Proof. exact take_enabled. Qed.
Print Assumptions C18_waiter_outcome_take.

(* part 4, no leak: a connection in hand-over always reaches the idle list or a wantConn that was still waiting *)
Theorem C18_waiter_outcome_no_leak : forall cf s c, In c (rel s) \/ In c (lent s) ->
  exists s', step cf s (LRelease c) = Some s' /\
    (In c (idle s') \/ exists w, waitingb (wants s) w = true /\ wst (getw (wants s') w) = WDelivered c).
Proof. exact release_enabled. Qed.
Print Assumptions C18_waiter_outcome_no_leak.

(* part 5: the slot hand-off never loses a waiter: a wantConn that is still waiting is in the wait queue or a
   dialConnFor goroutine is dialling for it *)
Theorem C18_waiter_outcome_not_lost : forall cf s, reach cf s ->
  forall w, waitingb (wants s) w = true -> In w (waitq s) \/ In (DFor w) (dials s).
Proof. exact no_lost_waiter. Qed.
Print Assumptions C18_waiter_outcome_not_lost.

Theorem C18_quiescent_zero : forall cf s, reach cf s -> quiescent s -> cnt s = 0.
Proof. exact quiescent_zero. Qed.
Print Assumptions C18_quiescent_zero.

(* non-vacuity: a hand-over to a waiter, a slot transfer through dialConnFor, and the old witness of the open bound *)
Example C18_ex_handover :
  let cf := {| maxc := 1; waiton := true; fifo := false |} in
  match run cf init [LAcquire 5 false; LDialOk 0; LAcquire 5 false; LEnqueue 0; LRelease 0; LTake 0] with
  | Some s => cnt s = 1 /\ lent s = [0%nat] /\ wst (getw (wants s) 0) = WRet (RConn 0)
  | None => False
  end.
Proof. vm_compute. repeat split; reflexivity. Qed.
Example C18_ex_transfer :
  let cf := {| maxc := 1; waiton := true; fifo := false |} in
  match run cf init [LAcquire 5 false; LDialOk 0; LAcquire 5 false; LEnqueue 0; LClose 0; LCloseFin 0;
                     LTick; LTick; LTick; LTick; LTick; LTimeout 0; LDialOk 0; LRelease 1] with
  | Some s => cnt s = 1 /\ idle s = [1%nat] /\ closing s = [] /\ wst (getw (wants s) 0) = WRet RNoFree
  | None => False
  end.
Proof. vm_compute. repeat split; reflexivity. Qed.
(* a release while CloseIdleConnections is between two Close calls: the released conn stays idle, the copy is closed *)
Example C18_ex_release_during_close_idle :
  let cf := {| maxc := 4; waiton := false; fifo := false |} in
  match run cf init [LAcquire 1 false; LAcquire 1 false; LAcquire 1 false; LAcquire 1 false; LDialOk 0; LDialOk 0; LDialOk 0; LDialOk 0;
                     LRelease 0; LRelease 1; LCleanIdle 2; LClose 0; LRelease 2; LRelease 3; LCloseFin 0; LClose 1; LCloseFin 1] with
  | Some s => cnt s = 2 /\ idle s = [2; 3]%nat /\ closelog s = [0; 1]%nat /\ scratch s = [] /\ closing s = []
  | None => False
  end.
Proof. vm_compute. repeat split; reflexivity. Qed.
Example C18_ex_no_dial_while_closing :
  let cf := {| maxc := 1; waiton := false; fifo := false |} in
  match run cf init [LAcquire 1 false; LDialOk 0; LClose 0; LAcquire 1 false] with
  | Some s => cnt s = 1 /\ closing s = [0%nat] /\ dials s = [] /\ acquire_out cf s = ANoFree
  | None => False
  end.
Proof. vm_compute. repeat split; reflexivity. Qed.
