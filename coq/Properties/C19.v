(* C19 — Client retries are bounded and respect idempotency.  Statements only; proofs in Proof/RetryProof.v.
   [Do c fs]: HostClient.Do with configuration/request c when the k-th call of transport.RoundTrip meets fault
   fs[k] (success once the list is exhausted); calls = RoundTrip calls, sent = calls in which request bytes reached a peer. *)
From FH Require Import Model.Base Gen.GenC19 Model.Retry Spec.RetrySpec Proof.RetryProof.
Open Scope Z_scope.

Theorem C19_attempts_bounded : forall c fs,
  0 <= sent (Do c fs) <= calls (Do c fs) /\ calls (Do c fs) <= Z.max 1 (eff_attempts c).
Proof. exact attempts_bounded. Qed.
Print Assumptions C19_attempts_bounded.

(* the default (MaxIdemponentCallAttempts not set) is the translated constant, 5 *)
Theorem C19_attempts_default_5 : forall c fs, max_attempts c <= 0 -> sent (Do c fs) <= 5.
Proof. exact default_attempts. Qed.
Print Assumptions C19_attempts_default_5.

(* isIdempotent is exactly {GET, HEAD, PUT} (empty method = GET) *)
Theorem C19_idempotent_set : forall m, is_idempotent m = named_idempotent (method_of m).
Proof. exact is_idempotent_names. Qed.
Print Assumptions C19_idempotent_set.

(* a request whose method is not GET/HEAD/PUT — or any request when the callbacks that are set never say retry —
   is passed to RoundTrip once *)
Theorem C19_non_idempotent_once : forall c fs,
  callbacks_allow c = false -> (has_callback c = true \/ is_idempotent (meth c) = false) ->
  calls (Do c fs) <= 1 /\ sent (Do c fs) <= 1.
Proof. exact not_allowed_once. Qed.
Print Assumptions C19_non_idempotent_once.

Theorem C19_no_retry_stream : forall c fs, body_stream c = true -> calls (Do c fs) <= 1 /\ sent (Do c fs) <= 1.
Proof. exact stream_once. Qed.
Print Assumptions C19_no_retry_stream.

(* no RoundTrip call follows the one that returned ErrBodyTooLarge, whatever the callbacks say *)
Theorem C19_no_retry_too_large : forall c fs i, is_head (meth c) = false -> nth_error fs i = Some FTooLarge ->
  calls (Do c fs) <= Z.of_nat i + 1.
Proof. exact too_large_last. Qed.
Print Assumptions C19_no_retry_too_large.

(* every attempt starts strictly before the deadline in force; without a resetting callback that is the
   original request timeout *)
Theorem C19_deadline_respected : forall c fs, timeout c > 0 ->
  Forall (fun p => fst p < snd p) (starts (Do c fs)) /\
  (callbacks_reset c = false -> Forall (fun p => fst p < timeout c) (starts (Do c fs))).
Proof. intros c fs T. split; [now apply deadline_respected | now apply deadline_not_extended]. Qed.
Print Assumptions C19_deadline_respected.

(* non-vacuity *)
Definition ex_cfg (m : bytes) (cb : option (list (bool * bool))) (t : Z) : cfg :=
  {| max_attempts := 0; body_stream := false; meth := m; timeout := t; rwtimeout := 0;
     retry_if := None; retry_if_err := cb; retry_if_err_up := None |}.
Example C19_ex_get_retries_5 :
  calls (Do (ex_cfg (s2b "GET") None 0) [FRead true; FRead true; FRead true; FRead true; FRead true; FRead true]) = 5
  /\ err (Do (ex_cfg (s2b "GET") None 0) [FRead true; FRead true; FRead true; FRead true; FRead true; FRead true]) = EConnClosed
  /\ calls (Do (ex_cfg (s2b "POST") None 0) [FRead true; FNone]) = 1
  /\ calls (Do (ex_cfg (s2b "POST") (Some [(false, true)]) 0) [FRead true; FNone]) = 2
  /\ calls (Do (ex_cfg (s2b "GET") None 40) [FReadTimeout; FNone]) = 1
  /\ err (Do (ex_cfg (s2b "GET") None 40) [FReadTimeout; FNone]) = ETimeout
  /\ calls (Do (ex_cfg (s2b "GET") (Some [(true, true)]) 40) [FReadTimeout; FNone]) = 2
  /\ calls (Do (ex_cfg (s2b "GET") (Some [(false, true)]) 0) [FTooLarge; FNone]) = 1.
Proof. vm_compute. repeat split; reflexivity. Qed.
