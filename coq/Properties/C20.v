(* C20 — Redirects never leak credentials to other hosts.  Statements only; proofs live in Proof/RedirectProof.v.

   Model: Model/Redirect.v.  [run maxr url0 host0 ok0 uinfo0 r0 chain] is doRequestFollowRedirects on request state r0 and URL url0
   against ANY chain of server answers; every answer carries the URI-layer oracle (a_rhost = redirectURI.Host() after
   getRedirectURL, a_ok = the next URL can be sent), so the theorems hold for every resolution function.  A hop records the host
   the request is sent to, what is written (method, credential-named header lines, body bytes, framing lines) and two ghost
   fields (status that led to it, previous method).

   Full statement of the first clause, as the property text has it:
     forall chains, every request sent to a host h with ~ trusted init h carries none of the caller's six credential headers.
   It is FALSE of the faithful model in two input classes (findings, see the two C20_no_credentials_off_domain_refuted theorems):
     - host names with non-ASCII bytes (bytes.EqualFold folds U+017F / U+212A / ... onto ASCII letters);
     - DisableNormalizing with a credential header spelled differently from the canonical name.
   It is proved under exactly the guards that exclude them: ASCII host names, and [canon_keys] (which holds for every request whose
   header keys were stored with normalizing enabled: C20_canon_when_normalizing). *)
From FH Require Import Model.Base Gen.GenC20 Model.Redirect Spec.RedirectSpec Proof.RedirectProof.
Open Scope N_scope.

(* (1) No credential-named header at all reaches a host that is neither the initial host nor one of its subdomains — for every
   chain, every hop (so also after leaving and re-entering the domain: once stripped they never come back). *)
Theorem C20_no_credentials_off_domain : forall maxr url0 host0 ok0 uinfo0 r0 chain hops res,
  run maxr url0 host0 ok0 uinfo0 r0 chain = (hops, res) ->
  init_agree url0 host0 ->                                           (* URI layer: first request goes to the host of url0 *)
  asciib (hostnameFromURLString url0) = true ->                      (* guard: ASCII host names *)
  Forall (fun a => asciib (a_rhost a) = true) chain ->
  canon_keys (r_dn r0) (r_h r0) ->                                   (* guard: credential headers stored under the canonical spelling *)
  forall hp, In hp hops -> ~ trusted (hostnameFromHostPortBytes host0) (h_host hp) -> s_sens (h_sent hp) = [].
Proof. exact no_credentials_off_domain. Qed.
Print Assumptions C20_no_credentials_off_domain.

(* what s_sens lists is exactly the header lines named (any case) by one of the six names of the property text *)
Theorem C20_sensitive_names_are_the_six : forall k, is_sens_name k = is_credential_name k.
Proof. exact sens_is_credential. Qed.
Print Assumptions C20_sensitive_names_are_the_six.

(* the header guard holds whenever keys were stored with normalizing enabled (every key is a fixpoint of normalizeHeaderKey) *)
Theorem C20_canon_when_normalizing : forall hs,
  (forall kv, In kv hs -> wf_bytes (fst kv) /\ normKey false (fst kv) = fst kv) -> canon_keys false hs.
Proof. exact canon_keys_normalized. Qed.
Print Assumptions C20_canon_when_normalizing.

(* the two findings: the unguarded statement is false of the model *)
Theorem C20_no_credentials_off_domain_refuted_unicode_fold :
  let r0 := mkReq MethodGet [(HeaderAuthorization, s2b "secret")] false false 0%Z false 0%Z None in
  let chain := [mkAns 302 (h "687474703a2f2f61c5bf6b2e636f6d2f78") (h "61c5bf6b2e636f6d") true] in
  init_agree (s2b "http://ask.com/") (s2b "ask.com") /\ asciib (hostnameFromURLString (s2b "http://ask.com/")) = true /\
  canon_keys (r_dn r0) (r_h r0) /\ leak 5 (s2b "http://ask.com/") (s2b "ask.com") None r0 chain.
Proof. exact leak_unicode_fold. Qed.
Print Assumptions C20_no_credentials_off_domain_refuted_unicode_fold.

Theorem C20_no_credentials_off_domain_refuted_disable_normalizing :
  let r0 := mkReq MethodGet [(s2b "authorization", s2b "secret")] true false 0%Z false 0%Z None in
  let chain := [mkAns 302 (s2b "http://evil.com/x") (s2b "evil.com") true] in
  init_agree (s2b "http://a.com/") (s2b "a.com") /\ asciib (hostnameFromURLString (s2b "http://a.com/")) = true /\
  Forall (fun a => asciib (a_rhost a) = true) chain /\ leak 5 (s2b "http://a.com/") (s2b "a.com") None r0 chain.
Proof. exact leak_disable_normalizing. Qed.
Print Assumptions C20_no_credentials_off_domain_refuted_disable_normalizing.

(* the trust rule only accepts the initial host and its subdomains — all ASCII byte strings, including an empty parent *)
Theorem isDomainOrSubdomain_sound : forall sub parent,
  asciib sub = true -> asciib parent = true -> isDomainOrSubdomainBytes sub parent = true -> trusted parent sub.
Proof. exact isDomainOrSubdomain_sound_ascii. Qed.
Print Assumptions isDomainOrSubdomain_sound.

Theorem isDomainOrSubdomain_sound_refuted :
  exists sub parent, isDomainOrSubdomainBytes sub parent = true /\ ~ trusted parent sub.
Proof. exact RedirectProof.isDomainOrSubdomain_sound_refuted. Qed.
Print Assumptions isDomainOrSubdomain_sound_refuted.

(* (2) At most maxr redirects are followed: at most max(0,maxr)+1 requests; ErrTooManyRedirects comes after exactly that many;
   and a chain of more followable redirects than the budget does end in ErrTooManyRedirects. *)
Theorem C20_redirect_count : forall maxr url0 host0 ok0 uinfo0 r0 chain hops res,
  run maxr url0 host0 ok0 uinfo0 r0 chain = (hops, res) ->
  (Z.of_nat (length hops) <= Z.max 0 maxr + 1)%Z /\
  (res = RTooMany -> Z.of_nat (length hops) = Z.max 0 maxr + 1)%Z /\
  (ok0 = true -> Forall followable chain -> (Z.of_nat (length chain) > Z.max 0 maxr)%Z -> res = RTooMany).
Proof. exact redirect_count. Qed.
Print Assumptions C20_redirect_count.

(* (3) the request that follows a 303 is GET (HEAD/GET stay what they were), has no body and none of Content-Length,
   Content-Type, Transfer-Encoding *)
Theorem C20_303_bodyless_get : forall maxr url0 host0 ok0 uinfo0 r0 chain hops res,
  run maxr url0 host0 ok0 uinfo0 r0 chain = (hops, res) ->
  forall hp, In hp hops -> h_via hp = StatusSeeOther ->
    s_method (h_sent hp) = (if ignoreBody (h_prev hp) then h_prev hp else MethodGet) /\
    s_body (h_sent hp) = 0%Z /\ s_cl (h_sent hp) = false /\ s_ct (h_sent hp) = false /\ s_te (h_sent hp) = false.
Proof. intros * Hrun hp Hin Hv. exact (proj1 (rewrites_ok _ _ _ _ _ _ _ _ _ Hrun hp Hin) Hv). Qed.
Print Assumptions C20_303_bodyless_get.

(* (4) POST becomes GET on 301/302 *)
Theorem C20_post_to_get_301_302 : forall maxr url0 host0 ok0 uinfo0 r0 chain hops res,
  run maxr url0 host0 ok0 uinfo0 r0 chain = (hops, res) ->
  forall hp, In hp hops -> h_via hp = StatusMovedPermanently \/ h_via hp = StatusFound ->
    beq (h_prev hp) MethodPost = true -> s_method (h_sent hp) = MethodGet.
Proof. intros * Hrun hp Hin Hv Hp. exact (proj2 (rewrites_ok _ _ _ _ _ _ _ _ _ Hrun hp Hin) Hv Hp). Qed.
Print Assumptions C20_post_to_get_301_302.

(* the ghost fields used by (3) and (4) are what they claim: request i+1 was caused by the status answered to request i,
   whose method is h_prev *)
Theorem C20_ghost_fields_meaning : forall maxr url0 host0 ok0 uinfo0 r0 chain hops res,
  run maxr url0 host0 ok0 uinfo0 r0 chain = (hops, res) ->
  forall i hp nxt, nth_error hops i = Some hp -> nth_error hops (S i) = Some nxt ->
    exists a, nth_error chain i = Some a /\ h_via nxt = a_status a /\ h_prev nxt = s_method (h_sent hp).
Proof. exact run_ghost. Qed.
Print Assumptions C20_ghost_fields_meaning.

(* ---- non-vacuity ---------------------------------------------------------------------------------------------------------------- *)
(* leave the domain (stripped), come back (still stripped), go to a subdomain *)
Example C20_ex_leave_and_return :
  let r0 := mkReq MethodPost [(HeaderAuthorization, s2b "secret"); (HeaderCookie, s2b "sid=1"); (s2b "X-Harmless", s2b "1")] false true 0%Z false 3%Z None in
  let chain := [mkAns 302 (s2b "http://sub.a.com/") (s2b "sub.a.com") true; mkAns 307 (s2b "http://evil.com/") (s2b "evil.com") true;
                mkAns 303 (s2b "http://a.com/") (s2b "a.com") true] in
  map (fun hp => (h_host hp, s_method (h_sent hp), length (s_sens (h_sent hp)), s_body (h_sent hp), s_cl (h_sent hp)))
      (fst (run 5 (s2b "http://A.com:8080/") (s2b "a.com:8080") true None r0 chain))
  = [(s2b "a.com", s2b "POST", 2%nat, 3%Z, true); (s2b "sub.a.com", s2b "GET", 2%nat, 3%Z, true);
     (s2b "evil.com", s2b "GET", 0%nat, 3%Z, true); (s2b "a.com", s2b "GET", 0%nat, 0%Z, false)].
Proof. vm_compute. reflexivity. Qed.

Example C20_ex_lookalikes :
  map (fun s => isDomainOrSubdomainBytes (s2b s) (s2b "a.com"))
      ["a.com"; "A.COM"; "b.a.com"; "evila.com"; "a.com.evil.com"; "a.com%2eevil.com"; "xa.com"; ".a.com"; "b.a.com:80"]%string
  = [true; true; true; false; false; false; false; true; false]
  /\ isDomainOrSubdomainBytes (s2b "evil.com.") [] = false.
Proof. vm_compute. split; reflexivity. Qed.

Example C20_ex_budget :
  let ch := repeat (mkAns 302 (s2b "/n") (s2b "a.com") true) 18 in
  let r0 := mkReq MethodGet [] false false 0%Z false 0%Z None in
  (length (fst (run defaultMaxRedirectsCount (s2b "http://a.com/") (s2b "a.com") true None r0 ch)) = 17%nat) /\
  snd (run defaultMaxRedirectsCount (s2b "http://a.com/") (s2b "a.com") true None r0 ch) = RTooMany /\
  snd (run 0 (s2b "http://a.com/") (s2b "a.com") true None r0 ch) = RTooMany.
Proof. vm_compute. repeat split; reflexivity. Qed.
