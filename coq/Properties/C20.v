(* C20 — Redirects never leak credentials to other hosts.  Statements only; proofs live in Proof/RedirectProof.v.

   Model: Model/Redirect.v.  [run maxr url0 host0 ok0 uinfo0 r0 chain] is doRequestFollowRedirects on request state r0 and URL url0
   against ANY chain of server answers; every answer carries the URI-layer oracle (a_rhost = redirectURI.Host() after
   getRedirectURL, a_ok = the next URL can be sent), so the theorems hold for every resolution function.  A hop records the host
   the request is sent to, what is written (method, credential-named header lines, body bytes, framing lines) and two ghost
   fields (status that led to it, previous method).

   The first clause is proved at full strength: for every chain, every host name (any bytes) and every spelling of the
   credential headers (normalizing enabled, disabled, or disabled and enabled again).  The only side conditions say that host
   names and header keys are byte strings (every element < 256) and tie the first request to the URL (init_agree, URI layer).
   Three findings of this check (Unicode folding of host names; DisableNormalizing spellings; spellings kept after normalizing
   was enabled again) were repaired in the code; their witnesses are Example C20_ex_repaired and stay in the harness corpus. *)
From FH Require Import Model.Base Gen.GenC20 Model.Redirect Spec.RedirectSpec Proof.RedirectProof.
Open Scope N_scope.

(* (1) No credential-named header at all reaches a host that is neither the initial host nor one of its subdomains — for every
   chain, every hop (so also after leaving and re-entering the domain: once stripped they never come back). *)
Theorem C20_no_credentials_off_domain : forall maxr url0 host0 ok0 uinfo0 r0 chain hops res,
  run maxr url0 host0 ok0 uinfo0 r0 chain = (hops, res) ->
  init_agree url0 host0 ->                                           (* URI layer: first request goes to the host of url0 *)
  wf_bytes (hostnameFromURLString url0) ->                           (* host names are byte strings (every element < 256) *)
  Forall (fun a => wf_bytes (a_rhost a)) chain ->
  canon_keys (r_dn r0) (r_h r0) ->                                   (* header keys are byte strings *)
  forall hp, In hp hops -> ~ trusted (hostnameFromHostPortBytes host0) (h_host hp) -> s_sens (h_sent hp) = [].
Proof. exact no_credentials_off_domain. Qed.
Print Assumptions C20_no_credentials_off_domain.

(* what s_sens lists is exactly the header lines named (any case) by one of the six names of the property text *)
Theorem C20_sensitive_names_are_the_six : forall k, is_sens_name k = is_credential_name k.
Proof. exact sens_is_credential. Qed.
Print Assumptions C20_sensitive_names_are_the_six.

(* canon_keys is nothing but well-formedness of the keys *)
Theorem C20_canon_keys_is_wf : forall dn hs, canon_keys dn hs <-> (forall kv, In kv hs -> wf_bytes (fst kv)).
Proof. intros dn hs. unfold canon_keys. tauto. Qed.
Print Assumptions C20_canon_keys_is_wf.

(* the trust rule only accepts the initial host and its subdomains — ALL byte strings, including an empty parent,
   non-ASCII bytes and malformed UTF-8 *)
Theorem isDomainOrSubdomain_sound : forall sub parent,
  wf_bytes sub -> wf_bytes parent -> isDomainOrSubdomainBytes sub parent = true -> trusted parent sub.
Proof. exact isDomainOrSubdomain_sound_all. Qed.
Print Assumptions isDomainOrSubdomain_sound.

(* asciiEqualFold is exactly ASCII-case-insensitive equality *)
Theorem C20_asciiEqualFold_exact : forall s t, wf_bytes s -> wf_bytes t -> (asciiEqualFold s t = true <-> lower s = lower t).
Proof. exact asciiEqualFold_iff. Qed.
Print Assumptions C20_asciiEqualFold_exact.

(* (2) At most maxr redirects are followed: at most max(0,maxr)+1 requests; ErrTooManyRedirects comes after exactly that many;
   and a chain of more followable redirects than the budget does end in ErrTooManyRedirects. *)
Theorem C20_redirect_count : forall maxr url0 host0 ok0 uinfo0 r0 chain hops res,
  run maxr url0 host0 ok0 uinfo0 r0 chain = (hops, res) ->
  (Z.of_nat (length hops) <= Z.max 0 maxr + 1)%Z /\
  (res = RTooMany -> Z.of_nat (length hops) = Z.max 0 maxr + 1)%Z /\
  (ok0 = true -> Forall followable chain -> (Z.of_nat (length chain) > Z.max 0 maxr)%Z -> res = RTooMany).
Proof. exact redirect_count. Qed.
Print Assumptions C20_redirect_count.

(* (3) the request that follows a 303 is GET (HEAD/GET stay what they were), has no body and none of Content-Length,
   Content-Type, Transfer-Encoding *)
Theorem C20_303_bodyless_get : forall maxr url0 host0 ok0 uinfo0 r0 chain hops res,
  run maxr url0 host0 ok0 uinfo0 r0 chain = (hops, res) ->
  forall hp, In hp hops -> h_via hp = StatusSeeOther ->
    s_method (h_sent hp) = (if ignoreBody (h_prev hp) then h_prev hp else MethodGet) /\
    s_body (h_sent hp) = 0%Z /\ s_cl (h_sent hp) = false /\ s_ct (h_sent hp) = false /\ s_te (h_sent hp) = false.
Proof. intros * Hrun hp Hin Hv. exact (proj1 (rewrites_ok _ _ _ _ _ _ _ _ _ Hrun hp Hin) Hv). Qed.
Print Assumptions C20_303_bodyless_get.

(* ... whatever the body SOURCE was: the state the loop leaves after a followed 303 has an empty body buffer, no body stream,
   no bodyRaw, no multipart form, empty post args (and parsedPostArgs reset), no Content-Length / Content-Type field and no
   Transfer-Encoding header; and Request.Write's fallback chain (bodyBytes -> multipart form -> postArgs) then finds nothing *)
Theorem C20_303_clears_every_body_source : forall r, after303 (r_method r) (rewrite_req StatusSeeOther r).
Proof. exact rewrite_303. Qed.
Print Assumptions C20_303_clears_every_body_source.

Theorem C20_after_303_nothing_to_send : forall prev r r1 s, after303 prev r -> write None r = (r1, s) -> sent_after303 prev s.
Proof. exact write_after303. Qed.
Print Assumptions C20_after_303_nothing_to_send.

(* (4) POST becomes GET on 301/302 *)
Theorem C20_post_to_get_301_302 : forall maxr url0 host0 ok0 uinfo0 r0 chain hops res,
  run maxr url0 host0 ok0 uinfo0 r0 chain = (hops, res) ->
  forall hp, In hp hops -> h_via hp = StatusMovedPermanently \/ h_via hp = StatusFound ->
    beq (h_prev hp) MethodPost = true -> s_method (h_sent hp) = MethodGet.
Proof. intros * Hrun hp Hin Hv Hp. exact (proj2 (rewrites_ok _ _ _ _ _ _ _ _ _ Hrun hp Hin) Hv Hp). Qed.
Print Assumptions C20_post_to_get_301_302.

(* the ghost fields used by (3) and (4) are what they claim: request i+1 was caused by the status answered to request i,
   whose method is h_prev *)
Theorem C20_ghost_fields_meaning : forall maxr url0 host0 ok0 uinfo0 r0 chain hops res,
  run maxr url0 host0 ok0 uinfo0 r0 chain = (hops, res) ->
  forall i hp nxt, nth_error hops i = Some hp -> nth_error hops (S i) = Some nxt ->
    exists a, nth_error chain i = Some a /\ h_via nxt = a_status a /\ h_prev nxt = s_method (h_sent hp).
Proof. exact run_ghost. Qed.
Print Assumptions C20_ghost_fields_meaning.

(* ---- non-vacuity ---------------------------------------------------------------------------------------------------------------- *)
(* leave the domain (stripped), come back (still stripped), go to a subdomain *)
Example C20_ex_leave_and_return :
  let r0 := mkReqB MethodPost [(HeaderAuthorization, s2b "secret"); (HeaderCookie, s2b "sid=1"); (s2b "X-Harmless", s2b "1")] false true 0%Z false 3%Z None in
  let chain := [mkAns 302 (s2b "http://sub.a.com/") (s2b "sub.a.com") true; mkAns 307 (s2b "http://evil.com/") (s2b "evil.com") true;
                mkAns 303 (s2b "http://a.com/") (s2b "a.com") true] in
  map (fun hp => (h_host hp, s_method (h_sent hp), length (s_sens (h_sent hp)), s_body (h_sent hp), s_cl (h_sent hp)))
      (fst (run 5 (s2b "http://A.com:8080/") (s2b "a.com:8080") true None r0 chain))
  = [(s2b "a.com", s2b "POST", 2%nat, 3%Z, true); (s2b "sub.a.com", s2b "GET", 2%nat, 3%Z, true);
     (s2b "evil.com", s2b "GET", 0%nat, 3%Z, true); (s2b "a.com", s2b "GET", 0%nat, 0%Z, false)].
Proof. vm_compute. reflexivity. Qed.

(* the repaired findings stay repaired: U+017F look-alike not trusted; every spelling swept, normalizing disabled or re-enabled *)
Example C20_ex_repaired :
  isDomainOrSubdomainBytes (h "61c5bf6b2e636f6d") (s2b "ask.com") = false /\
  isDomainOrSubdomainBytes (h "61732e4b2e636f6d") (s2b "as.k.com") = true /\
  (let r0 := mkReqB MethodGet [(s2b "authorization", s2b "secret"); (s2b "COOKIE2", s2b "x")] true false 0%Z false 0%Z None in
   map (fun hp => length (s_sens (h_sent hp)))
       (fst (run 5 (s2b "http://a.com/") (s2b "a.com") true None r0 [mkAns 302 (s2b "http://evil.com/x") (s2b "evil.com") true]))
   = [2%nat; 0%nat]) /\
  (let r0 := mkReqB MethodGet [(s2b "authorization", s2b "secret")] false false 0%Z false 0%Z None in
   map (fun hp => length (s_sens (h_sent hp)))
       (fst (run 5 (s2b "http://a.com/") (s2b "a.com") true None r0 [mkAns 302 (s2b "http://evil.com/x") (s2b "evil.com") true]))
   = [1%nat; 0%nat]).
Proof. exact repaired_examples. Qed.

(* every body source at once (buffer empty so that the multipart form and then the post args would be used): POST, 303 *)
Example C20_ex_303_all_sources :
  let r0 := mkReq MethodPost [] false true 0%Z false 0%Z None (Some 9%Z) (Some 120%Z) 27%Z true in
  map (fun hp => (s_method (h_sent hp), s_body (h_sent hp), s_cl (h_sent hp), s_ct (h_sent hp)))
      (fst (run 5 (s2b "http://a.com/") (s2b "a.com") true None r0
                [mkAns 303 (s2b "/landing") (s2b "a.com") true]))
  = [(s2b "POST", 120%Z, true, true); (s2b "GET", 0%Z, false, false)]
  /\ (* post args alone are sent as the body when every other source is empty (Write's last fallback) *)
  map (fun hp => (s_method (h_sent hp), s_body (h_sent hp)))
      (fst (run 5 (s2b "http://a.com/") (s2b "a.com") true None (mkReq MethodPost [] false true 0%Z false 0%Z None None None 27%Z true)
                [mkAns 307 (s2b "/again") (s2b "a.com") true; mkAns 303 (s2b "/landing") (s2b "a.com") true]))
  = [(s2b "POST", 27%Z); (s2b "POST", 27%Z); (s2b "GET", 0%Z)].
Proof. vm_compute. split; reflexivity. Qed.

Example C20_ex_lookalikes :
  map (fun s => isDomainOrSubdomainBytes (s2b s) (s2b "a.com"))
      ["a.com"; "A.COM"; "b.a.com"; "evila.com"; "a.com.evil.com"; "a.com%2eevil.com"; "xa.com"; ".a.com"; "b.a.com:80"]%string
  = [true; true; true; false; false; false; false; true; false]
  /\ isDomainOrSubdomainBytes (s2b "evil.com.") [] = false.
Proof. vm_compute. split; reflexivity. Qed.

Example C20_ex_budget :
  let ch := repeat (mkAns 302 (s2b "/n") (s2b "a.com") true) 18 in
  let r0 := mkReqB MethodGet [] false false 0%Z false 0%Z None in
  (length (fst (run defaultMaxRedirectsCount (s2b "http://a.com/") (s2b "a.com") true None r0 ch)) = 17%nat) /\
  snd (run defaultMaxRedirectsCount (s2b "http://a.com/") (s2b "a.com") true None r0 ch) = RTooMany /\
  snd (run 0 (s2b "http://a.com/") (s2b "a.com") true None r0 ch) = RTooMany.
Proof. vm_compute. repeat split; reflexivity. Qed.
