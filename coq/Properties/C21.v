(* C21 — https requests are never sent over a plaintext connection.  Statements only; proofs live in Proof/SchemeProof.v.

   A history [cs] is any list of calls (Client.Do/DoTimeout/DoDeadline/DoRedirects/Get, HostClient.Do/DoRedirects/Get on any
   stand-alone HostClient, LBClient.Do with any choice of balanced client), each with any redirect chain, any server behaviour per
   attempt (answer keep-alive / answer and close / close without answering -> retry), executed on one fresh world whose stand-alone
   HostClients [hcs] have arbitrary (Addr, IsTLS, WriteTimeout != 0) and whose Client has WriteTimeout != 0 iff [cwt]: every theorem
   quantifies over the timeout configuration, i.e. over both branches of dialAddr (lazy tls.Client / explicit tlsClientHandshake).  [tagged] only says that the bookkeeping field r_via of a request names the API
   it is submitted through.  [obs_dials]/[obs_writes] project the model trace to what Spec/SchemeSpec.v talks about. *)
From FH Require Import Model.Base Gen.GenC21 Model.Scheme Spec.SchemeSpec Proof.SchemeProof.
Open Scope N_scope.

(* every https request is written only to a connection that was wrapped in TLS when it was dialled, and — through Client — dialled
   to the request's own authority (default port 443 added when missing) *)
Theorem C21_https_only_on_tls : forall cwt hcs cs, Forall tagged cs ->
  https_only_on_tls (obs_dials (trace cwt hcs cs)) (obs_writes (trace cwt hcs cs)).
Proof. exact https_only. Qed.
Print Assumptions C21_https_only_on_tls.

(* a request that is not https is only written to a connection dialled without TLS: never to one created (and pooled) for https,
   even when host name and address coincide *)
Theorem C21_http_never_on_tls_pool : forall cwt hcs cs, Forall tagged cs ->
  http_never_on_tls (obs_dials (trace cwt hcs cs)) (obs_writes (trace cwt hcs cs)).
Proof. exact http_never. Qed.
Print Assumptions C21_http_never_on_tls_pool.

(* Client.ConfigureClient: [trace_conf cwt conf ..] runs the history with an arbitrary function conf applied to every HostClient the
   Client builds (it may rewrite Addr, IsTLS, WriteTimeout, or fail).  With any conf that leaves Addr alone the two statements above hold
   unchanged; with ANY conf at all the TLS flag of the connection a request is written to equals the request's https-ness (a flipped
   IsTLS makes the scheme check refuse, it never lets the request onto the wrong kind of connection). *)
Theorem C21_https_only_on_tls_conf : forall cwt conf hcs cs, conf_keeps_addr conf -> Forall tagged cs ->
  https_only_on_tls (obs_dials (trace_conf cwt conf hcs cs)) (obs_writes (trace_conf cwt conf hcs cs)).
Proof. exact https_only_conf. Qed.
Print Assumptions C21_https_only_on_tls_conf.
Theorem C21_http_never_on_tls_pool_conf : forall cwt conf hcs cs, conf_keeps_addr conf -> Forall tagged cs ->
  http_never_on_tls (obs_dials (trace_conf cwt conf hcs cs)) (obs_writes (trace_conf cwt conf hcs cs)).
Proof. exact http_never_conf. Qed.
Print Assumptions C21_http_never_on_tls_pool_conf.
Theorem C21_tls_matches_any_conf : forall cwt conf hcs cs cid r, Forall tagged cs ->
  In (EWrite cid r) (trace_conf cwt conf hcs cs) ->
  exists addr k, In (EDial cid addr k) (trace_conf cwt conf hcs cs) /\ kind_tls k = https_scheme (r_scheme r).
Proof. exact tls_matches_any_conf. Qed.
Print Assumptions C21_tls_matches_any_conf.

(* connection ids are dialled once: "the connection's TLS flag / address" above is well defined *)
Theorem C21_dials_functional : forall cwt conf hcs cs, Forall tagged cs -> dial_functional (obs_dials (trace_conf cwt conf hcs cs)).
Proof. exact dials_functional. Qed.
Print Assumptions C21_dials_functional.

(* the two branches of dialAddr: an https request travels on the lazy tls.Client wrapper when the sending client's WriteTimeout is 0 and
   on the wrapper tlsClientHandshake completed the handshake on otherwise — in both configurations a TLS connection, never the raw one *)
Theorem C21_https_write_kind : forall cwt hcs cs cid r, Forall tagged cs ->
  In (EWrite cid r) (trace cwt hcs cs) -> https_scheme (r_scheme r) = true ->
  exists (addr : bytes) (wt : bool), In (EDial cid addr (if wt then KTLSHandshaked else KTLSLazy)) (trace cwt hcs cs) /\
                  (r_via r = ViaClient -> wt = cwt) /\
                  (r_via r <> ViaClient -> exists i, nth_error hcs i = Some (addr, true, wt)).
Proof. exact https_write_kind. Qed.
Print Assumptions C21_https_write_kind.

Theorem C21_dialAddr_tls_iff_isTLS : forall isTLS wt, kind_tls (dialAddr isTLS wt) = isTLS.
Proof. exact kind_tls_dialAddr. Qed.
Print Assumptions C21_dialAddr_tls_iff_isTLS.

(* HostClient: whatever reaches the wire through a stand-alone HostClient (directly, after redirects, or via LBClient) was sent by a
   HostClient whose IsTLS equals the request's https-ness, on a connection to that HostClient's Addr with the same TLS flag *)
Theorem C21_hostclient_writes_match : forall cwt conf hcs cs cid r, Forall tagged cs ->
  In (EWrite cid r) (trace_conf cwt conf hcs cs) -> r_via r <> ViaClient ->
  exists i addr wt, nth_error hcs i = Some (addr, https_scheme (r_scheme r), wt) /\
                    In (EDial cid addr (dialAddr (https_scheme (r_scheme r)) wt)) (trace_conf cwt conf hcs cs).
Proof. exact hostclient_writes_match. Qed.
Print Assumptions C21_hostclient_writes_match.

(* ... and refuses the others: a request whose scheme does not match IsTLS — first hop or any later hop of a redirect chain (the chain
   [follow] is re-entered with (r, reps) :: rest at that hop) — ends the call with the scheme error, nothing dialled, nothing written *)
Theorem C21_hostclient_refuses_mismatch : forall i w hc r reps rest count maxred,
  nth_error (w_hcs w) i = Some hc -> hc_tls hc <> https_scheme (r_scheme r) ->
  follow (host_do i) w ((r, reps) :: rest) count maxred =
    ({| w_cwt := w_cwt w; w_conf := w_conf w; w_m := w_m w; w_ms := w_ms w; w_hcs := set_nth i hc (w_hcs w); w_next := w_next w |},
     [ERefuse r ESchemeMismatch], OErr ESchemeMismatch).
Proof. exact host_refuses. Qed.
Print Assumptions C21_hostclient_refuses_mismatch.

(* the scheme check of doNonNilReqResp in isolation, for every HostClient state, every retry budget and every server behaviour *)
Theorem C21_hostclient_do_refuses : forall hc r reps next, hc_tls hc <> https_scheme (r_scheme r) ->
  hc_do hc r reps next = (hc, next, [ERefuse r ESchemeMismatch], OErr ESchemeMismatch).
Proof. intros hc r reps next H. apply hc_do_refuses. rewrite isHTTPS_spec. exact H. Qed.
Print Assumptions C21_hostclient_do_refuses.

(* AddMissingPort is the specification's "own address" *)
Theorem C21_add_missing_port : forall addr tls, AddMissingPort addr tls = own_addr addr tls.
Proof. exact AddMissingPort_spec. Qed.
Print Assumptions C21_add_missing_port.

(* ---- non-vacuity ------------------------------------------------------------------------------------------------- *)
Definition rq (id : N) (s h : string) (v : via) : req := {| r_id := id; r_scheme := s2b s; r_host := s2b h; r_via := v |}.

(* http and https for the same host name, then a redirect chain http -> https -> http: two connections, never mixed *)
Example C21_ex_mixed :
  trace false [] [CClient 0 [(rq 0 "http" "a.test" ViaClient, [])]; CClient 0 [(rq 1 "https" "a.test" ViaClient, [])];
            CClient 8 [(rq 2 "http" "a.test" ViaClient, []); (rq 3 "https" "a.test" ViaClient, []); (rq 4 "http" "a.test" ViaClient, [])]]
  = [EDial 0 (s2b "a.test:80") KRaw; EWrite 0 (rq 0 "http" "a.test" ViaClient);
     EDial 1 (s2b "a.test:443") KTLSLazy; EWrite 1 (rq 1 "https" "a.test" ViaClient);
     EWrite 0 (rq 2 "http" "a.test" ViaClient); EWrite 1 (rq 3 "https" "a.test" ViaClient); EWrite 0 (rq 4 "http" "a.test" ViaClient)].
Proof. vm_compute. reflexivity. Qed.

(* same address a.test:443 reached as http://a.test:443 and https://a.test, Client.WriteTimeout > 0 (explicit handshake branch):
   separate connections *)
Example C21_ex_same_addr :
  trace true [] [CClient 0 [(rq 0 "http" "a.test:443" ViaClient, [])]; CClient 0 [(rq 1 "https" "a.test" ViaClient, [])];
            CClient 0 [(rq 2 "http" "a.test:443" ViaClient, [])]]
  = [EDial 0 (s2b "a.test:443") KRaw; EWrite 0 (rq 0 "http" "a.test:443" ViaClient);
     EDial 1 (s2b "a.test:443") KTLSHandshaked; EWrite 1 (rq 1 "https" "a.test" ViaClient);
     EWrite 0 (rq 2 "http" "a.test:443" ViaClient)].
Proof. vm_compute. reflexivity. Qed.

(* a plain HostClient redirected to https stops; a TLS HostClient asked for http refuses *)
Example C21_ex_hostclient :
  trace false [(s2b "a.test:80", false, true); (s2b "a.test:443", true, true)]
        [CHost 0 8 [(rq 0 "http" "a.test" ViaHost, []); (rq 1 "https" "a.test" ViaHost, []); (rq 2 "http" "a.test" ViaHost, [])];
         CHost 1 0 [(rq 3 "http" "a.test" ViaHost, [])]; CLB 1 (rq 4 "https" "a.test" ViaLB, [RFail; RKeep])]
  = [EDial 0 (s2b "a.test:80") KRaw; EWrite 0 (rq 0 "http" "a.test" ViaHost); ERefuse (rq 1 "https" "a.test" ViaHost) ESchemeMismatch;
     ERefuse (rq 3 "http" "a.test" ViaHost) ESchemeMismatch;
     EDial 1 (s2b "a.test:443") KTLSHandshaked; EWrite 1 (rq 4 "https" "a.test" ViaLB);
     EDial 2 (s2b "a.test:443") KTLSHandshaked; EWrite 2 (rq 4 "https" "a.test" ViaLB)].
Proof. vm_compute. reflexivity. Qed.
