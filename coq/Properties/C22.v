(* C22 — Compression is transparent at every level of load.
   Statements only; proofs live in Proof/CompressProof.v.  The codecs (klauspost/compress gzip, zlib, zstd;
   andybalholm/brotli) are the Section variables enc/dec with the hypothesis dec k (enc k lvl x) = x, which the
   harness tests on the real libraries in every run (codec cases, levels -5..15, sizes 0 B - 64 KiB / MiB).

   History: three defects found here were repaired in /repo (0c40a4c: a stackless writer operation refused by a full
   queue was dropped silently, truncating streamed bodies and Write*Level output; f11ef83: addVaryBytes matched
   "Accept-Encoding" as a substring of another Vary member; b444fe3: the zstd encoder wrote blocks asynchronously,
   racing with the stackless writer: most streamed zstd bodies beyond a few blocks were corrupt).  The model is of the
   repaired code and the theorems below are the full statements; the former witnesses are in the harness corpus
   (4 MiB zstd streams, saturation scenarios, Vary inputs) and fail prop_ok if the defects come back. *)
From FH Require Import Model.Base Gen.GenC22 Spec.CompressSpec Model.Compress Proof.CompressProof.
Open Scope N_scope.

Section Codec.
  Variable enc : coding -> Z -> bytes -> bytes.
  Variable dec : coding -> bytes -> bytes.
  Hypothesis dec_enc : forall k lvl x, dec k (enc k lvl x) = x.

  (* Append<Coding>BytesLevel (and Write<Coding>Level to an in-memory writer): for every coding, input, destination
     prefix, level and EVERY occupancy of the stackless queue, dst is kept and the appended bytes decode to src *)
  Theorem C22_append_roundtrip : forall k dst src lvl inflight cap,
    let out := append_bytes_level enc k dst src lvl inflight cap in
    firstn (length dst) out = dst /\ dec k (skipn (length dst) out) = src.
  Proof. exact (append_roundtrip enc dec dec_enc). Qed.

  (* every response body, buffered or streamed (any number of reads of the body stream): for every handler kind,
     levels, Accept-Encoding, response, EVERY queue occupancy of the stackless function and EVERY schedule of
     refusals met by the stackless writer operations, the body the wrapper leaves decodes (per the coding it
     declares) to exactly the handler's body *)
  Theorem C22_roundtrip_any_load : forall kd bl ol ae inflight cap sched r,
    exists w, c_body (snd (compress_handler enc kd bl ol ae inflight cap sched r)) = SOk w /\ decode dec w = Some (r_body r).
  Proof. exact (roundtrip_any_load enc dec dec_enc). Qed.

  (* Write<Coding>Level to any other io.Writer (stackless.Writer path): same, whatever the queue refuses *)
  Theorem C22_write_roundtrip : forall k lvl p full_write full_close,
    exists w, write_generic enc k lvl p full_write full_close = SOk w /\ decode dec w = Some p.
  Proof. exact (write_generic_roundtrip enc dec dec_enc). Qed.

  (* never compressed twice: a response that declares a Content-Encoding is left alone, and what the wrapper
     produces is the handler's body coded at most once, completely, with the coding it chose *)
  Theorem C22_never_twice : forall kd bl ol ae inflight cap sched r,
    (r_ce r <> [] -> snd (compress_handler enc kd bl ol ae inflight cap sched r) = unchanged r) /\
    (let c := snd (compress_handler enc kd bl ol ae inflight cap sched r) in
     c = unchanged r \/
     exists k lvl, choose kd ae = Some k /\ r_ce r = [] /\ c_ce c = tok k /\
       c_body c = SOk (WCoded k (enc k lvl (r_body r)) true)).
  Proof. intros. split; [apply never_twice|apply coded_once]. Qed.

  (* wrapping a handler twice (CompressHandler*(CompressHandler*(h))): the response still decodes to the handler's body *)
  Theorem C22_twice_roundtrip : forall kd bl ol ae inflight cap sched r,
    exists w, c_body (compress_handler_twice enc kd bl ol ae inflight cap sched r) = SOk w /\ decode dec w = Some (r_body r).
  Proof. exact (twice_roundtrip enc dec dec_enc). Qed.
End Codec.

Print Assumptions C22_append_roundtrip.
Print Assumptions C22_roundtrip_any_load.
Print Assumptions C22_write_roundtrip.
Print Assumptions C22_never_twice.
Print Assumptions C22_twice_roundtrip.

(* the coding a Compress handler picks occurs, as a bare list element (weight 1), in the request's Accept-Encoding:
   for ALL Accept-Encoding lines whose first line is syntactically valid (RFC 9110 12.5.3 elements
   coding [OWS ";" OWS "q=" qvalue]); HasAcceptEncodingBytes is conservative: it misses acceptable codings
   ("deflate,gzip", "GZIP", "gzip;q=0.5", "*") but never takes "gzip;q=0" or a longer token for an acceptance *)
Theorem C22_choice_accepted : forall kd lines k,
  choose kd lines = Some k -> ae_wf (peek lines) = true -> accepts_lines lines (coding_name k) = true.
Proof. exact choice_accepted. Qed.
Print Assumptions C22_choice_accepted.

Theorem C22_weighted_token_not_taken : forall k w, has_accept_encoding (tok k ++ SEMI :: w) (tok k) = false.
Proof. intros k w. apply weighted_token_not_taken. apply tok_ok_tok. Qed.
Print Assumptions C22_weighted_token_not_taken.

(* Vary: whenever the wrapper codes the body, the response lists Accept-Encoding as a member of Vary, whatever Vary
   lines the handler had set (header values are bytes without CR: fasthttp replaces CR/LF when a value is stored) *)
Theorem C22_vary_set : forall enc kd bl ol ae inflight cap sched r,
  clean (peek (r_vary r)) = true ->
  let c := snd (compress_handler enc kd bl ol ae inflight cap sched r) in
  c = unchanged r \/ vary_has (c_vary c) sAcceptEncoding = true.
Proof. exact vary_set. Qed.
Print Assumptions C22_vary_set.

(* every level, in range or not, selects an existing writer pool (no index panic for levels -5..15 or any other) *)
Theorem C22_level_index_in_range : forall k l, (0 <= pool_index k l < pool_map_len)%Z.
Proof. exact level_index_in_range. Qed.
Print Assumptions C22_level_index_in_range.

(* non-vacuity *)
Example C22_ex_has :
  has_accept_encoding (s2b "gzip, deflate") (s2b "gzip") = true
  /\ has_accept_encoding (s2b "gzip;q=0") (s2b "gzip") = false
  /\ has_accept_encoding (s2b "deflate,gzip") (s2b "gzip") = false
  /\ has_accept_encoding (s2b "x-gzip, gzip") (s2b "gzip") = false
  /\ has_accept_encoding (s2b "foo gzip") (s2b "gzip") = true      (* malformed list: outside ae_wf *)
  /\ ae_wf (s2b "foo gzip") = false
  /\ ae_wf (s2b "br;q=1.0, gzip; q=0.5 ,*;q=0") = true
  /\ accepts (s2b "br;q=1.0, gzip; q=0.5 ,*;q=0") (s2b "gzip") = true
  /\ accepts (s2b "gzip;q=0, *") (s2b "gzip") = false
  /\ accepts (s2b "*") (s2b "zstd") = true
  /\ choose HBrotli [s2b "gzip, br"] = Some Br /\ choose HLevel [s2b "br, zstd"] = Some Zstd /\ choose HLevel [s2b "br"] = None.
Proof. vm_compute. repeat split; reflexivity. Qed.
Example C22_ex_vary :
  add_vary [] strAcceptEncoding = [s2b "Accept-Encoding"]
  /\ add_vary [s2b "Origin"] strAcceptEncoding = [s2b "Origin,Accept-Encoding"]
  /\ add_vary [s2b "Origin, accept-encoding "] strAcceptEncoding = [s2b "Origin, accept-encoding "]
  /\ add_vary [s2b "X-Accept-Encoding"] strAcceptEncoding = [s2b "X-Accept-Encoding,Accept-Encoding"]   (* the former vary-substring witness *)
  /\ add_vary [s2b "Origin"; s2b "Accept-Encoding"] strAcceptEncoding = [s2b "Origin,Accept-Encoding"; s2b "Accept-Encoding"].
Proof. vm_compute. repeat split; reflexivity. Qed.
(* the former stackless-writer-close-dropped witness: a stream whose Close meets a full queue is complete *)
Example C22_ex_close_refused : forall enc,
  stream_compress enc Gzip 5%Z [s2b "abc"] [false; false; true] = SOk (WCoded Gzip (enc Gzip 5%Z (s2b "abc")) true).
Proof. reflexivity. Qed.
