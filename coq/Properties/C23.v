(* C23 — FS never serves a file outside its root.  Statements only; proofs live in Proof/FsPathProof.v.

   Model: Model/FsPath.v (fs.go, non-Windows build) on top of Model/PathNorm.v.
   `candidate_names c reqPath host sfx` is every name handleRequest may hand to the filesystem (Open / Stat /
   ReadDir / CreateTemp-Rename target / Remove) for the request; which of them it does hand over depends on
   what exists on disk.  sfx = Some suffix when a compressed encoding was negotiated.
   inside (Spec/Clean.v): the name is Root itself or Root ++ "/" ++ rel where rel has no ".." segment.

   Quantification: every request path (pathOriginal) and host as byte strings, every rewriter in
   {none, vhost k, slashes k, prefix k} for every k, every Root / CompressRoot, every list of index names
   without ".." segments, every compressed-file suffix without '/' that contains a character other than '.'. *)
From FH Require Import Model.Base Gen.GenC26 Gen.GenC23 Model.PathNorm Model.FsPath Spec.Rfc3986 Spec.Clean
                       Proof.PathNormProof Proof.FsPathProof.
Open Scope N_scope.

(* Every name the handler may open, stat, create or remove is lexically inside Root (InRoot names) or
   CompressRoot (compressed copies) — default filesystem, non-empty Root, unguarded.
   (Before fix b45a042 this was false: the compressed-copy probe for the root directory named Root++suffix.) *)
Theorem C23_opened_paths_inside_root : forall c reqPath host sfx t p,
  osfs c = true -> root c <> [] -> cfg_ok c -> (forall s, sfx = Some s -> sfx_ok s) ->
  In (t, p) (candidate_names c reqPath host sfx) -> inside (tree_root c t) p.
Proof. exact opened_inside_os. Qed.
Print Assumptions C23_opened_paths_inside_root.

(* in particular a sibling of Root / CompressRoot such as "/srv/www.fasthttp.gz" is never a candidate name *)
Theorem C23_root_sibling_never_opened : forall c reqPath host sfx s t,
  osfs c = true -> root c <> [] -> cfg_ok c -> (forall s, sfx = Some s -> sfx_ok s) ->
  sfx_ok s -> ~ In (t, tree_root c t ++ s) (candidate_names c reqPath host sfx).
Proof. exact root_sibling_never_opened. Qed.
Print Assumptions C23_root_sibling_never_opened.

(* The join step is explicit: a working path without a leading slash (prefix stripper cutting inside a segment)
   is joined to Root WITH a '/' — "inside" is Root itself or Root ++ "/" ++ rel, not "has Root as a string prefix". *)
Theorem C23_join_inserts_slash : forall c path,
  osfs c = true -> root c <> [] -> path <> [] ->
  match path with ch :: _ => ch <> SLASH | [] => True end ->
  match rev path with ch :: _ => ch =? SLASH | [] => false end = false ->
  pathToFilePath c path false = root c ++ SLASH :: path.
Proof. exact join_inserts_slash. Qed.
Print Assumptions C23_join_inserts_slash.

(* a name that merely extends Root as a string (sibling "Root-private/secret.txt", "Root.bak/f", "Rootx") is outside *)
Theorem C23_sibling_is_outside : forall r s, s <> [] -> relname_hd s -> ~ inside r (r ++ s).
Proof. exact sibling_not_inside. Qed.
Print Assumptions C23_sibling_is_outside.

(* FS over an io/fs.FS: every name handed to the fs.FS is relative and has no ".." segment (no guard needed:
   Root ++ suffix is still a name inside the fs.FS). *)
Theorem C23_opened_names_inside_fs : forall c reqPath host sfx p,
  osfs c = false -> no_dotdot (root c) -> relname (root c) -> cfg_ok_fs c -> (forall s, sfx = Some s -> sfx_ok s) ->
  In (InRoot, p) (candidate_names c reqPath host sfx) ->
  no_dotdot p /\ relname p.
Proof.
  intros c reqPath host sfx p H1 H2 H3 H4 H5 H6. split.
  - apply (opened_inside_fs c reqPath host sfx p); auto.
    unfold cfg_ok. unfold cfg_ok_fs in H4. rewrite Forall_forall in *. intros n Hn. now apply H4.
  - now apply (opened_relative_fs c reqPath host sfx p).
Qed.
Print Assumptions C23_opened_names_inside_fs.

(* a NUL byte in the (rewritten) path: 400, nothing is opened *)
Theorem C23_nul_rejected : forall c reqPath host p,
  rewrite (rw c) (ctxPath reqPath) host = RwOk p -> In 0 p ->
  handle c reqPath host = Reject400 /\ forall sfx, candidate_names c reqPath host sfx = [].
Proof. exact nul_rejected. Qed.
Print Assumptions C23_nul_rejected.

(* a ".." segment in a rewritten path: 500, nothing is opened *)
Theorem C23_dotdot_rejected_after_rewrite : forall c reqPath host p,
  rw c <> RNone -> rewrite (rw c) (ctxPath reqPath) host = RwOk p -> ~ In 0 p ->
  In sDotDot (split_segs p) ->
  handle c reqPath host = Reject500 /\ forall sfx, candidate_names c reqPath host sfx = [].
Proof. exact dotdot_rejected. Qed.
Print Assumptions C23_dotdot_rejected_after_rewrite.

(* core lemma from C26: without a rewriter the path never has a ".." segment, for ALL request paths *)
Theorem C23_no_rewriter_no_dotdot : forall reqPath, no_dotdot (ctxPath reqPath).
Proof. exact norewriter_no_dotdot. Qed.
Print Assumptions C23_no_rewriter_no_dotdot.

(* hasDotDotPathSegment decides exactly "some '/'-separated segment is .." *)
Theorem C23_hasDotDot_exact : forall path, hasDotDotPathSegment path = false <-> no_dotdot path.
Proof. exact hasDotDot_false. Qed.
Print Assumptions C23_hasDotDot_exact.

(* the built-in rewriters never hit `panic("BUG: path must start with slash")` *)
Theorem C23_never_panics : forall c reqPath host, handle c reqPath host <> Panicked.
Proof. exact handle_never_panics. Qed.
Print Assumptions C23_never_panics.

(* ---- non-vacuity ---- *)
Definition ex_cfg (r : rewriter) : fscfg := mkCfg true (s2b "/srv/www") (s2b "/srv/cache") [s2b "index.html"] r.
Example C23_ex_traversal :
  handle (ex_cfg RNone) (s2b "/a/%2e%2e/%2e%2e/etc/passwd") (s2b "h") = Serve (s2b "/etc/passwd") (s2b "/srv/www/etc/passwd") false.
Proof. vm_compute. reflexivity. Qed.
Example C23_ex_prefix_dotdot : handle (ex_cfg (RPrefix 2)) (s2b "/a../etc/passwd") (s2b "h") = Reject500.
Proof. vm_compute. reflexivity. Qed.
Example C23_ex_prefix_mid_segment :
  handle (ex_cfg (RPrefix 7)) (s2b "/static-private/secret.txt") (s2b "h")
  = Serve (s2b "-private/secret.txt") (s2b "/srv/www/-private/secret.txt") false
  /\ insideb (s2b "/srv/www") (s2b "/srv/www/-private/secret.txt") = true
  /\ insideb (s2b "/srv/www") (s2b "/srv/www-private/secret.txt") = false
  /\ insideb (s2b "/srv/www") (s2b "/srv/www.bak/f.txt") = false /\ insideb (s2b "/srv/www") (s2b "/srv/wwwx") = false.
Proof. vm_compute. repeat split. Qed.
Example C23_ex_slashes_to_empty : handle (ex_cfg (RSlashes 2)) (s2b "/a") (s2b "h") = Serve [] (s2b "/srv/www") false.
Proof. vm_compute. reflexivity. Qed.
Example C23_ex_nul : handle (ex_cfg RNone) (s2b "/a/%00/b") (s2b "h") = Reject400.
Proof. vm_compute. reflexivity. Qed.
Example C23_ex_vhost : handle (ex_cfg (RVHost 0)) (s2b "/f.txt") (s2b "..") = Serve (s2b "/f.txt") (s2b "/srv/www/f.txt") false.
Proof. vm_compute. reflexivity. Qed.
Example C23_ex_root_dir_gzip :
  map snd (candidate_names (mkCfg true (s2b "/srv/www") (s2b "/srv/www") [s2b "index.html"] RNone)
                           (s2b "/a/..") (s2b "h") (Some (s2b ".fasthttp.gz"))) =
  [s2b "/srv/www"; s2b "/srv/www/index.html.fasthttp.gz"; s2b "/srv/www/index.html"; s2b "/srv/www/index.html.fasthttp.gz"; s2b "/srv/www"].
Proof. vm_compute. reflexivity. Qed.
Example C23_ex_names :
  map snd (candidate_names (ex_cfg RNone) (s2b "/a/") (s2b "h") (Some (s2b ".fasthttp.gz"))) =
  [s2b "/srv/www/a.fasthttp.gz"; s2b "/srv/www/a"; s2b "/srv/cache/a.fasthttp.gz";
   s2b "/srv/www/a/index.html.fasthttp.gz"; s2b "/srv/www/a/index.html"; s2b "/srv/cache/a/index.html.fasthttp.gz"; s2b "/srv/www/a"].
Proof. vm_compute. reflexivity. Qed.
Example C23_ex_default_suffixes : sfx_ok (s2b ".fasthttp.gz") /\ sfx_ok (s2b ".fasthttp.br") /\ sfx_ok (s2b ".fasthttp.zst").
Proof.
  repeat split; try (vm_compute; intuition discriminate); exists 102; (split; [vm_compute; tauto|discriminate]).
Qed.
