(* C24 — FS responses carry the file's bytes, ranges and validators correctly.
   Statements only; proofs live in Proof/ByteRangeProof.v.
   Model: Model/ByteRange.v (ParseByteRange on the C30 integer model) and Model/FsResp.v (the decision of
   fsHandler.handleRequest for an existing regular file).  Spec: Spec/FsRangeSpec.v (RFC 9110 byte ranges restricted
   to one range with int-sized numbers; the expected response).  `wf_bytes` = every byte is < 256. *)
From FH Require Import Model.Base Gen.GenC24 Model.Ints Model.DateIP Spec.HttpDate Model.ByteRange Model.FsResp
  Spec.FsRangeSpec Proof.ByteRangeProof.
Open Scope Z_scope.

(* every range ParseByteRange accepts satisfies 0 <= start <= end < length — for ALL byte strings and ALL lengths
   (also 0 and negative lengths: nothing is accepted then) *)
Theorem C24_range_invariant : forall r n s e, wf_bytes r ->
  ParseByteRange r n = BROk s e -> 0 <= s /\ s <= e /\ e < n.
Proof. exact range_invariant. Qed.
Print Assumptions C24_range_invariant.

(* ParseByteRange accepts exactly "bytes=a-b" / "bytes=a-" / "bytes=-k" with the RFC 9110 14.1.2 meaning
   (b clamped to length-1, the last k bytes, k = 0 and start >= length rejected) and nothing else *)
Theorem C24_range_exact : forall r n, wf_bytes r ->
  ParseByteRange r n = match spec_range r n with RSat s e => BROk s e | _ => BRErr end.
Proof. exact range_exact. Qed.
Print Assumptions C24_range_exact.

(* 206 with exactly the requested byte slice and a matching Content-Range for a satisfiable single range
   (GET, byte ranges enabled, file newer than If-Modified-Since); never content-coded; the slice lies inside the file *)
Theorem C24_206_slice : forall size mtime now compress brotli zstd range ims ae compressible zlen s e,
  wf_bytes range -> wf_bytes ims -> not_newer ims mtime = false -> range <> [] -> spec_range range size = RSat s e ->
  fs_handle size mtime now true compress brotli zstd false range ims ae compressible zlen =
  FsOut 206 (content_range s e size) (e - s + 1) (BSlice s (e - s + 1)) [] (spec_format_http_date mtime) true
  /\ 0 <= s /\ s <= e /\ e < size.
Proof. intros. now apply range_206. Qed.
Print Assumptions C24_206_slice.

(* 416 for an unsatisfiable range (including the zero-length suffix range) — and for a malformed one *)
Theorem C24_416_unsatisfiable : forall size mtime now compress brotli zstd range ims ae compressible zlen isHead,
  wf_bytes range -> wf_bytes ims -> not_newer ims mtime = false -> range <> [] ->
  (spec_range range size = RUnsat \/ spec_range range size = RInvalid) ->
  fo_status (fs_handle size mtime now true compress brotli zstd isHead range ims ae compressible zlen) = 416.
Proof. intros. now apply range_416. Qed.
Print Assumptions C24_416_unsatisfiable.

(* 304 exactly when the file — the ORIGINAL file, whichever representation (identity, gzip, br, zstd) would be served
   and whenever its compressed cache file was produced — is not newer than If-Modified-Since, to the second *)
Theorem C24_304_iff_not_newer : forall size mtime now compress brotli zstd range ims ae compressible zlen ranges isHead,
  wf_bytes ims ->
  (fo_status (fs_handle size mtime now ranges compress brotli zstd isHead range ims ae compressible zlen) = 304
   <-> not_newer ims mtime = true).
Proof. intros. now apply status_304_iff. Qed.
Print Assumptions C24_304_iff_not_newer.

(* the validator sent: every 200 / 206, for every negotiated coding, GET and HEAD alike, carries
   Last-Modified = the original file's modification time *)
Theorem C24_last_modified_is_file_mtime : forall size mtime now compress brotli zstd range ims ae compressible zlen ranges isHead,
  let o := fs_handle size mtime now ranges compress brotli zstd isHead range ims ae compressible zlen in
  (fo_status o = 200 \/ fo_status o = 206) -> fo_lastModified o = spec_format_http_date mtime.
Proof. intros size mtime now compress brotli zstd range ims ae compressible zlen ranges isHead. apply last_modified_is_file_mtime. Qed.
Print Assumptions C24_last_modified_is_file_mtime.
(* ... because the producer of the compressed cache file stamps it with the original's modification time *)
Theorem C24_compressed_file_mtime : forall mtime now, compressedFileMtime now mtime = mtime.
Proof. exact compressed_mtime. Qed.
Print Assumptions C24_compressed_file_mtime.

(* a compressed sibling found on disk, older or NEWER than the file or of the same time: the compressed variant served
   carries the file's modification time (a sibling whose time differs is re-created; repaired defect: only an OLDER
   sibling used to be re-created, so after a roll-back to an older file gzip clients got the previous content) *)
Theorem C24_sibling_validator : forall now orig sib, compressedVariantMtime now orig (Some sib) = orig.
Proof. exact sibling_ok. Qed.
Print Assumptions C24_sibling_validator.
Theorem C24_sibling_kept_iff_same_time : forall orig sib, siblingStale orig sib = false <-> sib = orig.
Proof. exact sibling_kept_iff. Qed.
Print Assumptions C24_sibling_kept_iff_same_time.

(* otherwise 200 with the full content of the served variant (the file itself unless a compressed variant was chosen:
   then its length is the codec variable zlen and Content-Encoding names the negotiated coding; that it decodes to the
   file is checked by the harness with the real decoders) *)
Theorem C24_200_full : forall size mtime now (compress brotli zstd : bool) range ims ae compressible zlen ranges,
  wf_bytes ims -> not_newer ims mtime = false -> (range = [] \/ ranges = false) ->
  let coding := match range with [] => if compress then chooseCoding brotli zstd ae else [] | _ => [] end in
  let coded := match coding with [] => false | _ => true end && compressible in
  let len := if coded then zlen else size in
  fs_handle size mtime now ranges compress brotli zstd false range ims ae compressible zlen =
  FsOut 200 [] len (BSlice 0 len) (if coded then coding else []) (spec_format_http_date mtime) ranges.
Proof. intros size mtime now compress brotli zstd range ims ae compressible zlen ranges Hi Hn Hc. exact (full_200 size mtime now compress brotli zstd range ims ae compressible zlen Hi ranges Hn Hc). Qed.
Print Assumptions C24_200_full.

(* HEAD carries the same headers as GET and no body *)
Theorem C24_head_same_headers_no_body : forall size mtime now compress brotli zstd range ims ae compressible zlen ranges,
  let g := fs_handle size mtime now ranges compress brotli zstd false range ims ae compressible zlen in
  let h := fs_handle size mtime now ranges compress brotli zstd true range ims ae compressible zlen in
  fo_status h = fo_status g /\ fo_contentRange h = fo_contentRange g /\ fo_contentLength h = fo_contentLength g
  /\ fo_coding h = fo_coding g /\ fo_lastModified h = fo_lastModified g /\ fo_acceptRanges h = fo_acceptRanges g
  /\ fo_body h = BNone.
Proof. intros. apply head_same. Qed.
Print Assumptions C24_head_same_headers_no_body.

(* non-vacuity; the repaired defect: a zero-length suffix range is rejected *)
Example C24_ex_ranges :
  ParseByteRange (s2b "bytes=-0") 100 = BRErr /\ ParseByteRange (s2b "bytes=-00") 100 = BRErr
  /\ ParseByteRange (s2b "bytes=-1") 100 = BROk 99 99 /\ ParseByteRange (s2b "bytes=-500") 100 = BROk 0 99
  /\ ParseByteRange (s2b "bytes=0-0") 1 = BROk 0 0 /\ ParseByteRange (s2b "bytes=5-1000") 100 = BROk 5 99
  /\ ParseByteRange (s2b "bytes=99-") 100 = BROk 99 99 /\ ParseByteRange (s2b "bytes=100-") 100 = BRErr
  /\ ParseByteRange (s2b "bytes=-5") 0 = BRErr /\ ParseByteRange (s2b "bytes=0-") 0 = BRErr
  /\ ParseByteRange (s2b "bytes=0-1,3-4") 100 = BRErr /\ ParseByteRange (s2b "bytes=2-1") 100 = BRErr
  /\ spec_range (s2b "bytes=-0") 100 = RUnsat /\ spec_range (s2b "bytes=2-1") 100 = RInvalid
  /\ spec_range (s2b "bytes=0-99999999999999999999") 100 = RInvalid.
Proof. vm_compute. repeat split; reflexivity. Qed.
Example C24_ex_fs :
  fo_status (fs_handle 100 1700000000 1800000000 true false false false false (s2b "bytes=-0") [] [] false 0) = 416
  /\ fs_handle 100 1700000000 1800000000 true false false false false (s2b "bytes=10-19") [] [] false 0 =
     FsOut 206 (s2b "bytes 10-19/100") 10 (BSlice 10 10) [] (s2b "Tue, 14 Nov 2023 22:13:20 GMT") true
  /\ fo_status (fs_handle 100 1700000000 1800000000 true false false false false (s2b "bytes=10-19") (s2b "Tue, 14 Nov 2023 22:13:20 GMT") [] false 0) = 304
  /\ fo_status (fs_handle 100 1700000000 1800000000 true false false false false (s2b "bytes=10-19") (s2b "Tue, 14 Nov 2023 22:13:19 GMT") [] false 0) = 206
  (* a compressed variant produced much later than the file's modification: validators are the file's *)
  /\ fs_handle 8192 1700000000 1800000000 true true true true false [] [] (s2b "zstd, br, gzip") true 321 =
     FsOut 200 [] 321 (BSlice 0 321) (s2b "br") (s2b "Tue, 14 Nov 2023 22:13:20 GMT") true
  /\ fo_status (fs_handle 8192 1700000000 1800000000 true true false false true [] (s2b "Tue, 14 Nov 2023 22:13:20 GMT") (s2b "gzip") true 321) = 304.
Proof. vm_compute. repeat split; reflexivity. Qed.
