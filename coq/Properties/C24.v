(* C24 — placeholder while the pipeline is brought up *)
From FH Require Import Model.Base Model.ByteRange Model.FsResp Spec.FsRangeSpec.
