(* C25 — FS file handles are released exactly once and never read after close.
   Statements only; model in Model/FsCache.v, vocabulary in Spec/FsCacheSpec.v, proofs in Proof/FsCacheProof.v.
   Every theorem is about ALL states reachable from the empty in-memory cache manager (`init`) or from the no-op manager
   of FS.SkipCache (`init_noop`) by any interleaving of requests, body reads and closes, clean ticks with any choice of
   expired entries, cache-manager close and Release calls, for any number of requests, files and readers. *)
From Coq Require Import List ZArith Bool Arith.
From FH Require Import Gen.GenC25 Model.FsCache Spec.FsCacheSpec Proof.FsCacheProof.
Import ListNotations.

(* the invariant of the design: a released file has no readers and is neither cached, pending nor queued again *)
Theorem C25_released_invariant : forall cf s0 s f, start_state s0 -> reach cf s0 s -> 0 < released s f ->
  rc s f = 0 /\ ~ In f (held_files s) /\ ~ In f (map snd (cache s)) /\ ~ In f (pending s) /\ ~ In f (relq s).
Proof. exact p_released_invariant. Qed.
Print Assumptions C25_released_invariant.

(* fsFile.Release (which closes ff.f) is called at most once per file; a reader handle is closed at most once *)
Theorem C25_release_once : forall cf s0 s, start_state s0 -> reach cf s0 s ->
  (forall f, released s f <= 1) /\ (forall b, bclosed s b <= 1).
Proof. exact p_release_once. Qed.
Print Assumptions C25_release_once.

(* a file is only released when no response holds it, and nobody can get hold of it afterwards *)
Theorem C25_release_no_reader : forall cf s0 s f s', start_state s0 -> reach cf s0 s -> step cf s (Release f) = Some s' ->
  rc s f = 0 /\ ~ In f (held_files s) /\ ~ In f (held_files s').
Proof. exact p_release_no_reader. Qed.
Print Assumptions C25_release_no_reader.

(* no response ever reads from a closed handle: the ghost counter of such reads stays 0, and while a response holds a
   file its main handle is not released nor queued for release and its own reader handle is open *)
Theorem C25_no_read_after_release : forall cf s0 s, start_state s0 -> reach cf s0 s ->
  badreads s = 0 /\
  (forall x, In x (holders s) ->
     released s (h_f x) = 0 /\ ~ In (h_f x) (relq s) /\ (forall b, h_b x = Some b -> bclosed s b = 0)) /\
  (forall h, find_holder h (holders s) <> None -> step cf s (Read h) <> None /\ (exists sf, step cf s (Dec h sf) <> None)).
Proof. exact p_no_read_after_release. Qed.
Print Assumptions C25_no_read_after_release.

(* once the manager is closed, every response body closed and every collected file released: every file the handler
   opened has been released exactly once — or was dropped on the error path that forgets to close it — and every
   reader handle has been closed exactly once *)
Theorem C25_settled_released_or_leaked : forall cf s0 s, start_state s0 -> reach cf s0 s -> settled s = true ->
  (forall f, f < nextf s -> released s f = 1 \/ In f (leaked s)) /\ (forall b, b < nextb s -> bclosed s b = 1).
Proof. exact p_settled_released_or_leaked. Qed.
Print Assumptions C25_settled_released_or_leaked.

(* History (finding open-error-leak, since repaired in fs.go): the code used to have an error path — label OpenFail — on which
   the full statement "every opened file is released" is FALSE: a request whose newFSFile fails
   after the Open (readFileHeader error: a file without Seek or with a read error and no known extension, or a corrupt
   compressed file) dropped the handle without closing it.  Witness: Open; OpenFail; close.  The label is kept in the model
   as a regression detector: the harness emits it (and the check fails) if a failing request leaves its file open again;
   on the repaired code that path is OpenAbort (file closed), and no generated trace contains OpenFail. *)
Theorem C25_eventually_released_refuted : exists cf s, reach cf init s /\ settled s = true /\ 0 < nextf s /\ released s 0 = 0.
Proof. exact p_eventually_released_refuted. Qed.
Print Assumptions C25_eventually_released_refuted.

(* ... and TRUE exactly when that error path is not taken — which is every run of the current code *)
Theorem C25_eventually_released : forall cf s0 s, start_state s0 -> reach_nofail cf s0 s -> settled s = true ->
  (forall f, f < nextf s -> released s f = 1) /\ (forall b, b < nextb s -> bclosed s b = 1).
Proof. exact p_eventually_released. Qed.
Print Assumptions C25_eventually_released.

(* ---- non-vacuity ---- *)
Definition cfm := mkCfg false.
(* evicted while being read: pending; the reader finishes; the next tick releases it together with its pooled handle *)
Example C25_ex_pending :
  match run cfm init [Open 100; SetF 0 0 0; NewReader 0; CleanTick [0]; Read 0] with
  | Some s => pending s = [0] /\ cache s = [] /\ released s 0 = 0 /\
      match run cfm s [Dec 0 false; CleanTick []; Release 0; CloseBegin; CloseCollect] with
      | Some s' => settled s' = true /\ released s' 0 = 1 /\ bclosed s' 0 = 1 /\ badreads s' = 0
      | None => False
      end
  | None => False
  end.
Proof. vm_compute. repeat split; reflexivity. Qed.

(* two requests miss at the same time: the second Set finds the key taken, its file is released at once, it reads the first *)
Example C25_ex_duplicate :
  match run cfm init [Open 100; Open 100; SetF 7 1 0; SetF 7 0 1; Release 0] with
  | Some s => cache s = [(7, 1)] /\ rc s 1 = 2 /\ released s 0 = 1 /\ released s 1 = 0 /\ map h_f (holders s) = [1; 1]
  | None => False
  end.
Proof. vm_compute. repeat split; reflexivity. Qed.

(* Release is refused while a reader holds the file; a reader cannot exist on a released file *)
Example C25_ex_guards :
  match run cfm init [Open 100; SetF 0 0 0] with
  | Some s => step cfm s (Release 0) = None /\ step cfm s (Read 0) <> None /\ step cfm s (Read 1) = None
  | None => False
  end.
Proof. vm_compute. repeat split; discriminate. Qed.

(* SkipCache: the file is released by the Dec that brings the count to zero *)
Example C25_ex_skipcache :
  match run cfm init_noop [Open 100; SetF 0 0 0; NewReader 0; Read 0; Dec 0 false; Release 0] with
  | Some s => settled s = true /\ released s 0 = 1 /\ bclosed s 0 = 1
  | None => False
  end.
Proof. vm_compute. repeat split; reflexivity. Qed.
