(* C26 — Request paths are fully normalised.  Statements only; proofs live in Proof/PathNormProof.v.

   Model: Model/PathNorm.v (uri.go normalizePath on a non-Windows build, uri_unix.go addLeadingSlash,
   args.go decodeArgAppendNoPlus).  Spec: Spec/Rfc3986.v —
     spec_path src = remove_dot_segments (collapse_slashes (pct_decode (add_slash src)))
   with remove_dot_segments the input-buffer/output-buffer algorithm of RFC 3986 section 5.2.4. *)
From FH Require Import Model.Base Gen.GenC26 Model.PathNorm Spec.Rfc3986 Proof.PathNormProof.
Open Scope N_scope.

(* The search loops of normalizePath never run out of fuel: the model is total. *)
Theorem C26_total : forall src, normalizePath_opt src = Some (normalizePath src).
Proof. exact normalizePath_opt_total. Qed.
Print Assumptions C26_total.

(* For ALL byte strings (even lists with elements >= 256): the result starts with '/', contains no "//",
   no "/./", no "/../", and does not end in "/." or "/..". *)
Theorem C26_shape : forall src, shape_ok (normalizePath src).
Proof. exact path_shape. Qed.
Print Assumptions C26_shape.

(* The same on segments: the path is "/s1/s2/.../sn" (n >= 1) where no si contains '/', none is "." or "..",
   and only the last may be empty. *)
Theorem C26_shape_segments : forall src, exists l,
  normalizePath src = join_segs l /\ l <> [] /\
  Forall (fun s => ~ In SLASH s /\ s <> sDot /\ s <> sDotDot) l /\
  Forall (fun s => s <> []) (removelast l).
Proof. exact path_segments. Qed.
Print Assumptions C26_shape_segments.

(* ... and the executable form of the shape used as the oracle in Check/C26Check.v *)
Theorem C26_shape_checker : forall src, shape_okb (normalizePath src) = true.
Proof. exact path_shape_b. Qed.
Print Assumptions C26_shape_checker.

(* URI.Path() IS the RFC composition, for every byte string. *)
Theorem C26_path_is_rfc : forall src, wf_bytes src -> normalizePath src = spec_path src.
Proof. exact path_is_rfc. Qed.
Print Assumptions C26_path_is_rfc.

(* The RFC's buffer algorithm and the segment-stack formulation are the same function on the paths
   at hand, so the theorem above does not depend on which one is taken as "remove_dot_segments". *)
Theorem C26_spec_formulations_agree : forall src, spec_path src = spec_path_segs src.
Proof. exact spec_path_segs_eq. Qed.
Print Assumptions C26_spec_formulations_agree.

(* A normalised path is a fixpoint: running the slash and dot passes on an output changes nothing. *)
Theorem C26_output_is_fixpoint : forall s p, normalizePath_opt s = Some p ->
  norm_tail p = Some p /\ exists r, p = SLASH :: r.
Proof. exact norm_tail_fixpoint. Qed.
Print Assumptions C26_output_is_fixpoint.

(* ---- non-vacuity / orientation ---- *)
Example C26_ex_root_dotdot : normalizePath (s2b "/../x") = s2b "/x".
Proof. vm_compute. reflexivity. Qed.
Example C26_ex_trailing_dot : normalizePath (s2b "/foo/.") = s2b "/foo/".
Proof. vm_compute. reflexivity. Qed.
Example C26_ex_encoded : normalizePath (s2b "a/%2e%2e/%2E/b%2f%2f..%2f/c/...//.a/%zz/%2") = s2b "/c/.../.a/%zz/%2".
Proof. vm_compute. reflexivity. Qed.
Example C26_ex_spec : spec_path (s2b "/a/b/../../../c/./d/..") = s2b "/c/".
Proof. vm_compute. reflexivity. Qed.
Example C26_ex_kept : shape_okb (s2b "/.../.a/a./..a") = true /\ shape_okb (s2b "/a/./b") = false /\
                      shape_okb (s2b "/a/..") = false /\ shape_okb (s2b "/a//b") = false /\ shape_okb (s2b "/a/.") = false.
Proof. vm_compute. repeat split. Qed.
