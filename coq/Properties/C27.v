(* C27 — URIs survive serialisation and agree with net/url. *)
From FH Require Import Model.Base Model.Uri.
Example C27_placeholder : True. Proof. exact I. Qed.
