(* C27 — URIs survive serialisation and agree with net/url. *)
From FH Require Import Model.Base Gen.GenC27 Model.IPv6 Model.PathNorm Model.Uri Model.UriOps Spec.NetUrl Proof.UriProof Proof.NetUrlProof.
Open Scope N_scope.
Definition obs_host_of (r : ures URI) : bytes := match r with UOk u => Host u | UErr _ => [] end.

(* For any URI fasthttp parses successfully (path normalisation on; any host argument, in particular none = an absolute URI)
   whose host does not contain a literal '%' after decoding: parsing FullURI() again succeeds and yields the same scheme,
   host, path, query string and fragment (QueryArgs() not used: the query string is serialised as it was parsed). *)
Theorem C27_fulluri_reparse : forall hostArg uri u, wf_bytes hostArg -> wf_bytes uri ->
  parse hostArg uri = UOk u -> ~ In PCT (Host u) ->
  exists u', parse [] (FullURI u) = UOk u' /\
    Scheme u' = Scheme u /\ Host u' = Host u /\ Path u' = Path u /\ QueryString u' = QueryString u /\ Hash u' = Hash u.
Proof. exact fulluri_reparse. Qed.
Print Assumptions C27_fulluri_reparse.

(* ... and parsing RequestURI() against the same host yields the same path and query string *)
Theorem C27_requesturi_reparse : forall hostArg uri u, wf_bytes hostArg -> wf_bytes uri ->
  parse hostArg uri = UOk u -> ~ In PCT (Host u) ->
  exists u', parse (Host u) (RequestURI u) = UOk u' /\ Host u' = Host u /\ Path u' = Path u /\ QueryString u' = QueryString u.
Proof. exact requesturi_reparse. Qed.
Print Assumptions C27_requesturi_reparse.

(* The same for URI objects that were edited after parsing.  `good u` (Proof/UriProof.v) is the invariant a successful parse
   establishes (C27_parse_establishes_invariant): scheme empty or a lower-cased valid scheme, host = lower-cased result of
   parseHost, path = an output of normalizePath, no '#' or control byte in the query string, no control byte in the fragment.
   SetPath (any bytes), SetQueryString (no '#'/control byte), SetHash (no control byte), SetScheme (valid scheme), SetUsername,
   SetPassword keep it (CopyTo copies the fields; Reset + Parse re-establishes it), hence the round trip holds after any sequence of them.
   SetHost is NOT in the list: it stores any bytes unvalidated (e.g. "a/b"), which FullURI() cannot represent. *)
Theorem C27_parse_establishes_invariant : forall hostArg uri u, wf_bytes hostArg -> wf_bytes uri -> parse hostArg uri = UOk u -> good u.
Proof. exact parse_good. Qed.
Print Assumptions C27_parse_establishes_invariant.

Theorem C27_edited_uri_reparse : forall u, good u -> ~ In PCT (Host u) ->
  (exists u', parse [] (FullURI u) = UOk u' /\
     Scheme u' = Scheme u /\ Host u' = Host u /\ Path u' = Path u /\ QueryString u' = QueryString u /\ Hash u' = Hash u) /\
  (exists u', parse (Host u) (RequestURI u) = UOk u' /\ Host u' = Host u /\ Path u' = Path u /\ QueryString u' = QueryString u).
Proof. intros u G Hn. split; [now apply fulluri_reparse_good|now apply requesturi_reparse_good]. Qed.
Print Assumptions C27_edited_uri_reparse.

Theorem C27_setters_keep_invariant : forall st, good (us_uri st) ->
  (forall v, good (us_uri (SetPath st v))) /\
  (forall v, stringContainsCTLByte v = false -> ~ In HASH v -> good (us_uri (SetQueryString st v))) /\
  (forall v, stringContainsCTLByte v = false -> good (us_uri (SetHash st v))) /\
  (forall v, wf_bytes v -> isValidScheme v = true -> good (us_uri (SetScheme st v))) /\
  (forall v, good (us_uri (SetUsername st v))) /\ (forall v, good (us_uri (SetPassword st v))).
Proof.
  intros st G. refine (conj _ (conj _ (conj _ (conj _ (conj _ _))))).
  - intros v. exact (good_set_path _ v G).
  - intros v H1 H2. exact (good_set_qs _ v G H1 H2).
  - intros v H1. exact (good_set_hash _ v G H1).
  - intros v H1 H2. exact (good_set_scheme _ v G H1 H2).
  - intros v. exact (good_set_userinfo _ v _ G).
  - intros v. exact (good_set_userinfo _ _ v G).
Qed.
Print Assumptions C27_setters_keep_invariant.

(* the query ARGUMENTS are a function of the query string (Args.ParseBytes, property C28): equal strings, equal arguments *)
Theorem C27_query_args_preserved : forall (A : Type) (parse_args : bytes -> A) hostArg uri u, wf_bytes hostArg -> wf_bytes uri ->
  parse hostArg uri = UOk u -> ~ In PCT (Host u) ->
  (exists u', parse [] (FullURI u) = UOk u' /\ parse_args (QueryString u') = parse_args (QueryString u)) /\
  (exists u', parse (Host u) (RequestURI u) = UOk u' /\ parse_args (QueryString u') = parse_args (QueryString u)).
Proof.
  intros A pa hostArg uri u H1 H2 H3 H4. split.
  - destruct (fulluri_reparse _ _ _ H1 H2 H3 H4) as (u' & E & _ & _ & _ & Eq & _). exists u'. now rewrite Eq.
  - destruct (requesturi_reparse _ _ _ H1 H2 H3 H4) as (u' & E & _ & _ & Eq). exists u'. now rewrite Eq.
Qed.
Print Assumptions C27_query_args_preserved.

(* For every "http://" / "https://" URI (scheme in any letter case) that both fasthttp and net/url accept — net/url.Parse as
   formalised in Spec/NetUrl.v, which the harness compares with the real net/url on every generated URI — fasthttp's host is
   net/url's host lower-cased (ASCII) and the raw query strings are equal. *)
Theorem C27_host_query_vs_neturl : forall S tail u s h q,
  wf_bytes (S ++ uStrColonSlashSlash ++ tail) ->
  (map nu_lower S = s2b "http" \/ map nu_lower S = s2b "https") ->
  parse [] (S ++ uStrColonSlashSlash ++ tail) = UOk u ->
  nu_parse (S ++ uStrColonSlashSlash ++ tail) = Some (s, h, q) ->
  Host u = map nu_lower h /\ QueryString u = q.
Proof. exact host_query_vs_neturl. Qed.
Print Assumptions C27_host_query_vs_neturl.

(* its core: on any authority both parseHost functions, when they accept, return the same bytes *)
Theorem C27_parseHost_vs_neturl : forall hp ph h, wf_bytes hp -> parseHost hp = UOk ph -> nu_parse_host hp = Some h -> ph = h.
Proof. exact host_agree. Qed.
Print Assumptions C27_parseHost_vs_neturl.

(* the building blocks *)
Theorem C27_quote_then_decode : forall p rest, decodeNoPlus_loop (Q p ++ rest) = p ++ decodeNoPlus_loop rest.
Proof. exact loop_quote. Qed.
Print Assumptions C27_quote_then_decode.
Theorem C27_quote_emits_no_delimiter : forall p c, In c (Q p) -> c <> QM /\ c <> HASH /\ isctl c = false.
Proof. exact Q_chars. Qed.
Print Assumptions C27_quote_emits_no_delimiter.
Theorem C27_host_parses_to_itself : forall host0 ph, wf_bytes host0 -> parseHost host0 = UOk ph -> ~ In PCT ph ->
  parseHost (lowercaseBytes ph) = UOk (lowercaseBytes ph) /\ lowercaseBytes (lowercaseBytes ph) = lowercaseBytes ph.
Proof. intros h0 ph Hw Hp Hn. destruct (parseHost_stable h0 ph Hw Hp Hn) as (A & B & _). auto. Qed.
Print Assumptions C27_host_parses_to_itself.

(* the guard is needed: a host that decodes to a literal '%' does not survive *)
Example C27_guard_needed :
  match parse [] (s2b "http://a%25b/") with
  | UOk u => Host u = s2b "a%b" /\ FullURI u = s2b "http://a%b/" /\ parse [] (FullURI u) = UErr ErrEscape
  | UErr _ => False
  end.
Proof. vm_compute. repeat split; reflexivity. Qed.

(* SetHost stores what it is given: an edited host need not survive (why it is excluded above) *)
Example C27_sethost_unvalidated :
  match parse [] (s2b "http://h/p") with
  | UOk u => let st := SetHost (of_parse u) (s2b "A/b") in
             FullURI_st st = s2b "http://a/b/p" /\ obs_host_of (parse [] (FullURI_st st)) = s2b "a"
  | UErr _ => False
  end.
Proof. vm_compute. split; reflexivity. Qed.

Example C27_ex_neturl :
  nu_parse (s2b "HTTP://User:Pw@EXAMPLE.com:80/a/./b?x=1&y=%zz#F#g") = Some (s2b "http", s2b "EXAMPLE.com:80", s2b "x=1&y=%zz")
  /\ nu_parse (s2b "http://[::1]]:80/") = Some (s2b "http", s2b "[::1]]:80", []) /\ nu_parse (s2b "http://h/%zz") = None /\ nu_parse (s2b "http://H%C3%A9?") = Some (s2b "http", h "48c3a9", [])
  /\ nu_parse (s2b "//h/p?q") = Some ([], s2b "h", s2b "q") /\ nu_parse (s2b "a:b:c") = Some (s2b "a", [], []) /\ nu_parse (s2b "a/b:c") = Some ([], [], []) /\ nu_parse (s2b "b:c/") = Some (s2b "b", [], []).
Proof. vm_compute. repeat split; reflexivity. Qed.

Example C27_ex :
  match parse [] (s2b "HTTP://User:Pw@EXAMPLE.com:80/a/./b/../c%2Fd%20e?x=1&y=%zz#F#g") with
  | UOk u => Scheme u = s2b "http" /\ Host u = s2b "example.com:80" /\ Path u = s2b "/a/c/d e" /\ QueryString u = s2b "x=1&y=%zz"
             /\ Hash u = s2b "F#g" /\ u_username u = s2b "User" /\ u_password u = s2b "Pw"
             /\ FullURI u = s2b "http://example.com:80/a/c/d%20e?x=1&y=%zz#F#g" /\ RequestURI u = s2b "/a/c/d%20e?x=1&y=%zz"
  | UErr _ => False
  end.
Proof. vm_compute. repeat split; reflexivity. Qed.
