(* C28 — Query arguments behave as an ordered multimap and round-trip.
   Statements only; proofs live in Proof/ArgsProof.v.  Model: Model/Args.v (args.go, bytesconv.go
   AppendQuotedArg; tables regenerated into Gen/GenC28.v).  Spec: Spec/Multimap.v. *)
From FH Require Import Model.Base Gen.GenC28 Model.Args Spec.Multimap Proof.ArgsProof.
Open Scope N_scope.

(* Simulation.  From ANY state of the model (any live entries, any stale contents in the spare slots
   beyond len that allocArg reuses), for every sequence of Add / AddNoValue / Set / SetNoValue / Del /
   Reset with arbitrary keys and values (no restriction at all), every getter equals the getter of the
   ordered multimap obtained by running the same operations on the abstraction:
   Set replaces the first entry with the key (appending when there is none), Del removes every entry
   with the key and keeps the order of the rest. *)
Theorem C28_refines_multimap : forall (a : args) (ops : list mop) (k : bytes),
  let a' := run_ops a (map op_of_mop ops) in
  let m' := mm_run (abs a) ops in
  Peek a' k = mm_peek m' k /\ PeekMulti a' k = mm_peek_multi m' k /\ Has a' k = mm_has m' k
  /\ Len a' = mm_len m' /\ All a' = mm_all m' /\ map kv_noValue (live a') = map e_nov m'.
Proof. exact refines_multimap_from. Qed.
Print Assumptions C28_refines_multimap.

(* The same from the empty Args with ParseBytes(raw) allowed anywhere in the sequence: the multimap after
   a parse is the reference grammar's reading of raw (split at '&', cut at the first '=', decode,
   drop both-empty pieces).  op_wf only says that the bytes are bytes (< 256). *)
Theorem C28_refines_multimap_with_parse : forall (ops : list op) (k : bytes), Forall op_wf ops ->
  let a' := run_ops emptyArgs ops in
  let m' := mm_run_op [] ops in
  Peek a' k = mm_peek m' k /\ PeekMulti a' k = mm_peek_multi m' k /\ Has a' k = mm_has m' k
  /\ Len a' = mm_len m' /\ All a' = mm_all m' /\ map kv_noValue (live a') = map e_nov m'.
Proof. exact refines_multimap_ops. Qed.
Print Assumptions C28_refines_multimap_with_parse.

(* Round trip.  After any operation sequence (ParseBytes included), parsing QueryString() — into any
   Args b, fresh or reused — terminates and yields the same ordered (key, value, noValue) list except
   the entries whose key and value are both empty. *)
Theorem C28_query_roundtrip : forall (ops : list op) (b : args), Forall op_wf ops ->
  let a := run_ops emptyArgs ops in
  exists b', ParseBytes b (QueryString a) = Some b' /\ abs b' = mm_roundtrip (abs a).
Proof. exact query_roundtrip_ops. Qed.
Print Assumptions C28_query_roundtrip.

(* ... and for any state whose entries are bytes and satisfy "noValue implies empty value"
   (the invariant every mutator and the parser establish: C28_invariant_reachable) *)
Theorem C28_query_roundtrip_state : forall a b, inv a ->
  exists b', ParseBytes b (QueryString a) = Some b' /\ abs b' = mm_roundtrip (abs a).
Proof. exact query_roundtrip_inv. Qed.
Print Assumptions C28_query_roundtrip_state.

Theorem C28_invariant_reachable : forall ops a, inv a -> Forall op_wf ops -> inv (run_ops a ops).
Proof. exact inv_run. Qed.
Print Assumptions C28_invariant_reachable.

(* the two lemmas the round trip rests on, for ALL byte strings *)
Theorem C28_decode_quote : forall x, wf_bytes x -> decodeArgAppend [] (AppendQuotedArg [] x) = x.
Proof. intros x H. rewrite AppendQuotedArg_spec. exact (decode_quote x H). Qed.
Print Assumptions C28_decode_quote.

Theorem C28_quote_no_separators : forall x, wf_bytes x ->
  forallb (fun c => negb (c =? AMP) && negb (c =? EQS)) (AppendQuotedArg [] x) = true.
Proof. intros x H. rewrite AppendQuotedArg_spec. exact (quote_sep_free x H). Qed.
Print Assumptions C28_quote_no_separators.

(* the parser: total (never out of fuel), independent of what the Args held before, and equal to the
   reference grammar with the reference percent-decoder, for ALL raw byte strings (malformed escapes included) *)
Theorem C28_parse_is_grammar : forall a raw, wf_bytes raw ->
  exists a', ParseBytes a raw = Some a' /\ abs a' = spec_parse spec_decode raw.
Proof.
  intros a raw H. destruct (ParseBytes_spec a raw) as (a' & E & _ & L). exists a'. split; [exact E|].
  rewrite L. now apply spec_parse_dec.
Qed.
Print Assumptions C28_parse_is_grammar.

Theorem C28_decode_is_reference : forall dst s, wf_bytes s -> decodeArgAppend dst s = dst ++ spec_decode s.
Proof. intros dst s H. rewrite decodeArgAppend_spec. f_equal. rewrite <- dec_loop. now apply dec_spec_decode. Qed.
Print Assumptions C28_decode_is_reference.

(* CopyTo (beyond the property text, which names no copy): whatever dst held before — live entries or stale
   slots — after a.CopyTo(dst) it holds exactly a's ordered (key, value, noValue) list, so by
   C28_refines_multimap (which starts from any state) every later getter on the copy agrees too. *)
Theorem C28_copy_exact : forall a dst, inv a -> abs (CopyTo a dst) = abs a /\ inv (CopyTo a dst).
Proof. intros a dst H. split; [now apply CopyTo_exact|now apply inv_CopyTo]. Qed.
Print Assumptions C28_copy_exact.

(* PeekBytes (peekArgBytes, bytes.Equal) is Peek (peekArgStr, string compare) *)
Theorem C28_peek_bytes_same : forall a k, PeekBytes a k = Peek a k.
Proof. exact PeekBytes_Peek. Qed.
Print Assumptions C28_peek_bytes_same.

(* ---- non-vacuity ---- *)
Definition ex_ops : list op :=
  [OAdd (s2b "a") (s2b "1"); OAdd (s2b "b") (s2b "2"); OAdd (s2b "a") (s2b "3"); OSet (s2b "a") (s2b "9")].
(* Set replaced only the first "a"; the later duplicate and the order are untouched; Del removes both *)
Example C28_ex_set_first :
  All (run_ops emptyArgs ex_ops) = [(s2b "a", s2b "9"); (s2b "b", s2b "2"); (s2b "a", s2b "3")]
  /\ PeekMulti (run_ops emptyArgs ex_ops) (s2b "a") = [s2b "9"; s2b "3"]
  /\ Peek (run_ops emptyArgs ex_ops) (s2b "a") = Some (s2b "9")
  /\ All (run_ops emptyArgs (ex_ops ++ [ODel (s2b "a")])) = [(s2b "b", s2b "2")]
  /\ Has (run_ops emptyArgs (ex_ops ++ [ODel (s2b "a")])) (s2b "a") = false
  /\ Forall op_wf ex_ops.
Proof. repeat split; try (vm_compute; reflexivity). repeat constructor; vm_compute; reflexivity. Qed.

(* serialisation of awkward bytes and of the three shapes k=v, k=, k ; both-empty entries disappear *)
Definition ex_ops2 : list op :=
  [OAdd (s2b "k k") (h "263d2b25203b00ff"); OAddNoValue (s2b "nv"); OAdd (s2b "e") []; OAdd [] []; OAddNoValue []; OSetNoValue (s2b "e"); OAdd (s2b "=") (s2b "%41")].
Example C28_ex_roundtrip :
  QueryString (run_ops emptyArgs ex_ops2) = s2b "k+k=%26%3D%2B%25+%3B%00%FF&nv&e&=&&%3D=%2541"
  /\ option_map abs (ParseBytes emptyArgs (QueryString (run_ops emptyArgs ex_ops2)))
     = Some [(s2b "k k", h "263d2b25203b00ff", false); (s2b "nv", [], true); (s2b "e", [], true); (s2b "=", s2b "%41", false)]
  /\ length (abs (run_ops emptyArgs ex_ops2)) = 6%nat.
Proof. vm_compute. repeat split; reflexivity. Qed.

(* malformed input is parsed, not rejected; stale slots never leak *)
Example C28_ex_malformed :
  option_map abs (ParseBytes (run_ops emptyArgs ex_ops2) (s2b "%zz=%&a==b&&=&c&%4=%41+"))
  = Some [(s2b "%zz", s2b "%", false); (s2b "a", s2b "=b", false); (s2b "c", [], true); (s2b "%4", s2b "A ", false)].
Proof. vm_compute. reflexivity. Qed.

(* CopyTo into an Args with longer stale contents: nothing of the old contents survives *)
Example C28_ex_copy :
  abs (CopyTo (run_ops emptyArgs ex_ops) (run_ops emptyArgs ex_ops2)) = abs (run_ops emptyArgs ex_ops)
  /\ length (spare (CopyTo (run_ops emptyArgs ex_ops) (run_ops emptyArgs ex_ops2))) = 3%nat
  /\ abs (CopyTo (run_ops emptyArgs ex_ops2) (run_ops emptyArgs ex_ops)) = abs (run_ops emptyArgs ex_ops2).
Proof. vm_compute. repeat split; reflexivity. Qed.
