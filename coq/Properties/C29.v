(* C29 — placeholder while the pipeline is brought up *)
From FH Require Import Model.Base Model.HeaderMap Spec.HeaderSpec.
