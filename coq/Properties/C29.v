(* C29 — Header API behaves as a case-insensitive ordered multimap.  Statements only; proofs live in
   Proof/HeaderMapProof.v, Proof/HeaderSpecProof.v, Proof/HeaderCaseProof.v and Proof/HeaderAllProof.v.

   Model: Model/HeaderWrite.v (setters, setSpecialHeader, peek) + Model/HeaderMap.v (del, peekAll, All, CopyTo).
   Spec:  Spec/HeaderSpec.v (ordered multimap keyed by canonical name).
   Operation sequences: any list of Set / Add / Del / CopyTo (`hop`), on a request header interleaved with
   iterations (All / VisitAll / PeekKeys / Len collect the cookies: `qev`), starting from a zero header with
   normalisation on or off and the default content type on or off.

   Guard `ops_guard`: all bytes are < 256, and ONLY when normalisation is off no mutated name is a case variant of
   a specially handled name.  With normalisation on the guard says nothing about names (C29_guard_normalising).
   The known finding nonorm-special-casefold is stated as a `_refuted` theorem about the model (it is what the guard
   excludes).  Two further defects found while building this property were repaired in /repo (PeekAll of an unset
   special name, Connection: close next to an older value); the model describes the repaired code. *)
From FH Require Import Model.Base Gen.GenC05 Model.ByteClassModel Model.Cookie Model.HeaderWrite Model.HeaderMap
  Spec.HeaderSpec Proof.HeaderMapProof Proof.HeaderSpecProof Proof.HeaderCaseProof Proof.HeaderAllProof.
Open Scope N_scope.

(* with normalisation enabled every canonicalised key passes the case-fold guard *)
Theorem C29_guard_normalising : forall specials k,
  forallb canonical_special specials = true -> wf_bytes k ->
  casefold_ok specials (normalizeHeaderKey k false) = true.
Proof. exact casefold_ok_normalised. Qed.
Print Assumptions C29_guard_normalising.

(* ---- every keyed getter agrees with the reference multimap after any operation sequence ---- *)
Theorem C29_refines_spec_response : forall nonorm nodefct ops k, ops_guard rspecials nonorm ops ->
  let r := fold_left rstep29 ops (rinit nonorm nodefct) in
  let m := srun HResp nonorm (map sop_of ops) in
  let c := canon nonorm k in
  RPeek r k = spec_peek HResp nodefct m c
  /\ RPeekAll r k = spec_peek_all HResp nodefct m c
  /\ RContentType r = spec_peek HResp nodefct m strContentType
  /\ RContentEncoding r = spec_peek HResp nodefct m strContentEncoding
  /\ RServer r = spec_peek HResp nodefct m strServer.
Proof. exact resp_refines_spec_g. Qed.
Print Assumptions C29_refines_spec_response.

Theorem C29_refines_spec_request : forall nonorm nodefct evs k, ops_guard qspecials nonorm (qev_ops evs) ->
  let q := fold_left qevstep evs (qinit nonorm nodefct) in
  let m := srun HReq nonorm (map sop_of (qev_ops evs)) in
  let c := canon nonorm k in
  QPeek q k = spec_peek HReq nodefct m c
  /\ QPeekAll q k = spec_peek_all HReq nodefct m c
  /\ QContentType q = spec_peek HReq nodefct m strContentType
  /\ QHost q = spec_peek HReq nodefct m strHost
  /\ QUserAgent q = spec_peek HReq nodefct m strUserAgent.
Proof. exact req_refines_spec_g. Qed.
Print Assumptions C29_refines_spec_request.

(* All() / VisitAll, hence PeekKeys and Len: under EVERY name the values yielded, in order, are those of the reference
   multimap (every Set-Cookie value is its own field; the request cookies are one Cookie field).
   Checked by the harness only: ContentLength() (int) and ConnectionClose(). *)
Theorem C29_all_response : forall nonorm nodefct ops c, ops_guard rspecials nonorm ops ->
  let r := fold_left rstep29 ops (rinit nonorm nodefct) in
  vals_of (RAll r) c = spec_all_vals HResp nodefct (srun HResp nonorm (map sop_of ops)) c
  /\ RPeekKeys r = map fst (RAll r) /\ RLen r = Z.of_nat (length (RAll r)).
Proof. exact resp_all_g. Qed.
Print Assumptions C29_all_response.
Theorem C29_all_request : forall nonorm nodefct evs c, ops_guard qspecials nonorm (qev_ops evs) ->
  let q := fold_left qevstep evs (qinit nonorm nodefct) in
  vals_of (snd (QAll q)) c = spec_all_vals HReq nodefct (srun HReq nonorm (map sop_of (qev_ops evs))) c
  /\ snd (QPeekKeys q) = map fst (snd (QAll q)) /\ snd (QLen q) = Z.of_nat (length (snd (QAll q))).
Proof. exact req_all_g. Qed.
Print Assumptions C29_all_request.

(* ---- deleting, setting or adding one name never changes the values, or their order, under another name ---- *)
Theorem C29_other_names_untouched_response : forall nonorm nodefct ops o k', ops_guard rspecials nonorm (ops ++ [o]) ->
  let r := fold_left rstep29 ops (rinit nonorm nodefct) in
  match op_key nonorm o with Some c => canon nonorm k' <> c | None => True end ->
  RPeekAll (rstep29 r o) k' = RPeekAll r k' /\ RPeek (rstep29 r o) k' = RPeek r k'.
Proof. exact resp_other_names_untouched_g. Qed.
Print Assumptions C29_other_names_untouched_response.

Theorem C29_other_names_untouched_request : forall nonorm nodefct evs o k', ops_guard qspecials nonorm (qev_ops (evs ++ [QOp o])) ->
  let q := fold_left qevstep evs (qinit nonorm nodefct) in
  match op_key nonorm o with Some c => canon nonorm k' <> c | None => True end ->
  QPeekAll (qstep29 q o) k' = QPeekAll q k' /\ QPeek (qstep29 q o) k' = QPeek q k'.
Proof. exact req_other_names_untouched_g. Qed.
Print Assumptions C29_other_names_untouched_request.

(* the reference model itself has the property (so agreeing with it is meaningful) *)
Theorem C29_spec_other_names_untouched : forall t nonorm m o c',
  match o with SSet k _ | SAdd k _ | SDel k => c' <> canon nonorm k | SCopy => True end ->
  mm_vals (sstep t nonorm m o) c' = mm_vals m c'.
Proof. exact sstep_other. Qed.
Print Assumptions C29_spec_other_names_untouched.

(* the args.go helpers on which the above rests: an order-preserving delete and a first-value replace *)
Theorem C29_del_stable : forall h k c, c <> k -> peekAllArgs (delAllArgsStable h k) c = peekAllArgs h c.
Proof. exact peekAll_del_other. Qed.
Print Assumptions C29_del_stable.

(* ---- known finding (with its witness) ---- *)
(* nonorm-special-casefold: without the guard, setting one name changes another *)
Theorem C29_other_names_untouched_refuted :
  exists ops o k', Forall wf_opk (ops ++ [o]) /\
    match op_key true o with Some c => canon true k' <> c | None => True end /\
    RPeekAll (rstep29 (fold_left rstep29 ops (rinit true false)) o) k' <> RPeekAll (fold_left rstep29 ops (rinit true false)) k'.
Proof. exact untouched_refuted. Qed.
Print Assumptions C29_other_names_untouched_refuted.
(* the two repaired defects do not show in the model of the repaired code *)
Example C29_ex_repaired :
  RPeekAll (rinit false false) (s2b "Content-Length") = [] /\ RPeekAll (rinit false false) (s2b "Set-Cookie") = []
  /\ RPeekAll (rinit false false) (s2b "Trailer") = [] /\ QPeekAll (fst (QAll (qinit false false))) (s2b "Cookie") = []
  /\ (let ops := [HSet (s2b "Connection") (s2b "keep-alive"); HSet (s2b "Connection") (s2b "close")] in
      vals_of (RAll (fold_left rstep29 ops (rinit false false))) strConnection = [s2b "close"]
      /\ vals_of (snd (QAll (fold_left qstep29 ops (qinit false false)))) strConnection = [s2b "close"]).
Proof. exact repaired_examples. Qed.

(* C29_write_read_roundtrip: no theorem.  "Header() then Read() yields the same non-framing fields in the same
   order" is judged by the harness on the real serialiser and the real parser (Check/C29Check.v roundtrip_ok);
   the parser is modelled by another property (C09) and is not tied to this model. *)

(* ---- non-vacuity ---- *)
(* the witness of the repaired defect: Add A; Add X x1; Add B; Add X x2; Del A keeps [x1; x2] *)
Example C29_ex_stable_delete :
  let ops := [HAdd (s2b "A") (s2b "1"); HAdd (s2b "X") (s2b "x1"); HAdd (s2b "B") (s2b "2"); HAdd (s2b "X") (s2b "x2"); HDel (s2b "a")] in
  RPeekAll (fold_left rstep29 ops (rinit false false)) (s2b "x") = [s2b "x1"; s2b "x2"]
  /\ QPeekAll (fold_left qstep29 ops (qinit false false)) (s2b "x") = [s2b "x1"; s2b "x2"]
  /\ spec_peek_all HReq false (srun HReq false (map sop_of ops)) (s2b "X") = [s2b "x1"; s2b "x2"].
Proof. vm_compute. repeat split; reflexivity. Qed.
Example C29_ex_specials :
  let ops := [HSet (s2b "content-TYPE") (s2b "a/b"); HAdd (s2b "cookie") (s2b "a=1; b=2"); HAdd (s2b "Cookie") (s2b "c=3");
              HSet (s2b "Trailer") (s2b "foo, Host, bar"); HSet (s2b "content-length") (s2b "x"); HSet (s2b "Content-Length") (s2b "42")] in
  let q := fold_left qstep29 ops (qinit false false) in
  QPeek q (s2b "Content-Type") = s2b "a/b" /\ QPeek q (s2b "COOKIE") = s2b "a=1; b=2; c=3"
  /\ QPeek q (s2b "trailer") = s2b "Foo, Bar" /\ QPeek q (s2b "Content-Length") = s2b "42"
  /\ spec_peek HReq false (srun HReq false (map sop_of ops)) (s2b "Cookie") = s2b "a=1; b=2; c=3".
Proof. vm_compute. repeat split; reflexivity. Qed.
Example C29_ex_guard : ops_guard rspecials false [HSet (s2b "content-type") (s2b "x"); HDel (s2b "HOST")].
Proof.
  repeat constructor; try discriminate;
    (apply Forall_forall; intros x Hx; vm_compute in Hx; repeat (destruct Hx as [<-|Hx]; [vm_compute; reflexivity|]); contradiction).
Qed.
