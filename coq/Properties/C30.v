(* C30 — Integer codecs are exact.  Statements only; proofs live in Proof/IntsProof.v. *)
From FH Require Import Model.Base Gen.GenC30 Model.Ints Spec.IntsSpec Proof.IntsProof.
Open Scope Z_scope.

(* ParseUint accepts exactly the non-empty decimal strings whose value fits in an int
   (word size 32 or 64) and returns that value; everything else is an error. *)
Theorem C30_parse_exact : forall W s, (W = 32 \/ W = 64) -> wf_bytes s ->
  pres_opt (ParseUint W s) = spec_parse_uint (maxInt W) s.
Proof. exact parse_exact. Qed.
Print Assumptions C30_parse_exact.

(* never a wrapped or truncated result *)
Theorem C30_parse_ok_is_value : forall W s v, (W = 32 \/ W = 64) -> wf_bytes s ->
  ParseUint W s = POk v -> s <> [] /\ all_digits s = true /\ v = dec_value s /\ 0 <= v <= maxInt W.
Proof. exact parse_ok_is_value. Qed.
Print Assumptions C30_parse_ok_is_value.

(* the overflow guard, over every accumulator value and digit *)
Theorem C30_overflow_guard_complete : forall W v k, (W = 32 \/ W = 64) ->
  0 <= v <= maxInt W -> 0 <= k <= 9 ->
  ((v >? maxIntDiv10 W) || (wrap W (10 * v + k) <? 0)) = (10 * v + k >? maxInt W).
Proof. exact guard_complete. Qed.
Print Assumptions C30_overflow_guard_complete.

(* AppendUint then ParseUint is the identity on all non-negative ints *)
Theorem C30_append_parse_inverse : forall W n, (W = 32 \/ W = 64) -> 0 <= n <= maxInt W ->
  exists d, AppendUint [] n = Some d /\ ParseUint W d = POk n.
Proof. exact append_parse_inverse. Qed.
Print Assumptions C30_append_parse_inverse.

(* readHexInt is exactly "longest hex prefix, at most maxHexIntChars digits" *)
Theorem C30_readhex_exact : forall W maxc s,
  ((W = 64 /\ maxc = maxHexIntChars64) \/ (W = 32 /\ maxc = maxHexIntChars32)) -> wf_bytes s ->
  readHexInt W maxc s =
  (let (d, r) := span_hex s in
   match d with
   | [] => match s with [] => HErr HEof | _ => HErr HEmpty end
   | _ => if Z.of_nat (length d) >? maxc then HErr HTooLarge else HOk (hex_value d) r
   end).
Proof. exact readhex_exact. Qed.
Print Assumptions C30_readhex_exact.

(* chunk sizes written in hex read back to the same value *)
Theorem C30_hex_roundtrip : forall W maxc n,
  ((W = 64 /\ maxc = maxHexIntChars64) \/ (W = 32 /\ maxc = maxHexIntChars32)) -> 0 <= n < 16 ^ maxc ->
  exists d, writeHexInt maxc n = Some d /\
    forall rest, wf_bytes rest -> match rest with [] => True | c :: _ => is_hexdig c = false end ->
      readHexInt W maxc (d ++ rest) = HOk n rest.
Proof. exact hex_roundtrip. Qed.
Print Assumptions C30_hex_roundtrip.

(* hex sizes longer than the platform limit are rejected *)
Theorem C30_hex_too_long_rejected : forall W maxc d rest,
  ((W = 64 /\ maxc = maxHexIntChars64) \/ (W = 32 /\ maxc = maxHexIntChars32)) -> wf_bytes (d ++ rest) ->
  forallb is_hexdig d = true -> Z.of_nat (length d) > maxc ->
  match rest with [] => True | c :: _ => is_hexdig c = false end ->
  readHexInt W maxc (d ++ rest) = HErr HTooLarge.
Proof. exact hex_too_long_rejected. Qed.
Print Assumptions C30_hex_too_long_rejected.

(* non-vacuity: the wrap-around witness of the old bug is rejected; a 19-digit value is accepted *)
Example C30_ex_wrap_rejected : pres_opt (ParseUint 64 (s2b "18446744073709551617")) = None
  /\ ParseUint 64 (s2b "9223372036854775807") = POk 9223372036854775807
  /\ pres_opt (ParseUint 64 (s2b "9223372036854775808")) = None
  /\ pres_opt (ParseUint 32 (s2b "2147483648")) = None
  /\ ParseUint 32 (s2b "2147483647") = POk 2147483647.
Proof. vm_compute. repeat split; reflexivity. Qed.
Example C30_ex_hex : writeHexInt 15 1000000 = Some (s2b "f4240")
  /\ readHexInt 64 15 (s2b "f4240;ext") = HOk 1000000 (s2b ";ext")
  /\ readHexInt 64 15 (s2b "1000000000000000") = HErr HTooLarge.
Proof. vm_compute. repeat split; reflexivity. Qed.
