(* C31 — Date and IP codecs agree with the standard library. *)
From FH Require Import Model.Base Gen.GenC31 Spec.Calendar Spec.HttpDate Spec.IPv4Spec Model.DateIP
  Proof.CalendarFacts Proof.CalendarProof Proof.DateProof Proof.IPv4Proof Model.IPv6 Spec.IPv6Text Proof.IPv6Proof Model.Uri Proof.UriProof.
Open Scope Z_scope.

(* For every 29-byte input the fast RFC 1123 parser equals spec_time_parse, the strict-shape part of
   time.Parse(http.TimeFormat): whenever it accepts, it returns exactly the instant time.Parse returns; every other
   input is declined (and handed to time.Parse itself by ParseHTTPDate). *)
Theorem C31_fast_date_equals_time_parse : forall b, wf_bytes b -> length b = 29%nat ->
  parseRFC1123DateGMT b = spec_time_parse b.
Proof. exact fast_equals_time_parse. Qed.
Print Assumptions C31_fast_date_equals_time_parse.

(* inputs of any other length are declined by the fast path (ParseHTTPDate then falls through to time.Parse) *)
Theorem C31_fast_date_declines_other_lengths : forall b, length b <> 29%nat -> parseRFC1123DateGMT b = None.
Proof.
  intros b H. unfold parseRFC1123DateGMT. destruct (Nat.eqb_spec (length b) 29); [contradiction|reflexivity].
Qed.
Print Assumptions C31_fast_date_declines_other_lengths.

(* time.Date followed by Year/Month/Day detects exactly the calendar-invalid days *)
Theorem C31_invalid_days_rejected : forall y m d, 1 <= m <= 12 -> 1 <= d <= 31 ->
  triple_eqb (civil_from_days (days_from_civil y m d)) (y, m, d) = (d <=? days_in_month y m).
Proof. exact normalisation_detects_invalid. Qed.
Print Assumptions C31_invalid_days_rejected.

(* ParseHTTPDate(AppendHTTPDate(t)) = t truncated to the second, for every time in years 0000-9999 *)
Theorem C31_date_roundtrip : forall secs, 0 <= year_of secs <= 9999 ->
  parseRFC1123DateGMT (spec_format_http_date secs) = Some secs.
Proof. exact date_roundtrip. Qed.
Print Assumptions C31_date_roundtrip.

(* ParseIPv4 accepts exactly four dot-separated non-empty decimal fields <= 255 and returns that address *)
Theorem C31_ipv4_exact : forall s, wf_bytes s -> ParseIPv4 s = spec_parse_ipv4 s.
Proof. exact ipv4_exact. Qed.
Print Assumptions C31_ipv4_exact.

Theorem C31_ipv4_roundtrip : forall a b c d, 0 <= a <= 255 -> 0 <= b <= 255 -> 0 <= c <= 255 -> 0 <= d <= 255 ->
  ParseIPv4 (AppendIPv4 [a; b; c; d]) = Some [a; b; c; d].
Proof.
  intros a b c d Ha Hb Hc Hd. destruct (ipv4_roundtrip a b c d Ha Hb Hc Hd) as [H W].
  rewrite (ipv4_exact _ W). exact H.
Qed.
Print Assumptions C31_ipv4_roundtrip.

(* ---- bracketed URI hosts (ipv6.go validateIPv6Literal; spec_ipv6 = netip.ParseAddr(..).Is6(), Spec/IPv6Text.v) ---- *)

(* a bracketed host is accepted only if its address part is an IPv6 address per net/netip *)
Theorem C31_ipv6_only_valid : forall a, wf_bytes a ->
  validateIPv6Literal (LBR :: a ++ [RBR]) = V6Nil -> spec_ipv6 a = true.
Proof. intros a Hwf H. apply ipv6_only_valid; [exact Hwf|]. unfold LBR, RBR in H. now rewrite H. Qed.
Print Assumptions C31_ipv6_only_valid.

(* the same for any host starting with '[' (ports, garbage, several brackets): whatever is accepted has the shape
   "[" a "]" optional-port with a an IPv6 address, the ']' being the only one *)
Theorem C31_ipv6_only_valid_any_host : forall t, wf_bytes t -> validateIPv6Literal (LBR :: t) = V6Nil ->
  exists a port, t = a ++ RBR :: port /\ ~ In RBR a /\ ~ In RBR port /\ is_port port = true /\ spec_ipv6 a = true.
Proof. intros t Hwf H. apply ipv6_only_valid_gen; [exact Hwf|]. unfold LBR in H. now rewrite H. Qed.
Print Assumptions C31_ipv6_only_valid_any_host.

(* every zone-less IPv6 address is accepted, with or without a port *)
Theorem C31_ipv6_all_zoneless_accepted : forall a, wf_bytes a -> spec_ipv6 a = true -> zoneless a = true ->
  validateIPv6Literal (LBR :: a ++ [RBR]) = V6Nil.
Proof. exact ipv6_all_zoneless_accepted. Qed.
Print Assumptions C31_ipv6_all_zoneless_accepted.

Theorem C31_ipv6_all_zoneless_accepted_with_port : forall a port, wf_bytes a -> spec_ipv6 a = true -> zoneless a = true ->
  is_port port = true -> validateIPv6Literal (LBR :: a ++ RBR :: port) = V6Nil.
Proof. exact ipv6_all_zoneless_accepted_gen. Qed.
Print Assumptions C31_ipv6_all_zoneless_accepted_with_port.

(* stronger than the property asks: for address parts without ']' acceptance is EXACTLY "optional port and IPv6 text", zones included *)
Theorem C31_ipv6_exact : forall a port, wf_bytes a -> ~ In RBR a ->
  v6_ok (validateIPv6Literal (LBR :: a ++ RBR :: port)) = is_port port && spec_ipv6 a.
Proof. exact v6_bracket. Qed.
Print Assumptions C31_ipv6_exact.

(* the same at the public API: whatever URI.Parse accepts (any host argument, any URI) and reports through Host() with a leading '['
   is "[" IPv6-address "]" optional-port — zone, port and lower-casing included *)
Theorem C31_uri_bracketed_host_only_valid : forall hostArg uri u t, wf_bytes hostArg -> wf_bytes uri ->
  Uri.parse hostArg uri = UOk u -> Uri.Host u = LBR :: t ->
  exists a port, t = a ++ RBR :: port /\ ~ In RBR a /\ ~ In RBR port /\ is_port port = true /\ spec_ipv6 a = true.
Proof. exact uri_bracket_host_valid. Qed.
Print Assumptions C31_uri_bracketed_host_only_valid.

(* the model's loop fuel is never exhausted *)
Theorem C31_ipv6_model_total : forall s, wf_bytes s -> parseIPv6Hextets s false <> HexOutOfFuel.
Proof. exact hextets_total. Qed.
Print Assumptions C31_ipv6_model_total.

Example C31_ex_ipv6 :
  map (fun a => (spec_ipv6 (s2b a), v6_ok (validateIPv6Literal (LBR :: s2b a ++ [RBR]))))
      ["::1"; "::"; "1:2:3:4:5:6:7:8"; "1:2:3:4:5:6:7::"; "::ffff:1.2.3.4"; "fe80::1%en0"; "1:2:3:4:5:6:7:8::"; "::ffff:01.2.3.4"; "1::2::3"; ":::"; "12345::"; "fe80::1%"; "1.2.3.4"]%string
  = [(true, true); (true, true); (true, true); (true, true); (true, true); (true, true); (false, false); (false, false); (false, false); (false, false); (false, false); (false, false); (false, false)]
  /\ v6_ok (validateIPv6Literal (s2b "[::1]]")) = false /\ v6_ok (validateIPv6Literal (s2b "[::1]x")) = false
  /\ v6_ok (validateIPv6Literal (s2b "[::1]:80")) = true.
Proof. vm_compute. repeat split; reflexivity. Qed.

Example C31_ex_date : parseRFC1123DateGMT (s2b "Sun, 06 Nov 1994 08:49:37 GMT") = Some 784111777
  /\ parseRFC1123DateGMT (s2b "sUN, 06 nOV 1994 08:49:37 GMT") = Some 784111777
  /\ parseRFC1123DateGMT (s2b "Tue, 31 Feb 2023 00:00:00 GMT") = None
  /\ parseRFC1123DateGMT (s2b "Thu, 29 Feb 2024 23:59:59 GMT") = Some 1709251199
  /\ year_of 784111777 = 1994
  /\ ParseIPv4 (s2b "0255.1.2.3") = Some [255; 1; 2; 3] /\ ParseIPv4 (s2b "1.2.3.256") = None /\ ParseIPv4 (s2b "1..2.3") = None.
Proof. vm_compute. repeat split; reflexivity. Qed.
