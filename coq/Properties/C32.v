(* C32 — Byte-class tables and canonicalisation match their definitions. *)
From FH Require Import Model.Base Gen.GenC32 Model.ByteClassModel Spec.ByteClass Proof.ByteClassProof.
Open Scope N_scope.

(* for every byte value each lookup table of bytesconv_table.go (as the source says it now)
   equals the predicate that defines it *)
Theorem C32_tables : forall c, c < 256 ->
  tbl hex2intTable c = hex_spec c /\
  tbl toLowerTable c = lower_spec c /\
  tbl toUpperTable c = upper_spec c /\
  tbl quotedArgShouldEscapeTable c = arg_escape_spec c /\
  tbl quotedPathShouldEscapeTable c = path_escape_spec c /\
  tbl validHeaderValueByteTable c = field_value_spec c /\
  tbl validMethodValueByteTable c = tchar_spec c /\
  validHeaderFieldByte c = tchar c.
Proof.
  intros c Hc. destruct tables_ok as (H1&H2&H3&H4&H5&H6&H7&_&_).
  repeat split; try (apply table_ok_forall; assumption). now apply field_byte_is_tchar.
Qed.
Print Assumptions C32_tables.

Theorem C32_canonical_key : forall s, wf_bytes s -> forallb tchar s = true ->
  normalizeHeaderKey s false = canonical_mime s.
Proof. exact canonical_key_token. Qed.
Print Assumptions C32_canonical_key.

Theorem C32_canonical_key_any : forall s, wf_bytes s -> removeNewLines s = s ->
  normalizeHeaderKey s false = canonical_mime s.
Proof. exact canonical_key_all. Qed.
Print Assumptions C32_canonical_key_any.

Theorem C32_html_escape : forall dst s, AppendHTMLEscape dst s = dst ++ html_escape s.
Proof. exact html_escape_exact. Qed.
Print Assumptions C32_html_escape.

Example C32_ex : normalizeHeaderKey (s2b "coNTENT-tYPE") false = s2b "Content-Type"
  /\ normalizeHeaderKey (s2b "x y") false = s2b "x y"
  /\ AppendHTMLEscape [] (s2b "<a href='x'>&") = s2b "&lt;a href=&#39;x&#39;&gt;&amp;".
Proof. vm_compute. repeat split; reflexivity. Qed.
