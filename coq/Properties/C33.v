(* C33 — placeholder while the pipeline is brought up *)
From FH Require Import Model.Base Model.Pipe Model.Listener.
Example C33_placeholder : chan_cap = 4%N. Proof. reflexivity. Qed.
