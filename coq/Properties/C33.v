(* C33 — In-memory pipes and listener behave like a reliable byte stream.
   Statements only; proofs live in Proof/PipeProof.v and Proof/ListenerProof.v.

   `reach tr s` : s is reachable in the transition system of ONE DIRECTION of a PipeConns pair by the trace tr —
   any interleaving of the atomic steps of one writer goroutine, one reader goroutine, Close from anybody,
   deadline changes and timer firings (Model/Pipe.v).  `preach` is the pair (both directions, shared Close).
   `hist s` is what the callers have observed so far (completed Write/Read calls with their results).
   `lreach tr s` : the same for InmemoryListener with any number of concurrent Dial / Accept / Close calls. *)
From FH Require Import Model.Base Model.Pipe Model.Listener Proof.PipeProof Proof.PipeDrainProof Proof.ListenerProof.
Open Scope N_scope.

(* ---- the stream: nothing lost, nothing duplicated, order kept, for every interleaving and all sizes ----
   bytes returned by Reads so far ++ bytes held between the ends (copied into a Read in progress, the reader's
   current buffer, the queued buffers) = bytes accepted by successful Writes so far.  In particular the bytes
   read are always a prefix of the bytes written. *)
Theorem C33_stream_prefix : forall tr s, reach tr s ->
  read_h (hist s) ++ in_flight s = written_h (hist s) /\
  exists rest, written_h (hist s) = read_h (hist s) ++ rest.
Proof. intros tr s R. split; [exact (stream_exact tr s R) | exact (stream_prefix tr s R)]. Qed.
Print Assumptions C33_stream_prefix.

(* each end of the pair: both directions at once *)
Theorem C33_stream_prefix_both_ends : forall tr s, preach tr s ->
  read_h (hist (ab s)) ++ in_flight (ab s) = written_h (hist (ab s)) /\
  read_h (hist (ba s)) ++ in_flight (ba s) = written_h (hist (ba s)).
Proof.
  intros tr s R. destruct (preach_proj tr s R) as [[t1 R1] [t2 R2]].
  split; [exact (stream_exact t1 _ R1) | exact (stream_exact t2 _ R2)].
Qed.
Print Assumptions C33_stream_prefix_both_ends.

(* a Read that returns an error returns no bytes, and no Read returns more than its buffer holds *)
Theorem C33_read_results_wellformed : forall tr s n d r, reach tr s -> In (EvR n d r) (hist s) ->
  (r <> ROk -> d = []) /\ lenN d <= n.
Proof. exact read_events_ok. Qed.
Print Assumptions C33_read_results_wellformed.

(* ---- Close: bytes already written remain readable, then EOF ----
   (1) for every interleaving: whenever a Read returned io.EOF, Close had been called, the Read returned no
       bytes, and every byte successfully written before that moment had already been read;
   (2) call level, reader's side: while anything is still buffered a Read with a non-empty buffer returns data
       with a nil error — never EOF, never a timeout, it does not park (whether or not the pipe is closed);
   (3) call level: once the pipe is closed and nothing is buffered, Read returns io.EOF at once;
   (4) the drain: from ANY reachable state in which the pipe is closed, both goroutines are between calls and no read
       deadline has expired, consecutive Reads (any non-empty buffer size n) each have exactly one outcome, return data
       with a nil error, and after at most `mu s` = len(cur) + len(chan) + total queued bytes of them the reader has
       received every byte that was ever successfully written, the buffers are empty, and the next Read returns io.EOF.
       (The measure mu strictly decreases on every such Read: PipeDrainProof.read_once.) *)
Theorem C33_close_drains_then_eof :
  (forall tr s later n d earlier, reach tr s -> hist s = later ++ EvR n d REof :: earlier ->
     stopped s = true /\ d = [] /\ read_h earlier = written_h earlier)
  /\
  (forall s soon n, rp s = RIdle -> wp s = WIdle -> n <> 0 -> (cur s <> [] \/ chan s <> []) ->
     forall s', In s' (exec_read s soon n) ->
       rp s' = RIdle /\ wp s' = WIdle /\ exists d, hist s' = EvR n d ROk :: hist s)
  /\
  (forall s n, rp s = RIdle -> stopped s = true -> n <> 0 -> cur s = [] -> chan s = [] -> rdl s <> DFired ->
     exists s', exec_read s false n = [s'] /\ hist s' = EvR n [] REof :: hist s)
  /\
  (forall tr s n, reach tr s -> n <> 0 -> closed_idle s ->
     exists ds s', reads_chain n s ds s' /\ (length ds <= mu s)%nat /\
                   read_h (hist s') = written_h (hist s') /\ cur s' = [] /\ chan s' = [] /\
                   exists s'', exec_read s' false n = [s''] /\ hist s'' = EvR n [] REof :: hist s').
Proof.
  split; [exact eof_means_drained|]. split; [exact read_gets_data|].
  split; [|exact drain_reads_everything].
  intros s n H1 H2 H3 H4 H5 H6. eexists. split; [apply eof_when_drained; assumption|reflexivity].
Qed.
Print Assumptions C33_close_drains_then_eof.

(* each Read of the drain returns exactly the front of what is pending and makes the measure smaller *)
Theorem C33_drain_step : forall s soon n,
  rp s = RIdle -> wp s = WIdle -> n <> 0 -> (cur s <> [] \/ chan s <> []) ->
  exists s1 d, exec_read s soon n = [s1] /\ rp s1 = RIdle /\ wp s1 = WIdle /\ hist s1 = EvR n d ROk :: hist s /\
               d ++ pend s1 = pend s /\ (mu s1 < mu s)%nat /\ stopped s1 = stopped s /\ rdl s1 = rdl s.
Proof. exact read_once. Qed.
Print Assumptions C33_drain_step.

(* what can happen with a Write racing with Close: it passed its closed-check, Close comes, the reader sees EOF,
   then the Write succeeds — the reader can then still read those bytes (the stream theorem covers them) *)
Example C33_ex_write_in_flight_at_close :
  match run dinit [LWStart [7]; LWChkOpen; LClose; LRStart 4; LRTakeDefault; LRStopWake; LRStopEof; LWSendFast] with
  | Some s => hist s = [EvW [7] false WOk; EvR 4 [] REof] /\ chan s = [[7]]
  | None => False end.
Proof. vm_compute. split; reflexivity. Qed.

(* ---- writes after Close fail ----
   every Write call that STARTED when stopCh was already closed returned ErrConnectionClosed (0 bytes: it does
   not count in written_h), in every interleaving; call level: exactly one outcome, nothing is queued. *)
Theorem C33_write_after_close_fails :
  (forall tr s p r, reach tr s -> In (EvW p true r) (hist s) -> r = WClosed)
  /\
  (forall s soon p, wp s = WIdle -> stopped s = true ->
     exists s', exec_write s soon p = [s'] /\ hist s' = EvW p true WClosed :: hist s /\ chan s' = chan s).
Proof.
  split; [exact write_after_close|].
  intros s soon p H1 H2. eexists. split; [apply write_fails_when_closed; assumption|split; reflexivity].
Qed.
Print Assumptions C33_write_after_close_fails.

(* the channel never holds more than its capacity (bounded buffering) *)
Theorem C33_channel_bounded : forall tr s, reach tr s -> lenN (chan s) <= chan_cap.
Proof. exact chan_bounded. Qed.
Print Assumptions C33_channel_bounded.

(* ---- listener: every successful Dial is paired with exactly one Accept returning its peer ----
   In every reachable state (any number of concurrent Dial / Accept / Close calls): if Dial i returned success
   then exactly one Accept returned pipe i; no pipe is returned by two Accepts; a Dial call has one result. *)
Theorem C33_dial_accept_paired :
  (forall tr s i sc, lreach tr s -> In (EvDial i sc true) (lhist s) -> acount i (lhist s) = 1%nat)
  /\ (forall tr s i, lreach tr s -> (acount i (lhist s) <= 1)%nat)
  /\ (forall tr s i sc ok, lreach tr s -> In (EvDial i sc ok) (lhist s) -> dp s i = DDone ok).
Proof. split; [exact dial_paired|]. split; [exact accept_at_most_once|exact dial_event_state]. Qed.
Print Assumptions C33_dial_accept_paired.

(* the converse direction (every accepted pipe belongs to a successful Dial) holds while the listener is open:
   the Dial is parked waiting for the acceptance or has returned success ... *)
Theorem C33_accept_paired_while_open : forall tr s i,
  lreach tr s -> done s = false -> acount i (lhist s) = 1%nat ->
  dp s i = DWait1 \/ dp s i = DWait2 \/ dp s i = DDone true.
Proof. exact accept_paired_while_open. Qed.
Print Assumptions C33_accept_paired_while_open.

(* ... and is FALSE in general (so "bijection" cannot be claimed): when Close races with an Accept that is between its
   last done-check and close(c.accepted), Accept returns a connection whose Dial has failed and closed the pipe.
   The property as stated (successful Dial => exactly one Accept) is not affected. *)
Theorem C33_full_bijection_refuted :
  exists tr, match lrun linit tr with
             | Some s => acount 0 (lhist s) = 1%nat /\ In (EvDial 0 false false) (lhist s) /\ pclosed s 0 = true
             | None => False end.
Proof. exact accept_orphan_possible. Qed.
Print Assumptions C33_full_bijection_refuted.

(* ---- after Close no Dial or Accept succeeds ----
   s1: any reachable state in which ln.done is closed; a Dial / Accept call that has not started in s1 never
   returns success, whatever happens afterwards. *)
Theorem C33_no_success_after_close : forall tr1 s1 tr2 s2,
  lreach tr1 s1 -> done s1 = true -> lrun s1 tr2 = Some s2 ->
  (forall i sc, dp s1 i = DFresh -> ~ In (EvDial i sc true) (lhist s2)) /\
  (forall j sc c, ap s1 j = ANone -> ~ In (EvAccept j sc (Some c)) (lhist s2)).
Proof.
  intros tr1 s1 tr2 s2 R Hd Hr. split.
  - intros i sc Hf. exact (dial_after_close tr1 s1 tr2 s2 i sc R Hd Hf Hr).
  - intros j sc c Hf. exact (accept_after_close tr1 s1 tr2 s2 j sc c R Hd Hf Hr).
Qed.
Print Assumptions C33_no_success_after_close.

(* non-vacuity: a transfer with a partial read, Close with data pending, EOF after the data *)
Example C33_ex_transfer :
  match run dinit [LWStart [1;2;3]; LWChkOpen; LWSendFast; LRStart 2; LRTakeFast; LClose;
                   LWStart [9]; LWChkClosed; LRStart 5; LRTakeDefault;
                   LRStart 5; LRTakeDefault; LRStopWake; LRStopEof] with
  | Some s => hist s = [EvR 5 [] REof; EvR 5 [3] ROk; EvW [9] true WClosed; EvR 2 [1;2] ROk; EvW [1;2;3] false WOk]
  | None => False end.
Proof. vm_compute. reflexivity. Qed.
(* non-vacuity: Dial 0 and Accept 0 pair up, then Close, then Dial 1 fails *)
Example C33_ex_listener :
  match lrun linit [LDStart 0; LDLockOpen 0; LDChk2Open 0; LDSendOk 0; LDWait1Default 0;
                    LAStart 0; LAChkOpen 0; LASelTake 0; LAGotOpen 0; LAMark 0; LDWait2Acc 0;
                    LCStart 0; LCLockFirst 0; LCDrainEnd 0; LDStart 1; LDLockClosed 1] with
  | Some s => lhist s = [EvDial 1 true false; EvClose 0 true; EvDial 0 false true; EvAccept 0 false (Some 0)]
  | None => False end.
Proof. vm_compute. reflexivity. Qed.

(* the interleaving "poll finds rCh empty -> the peer completes Write and Close -> blocking select": the reader's two selects
   are separate steps of the transition system (LRTakeDefault, then LRTakeSlow | LRStopWake with BOTH enabled), and on the
   stopCh pick the re-poll (LRStopTake) delivers the byte; LRStopEof is not enabled while the channel holds something.
   C33_close_drains_then_eof (1) quantifies over all these traces: without the re-poll its invariant would fail here. *)
Example C33_ex_close_between_the_two_selects :
  (match run dinit [LRStart 8; LRTakeDefault; LWStart [120]; LWChkOpen; LWSendFast; LClose; LRStopWake; LRStopTake; LRTakeDefault] with
   | Some s => hist s = [EvR 8 [120] ROk; EvW [120] false WOk]
   | None => False end) /\
  (match run dinit [LRStart 8; LRTakeDefault; LWStart [120]; LWChkOpen; LWSendFast; LClose; LRTakeSlow; LRTakeDefault] with
   | Some s => hist s = [EvR 8 [120] ROk; EvW [120] false WOk]
   | None => False end) /\
  run dinit [LRStart 8; LRTakeDefault; LWStart [120]; LWChkOpen; LWSendFast; LClose; LRStopWake; LRStopEof] = None.
Proof. vm_compute. repeat split; reflexivity. Qed.
