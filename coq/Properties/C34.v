(* C34 — Body streams deliver exact bytes and are closed exactly once.
   Statements only; proofs live in Proof/BodyProof.v, Proof/BodyWriteProof.v, Proof/StreamLifeProof.v. *)
From FH Require Import Model.Base Gen.GenC30 Gen.GenC34 Model.Ints Model.Body Model.BodyWrite Model.StreamLife
     Proof.BodyProof Proof.BodyWriteProof Proof.StreamLifeProof.
Open Scope Z_scope.

(* The chunked reader inverts the chunked writer for EVERY split of a body into chunks:
   any number of chunks, each non-empty, of any size below the hex-size limit (16^15), with
   arbitrary bytes (e.g. the next message) behind the last-chunk line; built on the
   hexadecimal round trip of C30.  L is the reader's limit (<= 0: none); the total must be
   allocatable (runtime.maxAlloc = 2^48).  peak = largest buffer length requested. *)
Theorem C34_chunked_codec : forall (chunks : list bytes) (L : Z) (rest : bytes),
  Forall (fun c => c <> [] /\ wf_bytes c /\ blen c < 16 ^ maxHexIntChars64) chunks -> wf_bytes rest ->
  (L <= 0 \/ blen (concat chunks) <= L) -> blen (concat chunks) + 2 <= maxAlloc ->
  exists peak, readBodyChunked L [] (enc_chunks chunks ++ rest) = BOk (concat chunks) rest peak
               /\ peak <= blen (concat chunks) + 2.
Proof. exact chunked_codec. Qed.
Print Assumptions C34_chunked_codec.

(* the same with chunk extensions on every chunk and on the last-chunk line *)
Theorem C34_chunked_codec_ext : forall cs fuel max dst elast rest pk,
  Forall chunk_good cs -> ext_good elast -> wf_bytes rest ->
  (length (enc_chunks_ext cs elast ++ rest) < fuel)%nat ->
  (max <= 0 \/ blen dst + total cs <= max) -> blen dst + total cs + 2 <= maxAlloc ->
  exists pk', rbc_loop fuel max dst (enc_chunks_ext cs elast ++ rest) pk = BOk (dst ++ concat (map fst cs)) rest pk'
              /\ pk <= pk' <= Z.max pk (blen dst + total cs + 2).
Proof. exact rbc_enc. Qed.
Print Assumptions C34_chunked_codec_ext.

(* the complete chunked message (empty trailer section) through Request and Response body reading *)
Theorem C34_chunked_message_codec : forall parseTr (chunks : list bytes) (L : Z) (rest : bytes),
  Forall (fun c => c <> [] /\ wf_bytes c /\ blen c < 16 ^ maxHexIntChars64) chunks -> wf_bytes rest ->
  (L <= 0 \/ blen (concat chunks) <= L) -> blen (concat chunks) + 2 <= maxAlloc ->
  exists peak, reqReadBody parseTr (-1) L (enc_chunked_message chunks ++ rest) = BOk (concat chunks) rest peak /\
               respReadBody parseTr (-1) L 0 [] (enc_chunked_message chunks ++ rest) = BOk (concat chunks) rest peak.
Proof. exact chunked_message_codec. Qed.
Print Assumptions C34_chunked_message_codec.

(* Fixed size: the declared size equals what the stream yields, the stream answers Read calls
   with any positive amounts (script of OData / ODataEOF, any bufio.Writer size, header flush
   or not), the target is healthy => Write succeeds, closes the stream, and the wire is
   header ++ exactly the stream's bytes.
   (Streams returning (0, nil) are covered for the chunked path below; on this path bufio.Writer.ReadFrom
   gives up with io.ErrNoProgress after 100 of them in a row — modelled, exercised by the harness.) *)
Theorem C34_wire_equals_stream_fixed : forall k size hdr trailer flush s, 0 < size ->
  Forall data_op (ss_script s) -> (k = KBytesReader -> ss_script s = []) ->
  let out := respWriteBodyStream k hdr trailer (blen (ss_data s)) true flush (bw_new size (-1)) s in
  ws_res out = WOk /\ ws_closed out = true /\ bw_wire (ws_w out) = hdr ++ ss_data s.
Proof. exact wire_fixed. Qed.
Print Assumptions C34_wire_equals_stream_fixed.

(* Unknown size: for ANY read pattern (amounts, (0,nil) reads, EOF with or without data) the wire is
   header ++ a chunked encoding of some split of the stream's bytes into non-empty chunks ++ trailer *)
Theorem C34_wire_equals_stream_chunked : forall k size hdr trailer cl flush s, 0 < size -> cl < 0 ->
  Forall quiet_op (ss_script s) -> blen (ss_data s) < 16 ^ maxHexIntChars64 -> (k = KBytesReader -> ss_script s = []) ->
  let out := respWriteBodyStream k hdr trailer cl true flush (bw_new size (-1)) s in
  ws_res out = WOk /\ ws_closed out = true /\
  exists cs, concat cs = ss_data s /\ Forall (fun c => c <> []) cs /\ bw_wire (ws_w out) = hdr ++ enc_chunks cs ++ trailer.
Proof. exact wire_chunked. Qed.
Print Assumptions C34_wire_equals_stream_chunked.

(* ... and the peer's reader turns that wire back into the stream's bytes, leaving `rest` unread *)
Theorem C34_stream_roundtrip : forall k size hdr cl flush s rest parseTr, 0 < size -> cl < 0 ->
  Forall quiet_op (ss_script s) -> (k = KBytesReader -> ss_script s = []) ->
  wf_bytes (ss_data s) -> wf_bytes rest -> blen (ss_data s) + 2 <= maxAlloc ->
  let out := respWriteBodyStream k hdr strCRLF cl true flush (bw_new size (-1)) s in
  exists wire_body pk, bw_wire (ws_w out) = hdr ++ wire_body /\
    respReadBody parseTr (-1) 0 0 [] (wire_body ++ rest) = BOk (ss_data s) rest pk /\
    reqReadBody parseTr (-1) 0 (wire_body ++ rest) = BOk (ss_data s) rest pk.
Proof. exact chunked_stream_roundtrip. Qed.
Print Assumptions C34_stream_roundtrip.

(* Streams that copy themselves — bytes.Reader, bytes.Buffer, a BodyWriterTo with SupportsBodyWriteTo() = true —
   are given as the list `segs` of the Write calls their WriteTo makes, EMPTY WRITES INCLUDED anywhere (first,
   middle, last).  Through chunkedBodyWriter the wire is header ++ the chunked encoding of the non-empty segments ++
   trailer: an empty write never puts the "0 CRLF" terminator in the middle of the body; with a declared size the
   wire is header ++ the segments. *)
Theorem C34_wire_equals_stream_chunked_writeto : forall size hdr trailer cl flush segs, 0 < size -> cl < 0 ->
  Forall (fun p => blen p < 16 ^ maxHexIntChars64) segs ->
  exists w', respWriteBodyStreamWT hdr trailer cl true flush (bw_new size (-1)) segs = (w', WOk) /\
             bw_wire w' = hdr ++ enc_chunks (nonempty_segs segs) ++ trailer.
Proof. exact wire_chunked_wt. Qed.
Print Assumptions C34_wire_equals_stream_chunked_writeto.
Theorem C34_wire_equals_stream_fixed_writeto : forall size hdr trailer flush segs, 0 < size ->
  exists w', respWriteBodyStreamWT hdr trailer (blen (concat segs)) true flush (bw_new size (-1)) segs = (w', WOk) /\
             bw_wire w' = hdr ++ concat segs.
Proof. exact wire_fixed_wt. Qed.
Print Assumptions C34_wire_equals_stream_fixed_writeto.
(* ... and the peer decodes exactly the concatenation of all segments, leaving the next message untouched *)
Theorem C34_stream_roundtrip_writeto : forall size hdr cl flush segs rest parseTr, 0 < size -> cl < 0 ->
  wf_bytes (concat segs) -> wf_bytes rest -> blen (concat segs) + 2 <= maxAlloc ->
  exists w' wire_body pk, respWriteBodyStreamWT hdr strCRLF cl true flush (bw_new size (-1)) segs = (w', WOk) /\
    bw_wire w' = hdr ++ wire_body /\
    respReadBody parseTr (-1) 0 0 [] (wire_body ++ rest) = BOk (concat segs) rest pk /\
    reqReadBody parseTr (-1) 0 (wire_body ++ rest) = BOk (concat segs) rest pk.
Proof. exact chunked_wt_roundtrip. Qed.
Print Assumptions C34_stream_roundtrip_writeto.

(* Exactly once.  For a Request or a Response and EVERY sequence of operations (SetBodyStream,
   SetBody/AppendBody, ResetBody, Reset/Release, CloseBodyStream, Write and Body()/SwapBody/
   BodyWriteTo with success, error or a panicking Read, compression wrapping, the compressor
   goroutine finishing at any point, serveConn's keep-alive handling of the request stream):
   no stream is closed twice, a stream that is not an io.Closer never, and every io.Closer stream
   that is no longer attached has been closed exactly once. *)
Theorem C34_close_exactly_once : forall k ops st, lrun k ls_init ops = Some st ->
  forall i r, nth_error (ls_streams st) i = Some r ->
    (si_count r <= 1)%N /\
    (si_closer r = false -> si_count r = 0%N) /\
    (si_closer r = true -> ls_att st <> Some i -> si_count r = 1%N).
Proof. exact close_exactly_once. Qed.
Print Assumptions C34_close_exactly_once.

(* written (without panic), reset, released, body replaced: nothing stays attached, so by the
   theorem above every io.Closer stream has been closed exactly once at that point; after a panic
   the stream stays attached and the next such operation closes it *)
Theorem C34_settled_detached : forall k st o st', settles o -> lstep k st o = Some st' -> ls_att st' = None.
Proof. exact settled_detached. Qed.
Print Assumptions C34_settled_detached.

(* the wrapped stream has two closing sites (compressedBodyStream.closeOriginalForDiscard, called when
   the response drops the wrapper, and closeOriginal, run by the compressor goroutine): in either
   order they close the user's stream once — because of the originalClosed flag: a discard site
   that does not set it makes the goroutine close a second time *)
Theorem C34_two_sites_close_once : forall r, si_closer r = true -> si_origClosed r = false ->
  si_count (closeOriginal (closeOriginalForDiscard r)) = (si_count r + 1)%N /\
  si_count (closeOriginalForDiscard (closeOriginal r)) = (si_count r + 1)%N /\
  si_origClosed (closeOriginalForDiscard r) = true /\ si_origClosed (closeOriginal r) = true.
Proof. exact two_sites_close_once. Qed.
Print Assumptions C34_two_sites_close_once.
Theorem C34_flag_is_needed : forall r, si_closer r = true -> si_origClosed r = false ->
  si_count (closeOriginal (closeOriginalForDiscard_noflag r)) = (si_count r + 2)%N.
Proof. exact flag_is_needed. Qed.
Print Assumptions C34_flag_is_needed.

(* the model loops never run out of fuel *)
Theorem C34_chunked_reader_total : forall max dst b, readBodyChunked max dst b <> BOutOfFuel.
Proof. exact readBodyChunked_no_fuel. Qed.
Print Assumptions C34_chunked_reader_total.

(* non-vacuity *)
Example C34_ex_codec :
  enc_chunked_message [s2b "hello"; s2b "w"] = s2b "5" ++ [13;10]%N ++ s2b "hello" ++ [13;10]%N ++ s2b "1" ++ [13;10]%N ++ s2b "w" ++ [13;10;48;13;10;13;10]%N
  /\ readBodyChunked 6 [] (enc_chunks [s2b "hello"; s2b "w"] ++ s2b "NEXT") = BOk (s2b "hellow") (s2b "NEXT") 8
  /\ readBodyChunked 5 [] (enc_chunks [s2b "hello"; s2b "w"] ++ s2b "NEXT") = BErr EBodyTooLarge (s2b "hello") 7.
Proof. vm_compute. repeat split; reflexivity. Qed.
Example C34_ex_write :
  let out := respWriteBodyStream KReader (s2b "H") [13;10]%N (-1) true false (bw_new 4 (-1)) (mkSS (s2b "abcdef") [OData 4; OZero; ODataEOF 9]) in
  ws_res out = WOk /\ ws_closed out = true /\ bw_wire (ws_w out) = s2b "H" ++ enc_chunks [s2b "abcd"; s2b "ef"] ++ [13;10]%N.
Proof. vm_compute. repeat split; reflexivity. Qed.
Example C34_ex_writeto_empty_segments :
  fst (respWriteBodyStreamWT (s2b "H") [13;10]%N (-1) true false (bw_new 64 (-1)) [[]; s2b "hello "; []; s2b "world"; []])
  = fst (respWriteBodyStreamWT (s2b "H") [13;10]%N (-1) true false (bw_new 64 (-1)) [s2b "hello "; s2b "world"])
  /\ bw_wire (fst (respWriteBodyStreamWT (s2b "H") [13;10]%N (-1) true false (bw_new 64 (-1)) [s2b "hello "; []; s2b "world"]))
     = s2b "H" ++ enc_chunks [s2b "hello "; s2b "world"] ++ [13;10]%N.
Proof. vm_compute. repeat split; reflexivity. Qed.
Example C34_ex_panic_then_reset :
  match lrun MResp ls_init [LSetBodyStream true; LWrite FPanic] with
  | Some st => ls_attached st = true /\ ls_counts st = [0%N]
  | None => False end
  /\ match lrun MResp ls_init [LSetBodyStream true; LWrite FPanic; LReset] with
     | Some st => ls_attached st = false /\ ls_counts st = [1%N]
     | None => False end
  /\ match lrun MReq ls_init [LSetBodyStream true; LServerDrop; LReset] with
     | Some st => ls_attached st = false /\ ls_counts st = [1%N]
     | None => False end
  /\ match lrun MResp ls_init [LSetBodyStream true; LWrap; LWrite FErr; LGoDone 0] with
     | Some st => ls_counts st = [1%N]
     | None => False end
  /\ match lrun MResp ls_init [LSetBodyStream true; LWrap; LGoDone 0; LWrite FErr] with
     | Some st => ls_counts st = [1%N]
     | None => False end.
Proof. vm_compute. repeat split; reflexivity. Qed.
