(* C34 — placeholder while the pipeline is brought up; theorems follow. *)
From FH Require Import Model.Base Model.Body Model.BodyWrite.
Open Scope Z_scope.
Example C34_ex_enc : enc_chunked_message [s2b "hello"] = s2b "5" ++ [13;10]%N ++ s2b "hello" ++ [13;10;48;13;10;13;10]%N.
Proof. vm_compute. reflexivity. Qed.
