(* C35 — placeholder while the pipeline is brought up *)
From FH Require Import Model.Base Gen.GenC35 Model.Multipart Spec.MultipartSpec.
Example C35_ex_empty : write_form (s2b "B") (Build_mform [] []) = WOk (s2b "" ++ crlf ++ s2b "--B--" ++ crlf).
Proof. reflexivity. Qed.
