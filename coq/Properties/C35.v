(* C35 — Multipart forms round-trip; upload temp files do not outlive the request.
   Statements only; proofs live in Proof/MultipartProof.v. *)
From FH Require Import Model.Base Gen.GenC35 Model.Multipart Spec.MultipartSpec Proof.MultipartProof.

(* (a) For every boundary SetBoundary accepts and every form in the domain form_ok (distinct keys, no empty
   value lists, non-empty names without control characters, file names without '/', a Content-Type without
   control characters or outer blanks, and every value / file content free of CRLF--boundary, also at its
   start without the CRLF): WriteMultipartForm succeeds and readMultipartForm over exactly the written bytes
   returns the same values (per key, in order) and the same files (name, Content-Type, content). *)
Theorem C35_roundtrip : forall b f, valid_boundary b = true -> form_ok b f = true ->
  exists out, write_form b f = WOk out /\ read_form b (Z.of_nat (length out)) out = Some f.
Proof. exact roundtrip. Qed.
Print Assumptions C35_roundtrip.

(* the hypothesis boundary_free is needed: a value that contains the delimiter does not come back *)
Theorem C35_roundtrip_needs_boundary_free : exists b f out,
  valid_boundary b = true /\ write_form b f = WOk out /\
  read_form b (Z.of_nat (length out)) out <> Some f.
Proof.
  exists (s2b "B"), (Build_mform [(s2b "a", [s2b "x" ++ crlf ++ s2b "--B" ++ crlf ++ s2b "y"])] []).
  eexists. split; [reflexivity|]. split; [vm_compute; reflexivity|]. vm_compute. discriminate.
Qed.
Print Assumptions C35_roundtrip_needs_boundary_free.

(* a field with an empty name is written but dropped by the parser (outside the domain, stated for the record) *)
Example C35_ex_empty_name_dropped :
  match write_form (s2b "B") (Build_mform [(s2b "", [s2b "v"])] []) with
  | WOk out => read_form (s2b "B") (Z.of_nat (length out)) out = Some (Build_mform [] [])
  | _ => False
  end.
Proof. vm_compute. reflexivity. Qed.

(* WriteMultipartForm's error cases *)
Example C35_ex_write_errors :
  write_form [] (Build_mform [] []) = WErrEmptyBoundary /\
  write_form (s2b "bad boundary ") (Build_mform [] []) = WErrBadBoundary /\
  write_form (s2b "a""b") (Build_mform [] []) = WErrBadBoundary /\
  read_form (s2b "B") 0 (s2b "--B--") = None.
Proof. vm_compute. repeat split; reflexivity. Qed.

(* (b) For every history of a connection (any requests, any handler operations, timeouts, keep-alive or not):
   every temporary file on disk belongs to the request being handled or to a timed-out request ... *)
Theorem C35_tempfiles_accounted : forall c s, creach c s -> accounted s.
Proof. exact creach_accounted. Qed.
Print Assumptions C35_tempfiles_accounted.

(* ... so when the next request is dispatched nothing of the earlier requests is left (timed-out ones excepted) *)
Theorem C35_tempfiles_gone_at_next_dispatch : forall c s d s', creach c s -> cstep c s (VDispatch d) = Some s' ->
  only_excepted (c_disk s) (c_detached s).
Proof. exact gone_at_next_dispatch. Qed.
Print Assumptions C35_tempfiles_gone_at_next_dispatch.

(* ... and nothing is left once the connection is closed *)
Theorem C35_tempfiles_gone_at_close : forall c s, creach c s -> c_ph s = CClosed ->
  only_excepted (c_disk s) (c_detached s).
Proof. exact gone_at_close. Qed.
Print Assumptions C35_tempfiles_gone_at_close.

(* without timeouts "excepted" is empty: TMPDIR is empty between requests and after the close *)
Theorem C35_tempfiles_none_without_timeout : forall c tr s, crun c cinit tr = Some s -> ~ In VTimeout tr ->
  match c_ph s with CHandling _ => True | _ => c_disk s = [] end.
Proof. exact no_timeout_disk_empty. Qed.
Print Assumptions C35_tempfiles_none_without_timeout.

(* MultipartFormWithLimit(l) on a body longer than l: whichever way the call ends (refused before parsing,
   ReadForm fails at the cut, or ReadForm succeeds and the exhausted LimitedReader is noticed afterwards —
   the branch that must call RemoveMultipartFormFiles), no form is kept and TMPDIR is as it was before *)
Theorem C35_limit_exceeded_leaves_no_file : forall l r disk det s', (0 < l)%Z -> (l < rq_len (r_desc r))%Z ->
  r_form r = None -> form_with_limit l r (Build_cstate (CHandling r) disk det) = Some s' ->
  cur_files s' = [] /\ forall x, count_occ Z.eq_dec (c_disk s') x = count_occ Z.eq_dec disk x.
Proof. exact fwl_limit_exceeded. Qed.
Print Assumptions C35_limit_exceeded_leaves_no_file.

(* the three outcomes around the limit, on a streamed body of 20300 bytes with a 20000-byte file part *)
Example C35_ex_limit :
  let c := Build_scfg true false in
  let d := Build_reqd true true [20000]%Z true 20300 11 false 0 in
  option_map c_disk (crun c cinit [VDispatch d; VOp (OFormLimit 20300)]) = Some [20000%Z] /\   (* len = L *)
  option_map c_disk (crun c cinit [VDispatch d; VOp (OFormLimit 20299)]) = Some [] /\          (* len = L+1: parsed, then removed *)
  option_map c_disk (crun c cinit [VDispatch d; VOp (OFormLimit 20298)]) = Some [] /\          (* len = L+2: ReadForm fails *)
  option_map c_disk (crun c cinit [VDispatch d; VOp (OFormLimit 20297)]) = Some [] /\          (* len = L+3: parsed (final CRLF cut), removed *)
  option_map c_disk (crun c cinit [VDispatch d; VOp (OFormLimit 100)]) = None.                  (* cut above the last part: not modelled *)
Proof. vm_compute. repeat split; reflexivity. Qed.

(* readMultipartForm: whenever it returns an error — ReadForm failed, or the form parsed but the rest of the
   Content-Length bytes never arrived — TMPDIR is as before the call (the spilled files are removed) *)
Theorem C35_read_error_leaves_no_file : forall mm sizes wf short disk disk',
  rmf mm sizes wf short disk = (None, disk') ->
  forall x, count_occ Z.eq_dec disk' x = count_occ Z.eq_dec disk x.
Proof. exact rmf_error_clean. Qed.
Print Assumptions C35_read_error_leaves_no_file.

Example C35_ex_short_body :
  let c := Build_scfg false true in
  let d := Build_reqd true true [16777217]%Z true 16777500 11 true 0 in
  option_map (fun s => (c_ph s, c_disk s)) (crun c cinit [VDispatch d]) = Some (CClosed, []) /\
  rmf 8192 [9000] true true [] = (None, []) /\ rmf 8192 [9000] true false [] = (Some [9000%Z], [9000%Z]).
Proof. vm_compute. repeat split; reflexivity. Qed.

(* Content-Encoding: a gzip body is never pre-parsed, MultipartForm decodes it and spills by the same rule;
   any other encoding is refused; a chunked body (no Content-Length) is never pre-parsed either *)
Example C35_ex_encodings :
  let gz := Build_reqd true true [9000]%Z true 9300 11 false 1 in
  let br := Build_reqd true true [9000]%Z true 9300 11 false 2 in
  let ch := Build_reqd true false [9000]%Z true 9300 11 false 0 in
  option_map c_disk (crun (Build_scfg true true) cinit [VDispatch gz; VOp OForm]) = Some [9000%Z] /\
  option_map c_disk (crun (Build_scfg true true) cinit [VDispatch gz; VOp OForm; VReturn true]) = Some [] /\
  option_map c_disk (crun (Build_scfg false true) cinit [VDispatch gz; VOp OForm]) = Some [] /\
  option_map c_disk (crun (Build_scfg true true) cinit [VDispatch br; VOp OForm]) = Some [] /\
  option_map c_disk (crun (Build_scfg true true) cinit [VDispatch ch; VOp OForm]) = Some [9000%Z].
Proof. vm_compute. repeat split; reflexivity. Qed.

(* non-vacuity: a streamed upload spills two parts into one temporary file, which is gone at the next dispatch;
   a timed-out request keeps its file *)
Example C35_ex_history :
  let c := Build_scfg true false in
  let big := Build_reqd true true [5000; 5000; 9000]%Z true 19500 11 false 0 in
  option_map c_disk (crun c cinit [VDispatch big; VOp OForm]) = Some [14000%Z] /\
  option_map c_disk (crun c cinit [VDispatch big; VOp OForm; VReturn true]) = Some [] /\
  option_map c_disk (crun c cinit [VDispatch big; VOp OForm; VOp ODrop]) = Some [] /\
  option_map (fun s => (c_disk s, c_detached s)) (crun c cinit [VDispatch big; VOp OForm; VTimeout; VReturn true])
    = Some ([14000%Z], [14000%Z]) /\
  tmpfiles_of defaultMaxInMemoryFileSize [16777216; 1]%Z = [1%Z] /\
  tmpfiles_of defaultMaxInMemoryFileSize [16777216]%Z = [].
Proof. vm_compute. repeat split; reflexivity. Qed.
