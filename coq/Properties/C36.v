(* C36 — placeholder while the pipeline is brought up *)
From FH Require Import Model.Base Gen.GenC36 Spec.NetHttpRW Model.Adaptor.
Example C36_ex_b22 : m_status (adaptor_resp false [WriteHeader 103; WriteHeader 201; Write (s2b "hi")]) = 201%Z.
Proof. vm_compute. reflexivity. Qed.
