(* C36 — fasthttpadaptor handlers behave like the same handler under net/http.
   Statements only; proofs live in Proof/AdaptorProof.v.

   Full statement (response side):  forall head p, valid_prog p -> names_ok p -> resp_agree head p
     i.e. for every handler program the final response through NewFastHTTPHandler (Model/Adaptor.v: the writer
     state machine followed by fasthttp's ResponseHeader) has the status, the body and, name by name, the
     handler-set fields of the final response net/http sends (Spec/NetHttpRW.v, validated against the real
     net/http on every harness case).
   It is FALSE of the code as it is: two witnesses below (findings singleton-header-collapse, content-type-on-304);
   it is proved under exactly the guards that exclude them.  (Two further defects found here, late-writeheader and
   late-header-mutation, were repaired in /repo by 8ad8bae: the writer now commits status and header snapshot at the
   first Write/Flush/non-1xx WriteHeader; their witnesses are now inside the theorem and in the harness corpus.)

   Full statement (request side): convert_request q = spec_read_request q on every field.  FALSE for every request
   (Host stays in r.Header): C36_convert_request_equal_refuted.  Proved: request line, protocol numbers, body,
   and r.Host up to letter case.  The header multimap minus Host is tied by the harness only (_partial). *)
From FH Require Import Model.Base Gen.GenC36 Spec.NetHttpRW Model.Adaptor Proof.AdaptorProof.
Open Scope N_scope.

(* For ALL handler programs over WriteHeader / Header().Add,Set,Del / Write / Flush, in ANY order, with valid status
   codes and header names free of CR/LF: if the committed header map does not give Content-Type / Content-Encoding /
   Server two values or an empty one (singletons_ok) and does not carry Content-Type on a 304 (no_ct_on_304), then the
   adaptor's final response equals net/http's: same status, same body (none for HEAD, 1xx, 204, 304), and for every
   field name outside Date / Content-Length / Connection / Transfer-Encoding / Trailer the same values in the same
   order.  Informational WriteHeader calls, repeated fields, Set-Cookie, values with CR/LF or surrounding blanks,
   WriteHeader after Write, header mutations after the commit, anything after Flush are all inside the theorem. *)
Theorem C36_final_response_equal_guarded : forall head p,
  valid_prog p -> names_ok p ->
  singletons_ok (rw_frozen (rw_run p)) -> no_ct_on_304 p ->
  adaptor_panics p = false /\
  m_status (adaptor_resp head p) = m_status (spec_resp head p) /\
  m_body (adaptor_resp head p) = m_body (spec_resp head p) /\
  forall n, excluded_name n = false -> f_get (m_fields (adaptor_resp head p)) n = f_get (m_fields (spec_resp head p)) n.
Proof. exact final_response_equal. Qed.
Print Assumptions C36_final_response_equal_guarded.

(* the guards are needed: one witness per guard (each is a finding confirmed on the real code) *)
Theorem C36_final_response_equal_refuted :
  (exists p, valid_prog p /\ names_ok p /\ ~ resp_agree false p) /\
  ~ resp_agree false singleton_witness /\ ~ resp_agree false ct304_witness.
Proof.
  split; [exists singleton_witness; exact singleton_refuted|].
  split; [apply singleton_refuted | apply ct304_refuted].
Qed.
Print Assumptions C36_final_response_equal_refuted.

(* the repaired B22 defect: an informational WriteHeader (1xx other than 101) never changes the final status,
   for every program that follows *)
Theorem C36_informational_never_final : forall head p c,
  valid_prog p -> informational c = true ->
  m_status (adaptor_resp head (WriteHeader c :: p)) = m_status (adaptor_resp head p).
Proof. exact informational_never_final. Qed.
Print Assumptions C36_informational_never_final.

(* header names: the exact-spelling condition the fasthttp layer needs holds for every name free of CR/LF *)
Theorem C36_names_classified_exactly : forall k, name_ok k = true -> fhkey (canon k) = canon k /\ class_exact (canon k).
Proof. intros k H. split; [now apply fhkey_canon|now apply class_exact_canon]. Qed.
Print Assumptions C36_names_classified_exactly.

(* ConvertRequest: method, RequestURI, URL, protocol string and numbers, body equal http.ReadRequest's for every
   request that is not CONNECT-with-authority and speaks HTTP/1.0 or 1.1; r.Host is http.ReadRequest's Host
   lower-cased.  PARTIAL: the header multimap (minus Host) is compared by the harness on real code only. *)
Theorem C36_convert_request_equal_partial : forall q,
  connect_auth q = false ->
  (proto_10_or_11 q ->
   let a := convert_request q in let n := spec_read_request q in
   c_method a = c_method n /\ c_uri a = c_uri n /\ c_url a = c_url n /\ c_proto a = c_proto n /\
   c_major a = c_major n /\ c_minor a = c_minor n /\ c_body a = c_body n) /\
  (line_names_ok q -> (length (lines_get (q_hdrs q) hdrHost) <= 1)%nat ->
   c_host (convert_request q) = lower_bytes (c_host (spec_read_request q))).
Proof.
  intros q Hc. split; [intros Hp; now apply convert_line_equal | intros Hn Hl; now apply convert_host_lowercased].
Qed.
Print Assumptions C36_convert_request_equal_partial.

(* the full request-side statement fails for EVERY request: Host is in the adaptor's r.Header, never in net/http's *)
Theorem C36_convert_request_equal_refuted : forall q v,
  lines_get (q_hdrs q) hdrHost = [v] -> v <> [] ->
  (exists r, h_get (c_hdr (convert_request q)) sHost = v :: r) /\ h_get (c_hdr (spec_read_request q)) sHost = [].
Proof. exact convert_host_in_header. Qed.
Print Assumptions C36_convert_request_equal_refuted.

(* non-vacuity *)
Definition ex_prog : prog :=
  [HAdd (s2b "x-a") (s2b " 1 "); WriteHeader 103; HAdd (s2b "X-A") (s2b "2"); HSet (s2b "Content-Type") (s2b "a/b");
   HAdd (s2b "Set-Cookie") (s2b "k=v"); HAdd (s2b "Set-Cookie") (s2b "k=w"); WriteHeader 201; WriteHeader 500;
   Write (s2b "he"); Flush; HSet (s2b "X-Late") (s2b "z"); Write (s2b "llo")].
Example C36_ex_guards_hold :
  m_status (adaptor_resp false ex_prog) = 201%Z
  /\ m_body (adaptor_resp false ex_prog) = s2b "hello"
  /\ f_get (m_fields (adaptor_resp false ex_prog)) (s2b "X-A") = [s2b "1"; s2b "2"]
  /\ f_get (m_fields (spec_resp false ex_prog)) (s2b "X-A") = [s2b "1"; s2b "2"]
  /\ f_get (m_fields (adaptor_resp false ex_prog)) (s2b "Set-Cookie") = [s2b "k=v"; s2b "k=w"]
  /\ f_get (m_fields (adaptor_resp false ex_prog)) (s2b "X-Late") = []
  /\ m_body (adaptor_resp true ex_prog) = [].
Proof. vm_compute. repeat split; reflexivity. Qed.
Example C36_ex_b22 : m_status (adaptor_resp false [WriteHeader 103; WriteHeader 201; Write (s2b "hi")]) = 201%Z
  /\ m_body (adaptor_resp false [WriteHeader 103; WriteHeader 201; Write (s2b "hi")]) = s2b "hi".
Proof. vm_compute. split; reflexivity. Qed.
(* the repaired late-commit witnesses: the adaptor now agrees with net/http *)
Example C36_ex_late : m_status (adaptor_resp false late_status_witness) = 200%Z /\ m_status (spec_resp false late_status_witness) = 200%Z
  /\ f_get (m_fields (adaptor_resp false late_header_witness)) (s2b "X-A") = []
  /\ f_get (m_fields (spec_resp false late_header_witness)) (s2b "X-A") = [].
Proof. vm_compute. repeat split; reflexivity. Qed.
Definition ex_req : sreq :=
  {| q_method := s2b "GET"; q_target := s2b "/a?b=c"; q_proto := s2b "HTTP/1.0";
     q_hdrs := [(s2b "Host", s2b "ExAmple.COM"); (s2b "X-A", s2b "1")]; q_body := []; q_urlhost := []; q_authhost := s2b "" |}.
Example C36_ex_b23 :
  c_minor (convert_request ex_req) = 0%Z /\ c_host (convert_request ex_req) = s2b "example.com"
  /\ c_host (spec_read_request ex_req) = s2b "ExAmple.COM"
  /\ h_get (c_hdr (convert_request ex_req)) (s2b "Connection") = [s2b "close"]
  /\ h_get (c_hdr (spec_read_request ex_req)) (s2b "Connection") = [].
Proof. vm_compute. repeat split; reflexivity. Qed.
