(* C38 — PipelineClient deadline calls return on time with bounded queues.  Statements only; proofs live in
   Proof/PipelineProof.v (invariants), Proof/PipelineFifo.v (FIFO matching), Proof/PipelineTime.v (derived statements).

   [reach c s]: s is reachable in the transition system of Model/Pipeline.v with MaxPendingRequests = c by ANY sequence of labels:
   any number of DoDeadline / Do callers, any interleaving of callers, writer, reader and worker, any result of every dial, request
   write and response read (= anything the server and the network may do), any placement of clock ticks.  Timers are exact in the
   model (LTick is disabled while a caller whose deadline is reached sits in a select containing its timer): scheduler latency and
   timer accuracy are runtime behaviour, covered by the harness with a measured slack. *)
From FH Require Import Model.Base Model.Pipeline Spec.PipelineSpec Proof.PipelineProof Proof.PipelineFifo Proof.PipelineTime.
Open Scope N_scope.

(* Logical time: in every reachable state a deadline call is never found waiting after its deadline, and a deadline call that has
   returned did so no later than max(deadline, time of the call). *)
Theorem C38_returns_by_deadline : forall c s, reach c s -> returns_by_deadline s.
Proof. exact returns_by_deadline_reach. Qed.
Print Assumptions C38_returns_by_deadline.

(* ... because both selects of DoDeadline contain the timer: in ANY state (reachable or not), whatever queues, writer, reader,
   worker and server are doing, a caller whose deadline is reached can return ErrTimeout by a step of its own, at that very instant *)
Theorem C38_timer_always_armed : forall s id d,
  (i_pc (items s id) = PEnq \/ i_pc (items s id) = PWait) -> i_dl (items s id) = Some d -> d <= now s ->
  exists l s1, step s l = Some s1 /\ i_pc (items s1 id) = PRet RTimeout (now s) /\ now s1 = now s.
Proof. exact timer_always_armed. Qed.
Print Assumptions C38_timer_always_armed.

(* ... and nothing else ever holds the clock back (the exact-timer convention creates no time-lock) *)
Theorem C38_no_timelock : forall s, step s LTick = None ->
  exists id d, (id < nitems s)%nat /\ (i_pc (items s id) = PEnq \/ i_pc (items s id) = PWait) /\
               i_dl (items s id) = Some d /\ d <= now s.
Proof. exact tick_blocked_only_by_timers. Qed.
Print Assumptions C38_no_timelock.

(* An item that got ErrPipelineOverflow — recorded in w.err by a substituting Do, or returned by the call — was never passed to
   req.Write, in this or any earlier connection. *)
Theorem C38_overflow_not_transmitted : forall c s, reach c s -> overflow_not_transmitted s.
Proof. exact overflow_not_transmitted_reach. Qed.
Print Assumptions C38_overflow_not_transmitted.

(* |chW| <= MaxPendingRequests and |chR| <= MaxPendingRequests, always *)
Theorem C38_queue_bounds : forall c s, reach c s -> queue_bounds s /\ cap s = c.
Proof. exact queue_bounds_reach. Qed.
Print Assumptions C38_queue_bounds.

(* every work item receives at most one token in w.done (capacity 1): no writer / reader / worker / substituting caller ever blocks on it *)
Theorem C38_done_once : forall c s, reach c s -> done_once s.
Proof. exact done_once_reach. Qed.
Print Assumptions C38_done_once.

(* the k-th response read on a connection is delivered to the item of the k-th request written on that connection (for C04) *)
Theorem C38_fifo : forall c s, reach c s -> fifo_matching s.
Proof. exact fifo_reach. Qed.
Print Assumptions C38_fifo.
Theorem C38_fifo_nth : forall c s k id, reach c s -> nth_error (rlog s) k = Some id -> nth_error (wlog s) k = Some id.
Proof. exact fifo_nth. Qed.
Print Assumptions C38_fifo_nth.

(* ---- non-vacuity: the interesting states are reachable ------------------------------------------------------------------------ *)
Lemma run_reach c tr s : run (init c) tr = Some s -> reach c s.
Proof.
  assert (G : forall tr s0 s, reach c s0 -> run s0 tr = Some s -> reach c s).
  { induction tr0 as [|l tr0 IH]; cbn; intros s0 s1 Hr H; [injection H as <-; exact Hr|].
    destruct (step s0 l) eqn:E; [|discriminate]. eapply IH; [eapply reach_step; eauto|exact H]. }
  apply G. constructor.
Qed.

(* MaxPendingRequests = 1, server never answers: reader holds item 0, chR = [1], writer holds 2, chW = [3]; deadline call 4 waits for
   room and times out at its deadline without being transmitted; a Do call substitutes item 3, which gets ErrPipelineOverflow unsent *)
Definition ex_trace : list label :=
  [LCall (Some 2); LEnqOk 0; LDial true; LWPop true; LWPush; LRPop;
   LCall (Some 2); LEnqOk 1; LWPop true; LWPush;
   LCall (Some 2); LEnqOk 2; LWPop true;
   LCall (Some 2); LEnqOk 3;
   LCall (Some 2);
   LCall None; LSubst 5; LEnqOk 5;
   LTick; LTick;
   LEnqTimeout 4; LWaitTimeout 0; LWaitTimeout 1; LWaitTimeout 2; LWaitDone 3; LTick].
Example C38_ex_saturated :
  match run (init 1) ex_trace with
  | Some s => chW s = [5%nat] /\ chR s = [1%nat] /\ wr s = WHold 2 /\ rd s = RHold 0 /\ now s = 3
              /\ i_pc (items s 4) = PRet RTimeout 2 /\ i_sent (items s 4) = false
              /\ i_pc (items s 3) = PRet ROverflow 2 /\ i_sent (items s 3) = false
              /\ i_pc (items s 0) = PRet RTimeout 2 /\ i_sent (items s 0) = true
  | None => False
  end.
Proof. vm_compute. repeat split; reflexivity. Qed.
(* the clock cannot pass a reached deadline while its caller is still waiting *)
Example C38_ex_tick_blocked :
  run (init 1) [LCall (Some 1); LEnqOk 0; LTick; LTick] = None
  /\ exists s, run (init 1) [LCall (Some 1); LEnqOk 0; LTick; LWaitTimeout 0; LTick] = Some s.
Proof. split; [vm_compute; reflexivity | eexists; vm_compute; reflexivity]. Qed.
