(* C39 — Prefork keeps its children supervised and never orphans them.
   Statements only; proofs live in Proof/PreforkProof.v.  The model (Model/Prefork.v) is a labelled
   transition system of the master: reach c s = s is reachable by ANY sequence of labels (spawn results,
   hook outcomes incl. panics, child deaths, reaps, backoff timers, grace expiry) under the named OS
   assumption fresh_ok: a new child's pid is not a key of childProcs (no pid reuse between reaping a
   child and processing its exit).  kids s = every child ever started (C39_every_started_child_recorded). *)
From FH Require Import Model.Base Gen.GenC39 Model.Prefork Spec.PreforkSpec Proof.PreforkProof.
Open Scope Z_scope.

(* ---- teardown ---- *)

(* On EVERY return path (any error class, any history): every started child is reaped, its Wait
   goroutine has finished, it was sent SIGTERM unless it was already reaped when the SIGTERM loop ran,
   and it was sent SIGKILL iff it was not yet reaped when the grace timer fired. *)
Theorem C39_teardown_complete : forall c s e, reach c s -> ph s = PReturned e ->
  Forall (fun k => os k = Reaped /\ gor k = GDone /\ (sig k = true \/ early k = true) /\ kil k = atgrace k) (kids s).
Proof. exact teardown_complete. Qed.
Print Assumptions C39_teardown_complete.

Theorem C39_every_started_child_recorded : forall c tr s, run c (init c) tr = Some s ->
  length (kids s) = count_started tr.
Proof. intros c tr s H. apply run_started in H. exact H. Qed.
Print Assumptions C39_every_started_child_recorded.

(* from the moment the teardown starts every child still unreaped has been sent SIGTERM *)
Theorem C39_signalled_during_teardown : forall c s, reach c s -> tearing (ph s) = true ->
  Forall (fun k => (sig k = true \/ early k = true) /\ (os k <> Reaped -> sig k = true)) (kids s).
Proof. exact teardown_signalled. Qed.
Print Assumptions C39_signalled_during_teardown.

(* the kill loop: nobody was killed before, and it hits exactly the children not reaped at grace expiry *)
Theorem C39_kill_at_grace_expiry : forall c s s', reach c s -> step c s EGrace = Some s' ->
  Forall (fun k => kil k = false) (kids s) /\
  Forall (fun k => kil k = negb (o_reapedb (os k))) (kids s').
Proof. exact grace_kills_survivors. Qed.
Print Assumptions C39_kill_at_grace_expiry.

Theorem C39_no_kill_before_grace : forall c s, reach c s ->
  match ph s with PKilled _ | PReturned _ => True | _ => Forall (fun k => kil k = false) (kids s) end.
Proof. exact no_kill_before_grace. Qed.
Print Assumptions C39_no_kill_before_grace.

(* progress: after the grace timer no live child has been spared (so, SIGKILL being final, all get reaped),
   and once all are reaped prefork does return, with the error that started the teardown *)
Theorem C39_survivors_all_killed : forall c s e, reach c s -> ph s = PKilled e ->
  Forall (fun k => os k <> Reaped -> kil k = true /\ sig k = true) (kids s).
Proof. exact survivors_all_killed. Qed.
Print Assumptions C39_survivors_all_killed.

Theorem C39_returns_when_all_reaped : forall c s e, reach c s -> ph s = PGrace e \/ ph s = PKilled e ->
  Forall (fun k => os k = Reaped) (kids s) -> exists s', step c s EDrain = Some s' /\ ph s' = PReturned e.
Proof. exact drain_enabled. Qed.
Print Assumptions C39_returns_when_all_reaped.

(* the statements after a successful doCommand: record in childProcs, then start the Wait goroutine, then the hook *)
Example C39_add_child_order : forall pid s p,
  add_child pid s p = with_ph p (start_wait pid (length (kids s)) (record_child pid (length (kids s)) s)).
Proof. reflexivity. Qed.

(* OnChildSpawn rejecting (error or panic) a child — a replacement started during recovery or an initial one —
   starts a teardown in which every child not yet reaped, the rejected one included, is an entry of
   childProcs and has been sent SIGTERM (so C39_survivors_all_killed / C39_teardown_complete apply to it) *)
Theorem C39_hook_error_teardown_reaches_new_child : forall c s o s', reach c s ->
  (exists old new, ph s = PRecHook old new) \/ (exists i, ph s = PInitHook i) -> o <> HOk ->
  step c s (EHook o) = Some s' ->
  (exists e, ph s' = PGrace e /\ e <> ErrOverRecovery) /\
  length (kids s') = length (kids s) /\
  Forall (fun k => os k <> Reaped -> sig k = true /\ In (cpid k, cid k) (procs s')) (kids s').
Proof. exact hook_error_teardown. Qed.
Print Assumptions C39_hook_error_teardown_reaches_new_child.

(* ---- supervision ---- *)

(* whenever the loop waits for the next exit, childProcs holds exactly GOMAXPROCS children,
   started - processed = GOMAXPROCS, and the threshold is not exceeded *)
Theorem C39_supervision : forall c s, reach c s -> ph s = PIdle ->
  length (procs s) = G c /\ Z.of_nat (length (kids s)) - exited s = Z.of_nat (G c) /\
  (exited s = 0 \/ exited s <= T c).
Proof. exact supervision_state. Qed.
Print Assumptions C39_supervision.

(* every child whose exit has not been processed is an entry of childProcs (so teardown reaches it) *)
Theorem C39_supervised_children_in_map : forall c s, reach c s ->
  Forall (fun k => processed k = false -> In (cpid k, cid k) (procs s)) (kids s).
Proof. exact supervised_in_map. Qed.
Print Assumptions C39_supervised_children_in_map.

(* every label sequence the master can produce satisfies the supervision Spec used as oracle:
   G children under supervision at each processed exit; an exit at or below the threshold is
   immediately followed by a restart attempt *)
Theorem C39_supervision_trace : forall c tr s, fresh_run c (init c) tr -> run c (init c) tr = Some s ->
  supervised c tr = true.
Proof. exact accepted_supervised. Qed.
Print Assumptions C39_supervision_trace.

(* ---- over-recovery ---- *)

Theorem C39_over_recovery : forall c s e, reach c s -> ph s = PReturned e ->
  (e = ErrOverRecovery -> exited s > T c /\ 1 <= exited s) /\
  (e <> ErrOverRecovery -> exited s = 0 \/ exited s <= T c).
Proof. exact over_recovery_state. Qed.
Print Assumptions C39_over_recovery.

(* the oracle form (non-negative RecoverThreshold): ErrOverRecovery exactly when more than RecoverThreshold exits were processed *)
Theorem C39_over_recovery_trace : forall c tr s e, fresh_run c (init c) tr ->
  run c (init c) tr = Some s -> ph s = PReturned e -> over_recovery_ok c tr e = true.
Proof. exact accepted_over_recovery. Qed.
Print Assumptions C39_over_recovery_trace.

(* ---- what the OS assumption protects ---- *)
(* With pid reuse between reap and processing (child 0 reaped, pid 100 reused by child 2, then child 0's
   exit processed: delete(childProcs, 100) drops child 2's entry) a running child is neither signalled
   nor killed, and prefork cannot return while it lives. *)
Definition reuse_cfg : cfg := Build_cfg 2 5 true false false false.
Definition reuse_trace : list event :=
  [ESpawn (PStarted 100); ESpawn (PStarted 200);
   EDie 0 DSelf; EReap 0;                       (* child 0 (pid 100) reaped, in backoff *)
   EDie 1 DSelf; EReap 1; ETimer 1; ERecv 200;  (* child 1 processed ... *)
   ESpawn (PStarted 100);                       (* ... and replaced by a child that got pid 100 again *)
   ETimer 0; ERecv 100;                         (* child 0's exit processed: delete(childProcs, 100) *)
   ESpawn PError; EGrace].

Theorem C39_pid_reuse_breaks_teardown : exists s,
  run reuse_cfg (init reuse_cfg) reuse_trace = Some s /\ reach_any reuse_cfg s /\
  run_fresh reuse_cfg (init reuse_cfg) reuse_trace = false /\
  ph s = PKilled ErrProducer /\
  Exists (fun k => os k = Running /\ sig k = false /\ kil k = false) (kids s) /\
  step reuse_cfg s EDrain = None.
Proof.
  eexists. split; [vm_compute; reflexivity|]. split.
  - eapply (run_reach_any reuse_cfg reuse_trace); [constructor|vm_compute; reflexivity].
  - split; [vm_compute; reflexivity|]. split; [reflexivity|]. split; [|reflexivity].
    apply Exists_cons_tl, Exists_cons_tl, Exists_cons_hd. repeat split.
Qed.
Print Assumptions C39_pid_reuse_breaks_teardown.

(* ---- non-vacuity ---- *)
Definition ex_cfg : cfg := Build_cfg 2 1 true true true true.
(* two children, one exits twice (replaced once), threshold 1 exceeded; the other ignores SIGTERM and is killed *)
Definition ex_trace : list event :=
  [ESpawn (PStarted 10); EHook HOk; ESpawn (PStarted 11); EHook HOk; EReady HOk;
   EDie 1 DSelf; EReap 1; ETimer 1; ERecv 11; ESpawn (PStarted 12); EHook HOk; ERecoverCb 11 12;
   EDie 2 DSelf; EReap 2; ETimer 2; ERecv 12;
   EGrace; EDie 0 DKill; EReap 0; EDrain].

Example C39_ex_over_recovery_with_kill :
  run_fresh ex_cfg (init ex_cfg) ex_trace = true /\
  option_map ph (run ex_cfg (init ex_cfg) ex_trace) = Some (PReturned ErrOverRecovery) /\
  option_map (fun s => map (fun k => (cpid k, sig k, kil k)) (kids s)) (run ex_cfg (init ex_cfg) ex_trace)
    = Some [(10, true, true); (11, false, false); (12, false, false)] /\
  supervised ex_cfg ex_trace = true /\ over_recovery_ok ex_cfg ex_trace ErrOverRecovery = true.
Proof. vm_compute. repeat split; reflexivity. Qed.

(* a hook error during the initial loop: the children started so far are terminated; no exit was processed *)
Example C39_ex_hook_error_initial :
  let tr := [ESpawn (PStarted 10); EHook HOk; ESpawn (PStarted 11); EHook HErr; EDie 0 DTerm; EReap 0; EDie 1 DTerm; EReap 1; EDrain] in
  option_map ph (run ex_cfg (init ex_cfg) tr) = Some (PReturned ErrHookSpawn) /\
  (* returning while a child is still running is impossible *)
  run ex_cfg (init ex_cfg) [ESpawn (PStarted 10); EHook HOk; ESpawn (PStarted 11); EHook HErr; EDie 0 DTerm; EReap 0; EDrain] = None /\
  (* SIGKILL before the grace timer is impossible *)
  run ex_cfg (init ex_cfg) [ESpawn (PStarted 10); EHook HErr; EDie 0 DKill] = None /\
  (* another exit is not taken while a replacement is owed; no restart above the threshold *)
  supervised ex_cfg [ESpawn (PStarted 10); ESpawn (PStarted 11); ERecv 10; ERecv 11] = false /\
  over_recovery_ok ex_cfg [ERecv 10] ErrOverRecovery = false.
Proof. vm_compute. repeat split; reflexivity. Qed.
