(* C39 — placeholder while the pipeline is brought up *)
From FH Require Import Model.Base Gen.GenC39 Model.Prefork Spec.PreforkSpec.
Open Scope Z_scope.
Example C39_ex_init : ph (init (Build_cfg 2 1 true false false false)) = PInitSpawn 0.
Proof. reflexivity. Qed.
