(* C40 — LBClient routes to the least-loaded client and penalties stay bounded.  Statements only; proofs in Proof/LBProof.v.

   Model: Model/LB.v, a labelled transition system whose labels are the atomic operations of lbclient.go (get under the lock,
   the wrapped client's return, the atomic add of incPenalty, the compensating decPenalty, time.AfterFunc, total++, one timer
   firing, the clock advancing, AddClient, RemoveClients).  [reachable s]: s is reached from an LBClient constructed with any
   number of Clients by ANY sequence of labels — any number of calls in flight, any interleaving, any timer firing order. *)
From FH Require Import Model.Base Gen.GenC40 Model.LB Spec.LBSpec Proof.LBProof.
Open Scope Z_scope.

(* get returns the FIRST position whose (PendingRequests+penalty, total) is lexicographically minimal — for every vector of loads *)
Theorem C40_choice_minimal : forall l i, choose l = Some i -> minimal_first l i.
Proof. exact choose_minimal. Qed.
Print Assumptions C40_choice_minimal.

(* ... and that is where a call is routed, in every state, with the loads read in that state *)
Theorem C40_call_routed_to_minimum : forall s ext s', step s (LGet ext) = Some s' -> do_init s <> [] ->
  exists i c, log s' = EChosen (length (threads s)) c :: log s /\ nth_error (do_init s) i = Some c /\
              minimal_first (loads s (do_init s) ext) i /\ threads s' = threads s ++ [Some (PCall c)].
Proof. exact get_routes_to_first_minimum. Qed.
Print Assumptions C40_call_routed_to_minimum.

(* In every reachable state, for every client ever created (also removed ones): the penalty never goes negative, at most
   maxPenalty timers are pending, and once no call is between incPenalty's add and its decPenalty/AfterFunc for this client
   (the calls have settled) the penalty equals the number of pending timers and is at most maxPenalty. *)
Theorem C40_penalty_bound : forall s c, reachable s -> (c < length (arena s))%nat ->
  0 <= c_pen (getc s c) /\
  Z.of_nat (length (c_timers (getc s c))) <= maxPenalty /\
  (quiescent s c -> c_pen (getc s c) = Z.of_nat (length (c_timers (getc s c))) /\ c_pen (getc s c) <= maxPenalty).
Proof. exact penalty_bound. Qed.
Print Assumptions C40_penalty_bound.

(* the translated constants are the numbers of the property text *)
Theorem C40_constants : maxPenalty = spec_max_penalty /\ penaltyDuration = spec_penalty_ns.
Proof. vm_compute. split; reflexivity. Qed.
Print Assumptions C40_constants.

(* penaltyDuration after the last penalised failure of a client, once the due timers have fired and its calls have settled,
   the penalty is zero *)
Theorem C40_penalty_expires : forall s c, reachable s -> (c < length (arena s))%nat -> quiescent s c ->
  (forall d, In d (c_timers (getc s c)) -> now s < d) ->
  c_last (getc s c) + penaltyDuration <= now s ->
  c_pen (getc s c) = 0.
Proof. exact penalty_expires. Qed.
Print Assumptions C40_penalty_expires.

(* c_last is the clock at the client's last penalised failure: only LSetTimer (time.AfterFunc after a successful incPenalty) moves it *)
Theorem C40_last_is_last_penalised_failure : forall s l s' c, step s l = Some s' -> (c < length (arena s))%nat ->
  c_last (getc s' c) = match l with
                       | LSetTimer tid => match get_thread s tid with Some (PPreTimer c') => if (c' =? c)%nat then now s else c_last (getc s c) | _ => c_last (getc s c) end
                       | _ => c_last (getc s c)
                       end.
Proof. exact last_is_last_penalised. Qed.
Print Assumptions C40_last_is_last_penalised_failure.

(* with no clients (zero value, everything removed) a call returns ErrNoAvailableClients: the step exists (no panic), logs the
   error, finishes the call at once and touches no counter *)
Theorem C40_no_clients_error : forall s ext, do_init s = [] ->
  exists s', step s (LGet ext) = Some s' /\ log s' = ENoClients (length (threads s)) :: log s /\
             arena s' = arena s /\ threads s' = threads s ++ [None].
Proof. exact no_clients_error. Qed.
Print Assumptions C40_no_clients_error.

Theorem C40_get_never_stuck : forall s ext, step s (LGet ext) <> None.
Proof. exact get_total. Qed.
Print Assumptions C40_get_never_stuck.

(* the invariant behind the bounds, for the record *)
Theorem C40_invariant : forall s, reachable s -> Inv s.
Proof. exact reachable_inv. Qed.
Print Assumptions C40_invariant.

(* ---- non-vacuity ------------------------------------------------------------------------------------------------------------- *)
Example C40_ex_choose :
  choose [(2, 5); (1, 9); (1, 3); (1, 3); (0, 100); (0, 100)] = Some 4%nat /\ choose [(1, 1); (1, 1)] = Some 0%nat /\ choose [] = None.
Proof. vm_compute. repeat split; reflexivity. Qed.

(* 305 unhealthy results on one client: penalty stops at 300, the 5 extra count as completed; 3 s later all timers fire *)
Example C40_ex_saturation :
  let run := fix run (n : nat) (s : state) : state :=
    match n with O => s | S k => match steps s (call_labels s [0] false) with Some s' => run k s' | None => s end end in
  let s := run 305%nat (init_state 1) in
  c_pen (getc s 0) = 300 /\ c_tot (getc s 0) = 5 /\ length (c_timers (getc s 0)) = 300%nat /\
  match advance s penaltyDuration with Some s' => c_pen (getc s' 0) = 0 /\ c_timers (getc s' 0) = [] | None => False end.
Proof. vm_compute. repeat split; reflexivity. Qed.

(* a transient overshoot exists in the model: two calls between the add and the compensating decrement *)
Example C40_ex_transient_overshoot :
  let s := mkState [mkClient 300 0 (repeat 0 300) 0] [0%nat] true [0%nat] [] 0 [] in
  match steps s [LGet [0]; LGet [0]; LReturn 0 false; LReturn 1 false; LIncAdd 0; LIncAdd 1] with
  | Some s1 => c_pen (getc s1 0) = 302 /\
      match steps s1 [LDecOverflow 0; LDecOverflow 1; LTotal 0; LTotal 1] with
      | Some s2 => c_pen (getc s2 0) = 300 /\ c_tot (getc s2 0) = 2
      | None => False
      end
  | None => False
  end.
Proof. vm_compute. repeat split; reflexivity. Qed.
