(* C41 — TCPDialer bounds concurrent dials and honours its timeout.
   Statements only; proofs live in Proof/DialerProof.v.

   `dreach c tr s` : s is reachable in the transition system of Model/Dialer.v (any number of concurrent Dial calls on one
   host entry with `nad c` resolved addresses, Concurrency `cap c`, outcome of every connect chosen freely = all fault
   sequences, time advancing by arbitrary Ticks) by the trace tr.  Model of the code after the fixes 0bab23a and d625fef.  Time is LOGICAL: the wall-clock part of the property
   ("plus scheduling slack") and the behaviour of the kernel's connect are outside the model (props/C41.json). *)
From FH Require Import Model.Base Gen.GenC41 Model.Dialer Proof.DialerProof.
Open Scope N_scope.

(* in every reachable state the dials inside net.Dialer.DialContext are at most Concurrency, for any number of threads *)
Theorem C41_dial_bound : forall c tr s, 0 < nad c -> cap c <> 0 -> dreach c tr s ->
  N.of_nat (length (inprog s)) <= cap c /\ NoDup (inprog s) /\
  (forall t, In t (inprog s) <-> is_conn (tp s t) = true).
Proof. exact dial_bound. Qed.
Print Assumptions C41_dial_bound.

(* a dial that fails (non-timeout) has tried the whole rotation from the index it drew, in order, and reports the last
   address; at any moment the addresses tried so far are a prefix of that rotation (so a dial stopped by its deadline
   tried a prefix) *)
Theorem C41_rotation : forall c tr s t, 0 < nad c -> dreach c tr s ->
  (forall a dl i0 tried at_, tp s t = TDone (XErr a) dl i0 tried at_ ->
     tried = rot c i0 (nad c) /\ a = addr_of c i0 (nad c - 1)) /\
  match tp s t with
  | TLoop _ i0 k tried | TSem _ i0 k tried | TSemWait _ i0 k tried | TConn _ _ i0 k tried => k < nad c /\ tried = rot c i0 k
  | TDone _ _ i0 tried _ => exists k, k <= nad c /\ tried = rot c i0 k
  | _ => True
  end.
Proof.
  intros c tr s t Hn R. split.
  - intros a dl i0 tried at_ E. exact (failed_tried_all c tr s t a dl i0 tried at_ Hn R E).
  - exact (tried_is_rotation_prefix c tr s t Hn R).
Qed.
Print Assumptions C41_rotation.

(* that rotation visits each of the n addresses exactly once, starting at (index drawn) mod n, for EVERY value of the
   uint32 counter (the code reduces the index modulo n before adding the loop offset).  The only side condition is that
   the uint32 sum idx%n + i cannot overflow: fewer than 2^31 resolved addresses. *)
Theorem C41_rotation_each_once : forall c i0, 0 < nad c -> 2 * nad c <= W32 ->
  NoDup (rot c i0 (nad c)) /\ length (rot c i0 (nad c)) = N.to_nat (nad c) /\
  (forall a, a < nad c -> In a (rot c i0 (nad c))) /\
  (forall j, j < nad c -> nth (N.to_nat j) (rot c i0 (nad c)) 0 = (i0 + j) mod nad c).
Proof. exact rot_each_once. Qed.
Print Assumptions C41_rotation_each_once.

(* the counter values around the uint32 wrap (where the rotation broke before the fix d625fef) are ordinary:
   every counter value is reachable, and at 2^32-1 three addresses are visited as 0, 1, 2 *)
Theorem C41_counter_any_value : forall c (v : nat),
  exists tr s, dreach c tr s /\ aidx s = N.of_nat v mod W32 /\ (forall t, N.of_nat v <= t -> tp s t = TNew).
Proof. exact aidx_reachable. Qed.
Print Assumptions C41_counter_any_value.
Example C41_ex_rotation_at_wrap :
  rot (mkCfg 0 3) 4294967295 3 = [0; 1; 2] /\
  (let c := mkCfg 0 3 in
   let s0 := mkDS 0 4294967294 0 (fun _ => TNew) [] in
   match drun c s0 [LStart 0 100; LDraw 0; LCheck 0; LAcqFast 0; LConnRefused 0; LCheck 0; LAcqFast 0; LConnRefused 0;
                    LCheck 0; LAcqFast 0; LConnOk 0] with
   | Some s => tp s 0 = TDone (XOk 2) 100 4294967295 [0; 1; 2] 0
   | None => False
   end).
Proof. split; [exact rot_at_wrap_example|exact wrap_witness_fixed]. Qed.

(* the connect of every attempt runs under a context that expires exactly at the deadline of its DIAL (computed once, when
   Dial was called) — however long the attempt waited for the semaphore first.  (A context built from the remaining time as
   measured at the top of tryDial would expire up to one semaphore wait later.) *)
Theorem C41_connect_deadline : forall c tr s t dl cdl i0 k tried,
  0 < nad c -> dreach c tr s -> tp s t = TConn dl cdl i0 k tried -> cdl = dl.
Proof. exact connect_deadline_is_dial_deadline. Qed.
Print Assumptions C41_connect_deadline.

(* ErrDialTimeout is never returned before the deadline and names an address of the rotation; once the deadline has
   passed, a dial that has not returned — whether it is about to try an address, waiting for the semaphore, or inside a
   connect (this case rests on C41_connect_deadline) — can return ErrDialTimeout(upstream) by at most two of its own steps,
   without time advancing and without any step of another dial: it returns by its deadline tick and never waits for the
   semaphore for ever.  (Logical time only: how long those steps take on a real machine is the "scheduling slack".) *)
Theorem C41_timeout_logical :
  (forall c tr s t a dl i0 tried at_, 0 < nad c -> dreach c tr s ->
     tp s t = TDone (XTimeout a) dl i0 tried at_ -> dl <= at_ /\ exists k, k < nad c /\ a = addr_of c i0 k)
  /\
  (forall c tr s t dl i0 k, 0 < nad c -> dreach c tr s -> unfinished (tp s t) = Some (dl, i0, k) -> dl <= clock s ->
     exists ls s' tried, drun c s ls = Some s' /\ (length ls <= 2)%nat /\
       tp s' t = TDone (XTimeout (addr_of c i0 k)) dl i0 tried (clock s) /\ clock s' = clock s).
Proof. split; [exact timeout_not_early|exact timeout_on_own_steps]. Qed.
Print Assumptions C41_timeout_logical.

(* the resolve phase (before any address is chosen): a Resolver that is still running when the deadline passes is cut by
   its context and the dial returns at once, without touching the rotation counter or the semaphore — but with the
   Resolver's error, which is not ErrDialTimeout and has no upstream address.  (A Resolver that ignores its context is
   outside the model: the dial then waits for it.) *)
Theorem C41_resolver_deadline : forall c s t dl, tp s t = TDraw dl -> dl <= clock s ->
  exists s', dstep c s (LResolveDeadline t) = Some s' /\ tp s' t = TDone XResolveErr dl 0 [] (clock s) /\
             aidx s' = aidx s /\ sem s' = sem s /\ clock s' = clock s.
Proof. exact resolve_deadline. Qed.
Print Assumptions C41_resolver_deadline.

(* non-vacuity: Concurrency 1, two dials, the second waits for the semaphore and times out at its deadline *)
Example C41_ex_semaphore_timeout :
  match drun (mkCfg 1 1) dsinit [LStart 0 160; LDraw 0; LCheck 0; LAcqFast 0; LTick 15; LStart 1 60; LDraw 1; LCheck 1; LAcqFull 1;
                                 LTick 60; LSemTimeout 1; LTick 85; LConnDeadline 0] with
  | Some s => tp s 1 = TDone (XTimeout 0) 75 2 [] 75 /\ tp s 0 = TDone (XTimeout 0) 160 1 [0] 160 /\ sem s = 0
  | None => False end.
Proof. vm_compute. repeat split; reflexivity. Qed.

(* non-vacuity: Concurrency 1; A (timeout 550) hangs and holds the slot; B (started at 25, timeout 600) waits 525 for it and
   then connects: its connect is cut at 625 = B's deadline (not at 550 + 600), so B returns after 600, not after 1125 *)
Example C41_ex_wait_then_connect :
  match drun (mkCfg 1 1) dsinit [LStart 0 550; LDraw 0; LCheck 0; LAcqFast 0; LTick 25; LStart 1 600; LDraw 1; LCheck 1; LAcqFull 1;
                                 LTick 525; LConnDeadline 0; LAcqSlow 1; LTick 75; LConnDeadline 1] with
  | Some s => tp s 0 = TDone (XTimeout 0) 550 1 [0] 550 /\ tp s 1 = TDone (XTimeout 0) 625 2 [0] 625
  | None => False end.
Proof. vm_compute. repeat split; reflexivity. Qed.
