(* BodyConsumeSpec.v — what C02 demands, independent of how the server reads bodies.

   (1) framed_len: where a request's body ends according to its framing (RFC 9112 section 6):
       Content-Length n -> n bytes; chunked -> every chunk "size-line data CRLF", the last-chunk
       line and the trailer section; neither -> no body.  A chunk whose data is not followed by
       CRLF has no end: the message is malformed and the connection must not be reused.
   (2) boundaries of a pipelined connection: request i+1 starts where request i's framed body ends.
   (3) judge: the property oracle on an OBSERVED trace of one connection (used unchanged on the
       model's trace in the theorems and on the implementation's trace in Check/C02Check.v):
       the handler invocations are exactly the requests that were sent, in order, each at most
       once, nothing else is ever dispatched or answered, a response the server produced without
       calling the handler is only allowed for a request it may refuse and ends the connection, and
       after a request whose body has no end (malformed, or cut off) nothing more happens.
       Whether a response reaches the peer is not part of C02: a handler call without a response is accepted. *)
From FH Require Import Model.Base Model.BodyConsume.
Open Scope Z_scope.

Definition chunk_framed (c : chunk) : Z := ch_line c + ch_size c + 2.

Definition framed_len (f : framing) : option Z :=
  match f with
  | FNone => Some 0
  | FFixed n => Some n
  | FChunked cs zl tl =>
      if forallb ch_ok cs then Some (fold_right (fun c a => chunk_framed c + a) 0 cs + zl + tl) else None
  end.

(* the body of the request is completely present and has an end *)
Definition well_framed (r : req) : bool :=
  match framed_len (r_fr r), r_lim r with Some _, None => true | _, _ => false end.

(* total wire length of a well-framed request *)
Definition req_len (r : req) : Z :=
  r_head r + match framed_len (r_fr r) with Some n => n | None => 0 end.

(* start offsets of the requests of a connection that starts at base *)
Fixpoint boundaries (base : Z) (rs : list req) : list Z :=
  match rs with
  | [] => []
  | r :: rest => base :: boundaries (base + req_len r) rest
  end.

(* offsets strictly inside some request body (or head) of the connection: never a legal place to start parsing *)
Fixpoint inside_some_message (base : Z) (rs : list req) (off : Z) : bool :=
  match rs with
  | [] => false
  | r :: rest => ((base <? off) && (off <? base + req_len r)) || inside_some_message (base + req_len r) rest off
  end.

Definition data_len (f : framing) : Z :=
  match f with
  | FNone => 0
  | FFixed n => n
  | FChunked cs _ _ => fold_right (fun c a => ch_size c + a) 0 cs
  end.

Definition expectation_rejected (c : cfg) (r : req) : bool :=
  r_expect r &&
  (if c_expectH c then negb (r_expect_status r =? 100)
   else if c_continueH c then negb (r_continue_ok r) else false).

(* the server may answer this request itself (error / 417 ...) instead of calling the handler *)
Definition may_refuse (c : cfg) (r : req) : bool :=
  negb (r_uri_ok r)
  || (c_getonly c && negb (r_getlike r))
  || expectation_rejected c r
  || negb (well_framed r)
  || (emax c r <? data_len (r_fr r))
  || match r_mp r with Some false => true | _ => false end.

(* observed trace: E100 / EDispatch / EResp / EHijack only *)
Fixpoint judge (c : cfg) (rs : list req) (tr : list event) : bool :=
  match tr with
  | [] => true                                         (* the server closed the connection: always allowed *)
  | _ =>
    match rs with
    | [] => false                                      (* something was dispatched or answered that nobody sent *)
    | r :: rest =>
        let '(had100, tr1) := match tr with E100 :: t => (true, t) | _ => (false, tr) end in
        (if had100 then r_expect r else true) &&
        match tr1 with
        | EDispatch id _ _ :: EResp _ _ :: t =>
            (id =? r_id r) && negb (expectation_rejected c r) &&
            (match t with
             | EHijack :: t' => match t' with [] => true | _ => false end
             | _ => if well_framed r then judge c rest t else match t with [] => true | _ => false end
             end)
        | EDispatch id _ _ :: t =>
            (* the handler ran but no response is seen (the connection ended first): C02 says nothing about
               delivery; what follows must still be the following requests *)
            (id =? r_id r) && negb (expectation_rejected c r) &&
            (if well_framed r then judge c rest t else match t with [] => true | _ => false end)
        | [EResp _ _] => may_refuse c r                (* the server's own answer: allowed for such a request, and it is the end *)
        | [] => r_expect r                             (* only "100 Continue", then closed *)
        | _ => false
        end
    end
  end.
