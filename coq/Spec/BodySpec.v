(* BodySpec.v — what C34 / C07 demand, independent of the code.

   * chunked transfer coding per RFC 9112 section 7.1, as a reference decoder
       chunked-body = *chunk last-chunk trailer-section CRLF
       chunk        = chunk-size [ chunk-ext ] CRLF chunk-data CRLF
     (`spec_dechunk` returns the decoded data and what follows the last-chunk line);
   * "framed length": the body length a message announces through its framing;
   * the size-limit demand: with a positive limit L a reader returns at most L body bytes and
     never turns an over-long framed body into a shorter successful one. *)
From FH Require Import Model.Base Spec.IntsSpec.
Open Scope Z_scope.

Definition zlen (b : bytes) : Z := Z.of_nat (length b).

(* split at the first CRLF: (line, rest after CRLF) *)
Fixpoint split_crlf (b : bytes) : option (bytes * bytes) :=
  match b with
  | [] => None
  | c :: r =>
      match r with
      | c2 :: r2 =>
          if (c =? 13)%N && (c2 =? 10)%N then Some ([], r2)
          else match split_crlf r with Some (l, rest) => Some (c :: l, rest) | None => None end
      | [] => None
      end
  end.

(* chunk-ext: empty, or optional whitespace-free ';' list — the reference accepts anything
   after the size that does not contain CR or LF and starts with ';' *)
Definition ext_ok (e : bytes) : bool :=
  match e with
  | [] => true
  | c :: r => (c =? 59)%N && forallb (fun x => negb ((x =? 13)%N || (x =? 10)%N)) r
  end.

Fixpoint spec_dechunk (fuel : nat) (b : bytes) : option (bytes * bytes) :=
  match fuel with
  | O => None
  | S f =>
      match split_crlf b with
      | None => None
      | Some (line, r) =>
          let (d, ext) := span_hex line in
          match d with
          | [] => None
          | _ =>
              if negb (ext_ok ext) then None else
              let n := hex_value d in
              if n =? 0 then Some ([], r)
              else if n + 2 <=? zlen r then
                let data := firstn (Z.to_nat n) r in
                let after := skipn (Z.to_nat n) r in
                match after with
                | 13%N :: 10%N :: r' =>
                    match spec_dechunk f r' with
                    | Some (body, rest) => Some (data ++ body, rest)
                    | None => None
                    end
                | _ => None
                end
              else None
          end
      end
  end.

Definition dechunk (b : bytes) : option (bytes * bytes) := spec_dechunk (S (length b)) b.

(* C34: what a peer receives equals what the stream produced *)
Definition received_fixed_ok (wire_body produced : bytes) : bool := beq wire_body produced.
Definition received_chunked_ok (wire_body produced : bytes) : bool :=
  match dechunk wire_body with
  | Some (body, _) => beq body produced
  | None => false
  end.

(* C07: the limit demand on one read.  framed = the body length announced by the framing
   (None when the framing is broken or incomplete), result = Some |body| when the reader
   returned a body, too_large = it returned ErrBodyTooLarge. *)
Definition limit_ok (L : Z) (framed : option Z) (result : option Z) (too_large : bool) : bool :=
  if L <=? 0 then true
  else
    match result with
    | Some n =>
        (n <=? L) && match framed with Some m => (m <=? L) && (n =? m) | None => true end
    | None =>
        match framed with
        | Some m => if m >? L then too_large else true
        | None => true
        end
    end.
