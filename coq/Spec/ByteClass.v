(* Defining predicates of the byte-class tables, written from RFC 3986 / RFC 9110 /
   RFC 5234 — not from the Go generator. *)
From FH Require Import Model.Base.
Open Scope N_scope.

Definition in_range (lo hi c : N) : bool := (lo <=? c) && (c <=? hi).
Definition is_DIGIT c := in_range 48 57 c.
Definition is_UPALPHA c := in_range 65 90 c.
Definition is_LOALPHA c := in_range 97 122 c.
Definition is_ALPHA c := is_UPALPHA c || is_LOALPHA c.
Definition memb (c : N) (l : list N) : bool := existsb (N.eqb c) l.

(* hex digit value, 16 for non-digits *)
Definition hex_spec (c : N) : N :=
  if is_DIGIT c then c - 48
  else if in_range 97 102 c then c - 87
  else if in_range 65 70 c then c - 55
  else 16.
Definition lower_spec (c : N) : N := if is_UPALPHA c then c + 32 else c.
Definition upper_spec (c : N) : N := if is_LOALPHA c then c - 32 else c.

(* RFC 3986 2.3: unreserved = ALPHA / DIGIT / "-" / "." / "_" / "~" *)
Definition unreserved (c : N) : bool := is_ALPHA c || is_DIGIT c || memb c (s2b "-._~").
Definition arg_escape_spec (c : N) : N := if unreserved c then 0 else 1.
(* path: additionally $ & + , / : ; = @ stay unescaped (net/url encodePath) *)
Definition path_escape_spec (c : N) : N := if unreserved c || memb c (s2b "$&+,/:;=@") then 0 else 1.

(* RFC 9110 5.6.2: tchar *)
Definition tchar (c : N) : bool := is_ALPHA c || is_DIGIT c || memb c (s2b "!#$%&'*+-.^_`|~").
Definition tchar_spec (c : N) : N := if tchar c then 1 else 0.
(* RFC 9110 5.5: field-vchar = VCHAR / obs-text, plus SP / HTAB inside field-content *)
Definition field_value_byte (c : N) : bool := in_range 33 126 c || (c =? 32) || (c =? 9) || (128 <=? c).
Definition field_value_spec (c : N) : N := if field_value_byte c then 1 else 0.

(* net/textproto.CanonicalMIMEHeaderKey: a string with a non-token byte is returned
   unchanged; otherwise the first letter and every letter after '-' is upper-cased,
   the rest lower-cased. *)
Fixpoint canon_go (up : bool) (s : bytes) : bytes :=
  match s with
  | [] => []
  | c :: r => let c' := if up then upper_spec c else lower_spec c in c' :: canon_go (c' =? 45) r
  end.
Definition canonical_mime (s : bytes) : bytes := if forallb tchar s then canon_go true s else s.

(* html.EscapeString *)
Definition html_esc (c : N) : bytes :=
  if c =? 38 then s2b "&amp;" else if c =? 60 then s2b "&lt;" else if c =? 62 then s2b "&gt;"
  else if c =? 34 then s2b "&#34;" else if c =? 39 then s2b "&#39;" else [c].
Definition html_escape (s : bytes) : bytes := flat_map html_esc s.
