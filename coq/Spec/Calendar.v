(* Proleptic Gregorian calendar arithmetic, standing for Go's time.Date / Time.Date() / Unix()
   (standard library, trusted; validated against the real `time` package by the C31 harness).
   Day numbers count from 0001-01-01 = 0.  One 400-year era has 146097 days. *)
From FH Require Import Model.Base.
Open Scope Z_scope.

Definition is_leap (y : Z) : bool := (y mod 4 =? 0) && (negb (y mod 100 =? 0) || (y mod 400 =? 0)).
Definition days_in_month (y m : Z) : Z :=
  if m =? 2 then (if is_leap y then 29 else 28)
  else if (m =? 4) || (m =? 6) || (m =? 9) || (m =? 11) then 30 else 31.
(* days before month m (1..12) in a non-leap year *)
Definition dbm_tab : list Z := [0; 31; 59; 90; 120; 151; 181; 212; 243; 273; 304; 334].
Definition days_before_month (leap : bool) (m : Z) : Z :=
  nth (Z.to_nat (m - 1)) dbm_tab 0 + (if leap && (m >? 2) then 1 else 0).

(* within an era: yoe = years since the era start (0..399), year number yoe+1 modulo 400 *)
Definition dfc_era (yoe m d : Z) : Z :=
  365 * yoe + yoe / 4 - yoe / 100 + days_before_month (is_leap (yoe + 1)) m + d - 1.
(* time.Date normalises an out-of-range day by simply adding days: same formula for any d *)
Definition days_from_civil (y m d : Z) : Z := 146097 * ((y - 1) / 400) + dfc_era ((y - 1) mod 400) m d.

Fixpoint month_of_doy (leap : bool) (doy : Z) (m : nat) : Z :=
  match m with
  | O => 1
  | S m' => if doy >=? days_before_month leap (Z.of_nat m + 1) then Z.of_nat m + 1 else month_of_doy leap doy m'
  end.
Definition cfd_era (doe : Z) : Z * Z * Z :=
  let yoe := (doe - doe / 1460 + doe / 36524 - doe / 146096) / 365 in
  let doy := doe - (365 * yoe + yoe / 4 - yoe / 100) in
  let leap := is_leap (yoe + 1) in
  let m := month_of_doy leap doy 11 in
  (yoe, m, doy - days_before_month leap m + 1).
Definition civil_from_days (n : Z) : Z * Z * Z :=
  let era := n / 146097 in
  match cfd_era (n mod 146097) with (yoe, m, d) => (yoe + 1 + 400 * era, m, d) end.

(* 1970-01-01 as a day number *)
Definition epoch_days : Z := 719162.
Definition unix_of_civil (y m d hh mi ss : Z) : Z :=
  (days_from_civil y m d - epoch_days) * 86400 + hh * 3600 + mi * 60 + ss.
Definition weekday_of_days (n : Z) : Z := n mod 7.   (* 0 = Monday: 0001-01-01 was a Monday *)
