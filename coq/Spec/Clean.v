(* Clean.v — "located lexically inside Root" (property C23).

   inside root p :  p is root itself, or root followed by "/" and a relative path none of whose
   '/'-separated segments is "..".

   Justification of the choice: for such a p, path.Clean / filepath.Clean can only drop empty and "."
   segments of the relative part; without a ".." segment nothing can climb, so the cleaned name is
   Clean(root) or starts with Clean(root)+"/".  This is the purely lexical notion the property
   speaks of (symbolic links are out of scope).  A name such as root++".gz" (a sibling of root) is
   NOT inside root.

   inside_fs p : for an FS over an io/fs.FS the name is interpreted by that fs.FS relative to its own
   top; it cannot leave it lexically when it is not absolute and has no ".." segment. *)
From FH Require Import Model.Base Spec.Rfc3986.
Open Scope N_scope.

Definition no_dotdot (rel : bytes) : Prop := ~ In sDotDot (split_segs rel).
Definition no_dotdotb (rel : bytes) : bool := negb (existsb is_dotdot (split_segs rel)).

Definition inside (root p : bytes) : Prop :=
  p = root \/ exists rel, p = root ++ SLASH :: rel /\ no_dotdot rel.

Definition insideb (root p : bytes) : bool :=
  beq p root ||
  (starts (root ++ [SLASH]) p && no_dotdotb (skipn (length root + 1) p)).

Definition inside_fs (p : bytes) : Prop :=
  no_dotdot p /\ match p with c :: _ => c <> SLASH | [] => True end.
Definition inside_fsb (p : bytes) : bool :=
  no_dotdotb p && match p with c :: _ => negb (c =? SLASH) | [] => true end.

(* path.Clean restricted to what can occur in an absolute name without ".." segments: drop empty and "." segments *)
Definition lex_clean (p : bytes) : bytes :=
  match p with
  | c :: r => if c =? SLASH
              then match filter (fun s => nonempty s && negb (is_dot s)) (split_segs r) with
                   | [] => [SLASH]
                   | l => join_segs l
                   end
              else p
  | [] => []
  end.
