(* ClientConnSpec.v — what C04 demands of the connection models (Model/ClientConn.v), stated on ghost tags.
   Every symbol on the wire is tagged with the id of the request it answers; the client code never sees tags. *)
From FH Require Import Model.Base Model.ClientConn.
Open Scope nat_scope.
Open Scope list_scope.

(* HostClient: the symbols call t has been given once Do returned nil: head, buffered body, and whatever the caller has read from a
   streamed body so far *)
Definition delivered (s : st) (t : nat) : option (opts * list tsym) :=
  match s_thr s t with
  | TDone x OOk _ => Some (x_opts x, x_got x)
  | TRun x p _ => if is_stream_phase p then Some (x_opts x, x_got x) else None
  | _ => None
  end.

(* "never another request's bytes" *)
Definition all_own (t : nat) (g : list tsym) : Prop := Forall (fun ts => fst ts = t) g.

(* "the response the server produced for that call's own request": g is an initial part of the wire form of the response the
   server produced when it read request t (all of it for a call that was read to the end) *)
Definition response_of (s : st) (t : nat) (o : opts) (g : list tsym) : Prop :=
  exists r rest, s_ans s t = Some r /\ wf_resp r = true /\ g ++ rest = twire t (o_kind o) r.

(* every connection in the idle pool is clean *)
Definition pool_clean (s : st) : Prop := forall k, In k (s_idle s) -> clean k.

(* PipelineClient: what a call that got w.done with a nil error was given *)
Definition p_response_of (s : pst) (id : nat) (kd : kind) (g : list tsym) : Prop :=
  exists r, In (id, r) (p_log s) /\ wf_resp r = true /\ g = twire id kd r.

(* The pooled bufio.Reader a call reads its response through (hc.AcquireReader ... hc.ReleaseReader).  A body stream returned to the
   caller keeps reading through it, so it must stay out of the pool - and out of every other call's hands - until the stream is
   closed. *)
Definition holds_reader (th : thread) : option nat :=
  match th with
  | TRun x PAcq _ => None
  | TRun x _ _ => x_rd x
  | _ => None
  end.
Definition readers_owned (s : st) : Prop :=
  (* every call past AcquireReader - reading the head, the body, or having returned a body stream not closed yet - has a reader *)
  (forall t x p k, s_thr s t = TRun x p k -> p <> PAcq -> exists r, holds_reader (s_thr s t) = Some r) /\
  (* which is not in the pool *)
  (forall t r, holds_reader (s_thr s t) = Some r -> ~ In r (s_rfree s)) /\
  (* and is nobody else's *)
  (forall t1 t2 r, holds_reader (s_thr s t1) = Some r -> holds_reader (s_thr s t2) = Some r -> t1 = t2).
