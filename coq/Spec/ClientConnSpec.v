(* ClientConnSpec.v — what C04 demands of the connection models (Model/ClientConn.v), stated on ghost tags.
   Every symbol on the wire is tagged with the id of the request it answers; the client code never sees tags. *)
From FH Require Import Model.Base Model.ClientConn.
Open Scope nat_scope.
Open Scope list_scope.

(* HostClient: the symbols call t has been given once Do returned nil: head, buffered body, and whatever the caller has read from a
   streamed body so far *)
Definition delivered (s : st) (t : nat) : option (opts * list tsym) :=
  match s_thr s t with
  | TDone x OOk _ => Some (x_opts x, x_got x)
  | TRun x p _ => if is_stream_phase p then Some (x_opts x, x_got x) else None
  | _ => None
  end.

(* "never another request's bytes" *)
Definition all_own (t : nat) (g : list tsym) : Prop := Forall (fun ts => fst ts = t) g.

(* "the response the server produced for that call's own request": g is an initial part of the wire form of the response the
   server produced when it read request t (all of it for a call that was read to the end) *)
Definition response_of (s : st) (t : nat) (o : opts) (g : list tsym) : Prop :=
  exists r rest, s_ans s t = Some r /\ wf_resp r = true /\ g ++ rest = twire t (o_kind o) r.

(* every connection in the idle pool is clean *)
Definition pool_clean (s : st) : Prop := forall k, In k (s_idle s) -> clean k.

(* PipelineClient: what a call that got w.done with a nil error was given *)
Definition p_response_of (s : pst) (id : nat) (kd : kind) (g : list tsym) : Prop :=
  exists r, In (id, r) (p_log s) /\ wf_resp r = true /\ g = twire id kd r.
