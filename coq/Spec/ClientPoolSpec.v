(* What C18 demands of the connection pool, stated on the abstract state of Model/ClientPool.v. *)
From FH Require Import Model.Base Gen.GenC18 Model.ClientPool.
Open Scope Z_scope.

Inductive reach (cf : cfg) : st -> Prop :=
| reach_init : reach cf init
| reach_step : forall s l s', reach cf s -> step cf s l = Some s' -> reach cf s'.

(* ConnsCount is exactly: connections that exist (idle / lent / in hand-over / inside Close), plus dials in flight
   (plus dialConnFor goroutines that failed and are about to give their slot back). *)
Definition exact_accounting (s : st) : Prop :=
  cnt s = Z.of_nat (length (held s) + length (closing s) + length (dials s) + decs s).

Definition count_bound (cf : cfg) (s : st) : Prop := 0 <= cnt s <= eff_max cf.

(* Every connection that was ever dialled is in exactly one place: the idle list, one requester, one hand-over,
   one delivered wantConn, the cleaner's private copy, or the log of connections whose Close() was called.
   So: a connection is never lent twice, never lent or kept idle after Close, Close is called at most once per
   connection, and no connection silently leaves the pool (held or closed, nothing else). *)
Definition exclusive (s : st) : Prop :=
  NoDup (held s ++ closelog s) /\ forall c, In c (held s ++ closelog s) <-> (c < next s)%nat.

(* connections inside Close() are a part of the close log *)
Definition closing_logged (s : st) : Prop := forall c, In c (closing s) -> In c (closelog s).

(* the strict reading of "never more than MaxConns connections open or being dialled" *)
Definition open_bound (cf : cfg) (s : st) : Prop := open_or_dialling s <= eff_max cf.

(* every AcquireConn call that is still inside the wait path is within its deadline *)
Definition within_deadline (s : st) : Prop :=
  forall w, In w (wants s) -> pending w = true -> clock s <= wdl w.

(* no request is pending, every connection is closed *)
Definition quiescent (s : st) : Prop :=
  held s = [] /\ closing s = [] /\ dials s = [] /\ decs s = 0%nat /\ (forall w, In w (wants s) -> pending w = false).

