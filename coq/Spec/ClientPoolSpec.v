(* What C18 demands of the connection pool, stated on the abstract state of Model/ClientPool.v. *)
From FH Require Import Model.Base Gen.GenC18 Model.ClientPool.
Open Scope Z_scope.

Inductive reach (cf : cfg) : st -> Prop :=
| reach_init : reach cf init
| reach_step : forall s l s', reach cf s -> step cf s l = Some s' -> reach cf s'.

(* ConnsCount is exactly: connections that exist (idle / lent / in hand-over / inside Close), plus dials in flight
   (plus dialConnFor goroutines that failed and are about to give their slot back). *)
Definition exact_accounting (s : st) : Prop :=
  cnt s = Z.of_nat (length (held s) + length (closing s) + length (dials s) + decs s).

Definition count_bound (cf : cfg) (s : st) : Prop := 0 <= cnt s <= eff_max cf.

(* a connection is in at most one place (idle list, one requester, one hand-over, one delivered
   wantConn, or being closed), and only connections that were really dialled appear *)
Definition exclusive (s : st) : Prop :=
  NoDup (held s ++ closing s) /\ forall c, In c (held s ++ closing s) -> (c < next s)%nat.

(* the strict reading of "never more than MaxConns connections open or being dialled" *)
Definition open_bound (cf : cfg) (s : st) : Prop := open_or_dialling s <= eff_max cf.

(* every AcquireConn call that is still inside the wait path is within its deadline *)
Definition within_deadline (s : st) : Prop :=
  forall w, In w (wants s) -> pending w = true -> clock s <= wdl w.

(* no request is pending, every connection is closed *)
Definition quiescent (s : st) : Prop :=
  held s = [] /\ closing s = [] /\ dials s = [] /\ decs s = 0%nat /\ (forall w, In w (wants s) -> pending w = false).

