(* Spec/CompressSpec.v — what C22 demands, independent of the model:
   - which content codings a request accepts (RFC 9110 12.5.3 Accept-Encoding, list semantics with weights),
   - what "carries Vary: Accept-Encoding" means (RFC 9110 12.5.5, list membership),
   - what a transparent response is (it decodes, per the coding it declares, to the handler's body). *)
From FH Require Import Model.Base.
Open Scope N_scope.

Inductive coding := Gzip | Deflate | Br | Zstd.
Definition coding_eqb (a b : coding) : bool :=
  match a, b with Gzip, Gzip | Deflate, Deflate | Br, Br | Zstd, Zstd => true | _, _ => false end.

(* the registered names of the codings *)
Definition coding_name (k : coding) : bytes :=
  match k with Gzip => s2b "gzip" | Deflate => s2b "deflate" | Br => s2b "br" | Zstd => s2b "zstd" end.

(* ---- comma separated lists ---- *)
Fixpoint split_comma (s : bytes) : list bytes :=
  match s with
  | [] => [[]]
  | c :: r => if c =? COMMA then [] :: split_comma r
              else match split_comma r with e :: es => (c :: e) :: es | [] => [[c]] end
  end.

Definition is_ows (c : N) : bool := (c =? SP) || (c =? HT).
Fixpoint trim_left (s : bytes) : bytes :=
  match s with
  | c :: r => if is_ows c then trim_left r else s
  | [] => []
  end.
Definition trim_ows (s : bytes) : bytes := rev (trim_left (rev (trim_left s))).

Definition lower (c : N) : N := if (65 <=? c) && (c <=? 90) then c + 32 else c.
Definition ieq (a b : bytes) : bool := beq (map lower a) (map lower b).   (* codings and field names are case-insensitive *)

(* ---- one element of Accept-Encoding:  codings [ OWS ";" OWS "q=" qvalue ] ---- *)
Definition stopc (c : N) : bool := is_ows c || (c =? SEMI).
Fixpoint span_coding (e : bytes) : bytes * bytes :=
  match e with
  | [] => ([], [])
  | c :: r => if stopc c then ([], e) else let (a, b) := span_coding r in (c :: a, b)
  end.

Definition is_q (c : N) : bool := (c =? 113) || (c =? 81).
Definition digit_or_dot (c : N) : bool := ((48 <=? c) && (c <=? 57)) || (c =? DOT).
Definition nonzero_digit (c : N) : bool := (49 <=? c) && (c <=? 57).

(* the weight after the coding: None = not of the form OWS ";" OWS "q=" qvalue; Some b = weight present (or absent: 1), b = it is > 0 *)
Definition weight (rest : bytes) : option bool :=
  match trim_left rest with
  | [] => Some true
  | c :: r =>
      if c =? SEMI then
        match trim_left r with
        | q :: e :: v =>
            if is_q q && (e =? EQS) && negb (match v with [] => true | _ => false end) && forallb digit_or_dot v
            then Some (existsb nonzero_digit v) else None
        | _ => None
        end
      else None
  end.

Definition elem_coding (e : bytes) : bytes := fst (span_coding (trim_ows e)).
Definition elem_weight (e : bytes) : option bool := weight (snd (span_coding (trim_ows e))).

(* the element names the coding with a positive weight *)
Definition elem_accepts (e tok : bytes) : bool :=
  ieq (elem_coding e) tok && match elem_weight e with Some true => true | _ => false end.
Definition elem_names (e tok : bytes) : bool := ieq (elem_coding e) tok.
Definition elem_wf (e : bytes) : bool := match elem_weight e with Some _ => true | None => false end.

Definition sStar : bytes := s2b "*".

(* a coding is acceptable when it is listed with a positive weight, or not listed at all while "*" is *)
Definition accepts (ae tok : bytes) : bool :=
  let es := split_comma ae in
  existsb (fun e => elem_accepts e tok) es
  || (negb (existsb (fun e => elem_names e tok) es) && existsb (fun e => elem_accepts e sStar) es).
Definition ae_wf (ae : bytes) : bool := forallb elem_wf (split_comma ae).

(* several Accept-Encoding lines are one list; no Accept-Encoding field at all: every coding is acceptable *)
Fixpoint join_comma (l : list bytes) : bytes :=
  match l with
  | [] => []
  | [x] => x
  | x :: r => x ++ COMMA :: join_comma r
  end.
Definition accepts_lines (lines : list bytes) (tok : bytes) : bool :=
  match lines with [] => true | _ => accepts (join_comma lines) tok end.
Definition lines_wf (lines : list bytes) : bool := forallb ae_wf lines.

(* ---- Vary ---- *)
Definition sAcceptEncoding : bytes := s2b "Accept-Encoding".
Definition vary_has (lines : list bytes) (member : bytes) : bool :=
  existsb (fun l => existsb (fun e => ieq (trim_ows e) member) (split_comma l)) lines.

(* ---- transparency ---- *)
(* a response body as it is sent: not coded, or the complete / incomplete output of a coder *)
Inductive wire :=
| WPlain (b : bytes)
| WCoded (k : coding) (payload : bytes) (complete : bool).

Section Codec.
  (* the third-party codecs: trusted, and tested on the real libraries on every run *)
  Variable enc : coding -> Z -> bytes -> bytes.
  Variable dec : coding -> bytes -> bytes.
  Hypothesis dec_enc : forall k lvl x, dec k (enc k lvl x) = x.

  (* what a recipient gets by decoding per the declared Content-Encoding; None: the decoder reports an error
     (every one of the four formats is self-terminating: a stream whose end was never written does not decode) *)
  Definition decode (w : wire) : option bytes :=
    match w with
    | WPlain b => Some b
    | WCoded k p true => Some (dec k p)
    | WCoded _ _ false => None
    end.
End Codec.
