(* Specification vocabulary for C06: cookie-octets and tokens (RFC 6265 / RFC 9110), separator neutralisation,
   the cosmetic normalisation a cookie parser applies to an attribute value (outer spaces, one pair of quotes),
   and "the cookies that were set" by a sequence of RequestHeader.SetCookie calls. *)
From FH Require Import Model.Base.
Open Scope N_scope.

(* RFC 6265 4.1.1: cookie-octet = %x21 / %x23-2B / %x2D-3A / %x3C-5B / %x5D-7E  (no CTL, SP, DQUOTE, comma, ';', '\') *)
Definition cookie_octet (c : N) : bool :=
  (c =? 33) || ((35 <=? c) && (c <=? 43)) || ((45 <=? c) && (c <=? 58)) || ((60 <=? c) && (c <=? 91)) || ((93 <=? c) && (c <=? 126)).
Definition octets (s : bytes) : bool := forallb cookie_octet s.
(* token for cookie names: cookie-octets without '=' (a name containing '=' cannot be told from name=value) *)
Definition name_octet (c : N) : bool := cookie_octet c && negb (c =? 61).
Definition cookie_name (s : bytes) : bool := match s with [] => false | _ => forallb name_octet s end.

(* separators that must never survive in a stored field *)
Definition is_sep (c : N) : bool := (c =? 59) || (c =? 13) || (c =? 10).
Definition no_sep (s : bytes) : bool := forallb (fun c => negb (is_sep c)) s.
Definition clean (s : bytes) : bytes := map (fun c => if is_sep c then 32 else c) s.

(* outer spaces and one pair of surrounding double quotes are not significant in an attribute value *)
Fixpoint lstrip (s : bytes) : bytes := match s with c :: r => if c =? 32 then lstrip r else s | [] => [] end.
Definition strip (s : bytes) : bytes := rev (lstrip (rev (lstrip s))).
Definition unq (s : bytes) : bytes :=
  match s with
  | c :: r => if c =? 34 then match rev r with d :: m => if d =? 34 then rev m else s | [] => s end else s
  | [] => s
  end.
Definition attr_norm (s : bytes) : bytes := unq (strip s).

(* ---- request side: the cookies that were set ---- *)
Fixpoint assoc_set (j : list (bytes * bytes)) (k v : bytes) : list (bytes * bytes) :=
  match j with
  | [] => [(k, v)]
  | (k', v') :: r => if beq k k' then (k', v) :: r else (k', v') :: assoc_set r k v
  end.
Definition jar_of (sets : list (bytes * bytes)) : list (bytes * bytes) :=
  fold_left (fun j kv => assoc_set j (clean (fst kv)) (clean (snd kv))) sets [].

Fixpoint cut_first (d : N) (b : bytes) : bytes * option bytes :=
  match b with
  | [] => ([], None)
  | c :: r => if c =? d then ([], Some r) else let '(a, t) := cut_first d r in (c :: a, t)
  end.
(* how a server reads the text  key "=" value  (or just value when the key is empty): split at the first '=' *)
Definition pair_text (kv : bytes * bytes) : bytes := match fst kv with [] => snd kv | k => k ++ [61] ++ snd kv end.
Definition seen_pair (kv : bytes * bytes) : bytes * bytes :=
  match cut_first 61 (pair_text kv) with
  | (x, Some v) => (strip x, attr_norm v)
  | (x, None) => ([], attr_norm x)
  end.

Fixpoint subseq (eq : bytes * bytes -> bytes * bytes -> bool) (a b : list (bytes * bytes)) : bool :=
  match a, b with
  | [], _ => true
  | _, [] => false
  | x :: a', y :: b' => if eq x y then subseq eq a' b' else subseq eq a b'
  end.
Definition kv_eqb (a b : bytes * bytes) : bool := beq (fst a) (fst b) && beq (snd a) (snd b).
