(* CtxResetSpec.v — what C11 demands.

   (1) observable_fields: the part of a RequestCtx a handler can see through the public API at the
       moment it is called: the request (method, URI and its parts, header fields, cookies, body,
       query / post arguments, multipart form, user values, TLS flag, flags set by the application
       on a Request), the response (status, header fields, cookies, body, flags) and the hijack /
       timeout marks.  Not observable: configuration copied from the Server (keepBodyBuffer,
       secureErrorLogMessage, s, logger, formValueFunc), scratch buffers that are always written
       before they are read (bufK, bufV, Args.buf, URI.fullURI / requestURI, the body writers' back
       pointers, the TimeoutHandler's channel and timer, the reset-in-place timeoutResponse of a
       ctx that is never pooled, the serve loop's bodyStreamUnread mark), and what belongs to the connection and is assigned by the serve
       loop for every request (c, remoteAddr, connID, connRequestNum, connTime, time, fbr).
   (2) fresh: a ctx is fresh when every observable field has its zero value.
   (3) how a request is dispatched, as a function of the server configuration and that request
       alone: which limits and deadlines apply to it. *)
From Coq Require Import String.
From FH Require Import Model.Base Model.CtxReset.
Open Scope string_scope.
Open Scope Z_scope.

Definition config_fields : list string := [
  "Response.keepBodyBuffer"; "Response.secureErrorLogMessage"; "Response.Header.header.secureErrorLogMessage";
  "Request.keepBodyBuffer"; "Request.secureErrorLogMessage"; "Request.Header.header.secureErrorLogMessage";
  "s"; "logger.ctx"; "logger.logger"; "formValueFunc" ].
Definition scratch_fields : list string := [
  "Response.Header.header.bufK"; "Response.Header.header.bufV"; "Request.Header.header.bufK"; "Request.Header.header.bufV";
  "Request.postArgs.buf"; "Request.uri.queryArgs.buf"; "Request.uri.fullURI"; "Request.uri.requestURI";
  "Response.w.r"; "Request.w.r"; "timeoutCh"; "timeoutTimer"; "timeoutResponse";
  "Request.bodyStreamUnread" (* assigned by the serve loop before every handler call, read after it *) ].
Definition conn_fields : list string := [
  "c"; "remoteAddr"; "connID"; "connRequestNum"; "connTime"; "time"; "fbr.c"; "fbr.ch"; "fbr.byteRead" ].

Definition mem (f : string) (l : list string) : bool := existsb (String.eqb f) l.

Definition observable (f : string) : bool :=
  negb (mem f config_fields) && negb (mem f scratch_fields) && negb (mem f conn_fields).
Definition observable_fields : list string := filter observable all_fields.

Definition fresh (m : state) : Prop := forall f, In f observable_fields -> m f = 0.

(* two ctx are indistinguishable for a handler *)
Definition obs_eq (a b : state) : Prop := forall f, In f observable_fields -> a f = b f.

(* ---- dispatch as a function of the configuration and the request alone ---- *)
Definition spec_max (c : scfg) (q : lreq) : Z :=
  if sc_hasHeaderReceived c && (q_max q >? 0) then q_max q
  else if sc_maxBody c >? 0 then sc_maxBody c else defaultMaxBody.
Definition spec_wt (c : scfg) (q : lreq) : Z :=
  if sc_hasHeaderReceived c && (q_wt q >? 0) then q_wt q else sc_writeTimeout c.
(* the read deadline while the body of the request is read *)
Definition spec_rdl_body (c : scfg) (q : lreq) : Z :=
  if sc_hasHeaderReceived c && (q_rt q >? 0) then q_rt q else sc_readTimeout c.
(* the read deadline while the head of a request is read, once its first byte arrived *)
Definition spec_rdl_head (c : scfg) : Z := sc_readTimeout c.

Definition spec_rejected (c : scfg) (q : lreq) : option Z :=
  if q_expect q then
    if sc_hasExpectH c then (if q_expect_status q =? 100 then None else Some (q_expect_status q))
    else if sc_hasContinueH c then (if q_continue_ok q then None else Some 417)
    else None
  else None.

Definition spec_too_large (c : scfg) (q : lreq) : bool := negb (sc_stream c) && (q_body q >? spec_max c q).

Definition spec_dispatched (c : scfg) (q : lreq) : bool :=
  q_head_ok q && negb (spec_too_large c q) && match spec_rejected c q with None => true | Some _ => false end.

Definition spec_status (c : scfg) (q : lreq) : Z :=
  if negb (q_head_ok q) then 400
  else match spec_rejected c q with
       | Some s => s
       | None => if spec_too_large c q then 400
                 else match q_act q with HTimeout => 408 | _ => 200 end
       end.
