(* Specification for C41 on what an observer of TCPDialer sees (independent of the transition system;
   only the result vocabulary xres / outcome is shared with Model/Dialer.v).

   The observer controls what every resolved address does during a phase (accept / refuse / hang) and records for
   each Dial call: its timeout, its result and how long it took (milliseconds).
     - a Dial that connects, connects to an address that accepts;
     - a Dial fails with a non-timeout error only after trying every address: so only if every address refuses;
     - every Dial returns no later than its timeout plus `slack`; a Dial that ran out of time reports ErrDialTimeout
       wrapped with an upstream address (XTimeout), never something else: when some address hangs or accepts,
       the only possible failure is XTimeout;
     - with Concurrency N the number of connects in progress at any sampling instant is at most N. *)
From FH Require Import Model.Base Gen.GenC41 Model.Dialer.
Open Scope N_scope.

Definition slack_ms : N := 250.

Definition oc_eqb (a b : outcome) : bool :=
  match a, b with OAccept, OAccept | ORefuse, ORefuse | OHang, OHang => true | _, _ => false end.
Definition oracle_of (l : list outcome) (a : N) : outcome := nth (N.to_nat a) l ORefuse.

(* what the observer saw of one Dial: it returned r, or it had not returned `stuck_ms` after its timeout ran out
   (the observer then abandons it) *)
Inductive oxres := Ret (r : xres) | Stuck.

(* one observed Dial: thread id, timeout (ms), result, elapsed (ms) *)
Definition dobs := (N * N * oxres * N)%type.

(* rm = what the observer made the Resolver do in this phase (it is only consulted when there is no cached entry).
   A Resolver error is a legitimate result only when the observer's Resolver failed or hung; in every case the Dial must
   be back no later than its timeout plus slack. *)
Definition rm_bad (rm : rmode) : bool := match rm with RGood => false | _ => true end.
Definition dial_ok (oracle : list outcome) (rm : rmode) (d : dobs) : bool :=
  match d with
  | (_, to, r, el) =>
      (el <=? to + slack_ms) &&
      match r with
      | Ret (XOk a) => oc_eqb (oracle_of oracle a) OAccept
      | Ret (XErr _) => forallb (fun o => oc_eqb o ORefuse) oracle
      | Ret (XTimeout a) => a <? N.of_nat (length oracle)
      | Ret XResolveErr => rm_bad rm
      | Stuck => false       (* a Dial returns no later than its timeout plus slack *)
      end
  end.

(* accepting = every address accepts; otherwise every address hangs and the only legitimate result is XTimeout *)
Definition stress_dial_ok (capn to maxin : N) (accepting : bool) (rs : list (oxres * N)) : bool :=
  ((capn =? 0) || (maxin <=? capn)) &&
  forallb (fun r => (snd r <=? to + slack_ms) &&
                    match fst r with Ret (XOk _) => accepting | Ret (XTimeout _) => true | Ret (XErr _) => false | Ret XResolveErr => false | Stuck => false end) rs.
