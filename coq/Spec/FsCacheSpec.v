(* What C25 demands of a state of the FS cache LTS. *)
From Coq Require Import List ZArith Bool Arith.
From FH Require Import Gen.GenC25 Model.FsCache.
Import ListNotations.

(* files some response / request currently holds a count on *)
Definition held_files (s : st) : list fid := map h_f (holders s).
Definition held_handles (s : st) : list bid :=
  flat_map (fun x => match h_b x with Some b => [b] | None => [] end) (holders s).

(* where an fsFile (its main handle ff.f) is: private to the request that opened it, leaked, in a cache map,
   in pendingFiles, known only to its holders, collected for release, or released *)
Definition loc (s : st) (f : fid) : nat :=
  cnt f (local s) + cnt f (leaked s) + cnt f (map snd (cache s)) + cnt f (pending s) + cnt f (floating s)
  + cnt f (relq s) + released s f.

(* runs in which no request hits the error path that forgets to close (newFSFile failing after Open) *)
Definition is_openfail (l : label) : bool := match l with OpenFail _ => true | _ => false end.
Inductive reach_nofail (cf : cfg) (s0 : st) : st -> Prop :=
| rn_init : reach_nofail cf s0 s0
| rn_step s l s' : reach_nofail cf s0 s -> is_openfail l = false -> step cf s l = Some s' -> reach_nofail cf s0 s'.
