(* Spec/FsRangeSpec.v — what property C24 demands.

   (1) Range header, RFC 9110 section 14.1.2 restricted to ONE byte range whose numbers fit an int:
         bytes=first-[last]   satisfiable iff first < length; last is clamped to length-1; last < first is invalid
         bytes=-k             the last k bytes (all of them when k >= length); unsatisfiable when k = 0
       On an empty representation nothing is satisfiable here (the property's invariant 0 <= start <= end < length
       leaves no range; RFC 9110 would call "bytes=-k", k > 0, satisfiable on a zero-length representation).
   (2) The response an FS handler with byte ranges enabled must give for a regular file. *)
From FH Require Import Model.Base Model.Ints Spec.IntsSpec Spec.HttpDate.
Open Scope Z_scope.

Inductive rspec := RSat (s e : Z) | RUnsat | RInvalid.

Fixpoint strip_prefix (p s : bytes) : option bytes :=
  match p, s with
  | [], _ => Some s
  | x :: p', y :: s' => if (x =? y)%N then strip_prefix p' s' else None
  | _ :: _, [] => None
  end.
(* split at the first occurrence of d *)
Fixpoint cut (d : N) (s : bytes) : option (bytes * bytes) :=
  match s with
  | [] => None
  | c :: r => if (c =? d)%N then Some ([], r)
              else match cut d r with Some (a, b) => Some (c :: a, b) | None => None end
  end.
(* 1*DIGIT whose value fits an int *)
Definition num (s : bytes) : option Z := spec_parse_uint (maxInt 64) s.

Definition spec_range (r : bytes) (n : Z) : rspec :=
  match strip_prefix (s2b "bytes=") r with
  | None => RInvalid
  | Some x =>
      match cut 45 x with
      | None => RInvalid
      | Some ([], b) =>
          match num b with
          | None => RInvalid
          | Some k => if (k =? 0) || (n <=? 0) then RUnsat else RSat (Z.max 0 (n - k)) (n - 1)
          end
      | Some (a, b) =>
          match num a with
          | None => RInvalid
          | Some first =>
              match b with
              | [] => if first <? n then RSat first (n - 1) else RUnsat
              | _ => match num b with
                     | None => RInvalid
                     | Some last => if last <? first then RInvalid
                                    else if first <? n then RSat first (Z.min last (n - 1)) else RUnsat
                     end
              end
          end
      end
  end.

(* Content-Range: bytes s-e/n *)
Definition dec (n : Z) : bytes := dec_digits n.
Definition content_range (s e n : Z) : bytes := s2b "bytes " ++ dec s ++ [45%N] ++ dec e ++ [47%N] ++ dec n.

(* "not newer than If-Modified-Since (to the second)": mtime is the file's modification time in whole seconds *)
Definition not_newer (ims : bytes) (mtime : Z) : bool :=
  match ims with
  | [] => false
  | _ => match spec_time_parse ims with Some t => mtime <=? t | None => false end
  end.

(* expected outcome for a regular file of `size` bytes with byte ranges enabled *)
Inductive expect :=
| E304                                  (* no body *)
| E206 (s e : Z)                        (* Content-Range bytes s-e/size, body = bytes s..e *)
| E416
| E416or200                             (* Range value that is not one well-formed byte range: the property does not say *)
| E200.                                 (* full content, possibly content-coded *)
Definition spec_fs (size mtime : Z) (range ims : bytes) : expect :=
  if not_newer ims mtime then E304
  else match range with
       | [] => E200
       | _ => match spec_range range size with
              | RSat s e => E206 s e
              | RUnsat => E416
              | RInvalid => E416or200
              end
       end.
