(* Specification side of C05: what a peer sees when it reads a serialised message head.
   A deliberately simple, independent, line-based reader (no fasthttp logic):
     head   = first-line LF-terminated, then field lines, then an empty line
     line   = bytes up to LF; one CR immediately before the LF belongs to the terminator (bare LF is tolerated, as
              real parsers do)
     field  = name ":" value ; the name is everything before the FIRST colon and must be non-empty; leading
              SP/HT of the value are skipped
   plus the vocabulary of the property: CR/LF-freeness, the names a sequence of setter calls is allowed to
   produce, the neutralisation of CR/LF. *)
From FH Require Import Model.Base.
Open Scope N_scope.

Definition is_crlf (c : N) : bool := (c =? 13) || (c =? 10).
Definition no_crlf (s : bytes) : bool := forallb (fun c => negb (is_crlf c)) s.
(* what "neutralised" means: CR and LF replaced by SP, everything else untouched *)
Definition neutralise (s : bytes) : bytes := map (fun c => if is_crlf c then 32 else c) s.

Fixpoint take_line (b : bytes) : option (bytes * bytes) :=
  match b with
  | [] => None
  | c :: r => if c =? 10 then Some ([], r)
              else match take_line r with Some (l, rest) => Some (c :: l, rest) | None => None end
  end.
Definition strip_cr (l : bytes) : bytes := match rev l with 13 :: m => rev m | _ => l end.

Fixpoint cut_at (d : N) (b : bytes) : bytes * option bytes :=
  match b with
  | [] => ([], None)
  | c :: r => if c =? d then ([], Some r) else let '(a, t) := cut_at d r in (c :: a, t)
  end.
Fixpoint skip_ows (s : bytes) : bytes :=
  match s with c :: r => if (c =? 32) || (c =? 9) then skip_ows r else s | [] => [] end.

Definition split_field (l : bytes) : option (bytes * bytes) :=
  match cut_at 58 l with
  | (_, None) => None
  | ([], Some _) => None
  | (n, Some v) => Some (n, skip_ows v)
  end.

Inductive head := Head (first : bytes) (fields : list (bytes * bytes)) (rest : bytes).

(* fuel = number of bytes: every line consumes at least its LF *)
Fixpoint read_fields (fuel : nat) (b : bytes) : option (list (bytes * bytes) * bytes) :=
  match fuel with
  | O => None
  | S f =>
      match take_line b with
      | None => None
      | Some (raw, rest) =>
          match strip_cr raw with
          | [] => Some ([], rest)
          | l => match split_field l with
                 | None => None
                 | Some fld => match read_fields f rest with
                               | Some (fs, rest') => Some (fld :: fs, rest')
                               | None => None
                               end
                 end
          end
      end
  end.

(* None = the peer rejects the bytes (not a well-formed head) *)
Definition read_head (b : bytes) : option head :=
  match take_line b with
  | None => None
  | Some (raw, rest) =>
      match read_fields (length rest) rest with
      | Some (fs, rest') => Some (Head (strip_cr raw) fs rest')
      | None => None
      end
  end.

(* a trailer block (after the last chunk) is a list of field lines closed by an empty line *)
Definition read_trailer (b : bytes) : option (list (bytes * bytes) * bytes) := read_fields (length b) b.

(* ---- names ---- *)
Definition lower (c : N) : N := if (65 <=? c) && (c <=? 90) then c + 32 else c.
(* names are compared case-insensitively and modulo whitespace before the colon (which lenient peers drop) *)
Definition rtrim (s : bytes) : bytes := rev (skip_ows (rev s)).
Definition name_eq (a b : bytes) : bool := beq (map lower (rtrim a)) (map lower (rtrim b)).
Definition cut_colon (k : bytes) : bytes := fst (cut_at 58 k).

(* the field name a caller asks for with key k: CR/LF neutralised; if the caller's key itself contains a colon the
   peer's name is the part before it (a prefix of what the caller chose — never something else) *)
Definition asked_name (k : bytes) : bytes := cut_colon (neutralise k).

Definition name_allowed (auto : list bytes) (asked : list bytes) (n : bytes) : bool :=
  existsb (name_eq n) auto || existsb (fun k => name_eq n (asked_name k)) asked.

Definition fields_ok (auto asked : list bytes) (fs : list (bytes * bytes)) : bool :=
  forallb (fun nv => no_crlf (fst nv) && no_crlf (snd nv) && name_allowed auto asked (fst nv)) fs.

(* exactly one message head, nothing after it but `body`, no CR/LF inside any field, names among those allowed *)
Definition one_message (auto asked : list bytes) (body : bytes) (out : bytes) : bool :=
  match read_head out with
  | None => false
  | Some (Head first fs rest) => no_crlf first && fields_ok auto asked fs && beq rest body
  end.

(* names fasthttp adds by itself *)
Definition auto_names : list bytes :=
  map s2b ["Server"; "Date"; "Content-Type"; "Content-Encoding"; "Content-Length"; "Transfer-Encoding"; "Trailer";
           "Set-Cookie"; "Connection"; "User-Agent"; "Host"; "Cookie"; "Authorization"; "Proxy-Authorization";
           "Referer"]%string.

(* every line of a serialised block has the shape key ": " value CRLF *)
Fixpoint render_lines (es : list (bytes * bytes)) : bytes :=
  match es with
  | [] => []
  | (k, v) :: r => k ++ [58; 32] ++ v ++ [13; 10] ++ render_lines r
  end.
Definition render_head (first : bytes) (es : list (bytes * bytes)) : bytes :=
  first ++ [13; 10] ++ render_lines es ++ [13; 10].
