(* HeadSpec.v — what C09 / C08 demand of head parsing, independent of the model.

   fasthttp's own line rule (nextLine, readRawHeaders and headerScanner.readLine all use it):
   a line ends at LF; it is BLANK when its content is empty or a single CR.  A head is:
   any number of blank lines, one non-blank line (request / status line), any number of
   non-blank lines, one blank line.  [head_len b] is the length of the shortest prefix of b that
   is a head, computed by a byte-at-a-time state machine (no searching, no slicing). *)
From FH Require Import Model.Base.
Open Scope nat_scope.

Inductive cur3 := CurEmpty | CurCR | CurOther.      (* content of the current line so far: "", "\r", other *)
Definition cur_blank (c : cur3) : bool := match c with CurOther => false | _ => true end.
Definition cur_step (c : cur3) (x : N) : cur3 :=
  if N.eqb x CR then match c with CurEmpty => CurCR | _ => CurOther end else CurOther.

Fixpoint head_len_aux (in_headers : bool) (cur : cur3) (b : bytes) (n : nat) : option nat :=
  match b with
  | [] => None
  | x :: r =>
      if N.eqb x LF then
        if cur_blank cur
        then (if in_headers then Some (S n) else head_len_aux false CurEmpty r (S n))
        else head_len_aux true CurEmpty r (S n)
      else head_len_aux in_headers (cur_step cur x) r (S n)
  end.
Definition head_len (b : bytes) : option nat := head_len_aux false CurEmpty b 0.

(* H is exactly one complete head *)
Definition HeadComplete (H : bytes) : Prop := head_len H = Some (length H).
Definition head_complete (H : bytes) : bool :=
  match head_len H with Some n => n =? length H | None => false end.

(* end of the first non-blank line *)
Fixpoint first_line_end_aux (cur : cur3) (b : bytes) (n : nat) : option nat :=
  match b with
  | [] => None
  | x :: r =>
      if N.eqb x LF then (if cur_blank cur then first_line_end_aux CurEmpty r (S n) else Some (S n))
      else first_line_end_aux (cur_step cur x) r (S n)
  end.
Definition first_line_end (b : bytes) : option nat := first_line_end_aux CurEmpty b 0.

Definition ends_with (p b : bytes) : bool :=
  (length p <=? length b) && beq (skipn (length b - length p) b) p.

(* THE GUARD of the guarded C09 theorems: the header block (what follows the first line) is exactly
   CRLF, or ends in CRLF CRLF (last header line ends in CRLF and the blank line is CRLF). *)
Definition crlf_terminated (H : bytes) : bool :=
  match first_line_end H with
  | Some m => let H' := skipn m H in beq H' [CR; LF] || ends_with [CR; LF; CR; LF] H'
  | None => false
  end.

