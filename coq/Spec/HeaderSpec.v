(* Spec/HeaderSpec.v — the reference model of the documented semantics of RequestHeader / ResponseHeader
   (property C29): an ordered multimap keyed by canonical name.

   State: a list of (canonical name, value) entries in insertion order — nothing else.
   The name of an operation is canonicalised (textproto form when normalisation is on, the exact bytes when it
   is off; CR/LF in names and values become spaces, which is property C05's business and taken as given here),
   then the operation acts according to the documented class of the name:
     ordinary      Set replaces the first value (or appends), Add appends, Del removes every value
     single        (Content-Type, Server, Host, User-Agent, response Content-Encoding) one value; setting the empty
                   value removes it; an absent response Content-Type reads as the default content type
     connection    one value, Set and Add both replace it; a value that carries the `close` option (a list member equal
                   to "close" up to case) reads back as "close"
     number        (Content-Length) one value, only decimal numbers that fit an int are accepted
     cookie jar    (request Cookie) every cookie pair of every value set accumulates; read back as ONE field
                   "k1=v1; k2=v2"
     set-cookie    (response Set-Cookie) every value set accumulates as its own field; Peek joins them with "; "
     trailer       one value: the list of permitted trailer names, canonicalised, joined with ", "
     ignored       (Transfer-Encoding, response Date) managed by the library: setting them is a no-op
   Borrowed vocabulary (owned by other properties, not re-specified here): the canonical form of a name
   (ByteClassModel.normalizeHeaderKey, proved equal to textproto canonicalisation by C32), decimal syntax
   (IntsSpec.spec_parse_uint, C30), the request-cookie pair syntax (Cookie.parseRequestCookies, C06) and the table
   of names that may not be trailers (HeaderWrite.isBadTrailer / isValidTrailerKey), and whether a Connection value
   carries the close option (HeaderWrite.hasHeaderValue, the list-aware test owned by C10). *)
From FH Require Import Model.Base Gen.GenC05 Model.Ints Spec.IntsSpec Model.ByteClassModel Model.Cookie Model.HeaderWrite.
Open Scope N_scope.

Inductive htype := HReq | HResp.
Inductive cls := COrd | CSingle | CConn | CNum | CJar | CSetCookie | CTrailer | CIgnored.

Definition cls_of (t : htype) (c : bytes) : cls :=
  match t with
  | HResp =>
      if beq c strContentType || beq c strContentEncoding || beq c strServer then CSingle
      else if beq c strConnection then CConn
      else if beq c strContentLength then CNum
      else if beq c strSetCookie then CSetCookie
      else if beq c strTrailer then CTrailer
      else if beq c strTransferEncoding || beq c strDate then CIgnored
      else COrd
  | HReq =>
      if beq c strHost || beq c strContentType || beq c strUserAgent then CSingle
      else if beq c strConnection then CConn
      else if beq c strContentLength then CNum
      else if beq c strCookie then CJar
      else if beq c strTrailer then CTrailer
      else if beq c strTransferEncoding then CIgnored
      else COrd
  end.

(* ---- the ordered multimap ---- *)
Definition mm := list (bytes * bytes).
Definition mm_vals (m : mm) (c : bytes) : list bytes := map snd (filter (fun e => beq (fst e) c) m).
Definition mm_del (m : mm) (c : bytes) : mm := filter (fun e => negb (beq (fst e) c)) m.
Definition mm_add (m : mm) (c v : bytes) : mm := m ++ [(c, v)].
Fixpoint mm_set_first (m : mm) (c v : bytes) : mm :=
  match m with
  | [] => [(c, v)]
  | (k, x) :: r => if beq k c then (k, v) :: r else (k, x) :: mm_set_first r c v
  end.
Definition mm_single (m : mm) (c v : bytes) : mm :=
  match v with [] => mm_del m c | _ => mm_set_first m c v end.

(* ---- value vocabulary ---- *)
Definition canon (nonorm : bool) (k : bytes) : bytes := normalizeHeaderKey k nonorm.
Definition clean (v : bytes) : bytes := removeNewLines v.

Fixpoint join (sep : bytes) (l : list bytes) : bytes :=
  match l with
  | [] => []
  | [x] => x
  | x :: r => x ++ sep ++ join sep r
  end.

Fixpoint split_on (d : N) (cur : bytes) (s : bytes) : list bytes :=
  match s with
  | [] => [cur]
  | c :: r => if c =? d then cur :: split_on d [] r else split_on d (cur ++ [c]) r
  end.
(* the permitted trailer names announced by a Trailer value *)
Definition trailer_names (nonorm : bool) (v : bytes) : list bytes :=
  map (fun n => normalizeHeaderKeyValidated n nonorm)
      (filter (fun n => isValidTrailerKey n && negb (isBadTrailer n)) (map trim (split_on 44 [] v))).
Definition trailer_value (nonorm : bool) (v : bytes) : bytes := join strCommaSpace (trailer_names nonorm v).

Definition cookie_str (kv : bytes * bytes) : bytes :=
  match fst kv with [] => snd kv | k => k ++ [61] ++ snd kv end.
Definition cookie_pairs (v : bytes) : list bytes :=
  match parseRequestCookies [] v with Some l => map cookie_str l | None => [] end.

Definition is_int (v : bytes) : bool :=
  match spec_parse_uint (maxInt 64) v with Some _ => true | None => false end.

(* ---- operations ---- *)
Inductive sop := SSet (k v : bytes) | SAdd (k v : bytes) | SDel (k : bytes) | SCopy.

Definition put (t : htype) (nonorm : bool) (add : bool) (m : mm) (k v : bytes) : mm :=
  let c := canon nonorm k in
  let v := clean v in
  match cls_of t c with
  | COrd => if add then mm_add m c v else mm_set_first m c v
  | CSingle => mm_single m c v
  | CConn => mm_set_first m c (if hasHeaderValue v strClose then strClose else v)
  | CNum => if is_int v then mm_set_first m c v else m
  | CJar => m ++ map (fun s => (c, s)) (cookie_pairs v)
  | CSetCookie => mm_add m c v
  | CTrailer => mm_single m c (trailer_value nonorm v)
  | CIgnored => m
  end.

Definition sstep (t : htype) (nonorm : bool) (m : mm) (o : sop) : mm :=
  match o with
  | SSet k v => put t nonorm false m k v
  | SAdd k v => put t nonorm true m k v
  | SDel k => mm_del m (canon nonorm k)
  | SCopy => m
  end.
Definition srun (t : htype) (nonorm : bool) (ops : list sop) : mm := fold_left (sstep t nonorm) ops [].

(* ---- what the getters must return (c is a canonical name) ---- *)
Definition default_of (t : htype) (nodefct : bool) (c : bytes) : bytes :=
  match t with
  | HResp => if beq c strContentType && negb nodefct then defaultContentType else []
  | HReq => []
  end.

(* Peek *)
Definition spec_peek (t : htype) (nodefct : bool) (m : mm) (c : bytes) : bytes :=
  match cls_of t c with
  | CJar | CSetCookie => join semiSpace (mm_vals m c)
  | _ => match mm_vals m c with v :: _ => v | [] => default_of t nodefct c end
  end.

(* PeekAll *)
Definition spec_peek_all (t : htype) (nodefct : bool) (m : mm) (c : bytes) : list bytes :=
  match cls_of t c with
  | COrd | CConn => mm_vals m c
  | CJar | CSetCookie => match mm_vals m c with [] => [] | l => [join semiSpace l] end
  | _ => match mm_vals m c with
         | v :: _ => [v]
         | [] => match default_of t nodefct c with [] => [] | d => [d] end
         end
  end.

(* the values All() / VisitAll yields under the name c, in order *)
Definition spec_all_vals (t : htype) (nodefct : bool) (m : mm) (c : bytes) : list bytes :=
  match cls_of t c with
  | CSetCookie => mm_vals m c
  | _ => spec_peek_all t nodefct m c
  end.

(* the number of fields All() yields *)
Fixpoint names_of (m : mm) (seen : list bytes) : list bytes :=
  match m with
  | [] => []
  | (k, _) :: r => if existsb (beq k) seen then names_of r seen else k :: names_of r (k :: seen)
  end.
