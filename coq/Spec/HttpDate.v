(* What time.Parse(http.TimeFormat = "Mon, 02 Jan 2006 15:04:05 GMT", s) accepts among 29-byte inputs, and
   what Time.AppendFormat(RFC1123)+"GMT" produces — written from the documentation of package time, not from fasthttp. *)
From FH Require Import Model.Base Spec.Calendar.
Open Scope Z_scope.

Definition day_names : list bytes := map s2b ["Mon"; "Tue"; "Wed"; "Thu"; "Fri"; "Sat"; "Sun"]%string.
Definition month_names : list bytes :=
  map s2b ["Jan"; "Feb"; "Mar"; "Apr"; "May"; "Jun"; "Jul"; "Aug"; "Sep"; "Oct"; "Nov"; "Dec"]%string.

(* time's `match`: equal ignoring ASCII case, letters only *)
Definition ci_eq (a b : N) : bool :=
  (a =? b)%N || ((N.lor a 32 =? N.lor b 32)%N && (97 <=? N.lor a 32)%N && (N.lor a 32 <=? 122)%N).
Definition ci_match3 (x : bytes) (name : bytes) : bool :=
  match x, name with
  | [a; b; c], [p; q; r] => ci_eq a p && ci_eq b q && ci_eq c r
  | _, _ => false
  end.
Fixpoint lookup_name (x : bytes) (names : list bytes) (i : Z) : option Z :=
  match names with
  | [] => None
  | n :: r => if ci_match3 x n then Some i else lookup_name x r (i + 1)
  end.
Definition digit (c : N) : option Z := if ((48 <=? c) && (c <=? 57))%N then Some (Z.of_N c - 48) else None.
Definition num2 (a b : N) : option Z :=
  match digit a, digit b with Some x, Some y => Some (10 * x + y) | _, _ => None end.
Definition num4 (a b c d : N) : option Z :=
  match num2 a b, num2 c d with Some x, Some y => Some (100 * x + y) | _, _ => None end.

(* The strict 29-byte shape.  The real time.Parse is more liberal in two ways that can still give 29 bytes (a run of
   spaces matches one layout space, and the hour may have one digit: "… 2023  0:00:00 GMT"); those inputs are
   declined by the fast parser and handled by the time.Parse fallback, so the property ("declines or returns exactly
   what time.Parse returns") only needs: whatever this function accepts, time.Parse accepts with the same instant —
   which the harness checks against the real library on every case. *)
Definition spec_time_parse (s : bytes) : option Z :=
  match s with
  | [w0; w1; w2; c3; c4; d1; d0; c7; m0; m1; m2; c11; y3; y2; y1; y0; c16; h1; h0; c19; i1; i0; c22; s1; s0; c25; g; mm; t] =>
      if negb (beq [c3; c4; c7; c11; c16; c19; c22; c25; g; mm; t] (s2b ",    :: GMT")) then None else
      match lookup_name [w0; w1; w2] day_names 0, num2 d1 d0, lookup_name [m0; m1; m2] month_names 1,
            num4 y3 y2 y1 y0, num2 h1 h0, num2 i1 i0, num2 s1 s0 with
      | Some _, Some d, Some m, Some y, Some hh, Some mi, Some ss =>
          if (1 <=? d) && (d <=? days_in_month y m) && (hh <? 24) && (mi <? 60) && (ss <? 60)
          then Some (unix_of_civil y m d hh mi ss) else None
      | _, _, _, _, _, _, _ => None
      end
  | _ => None
  end.

(* formatting *)
Definition dig (v : Z) : N := Z.to_N (48 + v).
Definition fmt2 (v : Z) : bytes := [dig (v / 10 mod 10); dig (v mod 10)].
Definition fmt4 (v : Z) : bytes := [dig (v / 1000 mod 10); dig (v / 100 mod 10); dig (v / 10 mod 10); dig (v mod 10)].
Definition spec_format_http_date (secs : Z) : bytes :=
  let days := secs / 86400 + epoch_days in
  let r := secs mod 86400 in
  match civil_from_days days with
  | (y, m, d) =>
      nth (Z.to_nat (weekday_of_days days)) day_names [] ++ s2b ", " ++ fmt2 d ++ [32%N] ++
      nth (Z.to_nat (m - 1)) month_names [] ++ [32%N] ++ fmt4 y ++ [32%N] ++
      fmt2 (r / 3600) ++ [58%N] ++ fmt2 (r / 60 mod 60) ++ [58%N] ++ fmt2 (r mod 60) ++ s2b " GMT"
  end.
