(* ParseIPv4 must accept exactly the strings of four dot-separated non-empty decimal fields with values <= 255. *)
From FH Require Import Model.Base Spec.IntsSpec.
Open Scope Z_scope.

Fixpoint split_on (c : N) (s : bytes) : list bytes :=
  match s with
  | [] => [[]]
  | x :: r => if (x =? c)%N then [] :: split_on c r
              else match split_on c r with f :: fs => (x :: f) :: fs | [] => [[x]] end
  end.
Definition field_ok (f : bytes) : bool :=
  match f with [] => false | _ => all_digits f && (dec_value f <=? 255) end.
Definition spec_parse_ipv4 (s : bytes) : option (list Z) :=
  match split_on 46 s with
  | [a; b; c; d] => if field_ok a && field_ok b && field_ok c && field_ok d
                    then Some [dec_value a; dec_value b; dec_value c; dec_value d] else None
  | _ => None
  end.
