(* IPv6Text.v — which byte strings are textual IPv6 addresses (RFC 4291 §2.2, RFC 4007 §11 zone), in the reading of
   net/netip.ParseAddr:

     x:x:x:x:x:x:x:x          eight groups of 1-4 hexadecimal digits (either case)
     "::" may appear once and stands for ONE OR MORE groups of zeros (so at most 7 groups are written)
     x:x:x:x:x:x:d.d.d.d      the last two groups may be written as a dotted quad: four decimal fields 0..255,
                              no leading zeros ("IPv4 field has octet with leading zero")
     address%zone             optional zone: anything non-empty after the first '%'

   Independent of the code: it is stated on the ':'-separated fields of the text.  netip.ParseAddr dispatches on the
   first of '.', ':', '%' in the string; a text accepted below always has a ':' before any '.' (the dotted quad is the
   last field) and before the '%', so the dispatch is subsumed.  The harness compares spec_ipv6 with the real
   netip.ParseAddr(..).Is6() on every generated case. *)
From FH Require Import Model.Base Spec.IntsSpec Spec.IPv4Spec.
Open Scope Z_scope.

(* 1-4 hex digits *)
Definition hexgroup (f : bytes) : bool :=
  (1 <=? Z.of_nat (length f)) && (Z.of_nat (length f) <=? 4) && forallb is_hexdig f.

(* one field of the dotted quad: decimal, non-empty, no leading zero unless it is "0", value <= 255 *)
Definition v4field (f : bytes) : bool :=
  match f with
  | [] => false
  | c :: r => all_digits f && (match r with [] => true | _ => negb (c =? 48)%N end) && (dec_value f <=? 255)
  end.
Definition dotted_quad (f : bytes) : bool :=
  match split_on 46 f with
  | [a; b; c; d] => v4field a && v4field b && v4field c && v4field d
  | _ => false
  end.

(* number of 16-bit groups a non-empty ':'-separated list of fields stands for; only the last field may be a dotted quad *)
Fixpoint count_fields (v4 : bool) (fs : list bytes) : option Z :=
  match fs with
  | [] => Some 0
  | [f] => if hexgroup f then Some 1 else if v4 && dotted_quad f then Some 2 else None
  | f :: r => if hexgroup f then match count_fields v4 r with Some n => Some (1 + n) | None => None end else None
  end.
(* one side of the "::" (or the whole text when there is none): empty, or groups separated by single colons *)
Definition side (v4 : bool) (s : bytes) : option Z :=
  match s with [] => Some 0 | _ => count_fields v4 (split_on 58 s) end.

(* split at the first "::" *)
Fixpoint cut_dcolon (s : bytes) : option (bytes * bytes) :=
  match s with
  | [] => None
  | c :: t =>
      match t with
      | d :: r => if (c =? 58)%N && (d =? 58)%N then Some ([], r)
                  else match cut_dcolon t with Some (l, r') => Some (c :: l, r') | None => None end
      | [] => None
      end
  end.

Definition ipv6_addr_text (a : bytes) : bool :=
  match cut_dcolon a with
  | None => match side true a with Some n => n =? 8 | None => false end
  | Some (l, r) => match side false l, side true r with
                   | Some x, Some y => x + y <=? 7
                   | _, _ => false
                   end
  end.

(* first '%' *)
Fixpoint cut_zone (a : bytes) : bytes * option bytes :=
  match a with
  | [] => ([], None)
  | c :: r => if (c =? 37)%N then ([], Some r) else let (x, z) := cut_zone r in (c :: x, z)
  end.

(* netip.ParseAddr(a) succeeds and the result is an IPv6 address *)
Definition spec_ipv6 (a : bytes) : bool :=
  match cut_zone a with
  | (addr, None) => ipv6_addr_text addr
  | (addr, Some zone) => match zone with [] => false | _ => ipv6_addr_text addr end
  end.

Definition zoneless (a : bytes) : bool := match cut_zone a with (_, None) => true | _ => false end.

(* a bracketed host "[" address "]" [":" digits]: its address part, if it has that shape.
   The port contains no ']', so the closing bracket is the last ']'. *)
Fixpoint cut_last (c : N) (s : bytes) : option (bytes * bytes) :=
  match s with
  | [] => None
  | x :: r => match cut_last c r with
              | Some (a, b) => Some (x :: a, b)
              | None => if (x =? c)%N then Some ([], r) else None
              end
  end.
Definition is_port (p : bytes) : bool :=
  match p with [] => true | c :: r => (c =? 58)%N && all_digits r end.
