(* Specification of the integer codecs, independent of the code: positional
   decimal / hexadecimal value of a digit string. *)
From FH Require Import Model.Base.
Open Scope Z_scope.

Definition is_digit (c : N) : bool := ((48 <=? c) && (c <=? 57))%N.
Definition all_digits (s : bytes) : bool := forallb is_digit s.

(* value of a digit string, most significant first *)
Definition dec_value (s : bytes) : Z :=
  fold_left (fun a c => 10 * a + (Z.of_N c - 48)) s 0.

(* what ParseUint must return: Some n exactly for non-empty all-digit strings whose value fits *)
Definition spec_parse_uint (maxint : Z) (s : bytes) : option Z :=
  match s with
  | [] => None
  | _ => if all_digits s && (dec_value s <=? maxint) then Some (dec_value s) else None
  end.

Definition hexdig (c : N) : option Z :=
  if ((48 <=? c) && (c <=? 57))%N then Some (Z.of_N c - 48)
  else if ((97 <=? c) && (c <=? 102))%N then Some (Z.of_N c - 87)
  else if ((65 <=? c) && (c <=? 70))%N then Some (Z.of_N c - 55)
  else None.
Definition is_hexdig (c : N) : bool := match hexdig c with Some _ => true | None => false end.

(* longest hex-digit prefix and the rest *)
Fixpoint span_hex (s : bytes) : bytes * bytes :=
  match s with
  | c :: r => if is_hexdig c then let (a, b) := span_hex r in (c :: a, b) else ([], s)
  | [] => ([], [])
  end.
Definition hex_value (s : bytes) : Z :=
  fold_left (fun a c => 16 * a + match hexdig c with Some d => d | None => 0 end) s 0.
