(* LBSpec.v — what property C40 demands, stated on observations of an LBClient (independent of the model).
   The numbers 300 and 3 seconds are those of the property text. *)
From FH Require Import Model.Base.
Open Scope Z_scope.

Definition spec_max_penalty : Z := 300.
Definition spec_penalty_ns : Z := 3 * 1000000000.

(* (pending + penalty, completed) pairs are compared lexicographically *)
Definition lex_lt (a b : Z * Z) : Prop := fst a < fst b \/ (fst a = fst b /\ snd a < snd b).
Definition lex_le (a b : Z * Z) : Prop := fst a < fst b \/ (fst a = fst b /\ snd a <= snd b).
Definition lex_ltb (a b : Z * Z) : bool := (fst a <? fst b) || ((fst a =? fst b) && (snd a <? snd b)).
Definition lex_leb (a b : Z * Z) : bool := (fst a <? fst b) || ((fst a =? fst b) && (snd a <=? snd b)).

(* the call went to position i of the routing order: its load is minimal, and strictly smaller than every earlier one *)
Definition minimal_first (loads : list (Z * Z)) (i : nat) : Prop :=
  exists x, nth_error loads i = Some x /\
    (forall j y, nth_error loads j = Some y -> lex_le x y) /\
    (forall j y, (j < i)%nat -> nth_error loads j = Some y -> lex_lt x y).

Definition minimal_firstb (loads : list (Z * Z)) (i : nat) : bool :=
  match nth_error loads i with
  | Some x => forallb (lex_leb x) loads && forallb (lex_ltb x) (firstn i loads)
  | None => false
  end.

(* what the harness can see of an LBClient after an operation *)
Record obs := mkObs {
  o_ids : list nat;          (* identities of the balanced clients, in routing order *)
  o_pens : list Z;           (* their penalty counters *)
  o_tots : list Z;           (* their completed-request counters *)
  o_choice : option nat;     (* identity of the client that served this call (calls only) *)
  o_err : N                  (* calls only: 0 = served by a client, 1 = ErrNoAvailableClients, 2 = panic *)
}.

Fixpoint lookup (ids : list nat) (vals : list Z) (id : nat) : Z :=
  match ids, vals with
  | i :: ids', v :: vals' => if (i =? id)%nat then v else lookup ids' vals' id
  | _, _ => 0                                    (* a client not seen before has no penalty and no completed request *)
  end.

Fixpoint index_of (id : nat) (ids : list nat) : option nat :=
  match ids with
  | [] => None
  | i :: r => if (i =? id)%nat then Some 0%nat else option_map S (index_of id r)
  end.

(* routing: judged on the counters observed just before the call (prev) and the clients' own pending numbers (pend, by identity) *)
Definition route_ok (pend : list Z) (prev cur : obs) : bool :=
  match o_ids cur with
  | [] => (o_err cur =? 1)%N && match o_choice cur with None => true | Some _ => false end
  | ids =>
      match o_choice cur with
      | Some id =>
          (o_err cur =? 0)%N &&
          match index_of id ids with
          | Some i => minimal_firstb (map (fun c => (nth c pend 0 + lookup (o_ids prev) (o_pens prev) c,
                                                    lookup (o_ids prev) (o_tots prev) c)) ids) i
          | None => false
          end
      | None => false
      end
  end.

(* quiescent bound *)
Definition bound_ok (cur : obs) : bool := forallb (fun p => (0 <=? p) && (p <=? spec_max_penalty)) (o_pens cur).

(* expiry: lastfail gives, per identity, the time of the last unhealthy result; at time t every client whose last failure is
   at least 3 s old has no penalty left *)
Definition expiry_ok (lastfail : list (nat * Z)) (t : Z) (cur : obs) : bool :=
  forallb (fun id =>
     match find (fun p => (fst p =? id)%nat) lastfail with
     | Some (_, tf) => if tf + spec_penalty_ns <=? t then lookup (o_ids cur) (o_pens cur) id =? 0 else true
     | None => true
     end) (o_ids cur).

(* routing judged against the membership the API history implies (Clients at construction + AddClient - RemoveClients), whatever
   list the implementation keeps: the serving client is such a member and no member had a smaller (pending+penalty, completed);
   ErrNoAvailableClients exactly when there is no member *)
Definition route_members_ok (members : list nat) (pend : list Z) (prev cur : obs) : bool :=
  let load := fun c => (nth c pend 0 + lookup (o_ids prev) (o_pens prev) c, lookup (o_ids prev) (o_tots prev) c) in
  match members with
  | [] => (o_err cur =? 1)%N
  | _ =>
      match o_choice cur with
      | Some id => (o_err cur =? 0)%N && existsb (Nat.eqb id) members && forallb (fun c => lex_leb (load id) (load c)) members
      | None => false
      end
  end.
