(* What C12 demands, over the observable part of a state of Model/Limits.v:
   how many connections are served at once (in total, per entry point, per IPv4 address), what a rejection looks
   like, when the server is quiescent.  No reference to how the code counts. *)
From Coq Require Import List ZArith NArith Bool Arith.
From FH Require Import Model.Limits.
Import ListNotations.
Open Scope Z_scope.

(* connections inside their request loop: n_serving (Model/Limits.v) counts all of them; per entry point: *)
Definition serving_sc (r : crec) : bool := is_serving r && match cvia r with VConn => true | _ => false end.
Definition serving_loop (k : nat) (r : crec) : bool :=
  is_serving r && match cvia r with VServe k' => Nat.eqb k' k | VConn => false end.
Definition n_serving_sc (s : st) : Z := sumf (fun r => b2z (serving_sc r)) (conns s).
Definition n_serving_loop (s : st) (k : nat) : Z := sumf (fun r => b2z (serving_loop k r)) (conns s).

(* Server.Concurrency is documented to work "if you either call Serve once, or only ServeConn multiple times" *)
Definition documented_use (s : st) : Prop :=
  loops s = [] \/ ((length (loops s) <= 1)%nat /\ Forall (fun r => cvia r <> VConn) (conns s)).

(* connections from one IPv4 address that are inside their request loop and not closed *)
Definition served_from (ip : N) (r : crec) : bool := is_serving r && N.eqb (cip r) ip && negb (closed r).
Definition n_served_from (s : st) (ip : N) : Z := sumf (fun r => b2z (served_from ip r)) (conns s).

(* a rejection: the status was written, the connection closed, its goroutine is done, it holds no per-IP unit *)
Definition rejected_with (code : Z) (r : crec) : Prop :=
  resp r = code /\ closed r = true /\ ph r = PDone /\ reg r = false.

(* the connection whose goroutine a label belongs to *)
Definition label_conn (l : label) : option nat :=
  match l with
  | LServeStart | LServeStop _ | LWorkerRetire _ | LAccept _ _ | LServeConn _ => None
  | LRegister c | LRejectIP c | LOpenInc c | LGetChOk c | LGetChFail c | LRejectDec c | LRejectConc c _
  | LTryAcquire c | LAcquireFail c | LStart c | LRequest c | LFinish c | LHijack c | LCleanupOpen c
  | LCleanupConc c | LCloseAfter c _ | LWorkerRelease c | LReleaseConc c | LHijackDone c _ | LUserClose c _ => Some c
  end.

(* quiescence: every connection has been closed, or hijacked and released (all_terminal, Model/Limits.v);
   weaker: every serving goroutine is done but hijack handlers may still hold connections *)
Definition all_done (s : st) : bool := forallb (fun r => match ph r with PDone => true | _ => false end) (conns s).

(* no per-IP entry left *)
Definition perip_empty (s : st) : Prop := forall ip, perip s ip = None.
