(* Spec/Multimap.v — what C28 demands: an ordered multimap of (key, value, noValue) entries.
   noValue = true means the entry is written without '=' ("has '='" is its negation).
   Independent of the model: plain list functions. *)
From FH Require Import Model.Base.
Open Scope N_scope.

Definition entry := (bytes * bytes * bool)%type.
Definition e_key (e : entry) : bytes := fst (fst e).
Definition e_val (e : entry) : bytes := snd (fst e).
Definition e_nov (e : entry) : bool := snd e.
Definition mmap := list entry.

Definition has_key (k : bytes) (e : entry) : bool := beq (e_key e) k.

(* --- updates --- *)
Definition mm_add (m : mmap) (k v : bytes) : mmap := m ++ [(k, v, false)].
Definition mm_add_novalue (m : mmap) (k : bytes) : mmap := m ++ [(k, [], true)].

(* Set replaces the FIRST entry with that key, leaving every other entry (later duplicates too) alone;
   appends when there is none *)
Fixpoint mm_replace_first (m : mmap) (k : bytes) (e : entry) : mmap :=
  match m with
  | [] => [e]
  | x :: r => if has_key k x then e :: r else x :: mm_replace_first r k e
  end.
Definition mm_set (m : mmap) (k v : bytes) : mmap := mm_replace_first m k (k, v, false).
Definition mm_set_novalue (m : mmap) (k : bytes) : mmap := mm_replace_first m k (k, [], true).

(* Del removes every entry with that key, keeping the order of the rest *)
Definition mm_del (m : mmap) (k : bytes) : mmap := filter (fun e => negb (has_key k e)) m.

(* --- observers --- *)
Definition mm_peek (m : mmap) (k : bytes) : option bytes := option_map e_val (find (has_key k) m).
Definition mm_peek_multi (m : mmap) (k : bytes) : list bytes := map e_val (filter (has_key k) m).
Definition mm_has (m : mmap) (k : bytes) : bool := existsb (has_key k) m.
Definition mm_len (m : mmap) : Z := Z.of_nat (length m).
Definition mm_all (m : mmap) : list (bytes * bytes) := map (fun e => (e_key e, e_val e)) m.

(* --- the round trip: what parsing the query string must give back --- *)
Definition both_empty (e : entry) : bool :=
  match e_key e, e_val e with [], [] => true | _, _ => false end.
Definition mm_roundtrip (m : mmap) : mmap := filter (fun e => negb (both_empty e)) m.

(* equality of entries / maps (for the oracles) *)
Definition entry_eqb (a b : entry) : bool :=
  beq (e_key a) (e_key b) && beq (e_val a) (e_val b) && Bool.eqb (e_nov a) (e_nov b).
Definition mmap_eqb (a b : mmap) : bool := list_eqb entry_eqb a b.

(* --- spec-level operations (same alphabet as the model's, minus parsing) --- *)
Inductive mop :=
| MAdd (k v : bytes)
| MAddNoValue (k : bytes)
| MSet (k v : bytes)
| MSetNoValue (k : bytes)
| MDel (k : bytes)
| MReset.

Definition mm_step (m : mmap) (o : mop) : mmap :=
  match o with
  | MAdd k v => mm_add m k v
  | MAddNoValue k => mm_add_novalue m k
  | MSet k v => mm_set m k v
  | MSetNoValue k => mm_set_novalue m k
  | MDel k => mm_del m k
  | MReset => []
  end.
Definition mm_run (m : mmap) (ops : list mop) : mmap := fold_left mm_step ops m.

(* --- a reference grammar for query strings, used for the parser part of the property:
   split at every '&'; in each piece split at the first '='; percent/plus-decode both halves;
   drop pieces whose key and value are both empty.  `dec` is the decoder (a parameter so the
   spec does not depend on the model). *)
Fixpoint split_on (c : N) (s : bytes) (cur : bytes) : list bytes :=
  match s with
  | [] => [rev cur]
  | x :: r => if x =? c then rev cur :: split_on c r [] else split_on c r (x :: cur)
  end.
Fixpoint cut_first (c : N) (s : bytes) (cur : bytes) : bytes * option bytes :=
  match s with
  | [] => (rev cur, None)
  | x :: r => if x =? c then (rev cur, Some r) else cut_first c r (x :: cur)
  end.
Definition piece_entry (dec : bytes -> bytes) (p : bytes) : entry :=
  match cut_first EQS p [] with
  | (k, None) => (dec k, [], true)
  | (k, Some v) => (dec k, dec v, false)
  end.
Definition spec_parse (dec : bytes -> bytes) (s : bytes) : mmap :=
  mm_roundtrip (map (piece_entry dec) (split_on AMP s [])).

(* reference percent-decoding of one component (RFC 3986 pct-encoded + '+' for space, invalid
   escapes kept literally) *)
Definition hexv (c : N) : option N :=
  if (48 <=? c) && (c <=? 57) then Some (c - 48)
  else if (65 <=? c) && (c <=? 70) then Some (c - 55)
  else if (97 <=? c) && (c <=? 102) then Some (c - 87)
  else None.
Fixpoint spec_decode (s : bytes) : bytes :=
  match s with
  | [] => []
  | c :: r =>
      if c =? PLUS then SP :: spec_decode r
      else if c =? PCT then
        match r with
        | c1 :: c2 :: r' =>
            match hexv c1, hexv c2 with
            | Some a, Some b => (16 * a + b) :: spec_decode r'
            | _, _ => PCT :: spec_decode r
            end
        | _ => c :: r
        end
      else c :: spec_decode r
  end.
