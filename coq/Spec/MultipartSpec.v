(* MultipartSpec.v — what C35 demands.
   (a) round trip: on well-formed forms whose data is boundary-free, parsing what was written
       yields the same values and files;
   (b) temporary files: whenever a request is dispatched on a connection, and once the connection
       is closed, no temporary file of an earlier request of that connection is left, files owned
       by a timed-out request excepted. *)
From FH Require Import Model.Base Gen.GenC35 Model.Multipart.
Open Scope N_scope.

(* ---- (a) ---- *)
Fixpoint occurs (p s : bytes) : bool :=
  match s with
  | [] => prefixb p []
  | _ :: r => prefixb p s || occurs p r
  end.

(* the delimiter CRLF--boundary occurs neither inside the data nor (without its CRLF) at its start *)
Definition boundary_free (b data : bytes) : bool := negb (occurs (nl_dash_b b) (crlf ++ data)).

(* names travel inside a header value: no control characters (a MIME header line with one is rejected) *)
Definition name_ok (n : bytes) : bool := negb (beq n []) && forallb is_value_char n.
Definition filename_ok (f : bytes) : bool := name_ok f && forallb (fun c => negb (c =? 47)) f.
Definition not_lwsp_ends (s : bytes) : bool :=
  match s with [] => false | c :: _ => negb (is_lwsp c) && negb (is_lwsp (last s 0)) end.
Definition ctype_ok (t : bytes) : bool := forallb is_value_char t && not_lwsp_ends t.

Fixpoint nodupb (ks : list bytes) : bool :=
  match ks with [] => true | k :: r => negb (existsb (beq k) r) && nodupb r end.

Definition file_ok (b : bytes) (f : mfile) : bool :=
  filename_ok (fl_name f) && ctype_ok (fl_ctype f) && boundary_free b (fl_data f).

(* a form as a pair of Go maps can hold it: distinct keys, no empty value lists; plus the domain of the theorem *)
Definition form_ok (b : bytes) (f : mform) : bool :=
  nodupb (map fst (fm_values f)) && nodupb (map fst (fm_files f)) &&
  forallb (fun kv => name_ok (fst kv) && negb (match snd kv with [] => true | _ => false end)
                     && forallb (boundary_free b) (snd kv)) (fm_values f) &&
  forallb (fun kv => name_ok (fst kv) && negb (match snd kv with [] => true | _ => false end)
                     && forallb (file_ok b) (snd kv)) (fm_files f).

Definition mfile_eqb (x y : mfile) : bool :=
  beq (fl_name x) (fl_name y) && beq (fl_ctype x) (fl_ctype y) && beq (fl_data x) (fl_data y).

(* equality of forms as maps: same keys, same lists, whatever the key order *)
Definition map_sub {A} (eq : A -> A -> bool) (m1 m2 : list (bytes * list A)) : bool :=
  forallb (fun kv => match find (fun kv' => beq (fst kv') (fst kv)) m2 with
                     | Some kv' => list_eqb eq (snd kv) (snd kv')
                     | None => false
                     end) m1.
Definition map_eqb {A} (eq : A -> A -> bool) (m1 m2 : list (bytes * list A)) : bool :=
  Nat.eqb (length m1) (length m2) && map_sub eq m1 m2 && map_sub eq m2 m1.
Definition form_eqb (f g : mform) : bool :=
  map_eqb beq (fm_values f) (fm_values g) && map_eqb mfile_eqb (fm_files f) (fm_files g).

(* ---- (b) ---- *)
Open Scope Z_scope.
(* every file on disk is accounted for by the excepted (timed-out) requests *)
Definition only_excepted (disk excepted : list Z) : Prop :=
  forall x, (count_occ Z.eq_dec disk x <= count_occ Z.eq_dec excepted x)%nat.
