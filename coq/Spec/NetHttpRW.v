(* Spec/NetHttpRW.v — what C36 demands: the documented semantics of net/http's ResponseWriter
   (the final response a client receives for a handler program) and of http.ReadRequest
   (the fields of the parsed request).  Independent of the adaptor model; validated against the
   REAL net/http on every harness case (Check/C36Check.v: spec_ok).

   Sources: net/http server.go response.WriteHeader, Write, Flush and chunkWriter.writeHeader,
   header.go Header.writeSubset, request.go readRequest. *)
From FH Require Import Model.Base.
Open Scope N_scope.

(* ------------------------------------------------------------------ *)
(* http.Header: map from canonical key to the list of values.  Go map iteration order is
   unspecified; the association list keeps insertion order, and every observable below is
   "values per name, in order", which does not depend on the order of different keys. *)
Definition hmap := list (bytes * list bytes).

Fixpoint h_get (m : hmap) (k : bytes) : list bytes :=
  match m with
  | [] => []
  | (k', vs) :: r => if beq k' k then vs else h_get r k
  end.
Fixpoint h_add (m : hmap) (k v : bytes) : hmap :=
  match m with
  | [] => [(k, [v])]
  | (k', vs) :: r => if beq k' k then (k', vs ++ [v]) :: r else (k', vs) :: h_add r k v
  end.
Fixpoint h_set (m : hmap) (k v : bytes) : hmap :=
  match m with
  | [] => [(k, [v])]
  | (k', vs) :: r => if beq k' k then (k', [v]) :: r else (k', vs) :: h_set r k v
  end.
Definition h_del (m : hmap) (k : bytes) : hmap := filter (fun e => negb (beq (fst e) k)) m.
Definition h_has (m : hmap) (k : bytes) : bool := existsb (fun e => beq (fst e) k) m.

(* textproto.CanonicalMIMEHeaderKey on token names (the domain of this spec: header names that are
   RFC 9110 tokens): first letter and letters after '-' upper case, the rest lower case. *)
Definition upperb (c : N) : N := if (97 <=? c) && (c <=? 122) then c - 32 else c.
Definition lowerb (c : N) : N := if (65 <=? c) && (c <=? 90) then c + 32 else c.
Fixpoint canon_from (up : bool) (s : bytes) : bytes :=
  match s with
  | [] => []
  | c :: r => let c' := if up then upperb c else lowerb c in c' :: canon_from (c' =? DASH) r
  end.
Definition canon (s : bytes) : bytes := canon_from true s.

(* ------------------------------------------------------------------ *)
(* Handler programs: what a net/http handler does to its ResponseWriter. *)
Inductive op :=
| WriteHeader (c : Z)          (* w.WriteHeader(c) *)
| HAdd (k v : bytes)           (* w.Header().Add(k, v) *)
| HSet (k v : bytes)           (* w.Header().Set(k, v) *)
| HDel (k : bytes)             (* w.Header().Del(k) *)
| Write (b : bytes)            (* w.Write(b) *)
| Flush.                       (* w.(http.Flusher).Flush() *)

Definition prog := list op.

Definition hdr_step (h : hmap) (o : op) : hmap :=
  match o with
  | HAdd k v => h_add h (canon k) v
  | HSet k v => h_set h (canon k) v
  | HDel k => h_del h (canon k)
  | _ => h
  end.

(* 1xx other than 101 is informational: sent as an interim response, never the final status *)
Definition informational (c : Z) : bool := ((100 <=? c) && (c <=? 199) && negb (c =? 101))%Z.
(* checkWriteHeaderCode: other codes make WriteHeader panic; such programs are outside the property *)
Definition valid_code (c : Z) : bool := ((100 <=? c) && (c <=? 999))%Z.
(* bodyAllowedForStatus *)
Definition body_allowed (c : Z) : bool := negb (((100 <=? c) && (c <=? 199)) || (c =? 204) || (c =? 304))%Z.

(* The response writer: the header is "committed" (status fixed, header map snapshotted) by the first
   non-informational WriteHeader, or implicitly with 200 by the first Write or Flush.  Later WriteHeader
   calls and later mutations of Header() do not reach the client. *)
Record rwstate := { r_committed : option (Z * hmap); r_h : hmap; r_body : bytes }.
Definition rw_init : rwstate := {| r_committed := None; r_h := []; r_body := [] |}.

Definition rw_commit (s : rwstate) (c : Z) : rwstate :=
  match r_committed s with
  | Some _ => s
  | None => {| r_committed := Some (c, r_h s); r_h := r_h s; r_body := r_body s |}
  end.

Definition rw_step (s : rwstate) (o : op) : rwstate :=
  match o with
  | WriteHeader c => if informational c then s else rw_commit s c
  | Write b => let s' := rw_commit s 200%Z in
               {| r_committed := r_committed s'; r_h := r_h s'; r_body := r_body s' ++ b |}
  | Flush => rw_commit s 200%Z
  | _ => {| r_committed := r_committed s; r_h := hdr_step (r_h s) o; r_body := r_body s |}
  end.

Definition rw_run (p : prog) : rwstate := fold_left rw_step p rw_init.

(* end of handler: implicit WriteHeader(200) when nothing was committed *)
Definition rw_status (s : rwstate) : Z := match r_committed s with Some (c, _) => c | None => 200%Z end.
Definition rw_frozen (s : rwstate) : hmap := match r_committed s with Some (_, h) => h | None => r_h s end.

(* ------------------------------------------------------------------ *)
(* What the client reads.  A field value is written with CR/LF replaced by spaces and trimmed
   (header.go writeSubset); the client trims optional whitespace again. *)
Definition nl_to_sp (c : N) : N := if (c =? CR) || (c =? LF) then SP else c.
Definition is_ows (c : N) : bool := (c =? SP) || (c =? HT).
Fixpoint trim_left (s : bytes) : bytes :=
  match s with
  | c :: r => if is_ows c then trim_left r else s
  | [] => []
  end.
Definition trim_ows (s : bytes) : bytes := rev (trim_left (rev (trim_left s))).
Definition wire_val (v : bytes) : bytes := trim_ows (map nl_to_sp v).

(* the final response, as seen by a client: status, fields that come from the handler's header map
   (name, value) with the values of one name in order, and the body *)
Record mresp := { m_status : Z; m_fields : list (bytes * bytes); m_body : bytes }.

Definition f_get (fs : list (bytes * bytes)) (n : bytes) : list bytes :=
  map snd (filter (fun kv => beq (fst kv) n) fs).

Definition sContentType : bytes := s2b "Content-Type".

(* suppressedHeaders: a 304 response never carries Content-Type (Content-Length / Transfer-Encoding are
   framing fields and outside the compared projection anyway) *)
Definition rw_wire_hdr (c : Z) (h : hmap) : hmap := if (c =? 304)%Z then h_del h sContentType else h.

Definition hmap_fields (h : hmap) : list (bytes * bytes) :=
  flat_map (fun e => map (fun v => (fst e, wire_val v)) (snd e)) h.

Definition rw_final (head : bool) (s : rwstate) : mresp :=
  let c := rw_status s in
  {| m_status := c;
     m_fields := hmap_fields (rw_wire_hdr c (rw_frozen s));
     m_body := if head || negb (body_allowed c) then [] else r_body s |}.

Definition spec_resp (head : bool) (p : prog) : mresp := rw_final head (rw_run p).

(* Fields that are not "handler-set header fields" in the sense of the property: framing, connection
   management and the date are chosen by each server.  (Content-Type and Server are compared only when
   the handler set them: see Check/C36Check.v.) *)
Definition or20 (c : N) : N := N.lor c 32.
Definition ieq (a b : bytes) : bool := beq (map or20 a) (map or20 b).
Definition excluded_name (n : bytes) : bool :=
  ieq n (s2b "Date") || ieq n (s2b "Content-Length") || ieq n (s2b "Connection")
  || ieq n (s2b "Transfer-Encoding") || ieq n (s2b "Trailer").

Definition valid_prog (p : prog) : Prop :=
  forall c, In (WriteHeader c) p -> valid_code c = true.

(* ------------------------------------------------------------------ *)
(* http.ReadRequest, on a request given in structured form (request line pieces, header lines in wire
   order with the names as sent and the values already stripped of optional whitespace, decoded body).
   The URL is url.ParseRequestURI of the target (of "http://"+target with the scheme removed for CONNECT
   with an authority target): it is the same library function on both sides and is kept symbolic. *)
Record sreq := {
  q_method : bytes; q_target : bytes; q_proto : bytes;
  q_hdrs : list (bytes * bytes);
  q_body : bytes;
  q_urlhost : bytes;  (* Host component of url.ParseRequestURI(target) ("" for origin-form) *)
  q_authhost : bytes  (* Host component of url.ParseRequestURI("http://"+target): used for CONNECT authority targets *)
}.

Inductive urlrep := UParse (t : bytes) | UAuthority (t : bytes).
Definition urlrep_eqb (a b : urlrep) : bool :=
  match a, b with
  | UParse x, UParse y => beq x y
  | UAuthority x, UAuthority y => beq x y
  | _, _ => false
  end.

Record creq := {
  c_method : bytes; c_uri : bytes; c_url : urlrep; c_proto : bytes; c_major : Z; c_minor : Z;
  c_host : bytes; c_hdr : hmap; c_body : bytes
}.

Definition sHost : bytes := s2b "Host".
Definition sTransferEncoding : bytes := s2b "Transfer-Encoding".
Definition sPragma : bytes := s2b "Pragma".
Definition sCacheControl : bytes := s2b "Cache-Control".
Definition sNoCache : bytes := s2b "no-cache".
Definition sCONNECT : bytes := s2b "CONNECT".

Definition hdr_of_lines (l : list (bytes * bytes)) : hmap :=
  fold_left (fun h kv => h_add h (canon (fst kv)) (snd kv)) l [].

Definition digit_val (c : N) : Z := Z.of_N c - 48.

(* ParseHTTPVersion on "HTTP/x.y" *)
Definition proto_major (p : bytes) : Z := digit_val (nth 5 p 48).
Definition proto_minor (p : bytes) : Z := digit_val (nth 7 p 48).

Definition starts_with_slash (t : bytes) : bool := match t with c :: _ => c =? SLASH | [] => false end.

(* fixPragmaCacheControl *)
Definition fix_pragma (h : hmap) : hmap :=
  match h_get h sPragma with
  | v :: _ => if beq v sNoCache && negb (h_has h sCacheControl) then h_add h sCacheControl sNoCache else h
  | [] => h
  end.

Definition spec_read_request (q : sreq) : creq :=
  let h := hdr_of_lines (q_hdrs q) in
  let hostv := match h_get h sHost with v :: _ => v | [] => [] end in
  let just_authority := beq (q_method q) sCONNECT && negb (starts_with_slash (q_target q)) in
  {| c_method := q_method q;
     c_uri := q_target q;
     c_url := if just_authority then UAuthority (q_target q) else UParse (q_target q);
     c_proto := q_proto q;
     c_major := proto_major (q_proto q);
     c_minor := proto_minor (q_proto q);
     c_host := match (if just_authority then q_authhost q else q_urlhost q) with [] => hostv | uh => uh end;
     c_hdr := h_del (h_del (fix_pragma h) sTransferEncoding) sHost;
     c_body := q_body q |}.
