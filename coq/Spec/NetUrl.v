(* NetUrl.v — the part of net/url.Parse (Go 1.25) that decides whether a URL is accepted and what its Host and RawQuery are.
   Written from the documentation/source of net/url, independently of fasthttp's model; the harness compares it with the
   real url.Parse on every generated URI (accepted?, Scheme, Host, RawQuery), so a mistake here shows up as a failing case
   of the check, never as a proof about the wrong thing.

     Parse(raw):  raw = u [ "#" frag ]  (first '#');  u must not contain control bytes
       u = "*"                                  -> path "*"
       [ scheme ":" ] rest [ "?" query ]        scheme = ALPHA *( ALPHA / DIGIT / "+" / "-" / "." )  (a leading ':' is an error)
       rest not starting with '/':  with a scheme -> opaque (no host);  without -> the first segment must not contain ':'
       rest = "//" authority [ "/" path ]       (without scheme: not when rest starts with "///")
       authority = [ userinfo at-sign ] host        (last at-sign);  userinfo over a fixed ASCII set, its escapes well-formed
       host: "[" ... "]" [ ":" digits ]  |  name [ ":" digits ]   (RFC 3986 / RFC 6874 zone after "%25")
             percent-escapes in the host may only encode bytes >= 0x80 (or "%25"); ASCII bytes outside the host set are errors
       the escapes of path and fragment must be well-formed. *)
From FH Require Import Model.Base Spec.IntsSpec.
Open Scope N_scope.

Definition nu_lower (c : N) : N := if (65 <=? c) && (c <=? 90) then c + 32 else c.
Definition nu_alpha (c : N) : bool := ((97 <=? c) && (c <=? 122)) || ((65 <=? c) && (c <=? 90)).
Definition nu_digit (c : N) : bool := (48 <=? c) && (c <=? 57).
Definition nu_alnum (c : N) : bool := nu_alpha c || nu_digit c.
Definition nu_ctl (c : N) : bool := (c <? 32) || (c =? 127).
Definition mem (c : N) (set : bytes) : bool := existsb (N.eqb c) set.

(* strings.Cut(s, c) for a one-byte separator *)
Fixpoint cut1 (c : N) (s : bytes) : bytes * option bytes :=
  match s with
  | [] => ([], None)
  | x :: r => if x =? c then ([], Some r) else let (a, b) := cut1 c r in (x :: a, b)
  end.
Definition opt_bytes (o : option bytes) : bytes := match o with Some b => b | None => [] end.

Fixpoint span_set (P : N -> bool) (s : bytes) : bytes * bytes :=
  match s with
  | c :: r => if P c then let (a, b) := span_set P r in (c :: a, b) else ([], s)
  | [] => ([], [])
  end.

(* getScheme: None = "missing protocol scheme" *)
Definition nu_schemech (c : N) : bool := nu_alnum c || mem c (s2b "+-.").
Definition get_scheme (raw : bytes) : option (bytes * bytes) :=
  match raw with
  | [] => Some ([], [])
  | c :: _ =>
      if c =? 58 then None
      else if nu_alpha c then
        let (pre, rest) := span_set nu_schemech raw in
        match rest with
        | d :: after => if d =? 58 then Some (pre, after) else Some ([], raw)
        | [] => Some ([], raw)
        end
      else Some ([], raw)
  end.

(* every '%' is followed by two hex digits (unescape in the path, fragment and userinfo modes fails otherwise) *)
Fixpoint escapes_ok (s : bytes) : bool :=
  match s with
  | [] => true
  | c :: r => if c =? 37 then match r with a :: b :: r' => is_hexdig a && is_hexdig b && escapes_ok r' | _ => false end
              else escapes_ok r
  end.

(* bytes that may stand unescaped in a host: non-ASCII, unreserved, sub-delims, colon, brackets, angle brackets, double quote *)
Definition nu_hostbyte (c : N) : bool := (128 <=? c) || nu_alnum c || mem c (s2b "!$&'()*+,;=:[]<>""-_.~").
Definition hexv (a b : N) : option N :=
  match hexdig a, hexdig b with Some x, Some y => Some (Z.to_N (16 * x + y)%Z) | _, _ => None end.

(* unescape in host mode (zone = false) or zone mode (zone = true) *)
Fixpoint nu_unescape_host (zone : bool) (s : bytes) : option bytes :=
  match s with
  | [] => Some []
  | c :: r =>
      if c =? 37 then
        match r with
        | a :: b :: r' =>
            match hexv a b with
            | None => None
            | Some v =>
                let allowed := if zone then (v =? 37) || (v =? 32) || ((v <? 128) && nu_hostbyte v)
                               else (128 <=? v) || (v =? 37) in
                if allowed then match nu_unescape_host zone r' with Some t => Some (v :: t) | None => None end else None
            end
        | _ => None
        end
      else if nu_hostbyte c then match nu_unescape_host zone r with Some t => Some (c :: t) | None => None end
      else None
  end.

Fixpoint last_cut (c : N) (s : bytes) : option (bytes * bytes) :=      (* at the last c *)
  match s with
  | [] => None
  | x :: r => match last_cut c r with
              | Some (a, b) => Some (x :: a, b)
              | None => if x =? c then Some ([], r) else None
              end
  end.
Definition starts_with (p s : bytes) : bool := beq (firstn (length p) s) p.
Fixpoint find_pct25 (s : bytes) : option (bytes * bytes) :=            (* first "%25": before it, from it on *)
  match s with
  | [] => None
  | c :: r => if starts_with [37; 50; 53] s then Some ([], s)
              else match find_pct25 r with Some (a, b) => Some (c :: a, b) | None => None end
  end.
Definition nu_port (p : bytes) : bool := match p with [] => true | c :: r => (c =? 58) && forallb nu_digit r end.

(* parseHost *)
Definition nu_parse_host (h : bytes) : option bytes :=
  if starts_with [91] h then
      match last_cut 93 h with
      | None => None                                            (* missing ']' *)
      | Some (inside, port) =>                                  (* h = inside ++ "]" ++ port *)
          if negb (nu_port port) then None else
          match find_pct25 inside with
          | Some (h1, zone) =>
              match nu_unescape_host false h1, nu_unescape_host true zone, nu_unescape_host false (93 :: port) with
              | Some a, Some b, Some c => Some (a ++ b ++ c)
              | _, _, _ => None
              end
          | None => nu_unescape_host false h
          end
      end
  else
      match last_cut 58 h with
      | Some (_, digits) => if forallb nu_digit digits then nu_unescape_host false h else None
      | None => nu_unescape_host false h
      end.

Definition nu_userinfo_ok (ui : bytes) : bool :=
  forallb (fun c => nu_alnum c || mem c (s2b "-._:~!$&'()*+,;=%@")) ui && escapes_ok ui.

(* parseAuthority: the host, None = error *)
Definition nu_authority (a : bytes) : option bytes :=
  match last_cut 64 a with
  | None => nu_parse_host a
  | Some (ui, h) => match nu_parse_host h with
                    | Some host => if nu_userinfo_ok ui then Some host else None
                    | None => None
                    end
  end.

(* url.Parse(raw): None = error, Some (scheme, host, rawquery) *)
Definition nu_parse (raw : bytes) : option (bytes * bytes * bytes) :=
  let (u, frag) := cut1 35 raw in
  if existsb nu_ctl u then None else
  if negb (escapes_ok (opt_bytes frag)) then None else
  if beq u [42] then Some ([], [], []) else
  match get_scheme u with
  | None => None
  | Some (scheme, rest) =>
      let scheme := map nu_lower scheme in
      let (rest, q) := cut1 63 rest in
      let query := opt_bytes q in
      let rooted := starts_with [47] rest in
      if negb rooted && negb (match scheme with [] => true | _ => false end) then Some (scheme, [], query)      (* opaque *)
      else if negb rooted && mem 58 (fst (cut1 47 rest)) then None                                             (* first path segment has a colon *)
      else if (negb (match scheme with [] => true | _ => false end) || negb (starts_with [47; 47; 47] rest)) && starts_with [47; 47] rest then
        let (authority, path) := cut1 47 (skipn 2 rest) in
        let path := match path with Some p => 47 :: p | None => [] end in
        match nu_authority authority with
        | None => None
        | Some host => if escapes_ok path then Some (scheme, host, query) else None
        end
      else if escapes_ok rest then Some (scheme, [], query) else None
  end.
