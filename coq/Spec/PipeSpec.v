(* Specification for C33, independent of the transition systems: what an observer of the calls
   may see.  Only the result vocabulary (wres, rres, obs) is shared with Model/Pipe.v.

   A PipeConns pair is two FIFO byte queues (one per direction) and a closed flag:
     - a Write that reports n bytes appends those n bytes to its direction's queue;
       once Close has been called every Write must fail with the closed error and 0 bytes;
     - a Read removes what it returns from the FRONT of its direction's queue (so the bytes read
       are exactly the bytes written, in order, nothing lost, nothing duplicated);
       io.EOF may be returned only after Close and only when the queue is empty;
       after Close a Read (non-empty buffer) must not park;
     - when the observer drains both directions after Close, it must reach EOF with both queues empty.
   An InmemoryListener: every successful Dial i is matched by exactly one Accept returning pipe i
   (and the two conns really are connected), no pipe is accepted twice, and no Dial or Accept
   that is called after Close has returned succeeds. *)
From FH Require Import Model.Base Model.Pipe.
Open Scope N_scope.

Fixpoint strip_prefix (d q : bytes) : option bytes :=
  match d, q with
  | [], _ => Some q
  | x :: d', y :: q' => if x =? y then strip_prefix d' q' else None
  | _ :: _, [] => None
  end.
Definition is_prefix (d q : bytes) : bool := match strip_prefix d q with Some _ => true | None => false end.

Inductive sev :=
| SWrite (ab : bool) (p : bytes) (o : obs)    (* ab = true: the direction Conn1 -> Conn2 *)
| SWritePark (ab : bool) (p : bytes)          (* a Write was called and is parked (channel full): it is in flight *)
| SWriteLate (ab : bool) (p : bytes) (o : obs)   (* return of that Write: it did not start after Close *)
| SRead (ab : bool) (n : N) (o : obs)
| SClose
| SOther.

(* one direction: the queue, EOF seen, the payload of a Write in flight (its bytes may reach the reader
   before the writer has returned), and whether that payload has already been moved to the queue *)
Record sdir := mkSD { sq : bytes; seof : bool; sfl : option bytes; scm : bool }.
Record sst := mkS { s_ab : sdir; s_ba : sdir; s_closed : bool }.
Definition sinit : sst := mkS (mkSD [] false None false) (mkSD [] false None false) false.
Definition dof (s : sst) (ab : bool) : sdir := if ab then s_ab s else s_ba s.
Definition set_d (s : sst) (ab : bool) (d : sdir) : sst :=
  if ab then mkS d (s_ba s) (s_closed s) else mkS (s_ab s) d (s_closed s).

Definition spec_step (s : sst) (e : sev) : option sst :=
  match e with
  | SWrite ab p (ObW n r) =>
      if s_closed s then
        match r with WClosed => if n =? 0 then Some s else None | _ => None end
      else let d := dof s ab in Some (set_d s ab (mkSD (sq d ++ firstn (N.to_nat n) p) (seof d) (sfl d) (scm d)))
  | SWrite _ _ ObBlocked => if s_closed s then None else Some s
  | SWrite _ _ _ => None
  | SWritePark ab p =>
      if s_closed s then None      (* a Write called after Close must fail, not park *)
      else let d := dof s ab in Some (set_d s ab (mkSD (sq d) (seof d) (Some p) false))
  | SWriteLate ab p (ObW n r) =>
      let d := dof s ab in
      if scm d then   (* its bytes were already delivered: it must report them all as written *)
        match r with WOk => if n =? lenN p then Some (set_d s ab (mkSD (sq d) (seof d) None false)) else None | _ => None end
      else Some (set_d s ab (mkSD (sq d ++ firstn (N.to_nat n) p) (seof d) None false))
  | SWriteLate _ _ ObBlocked => Some s
  | SWriteLate _ _ _ => None
  | SRead ab n (ObR d r) =>
      let sd := dof s ab in
      let res := match strip_prefix d (sq sd) with
                 | Some q' => Some (q', sfl sd, scm sd)
                 | None => match sfl sd with
                           | Some p => match strip_prefix d (sq sd ++ p) with
                                       | Some q' => Some (q', None, true)
                                       | None => None end
                           | None => None end
                 end in
      match res with
      | None => None
      | Some (q', fl, cm) =>
          match r with
          | REof => if s_closed s && is_nil q' then Some (set_d s ab (mkSD q' true fl cm)) else None
          | _ => Some (set_d s ab (mkSD q' (seof sd) fl cm))
          end
      end
  | SRead _ n ObBlocked => if s_closed s && negb (n =? 0) then None else Some s
  | SRead _ _ _ => None
  | SClose => Some (mkS (s_ab s) (s_ba s) true)
  | SOther => Some s
  end.

Fixpoint spec_run (s : sst) (es : list sev) : option sst :=
  match es with
  | [] => Some s
  | e :: r => match spec_step s e with Some s' => spec_run s' r | None => None end
  end.

(* fin = the observer closed, joined its parked calls and then drained both directions *)
Definition stream_ok (fin : bool) (es : list sev) : bool :=
  match spec_run sinit es with
  | None => false
  | Some s => if fin then is_nil (sq (s_ab s)) && is_nil (sq (s_ba s)) && seof (s_ab s) && seof (s_ba s) else true
  end.

(* concurrent writer / reader on one direction: what each side saw, in its own order *)
Definition wrote (ws : list (bytes * obs)) : bytes :=
  concat (map (fun w => match snd w with ObW n _ => firstn (N.to_nat n) (fst w) | _ => [] end) ws).
Definition got (rs : list (N * obs)) : bytes :=
  concat (map (fun r => match snd r with ObR d _ => d | _ => [] end) rs).
Definition last_is_eof (rs : list (N * obs)) : bool :=
  match rev rs with (_, ObR _ REof) :: _ => true | _ => false end.
(* writer_closes: the writer called Close after its last Write returned; then the reader must
   reach EOF having received everything.  Otherwise (somebody closes while the writer is active)
   only the prefix property is demanded. *)
Definition stress_ok (writer_closes : bool) (ws : list (bytes * obs)) (rs : list (N * obs)) : bool :=
  is_prefix (got rs) (wrote ws) &&
  (if writer_closes then last_is_eof rs && (lenN (got rs) =? lenN (wrote ws)) else true).

(* a reader that is inside Read while the peer does Write(p); Close(): whatever the interleaving, every byte written
   before Close is returned before the first EOF (rs = the reader's Read results in order, it reads on after an EOF
   to show what was left behind) *)
Fixpoint before_eof (rs : list (N * obs)) : bytes * bool :=
  match rs with
  | [] => ([], false)
  | (_, ObR d REof) :: _ => (d, true)
  | (_, ObR d _) :: r => let (x, e) := before_eof r in (d ++ x, e)
  | _ :: r => before_eof r
  end.
Definition close_race_ok (written : bytes) (rs : list (N * obs)) : bool :=
  let (x, e) := before_eof rs in e && beq x written.

(* ---- listener ---- *)
Inductive lop :=
| ODial (i : N)            (* start Dial i in a goroutine, wait until it is queued or has returned *)
| OAccept (j : N)          (* call Accept and wait for it *)
| OAcceptStart (j : N)     (* start Accept j in a goroutine (it parks when nothing is queued) *)
| OAcceptJoin (j : N)      (* look at Accept j again *)
| OClose (k : N).
Inductive lobs :=
| LbPending            (* the call is queued / parked, has not returned *)
| LbDialOk
| LbDialErr            (* Dial returned ErrInmemoryListenerClosed *)
| LbAccept (r : option N)
| LbClose (ok : bool)
| LbBlocked.

Definition count_accepts (i : N) (ops : list (lop * lobs * N)) : nat :=
  length (filter (fun r => match snd (fst r) with LbAccept (Some c) => c =? i | _ => false end) ops).
(* ids of Dial calls made after a Close returned nil, and whether an Accept succeeded after it *)
Fixpoint after_close (closed : bool) (ops : list (lop * lobs * N)) : list N * bool :=
  match ops with
  | [] => (@nil N, false)
  | (o, b, _) :: r =>
      let closed' := closed || match b with LbClose true => true | _ => false end in
      let (ds, a) := after_close closed' r in
      (match o with ODial i => if closed then i :: ds else ds | _ => ds end,
       a || (closed && match o, b with
                       | OAccept _, LbAccept (Some _) | OAcceptStart _, LbAccept (Some _) => true
                       | _, _ => false end))
  end.
(* dials: (id, returned nil error, the conn pair passes bytes both ways) *)
Definition listener_ok (ops : list (lop * lobs * N)) (dials : list (N * bool * bool)) : bool :=
  forallb (fun d : N * bool * bool => match d with (i, ok, peer) =>
                      (if ok then Nat.eqb (count_accepts i ops) 1 && peer else true)
                      && Nat.leb (count_accepts i ops) 1 end) dials
  && (let (late, acc_after) := after_close false ops in
      negb acc_after &&
      forallb (fun i => forallb (fun d : N * bool * bool => match d with (i', ok, _) => negb ((i' =? i) && ok) end) dials) late).

(* concurrent Dial/Accept/Close: ids of dials with results, ids returned by accepts,
   results (success?) of calls made after Close returned *)
Definition lstress_ok (dials : list (N * bool)) (accepts : list (option N)) (post : list bool) : bool :=
  forallb (fun d : N * bool => let (i, ok) := d in
             let c := length (filter (fun a => match a with Some c => c =? i | None => false end) accepts) in
             (if ok then Nat.eqb c 1 else true) && Nat.leb c 1) dials
  && forallb negb post.
