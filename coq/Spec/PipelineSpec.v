(* PipelineSpec.v — what C38 demands of a state of the PipelineClient transition system (Model/Pipeline.v). *)
From FH Require Import Model.Base Model.Pipeline.
Open Scope N_scope.

(* In logical time: a deadline call is never found waiting after its deadline, and once returned it returned no later than its
   deadline (or at the instant of the call, when the deadline had already passed). *)
Definition returns_by_deadline (s : st) : Prop :=
  forall id d, i_dl (items s id) = Some d ->
    match i_pc (items s id) with
    | PNone => True
    | PEnq | PWait => now s <= d
    | PSubst => False                                   (* only Do substitutes *)
    | PRet _ t => t <= N.max d (i_called (items s id))
    end.

(* an item that failed with ErrPipelineOverflow (as recorded in w.err, or as returned) was never passed to req.Write *)
Definition overflow_not_transmitted (s : st) : Prop :=
  forall id, (i_done (items s id) = Some ROverflow \/ exists t, i_pc (items s id) = PRet ROverflow t) ->
             i_sent (items s id) = false.

Definition queue_bounds (s : st) : Prop :=
  (length (chW s) <= cap s)%nat /\ (length (chR s) <= cap s)%nat.

(* w.done (capacity 1) receives at most one token per work item: writer, reader, worker and substituting callers never block on it *)
Definition done_once (s : st) : Prop := forall id, i_signals (items s id) <= 1.

(* responses are handed out in the order the requests were written on the connection *)
Definition fifo_matching (s : st) : Prop := exists rest, wlog s = rlog s ++ rest.
