(* PreforkSpec.v — what C39 demands, stated on observations only:
   (a) on the sequence of things the master is seen to do (labels of Model/Prefork.v are the
       vocabulary, the model itself is not used), and
   (b) on the fate of every child process the master started. *)
From FH Require Import Model.Base Gen.GenC39 Model.Prefork.
Open Scope Z_scope.

(* number of child exits the supervision loop processed *)
Fixpoint count_recv (tr : list event) : Z :=
  match tr with
  | [] => 0
  | ERecv _ :: r => 1 + count_recv r
  | _ :: r => count_recv r
  end.

(* Supervision: whenever the loop takes an exit, exactly G children are under supervision
   (started minus processed); and after an exit at or below the threshold the very next thing the
   master does is to start a replacement (need = a replacement is owed). *)
Fixpoint sup (g t : Z) (spawned recvd : Z) (need : bool) (tr : list event) : bool :=
  match tr with
  | [] => true
  | ESpawn (PStarted _) :: r => sup g t (spawned + 1) recvd false r
  | ESpawn _ :: r => sup g t spawned recvd false r
  | ERecv _ :: r => negb need && (spawned - recvd =? g) && sup g t spawned (recvd + 1) (recvd + 1 <=? t) r
  | EDie _ _ :: r | EReap _ :: r | ETimer _ :: r => sup g t spawned recvd need r
  | _ :: r => negb need && sup g t spawned recvd need r
  end.
Definition supervised (c : cfg) (tr : list event) : bool := sup (Z.of_nat (G c)) (T c) 0 0 false tr.

(* ErrOverRecovery exactly when more than RecoverThreshold exits were processed
   (a negative threshold is degenerate — "more than T exits" holds before anything ran — and not judged) *)
Definition over_recovery_ok (c : cfg) (tr : list event) (ret : err) : bool :=
  (T c <? 0) || Bool.eqb (err_eqb ret ErrOverRecovery) (count_recv tr >? T c).

(* ---- fate of a started child, as seen from outside after prefork returned ---- *)
Inductive cause := CExit (code : Z) | CTerm | CKill | COther | CNone.
Record kobs := {
  o_pid : Z;
  o_reaped : bool;               (* the master's cmd.Wait() completed *)
  o_left : bool;                 (* still in the process table (running or zombie) after the return *)
  o_cause : cause;
  o_term_seen : option bool      (* for children able to report it: did a SIGTERM arrive *)
}.

Definition is_kill (k : kobs) : bool := match o_cause k with CKill => true | _ => false end.

(* every started child reaped and gone; a child that had to be killed was asked to terminate first *)
Definition kid_done (k : kobs) : bool :=
  o_reaped k && negb (o_left k) &&
  match o_cause k, o_term_seen k with CKill, Some false => false | _, _ => true end.

Definition eff_grace (grace_ns : Z) : Z := if grace_ns <=? 0 then defaultShutdownGracePeriod else grace_ns.

(* SIGKILL only after the grace period: the teardown lasted at least that long when anyone was killed *)
Definition grace_respected (grace_ns teardown_ns : Z) (ks : list kobs) : bool :=
  if existsb is_kill ks then eff_grace grace_ns <=? teardown_ns else true.

(* restart only after RecoverInterval: (minimal lifetime of the child, time from before its start
   to the moment the loop took its exit) *)
Definition interval_respected (ri_ns : Z) (lifes : list (Z * Z)) : bool :=
  forallb (fun p => ri_ns + fst p <=? snd p) lifes.
