(* RedirectSpec.v — what property C20 demands, stated on what the hosts of a (fake) network observe.
   Independent of the model: own lower-casing, own list of credential header names (typed from the property text). *)
From FH Require Import Model.Base.
Open Scope N_scope.

Definition lc (b : N) : N := if (65 <=? b) && (b <=? 90) then b + 32 else b.
Definition lcs (s : bytes) : bytes := map lc s.

(* h is the initial host or one of its subdomains: ASCII-case-insensitive, host names without port/brackets *)
Definition trusted (init h : bytes) : Prop :=
  lcs h = lcs init \/ exists pre, lcs h = pre ++ DOT :: lcs init.

Definition is_suffix (suf s : bytes) : bool :=
  (length suf <=? length s)%nat && beq (skipn (length s - length suf) s) suf.
Definition trustedb (init h : bytes) : bool :=
  beq (lcs h) (lcs init) || is_suffix (DOT :: lcs init) (lcs h).

(* the six credential-carrying header names of the property statement *)
Definition credential_names : list bytes :=
  [s2b "authorization"; s2b "cookie"; s2b "cookie2"; s2b "proxy-authorization"; s2b "proxy-authenticate"; s2b "www-authenticate"].
Definition is_credential_name (k : bytes) : bool := existsb (beq (lcs k)) credential_names.

(* what a host saw of one request *)
Record ohop := mkOhop {
  o_host : bytes;                    (* host name dialled (port and brackets removed) *)
  o_method : bytes;
  o_creds : list (bytes * bytes);    (* received header lines whose name is one of the six (any case) *)
  o_body : Z;                        (* body bytes received *)
  o_cl : bool; o_ct : bool; o_te : bool   (* Content-Length / Content-Type / Transfer-Encoding line received *)
}.

(* a received line is caller-supplied when the caller had put a header with that name (any case) and that value *)
Definition same_cred (a b : bytes * bytes) : bool := beq (lcs (fst a)) (lcs (fst b)) && beq (snd a) (snd b).
Definition caller_supplied (caller : list (bytes * bytes)) (kv : bytes * bytes) : bool := existsb (same_cred kv) caller.

(* (1) no caller-supplied credential header reaches a host that is neither the initial host nor a subdomain of it *)
Definition no_leak (init : bytes) (caller : list (bytes * bytes)) (hops : list ohop) : bool :=
  forallb (fun hp => trustedb init (o_host hp) || negb (existsb (caller_supplied caller) (o_creds hp))) hops.

(* (2) at most maxr redirects are followed: at most maxr + 1 requests *)
Definition count_ok (maxr : Z) (hops : list ohop) : bool :=
  (Z.of_nat (length hops) <=? Z.max 0 maxr + 1)%Z.

(* (3),(4) judged on consecutive requests: [statuses] are the answers the requests got, in order *)
Definition GET : bytes := s2b "GET".
Definition HEAD : bytes := s2b "HEAD".
Definition POST : bytes := s2b "POST".

Definition after_303_ok (nxt : ohop) : bool :=
  (beq (o_method nxt) GET || beq (o_method nxt) HEAD) && (o_body nxt =? 0)%Z &&
  negb (o_cl nxt) && negb (o_ct nxt) && negb (o_te nxt).

Fixpoint rewrite_ok (statuses : list Z) (hops : list ohop) : bool :=
  match statuses, hops with
  | st :: sts, cur :: ((nxt :: _) as rest) =>
      (if (st =? 303)%Z then after_303_ok nxt else true) &&
      (if ((st =? 301) || (st =? 302))%Z && beq (o_method cur) POST then beq (o_method nxt) GET else true) &&
      rewrite_ok sts rest
  | _, _ => true
  end.
