(* RespParse.v — an INDEPENDENT HTTP/1.1 response reader, written from RFC 9112 (sections 2.2, 4, 5, 6.3, 7.1)
   and RFC 9110 (5.1 field names, 5.6.2 tokens).  It shares nothing with the models of fasthttp: it is the
   oracle of property C03 ("the bytes the server writes parse as exactly one response").

   Strictness choices (all on the side of NOT accepting sloppy output):
     * lines end in CRLF; a bare CR or a bare LF anywhere in the head or in a chunk-size / trailer line rejects;
     * status-line = "HTTP/" DIGIT "." DIGIT SP 3DIGIT SP reason  (the SP after the code is required, 9112 s.4);
     * field-line  = token ":" OWS value OWS; an empty or non-token name rejects; no obs-fold;
     * body framing exactly as 9112 s.6.3, in that order:
         1. response to HEAD, 1xx, 204, 304                -> no body
         3. Transfer-Encoding AND Content-Length present   -> rejected here (a recipient may only treat it as an error
                                                              or let Transfer-Encoding win: the message is ambiguous)
         4. Transfer-Encoding whose final coding is chunked -> chunked; any other Transfer-Encoding -> until close
         5. Content-Length: 1*DIGIT, repeated values must be identical, anything else rejects -> that many bytes
         7. otherwise                                      -> until the connection closes
     * an incomplete message (missing bytes) is None.
   (Rule 2, CONNECT, does not arise: methods here are GET / HEAD / POST.) *)
From FH Require Import Model.Base Spec.IntsSpec.
Open Scope N_scope.

Inductive meth := MGet | MHead | MPost.
Definition meth_eqb (a b : meth) : bool :=
  match a, b with MGet, MGet | MHead, MHead | MPost, MPost => true | _, _ => false end.
Definition is_head (m : meth) : bool := match m with MHead => true | _ => false end.

Definition field := (bytes * bytes)%type.

(* ---------- lines ---------- *)
(* the text before the first CRLF and what follows it; None when there is no CRLF, or a bare CR / LF comes first *)
Fixpoint take_line (s : bytes) : option (bytes * bytes) :=
  match s with
  | [] => None
  | c :: r =>
      if c =? 13 then
        match r with
        | d :: r' => if d =? 10 then Some ([], r') else None
        | [] => None
        end
      else if c =? 10 then None
      else match take_line r with
           | Some (l, rest) => Some (c :: l, rest)
           | None => None
           end
  end.

(* ---------- tokens, OWS ---------- *)
Definition is_alpha (c : N) : bool := ((65 <=? c) && (c <=? 90)) || ((97 <=? c) && (c <=? 122)).
Definition is_dig (c : N) : bool := (48 <=? c) && (c <=? 57).
(* tchar = "!" / "#" / "$" / "%" / "&" / "'" / "*" / "+" / "-" / "." / "^" / "_" / "`" / "|" / "~" / DIGIT / ALPHA *)
Definition is_tchar (c : N) : bool :=
  is_alpha c || is_dig c ||
  existsb (N.eqb c) [33; 35; 36; 37; 38; 39; 42; 43; 45; 46; 94; 95; 96; 124; 126].
Definition is_token (s : bytes) : bool := match s with [] => false | _ => forallb is_tchar s end.

Definition is_ows (c : N) : bool := (c =? 32) || (c =? 9).
Fixpoint drop_ows (s : bytes) : bytes :=
  match s with
  | c :: r => if is_ows c then drop_ows r else s
  | [] => []
  end.
Definition trim_ows (s : bytes) : bytes := rev (drop_ows (rev (drop_ows s))).

Definition lower (c : N) : N := if (65 <=? c) && (c <=? 90) then c + 32 else c.
Definition name_is (n : string) (k : bytes) : bool := beq (map lower k) (s2b n).

(* ---------- status line ---------- *)
Definition digit_val (c : N) : Z := (Z.of_N c - 48)%Z.
Definition parse_status_line (l : bytes) : option (Z * bytes) :=
  match l with
  | 72 :: 84 :: 84 :: 80 :: 47 :: maj :: 46 :: mnr :: 32 :: d1 :: d2 :: d3 :: 32 :: reason =>
      if is_dig maj && is_dig mnr && is_dig d1 && is_dig d2 && is_dig d3
      then Some ((100 * digit_val d1 + 10 * digit_val d2 + digit_val d3)%Z, reason)
      else None
  | _ => None
  end.

(* ---------- field lines ---------- *)
Fixpoint split_colon (l : bytes) : option (bytes * bytes) :=
  match l with
  | [] => None
  | c :: r => if c =? 58 then Some ([], r)
              else match split_colon r with Some (a, b) => Some (c :: a, b) | None => None end
  end.
Definition parse_field (l : bytes) : option field :=
  match split_colon l with
  | Some (name, v) => if is_token name then Some (name, trim_ows v) else None
  | None => None
  end.

(* the field section up to and including the empty line *)
Fixpoint parse_fields (fuel : nat) (s : bytes) : option (list field * bytes) :=
  match fuel with
  | O => None
  | S f =>
      match take_line s with
      | None => None
      | Some ([], rest) => Some ([], rest)
      | Some (l, rest) =>
          match parse_field l with
          | None => None
          | Some nv =>
              match parse_fields f rest with
              | Some (fs, r) => Some (nv :: fs, r)
              | None => None
              end
          end
      end
  end.

(* ---------- framing ---------- *)
Definition values_of (n : string) (fs : list field) : list bytes :=
  map snd (filter (fun nv => name_is n (fst nv)) fs).

(* comma-separated list members, OWS-trimmed *)
Fixpoint split_commas (cur : bytes) (s : bytes) : list bytes :=
  match s with
  | [] => [trim_ows (rev cur)]
  | c :: r => if c =? 44 then trim_ows (rev cur) :: split_commas [] r else split_commas (c :: cur) r
  end.
Definition final_coding_is_chunked (tes : list bytes) : bool :=
  match rev (flat_map (split_commas []) tes) with
  | last :: _ => beq (map lower last) (s2b "chunked")
  | [] => false
  end.

Inductive framing := FNone | FChunked | FLength (n : Z) | FClose | FBad.

Definition no_body_status (status : Z) : bool :=
  ((status <? 200) || (status =? 204) || (status =? 304))%Z.

Definition decide_framing (m : meth) (status : Z) (fs : list field) : framing :=
  if is_head m || no_body_status status then FNone
  else
    match values_of "transfer-encoding" fs, values_of "content-length" fs with
    | _ :: _, _ :: _ => FBad
    | te :: tes, [] => if final_coding_is_chunked (te :: tes) then FChunked else FClose
    | [], v :: vs =>
        match v with
        | [] => FBad
        | _ => if all_digits v && forallb (beq v) vs then FLength (dec_value v) else FBad
        end
    | [], [] => FClose
    end.

(* ---------- chunked body (9112 s.7.1) ---------- *)
(* chunk-size line: 1*HEXDIG, optionally followed by chunk extensions starting with ";" (BWS tolerated) *)
Definition parse_chunk_size (l : bytes) : option Z :=
  let (d, e) := span_hex l in
  match d with
  | [] => None
  | _ => match drop_ows e with
         | [] => Some (hex_value d)
         | c :: _ => if c =? 59 then Some (hex_value d) else None
         end
  end.

Fixpoint dechunk (fuel : nat) (s acc : bytes) : option (bytes * list field * bytes) :=
  match fuel with
  | O => None
  | S f =>
      match take_line s with
      | None => None
      | Some (l, rest) =>
          match parse_chunk_size l with
          | None => None
          | Some n =>
              if (n =? 0)%Z then
                match parse_fields (S (length rest)) rest with
                | Some (tr, rest') => Some (acc, tr, rest')
                | None => None
                end
              else
                let k := Z.to_nat n in
                if (length rest <? k + 2)%nat then None
                else
                  match skipn k rest with
                  | a :: b :: rest' =>
                      if (a =? 13) && (b =? 10) then dechunk f rest' (acc ++ firstn k rest) else None
                  | _ => None
                  end
          end
      end
  end.

(* ---------- one response ---------- *)
Record parsed := mkParsed {
  p_status : Z; p_reason : bytes; p_fields : list field; p_body : bytes; p_trailers : list field;
  p_rest : bytes;            (* bytes after the message *)
  p_until_close : bool       (* the body was delimited by the end of input (rule 7 / non-chunked Transfer-Encoding) *)
}.

Definition resp_parse (m : meth) (s : bytes) : option parsed :=
  match take_line s with
  | None => None
  | Some (sl, after_sl) =>
      match parse_status_line sl with
      | None => None
      | Some (status, reason) =>
          match parse_fields (S (length after_sl)) after_sl with
          | None => None
          | Some (fs, after_head) =>
              match decide_framing m status fs with
              | FBad => None
              | FNone => Some (mkParsed status reason fs [] [] after_head false)
              | FClose => Some (mkParsed status reason fs after_head [] [] true)
              | FLength n =>
                  let k := Z.to_nat n in
                  if (length after_head <? k)%nat then None
                  else Some (mkParsed status reason fs (firstn k after_head) [] (skipn k after_head) false)
              | FChunked =>
                  match dechunk (S (length after_head)) after_head [] with
                  | Some (body, tr, rest) => Some (mkParsed status reason fs body tr rest false)
                  | None => None
                  end
              end
          end
      end
  end.

(* a connection's byte stream as a sequence of responses to the given request methods; all of it must be used *)
Fixpoint parse_seq (ms : list meth) (s : bytes) : option (list parsed) :=
  match ms with
  | [] => match s with [] => Some [] | _ => None end
  | m :: ms' =>
      match resp_parse m s with
      | None => None
      | Some p =>
          match parse_seq ms' (p_rest p) with
          | Some ps => Some (p :: ps)
          | None => None
          end
      end
  end.

(* field lookup used by the oracles: all values of a name, in order *)
Definition field_values (n : bytes) (fs : list field) : list bytes :=
  map snd (filter (fun nv => beq (map lower (fst nv)) (map lower n)) fs).
