(* RespSpec.v — what property C03 demands of the bytes a server writes for a handler program.
   Independent of how fasthttp stores or serialises a response: a handler program (the SYNTAX `hop` of
   Model/RespWrite.v) is read as the list of API calls it is, and reduced to the status and body the handler asked
   for; the wire is judged by the independent reader Spec/RespParse.v. *)
From FH Require Import Model.Base Gen.GenC05 Model.HeaderWrite Model.RespWrite Spec.RespParse Spec.HeaderSpec.
Open Scope Z_scope.

(* ---------- what the handler asked for ---------- *)
Inductive want_body :=
| WBytes (b : bytes)                       (* an in-memory body *)
| WStream (declared : Z) (s : stream).     (* SetBodyStream(r, declared) *)
Record want := mkWant { w_status : Z; w_body : want_body }.
Definition want0 : want := mkWant 200 (WBytes []).

Definition norm_status (n : Z) : Z := if n =? 0 then 200 else n.

Definition want_step (w : want) (o : hop) : want :=
  match o with
  | HHdr (ROSetStatusCode n) => mkWant (norm_status n) (w_body w)
  | HSetBody b => mkWant (w_status w) (WBytes b)
  | HAppendBody p =>
      (* appended to the body built so far; a body stream cannot be appended to: it is closed and dropped *)
      mkWant (w_status w) (WBytes (match w_body w with WBytes b => b ++ p | WStream _ _ => p end))
  | HSetBodyRaw b => mkWant (w_status w) (WBytes b)
  | HResetBody => mkWant (w_status w) (WBytes [])
  | HSetBodyStream n s => mkWant (w_status w) (WStream n s)
  | HError msg code => mkWant (norm_status code) (WBytes msg)
  | HReset => want0
  | _ => w
  end.
Definition want_of (prog : list hop) : want := fold_left want_step prog want0.

Definition slen (s : stream) : Z := Z.of_nat (length (st_data s)).

(* the body bytes the peer must receive when the status and method allow a body:
   None = the stream cannot be delivered as declared (read error, or it yields a different number of bytes than the
   size declared for it): the only demand then is "at most the declared size, then close" *)
Definition wanted_bytes (b : want_body) : option bytes :=
  match b with
  | WBytes x => Some x
  | WStream n s =>
      if n <? 0 then (if st_fail s then None else Some (st_data s))
      else if slen s =? n then Some (st_data s)     (* all declared bytes were there (a read error after them is moot) *)
      else None
  end.
(* the size declared for a stream that cannot be delivered (None: no bound, chunked) *)
Definition declared_bound (b : want_body) : option Z :=
  match b with
  | WStream n _ => if n >=? 0 then Some n else None
  | WBytes _ => None
  end.

Definition bodyless (m : meth) (status : Z) : bool := is_head m || (status =? 204) || (status =? 304).
(* the statement speaks about final statuses 200..999 *)
Definition status_in_scope (status : Z) : bool := (200 <=? status) && (status <=? 999).

(* ---------- header fields ---------- *)
(* the field names the library manages itself (framing, connection handling, the single-valued slots of the Response):
   a server is specified to add or own these; every other name is a user header field *)
Definition special_names : list string :=
  ["server"; "date"; "content-type"; "content-encoding"; "content-length"; "transfer-encoding"; "trailer"; "set-cookie"; "connection"]%string.
Definition is_user (k : bytes) : bool := negb (existsb (fun n => name_is n k) special_names).
Definition user_of (fs : list (bytes * bytes)) : list (bytes * bytes) := filter (fun e => is_user (fst e)) fs.

(* the user header fields a handler program asked for: its header calls read as operations of the reference header map
   Spec/HeaderSpec.v (ordered multimap: Set replaces the first value or appends, Add appends, Del removes all; names
   canonicalised unless normalising is off; CR/LF in values become blanks).  f_ok = false: the program uses something
   this reading does not cover (trailers move fields out of the head; SetCanonical with a non-canonical key) *)
Record fwant := mkFW { f_m : mm; f_nonorm : bool; f_ok : bool }.
Definition fwant_step (w : fwant) (o : hop) : fwant :=
  match o with
  | HHdr (ROSet k v) =>
      match cls_of HResp (canon (f_nonorm w) k) with
      | CTrailer => mkFW (f_m w) (f_nonorm w) false
      | _ => mkFW (sstep HResp (f_nonorm w) (f_m w) (SSet k v)) (f_nonorm w) (f_ok w)
      end
  | HHdr (ROAdd k v) =>
      match cls_of HResp (canon (f_nonorm w) k) with
      | CTrailer => mkFW (f_m w) (f_nonorm w) false
      | _ => mkFW (sstep HResp (f_nonorm w) (f_m w) (SAdd k v)) (f_nonorm w) (f_ok w)
      end
  | HHdr (ROSetCanonical k v) =>
      if beq (canon (f_nonorm w) k) k && match cls_of HResp k with CTrailer => false | _ => true end
      then mkFW (sstep HResp (f_nonorm w) (f_m w) (SSet k v)) (f_nonorm w) (f_ok w)
      else mkFW (f_m w) (f_nonorm w) false
  | HHdr (ROSetTrailer _) | HHdr (ROAddTrailer _) => mkFW (f_m w) (f_nonorm w) false
  | HHdr RODisableNormalizing => mkFW (f_m w) true (f_ok w)
  | HHdr ROEnableNormalizing => mkFW (f_m w) false (f_ok w)
  | HDel k => mkFW (sstep HResp (f_nonorm w) (f_m w) (SDel k)) (f_nonorm w) (f_ok w)
  | HError _ _ | HReset => mkFW [] false (f_ok w)        (* Response.Reset *)
  | _ => w
  end.
Definition fwant_of (nonorm0 : bool) (prog : list hop) : fwant := fold_left fwant_step prog (mkFW [] nonorm0 true).

Definition field_eqb (a b : bytes * bytes) : bool := beq (fst a) (fst b) && beq (snd a) (snd b).
(* the reader's user fields are exactly the program's, same order, values up to surrounding blanks *)
Definition fields_ok (nonorm0 : bool) (prog : list hop) (fs : list field) : bool :=
  let w := fwant_of nonorm0 prog in
  if f_ok w then list_eqb field_eqb (user_of fs) (map (fun e => (fst e, trim_ows (snd e))) (user_of (f_m w)))
  else true.

(* ---------- head only (for the "at most the declared size" clause) ---------- *)
Definition head_parse (s : bytes) : option (Z * list field * bytes) :=
  match take_line s with
  | None => None
  | Some (sl, after_sl) =>
      match parse_status_line sl with
      | None => None
      | Some (status, _) =>
          match parse_fields (S (length after_sl)) after_sl with
          | None => None
          | Some (fs, after_head) => Some (status, fs, after_head)
          end
      end
  end.

(* a stream of exactly the declared size whose read error arrives together with its last byte: every declared byte was
   there, but the stream also failed: delivering the body and giving up on the connection are both acceptable *)
Definition ambiguous_body (b : want_body) : bool :=
  match b with
  | WStream n s => (0 <=? n) && (slen s =? n) && st_fail s && st_with s && negb (slen s =? 0)
  | WBytes _ => false
  end.

(* a response whose body stream cannot be delivered as declared: writing it fails and the server closes the connection
   without flushing, so anything still buffered (also earlier pipelined responses) may be cut off *)
Definition undeliverable (r : meth * list hop) : bool :=
  let w := want_of (snd r) in
  negb (bodyless (fst r) (w_status w)) &&
  (match wanted_bytes (w_body w) with None => true | Some _ => false end || ambiguous_body (w_body w)).

(* ---------- the judgement on a connection's bytes ----------
   reqs: the requests the peer sent (method, handler program), in order;
   wire: everything the peer received; closed: the server closed the connection by itself.
   Every request is answered in order until the connection is closed. *)
Fixpoint judge_conn (nonorm0 : bool) (reqs : list (meth * list hop)) (wire : bytes) (closed : bool) : bool :=
  match reqs with
  | [] => match wire with [] => true | _ => false end
  | (m, prog) :: rest =>
      let w := want_of prog in
      if negb (status_in_scope (w_status w)) then true           (* outside the statement *)
      else
        match wanted_bytes (w_body w) with
        | Some body =>
            match resp_parse m wire with
            | None => closed && existsb undeliverable ((m, prog) :: rest)   (* cut off by a failed Write (this one only if ambiguous, else a later one) *)
            | Some p =>
                (p_status p =? w_status w) && fields_ok nonorm0 prog (p_fields p) &&
                beq (p_body p) (if bodyless m (w_status w) then [] else body) &&
                if p_until_close p then closed                   (* delimited by the close: must be closed, nothing follows *)
                else
                  match p_rest p, rest with
                  | [], _ => if closed then true                 (* closed after this response: later requests unanswered *)
                             else match rest with [] => true | _ => false end
                  | _ :: _, [] => false                           (* bytes after the last response *)
                  | _ :: _, _ :: _ => judge_conn nonorm0 rest (p_rest p) closed
                  end
            end
        | None =>
            if bodyless m (w_status w) then
              (* no body is sent anyway: one complete response, then whatever the connection does *)
              match resp_parse m wire with
              | None => closed && existsb undeliverable rest
              | Some p => (p_status p =? w_status w) && fields_ok nonorm0 prog (p_fields p) &&
                          match p_rest p, rest with
                          | [], _ => closed || match rest with [] => true | _ => false end
                          | _ :: _, [] => false
                          | _ :: _, _ :: _ => judge_conn nonorm0 rest (p_rest p) closed
                          end
              end
            else
              (* the stream cannot be delivered as declared: at most the declared size reaches the peer, then close *)
              closed &&
              match head_parse wire with
              | None => true                                      (* closed before the head was complete *)
              | Some (status, _, after_head) =>
                  (status =? w_status w) &&
                  match declared_bound (w_body w) with
                  | Some n => Z.of_nat (length after_head) <=? n
                  | None => true
                  end
              end
        end
  end.
