(* What C19 demands of HostClient.Do, in terms of the configuration and the fault sequence. *)
From FH Require Import Model.Base Gen.GenC19 Model.Retry.
Open Scope Z_scope.

(* a callback that can ask for another attempt *)
Definition tbl_allows (t : list (bool * bool)) : bool := existsb (fun p => snd p) t.
Definition callbacks_allow (c : cfg) : bool :=
  match retry_if_err_up c with
  | Some t => tbl_allows t
  | None => match retry_if_err c with
            | Some t => tbl_allows t
            | None => match retry_if c with Some b => b | None => false end
            end
  end.
Definition has_callback (c : cfg) : bool :=
  match retry_if_err_up c, retry_if_err c, retry_if c with None, None, None => false | _, _, _ => true end.

(* a callback that can ask for the timeout to be reset *)
Definition tbl_resets (t : list (bool * bool)) : bool := existsb (fun p => fst p) t.
Definition callbacks_reset (c : cfg) : bool :=
  match retry_if_err_up c with
  | Some t => tbl_resets t
  | None => match retry_if_err c with Some t => tbl_resets t | None => false end
  end.

(* the methods the statement names *)
Definition named_idempotent (m : bytes) : bool :=
  beq m (s2b "GET") || beq m (s2b "HEAD") || beq m (s2b "PUT").

Definition is_timeout_fault (f : fault) : bool :=
  match f with FWriteTimeout | FReadTimeout => true | _ => false end.
