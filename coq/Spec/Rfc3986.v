(* Rfc3986.v — what C26 demands of a request path, written independently of the code.

   spec_path src = remove_dot_segments (collapse_slashes (pct_decode (add_slash src)))

   * remove_dot_segments is RFC 3986 section 5.2.4 verbatim: an input buffer, an output buffer and the
     five rules 2A-2E, iterated until the input buffer is empty (fuel = length of the input + 1: every
     rule shortens the input buffer).
   * rds_segs is the same algorithm on a path already cut into segments (a stack of output segments);
     Proof/PathNormProof.v proves rds_join: on every path that starts with '/' the two agree.
   * pct_decode: "%XY" with two hex digits becomes the byte 16*X+Y, any other '%' stays literal.
   * shape_ok: starts with '/', no empty segment (no "//"), no "." or ".." segment anywhere. *)
From FH Require Import Model.Base.
Open Scope N_scope.

(* ---- helpers on byte strings ---- *)
Fixpoint starts (p s : bytes) : bool :=           (* s starts with p *)
  match p, s with
  | [], _ => true
  | a :: p', b :: s' => (a =? b) && starts p' s'
  | _ :: _, [] => false
  end.

Definition occurs (pat s : bytes) : Prop := exists x y, s = x ++ pat ++ y.
Definition ends_with (pat s : bytes) : Prop := exists x, s = x ++ pat.

(* ---- step 1: leading slash ---- *)
Definition add_slash (s : bytes) : bytes :=
  match s with
  | c :: _ => if c =? SLASH then s else SLASH :: s
  | [] => [SLASH]
  end.

(* ---- step 2: percent-decoding (invalid or truncated escapes stay literal) ---- *)
Definition hex_digit (c : N) : option N :=
  if (48 <=? c) && (c <=? 57) then Some (c - 48)
  else if (97 <=? c) && (c <=? 102) then Some (c - 87)
  else if (65 <=? c) && (c <=? 70) then Some (c - 55)
  else None.

Fixpoint pct_decode (s : bytes) : bytes :=
  match s with
  | [] => []
  | c :: t =>
      match t with
      | a :: b :: r =>
          match (if c =? PCT then hex_digit a else None), hex_digit b with
          | Some x, Some y => (16 * x + y) :: pct_decode r
          | _, _ => c :: pct_decode t
          end
      | _ => c :: pct_decode t
      end
  end.

(* ---- step 3: runs of '/' become one '/' ---- *)
Fixpoint collapse_slashes (s : bytes) : bytes :=
  match s with
  | [] => []
  | a :: r =>
      match r with
      | b :: _ => if (a =? SLASH) && (b =? SLASH) then collapse_slashes r else a :: collapse_slashes r
      | [] => [a]
      end
  end.

(* ---- step 4: RFC 3986 5.2.4 remove_dot_segments ---- *)

(* "removing the last segment and its preceding "/" (if any) from the output buffer" *)
Fixpoint drop_last_segment (out : bytes) : bytes :=
  match out with
  | [] => []
  | c :: r => if existsb (N.eqb SLASH) r then c :: drop_last_segment r else []
  end.

Fixpoint span_noslash (s : bytes) : bytes * bytes :=
  match s with
  | [] => ([], [])
  | c :: r => if c =? SLASH then ([], s) else let (a, b) := span_noslash r in (c :: a, b)
  end.

(* "the first path segment in the input buffer, including the initial "/" character (if any) and any
   subsequent characters up to, but not including, the next "/" character or the end of the input buffer" *)
Definition first_segment (inp : bytes) : bytes * bytes :=
  match inp with
  | [] => ([], [])
  | c :: r => let (a, b) := span_noslash r in (c :: a, b)
  end.

Definition sDot := [DOT].                      Definition sDotDot := [DOT; DOT].
Definition sDotSl := [DOT; SLASH].             Definition sDotDotSl := [DOT; DOT; SLASH].
Definition sSlDot := [SLASH; DOT].             Definition sSlDotSl := [SLASH; DOT; SLASH].
Definition sSlDotDot := [SLASH; DOT; DOT].     Definition sSlDotDotSl := [SLASH; DOT; DOT; SLASH].
Definition sSlSl := [SLASH; SLASH].

Fixpoint rds_loop (fuel : nat) (inp out : bytes) : bytes :=
  match fuel with
  | O => out
  | S f =>
      match inp with
      | [] => out                                                                   (* 3. *)
      | _ =>
          if starts sDotDotSl inp then rds_loop f (skipn 3 inp) out                 (* 2A "../" *)
          else if starts sDotSl inp then rds_loop f (skipn 2 inp) out               (* 2A "./"  *)
          else if starts sSlDotSl inp then rds_loop f (skipn 2 inp) out             (* 2B "/./" -> "/" *)
          else if beq inp sSlDot then rds_loop f [SLASH] out                        (* 2B "/."  -> "/" *)
          else if starts sSlDotDotSl inp
               then rds_loop f (skipn 3 inp) (drop_last_segment out)                (* 2C "/../" -> "/" *)
          else if beq inp sSlDotDot then rds_loop f [SLASH] (drop_last_segment out) (* 2C "/.."  -> "/" *)
          else if beq inp sDot || beq inp sDotDot then rds_loop f [] out            (* 2D *)
          else let (seg, rest) := first_segment inp in rds_loop f rest (out ++ seg) (* 2E *)
      end
  end.

Definition remove_dot_segments (p : bytes) : bytes := rds_loop (S (length p)) p [].

(* THE specification of URI.Path() *)
Definition spec_path (src : bytes) : bytes :=
  remove_dot_segments (collapse_slashes (pct_decode (add_slash src))).

(* ---- the same on segments ---- *)

(* segments of a path given WITHOUT its leading '/': "a//b/" -> ["a"; ""; "b"; ""] *)
Fixpoint split_segs (s : bytes) : list bytes :=
  match s with
  | [] => [[]]
  | c :: r =>
      if c =? SLASH then [] :: split_segs r
      else match split_segs r with
           | hd :: tl => (c :: hd) :: tl
           | [] => [[c]]
           end
  end.

Definition join_segs (l : list bytes) : bytes := flat_map (cons SLASH) l.

Definition is_dot (s : bytes) : bool := beq s sDot.
Definition is_dotdot (s : bytes) : bool := beq s sDotDot.

Fixpoint rds_segs (out l : list bytes) : list bytes :=
  match l with
  | [] => out
  | s :: rest =>
      if is_dot s then
        match rest with [] => out ++ [[]] | _ => rds_segs out rest end
      else if is_dotdot s then
        match rest with [] => removelast out ++ [[]] | _ => rds_segs (removelast out) rest end
      else rds_segs (out ++ [s]) rest
  end.

(* segment formulation of spec_path (equal to spec_path: PathNormProof.spec_path_segs) *)
Definition spec_path_segs (src : bytes) : bytes :=
  join_segs (rds_segs [] (split_segs (tl (collapse_slashes (pct_decode (add_slash src)))))).

(* ---- the shape of a normalised path ---- *)
Definition clean_seg (s : bytes) : bool := negb (is_dot s) && negb (is_dotdot s).
Definition nonempty (s : bytes) : bool := match s with [] => false | _ => true end.

(* starts with '/', every segment but the last is non-empty, no segment is "." or ".." *)
Definition shape_okb (p : bytes) : bool :=
  match p with
  | c :: r => (c =? SLASH) && forallb clean_seg (split_segs r) && forallb nonempty (removelast (split_segs r))
  | [] => false
  end.

(* the same, said on the string *)
Definition shape_ok (p : bytes) : Prop :=
  (exists r, p = SLASH :: r) /\
  ~ occurs sSlSl p /\ ~ occurs sSlDotSl p /\ ~ occurs sSlDotDotSl p /\
  ~ ends_with sSlDot p /\ ~ ends_with sSlDotDot p.
