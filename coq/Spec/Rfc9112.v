(* Rfc9112.v — HTTP/1.1 request framing as RFC 9112 (with RFC 9110 for fields and lists) defines it.
   Written from the RFC text, not from fasthttp.  This file is the property oracle of C01:
   [rfc_frame stream] cuts a connection's byte stream into the requests the RFC assigns to it.

   READING OF THE RFC.  Wherever the RFC gives a recipient the choice between rejecting a message and a
   lenient reading (MAY / "either ... or"), the oracle takes the LENIENT reading: a server that rejects
   (error response + close) is always within the property, so only the lenient reading can constrain a
   server that goes on.  Wherever the RFC says MUST reject / "framing is invalid", the class is Invalid.

   9112 s2.2   line terminator: CRLF; a single LF MAY be recognised, any preceding CR ignored      -> LF lenient
               empty line(s) before the request-line SHOULD be ignored                              -> skipped
               whitespace-preceded line(s) between start-line and first field: reject OR consume   -> consumed
   9112 s3     request-line = method SP request-target SP HTTP-version (strict single SP form;
               method = token; HTTP-version = "HTTP/" DIGIT "." DIGIT, case-sensitive).
               request-target: any non-empty run of octets 0x21..0xFF except DEL (what a request-target
               may contain is not a framing matter; whitespace and controls are excluded by the grammar).
               Minor version >= 1 of major 1 (and any higher major) is read as HTTP/1.1 (9110 s2.5),
               everything below as HTTP/1.0.
   9112 s5     field-line = field-name ":" OWS field-value OWS.  No whitespace between name and colon:
               MUST reject (s5.1) -> Invalid.  A line without colon or with an empty name -> Invalid.
               A name that is not a token but has no trailing whitespace is kept as an opaque field:
               it cannot be Content-Length / Transfer-Encoding (those are tokens), so it has no
               bearing on framing.
   9112 s5.2   obs-fold in a request: reject OR replace by SP                                       -> replaced
   9112 s6.1   Transfer-Encoding in an HTTP/1.0 message: framing faulty, MUST close afterwards      -> Ambiguous, no length
               Content-Length together with Transfer-Encoding: MAY reject or process by TE alone,
               MUST close afterwards                                                                -> Ambiguous, chunked
   9112 s6.3   (3)(4) TE present: final coding chunked -> chunked body; otherwise the length cannot be
               determined, the server MUST answer 400 and close                                     -> Invalid
               EXCEPT a lone "identity" (the property statement of C01 tolerates it as ambiguous)   -> Ambiguous, no length
               chunked applied more than once (s6.1 sender MUST NOT)                                -> Invalid
               (5) no TE, invalid Content-Length: unrecoverable error, unless the value is a list of
               identical valid values (MAY accept with that value; C01 counts it as "duplicate")    -> Ambiguous n / Invalid
               (6) valid Content-Length -> that many octets; (7) none -> zero.
   9112 s7.1   chunked-body = *chunk last-chunk trailer-section CRLF, chunk lines end in CRLF strictly;
               chunk-ext: BWS is tolerated (s7.1.1: "MUST parse for such bad whitespace"), the extension
               text itself is not interpreted (any octets but CR / LF after ';');
               trailer-section: lines (LF lenient) up to the empty line; their content is not inspected
               (it cannot influence boundaries, method, target or body). *)
From FH Require Import Model.Base.
Open Scope N_scope.

(* ---------- characters (RFC 5234 B.1, RFC 9110 s5.6.2) ---------- *)
Definition is_digit (c : N) : bool := (48 <=? c) && (c <=? 57).
Definition is_alpha (c : N) : bool := ((65 <=? c) && (c <=? 90)) || ((97 <=? c) && (c <=? 122)).
(* tchar = "!" / "#" / "$" / "%" / "&" / "'" / "*" / "+" / "-" / "." / "^" / "_" / "`" / "|" / "~" / DIGIT / ALPHA *)
Definition is_tchar (c : N) : bool :=
  is_digit c || is_alpha c ||
  existsb (N.eqb c) [33; 35; 36; 37; 38; 39; 42; 43; 45; 46; 94; 95; 96; 124; 126].
Definition is_ows (c : N) : bool := (c =? 32) || (c =? 9).
Definition is_token (s : bytes) : bool := match s with [] => false | _ => forallb is_tchar s end.
Definition hexdigit (c : N) : option N :=
  if is_digit c then Some (c - 48)
  else if (97 <=? c) && (c <=? 102) then Some (c - 87)
  else if (65 <=? c) && (c <=? 70) then Some (c - 55)
  else None.
Definition lower (c : N) : N := if (65 <=? c) && (c <=? 90) then c + 32 else c.
Definition ci_eq (a b : bytes) : bool := beq (map lower a) (map lower b).

Fixpoint drop_ows (b : bytes) : bytes := match b with c :: r => if is_ows c then drop_ows r else b | [] => [] end.
Definition trim_ows (b : bytes) : bytes := rev (drop_ows (rev (drop_ows b))).

(* ---------- lines (s2.2) ---------- *)
(* the first line without its terminator (LF, with one preceding CR ignored) and what follows *)
Fixpoint take_line (b : bytes) : option (bytes * bytes) :=
  match b with
  | [] => None
  | c :: r =>
      if c =? 10 then Some ([], r)
      else match r with
           | d :: r2 =>
               if (c =? 13) && (d =? 10) then Some ([], r2)
               else match take_line r with Some (l, r') => Some (c :: l, r') | None => None end
           | [] => None
           end
  end.

(* ---------- request-line (s3) ---------- *)
Fixpoint split_at (sep : N) (l : bytes) : bytes * option bytes :=
  match l with
  | [] => ([], None)
  | c :: r => if c =? sep then ([], Some r)
              else let (a, z) := split_at sep r in (c :: a, z)
  end.

Definition is_target_octet (c : N) : bool := (33 <=? c) && negb (c =? 127).

(* Some true = HTTP/1.1 semantics, Some false = HTTP/1.0 semantics, None = not an HTTP-version *)
Definition http_version (v : bytes) : option bool :=
  match v with
  | [72; 84; 84; 80; 47; ma; 46; mi] =>          (* "HTTP/" DIGIT "." DIGIT *)
      if is_digit ma && is_digit mi
      then Some ((49 <? ma) || ((ma =? 49) && (49 <=? mi)))
      else None
  | _ => None
  end.

Record reqline := { rq_method : bytes; rq_target : bytes; rq_v11 : bool }.

Definition parse_request_line (l : bytes) : option reqline :=
  match split_at 32 l with
  | (m, Some r1) =>
      match split_at 32 r1 with
      | (t, Some v) =>
          match http_version v with
          | Some v11 =>
              if is_token m && (match t with [] => false | _ => forallb is_target_octet t end)
              then Some {| rq_method := m; rq_target := t; rq_v11 := v11 |}
              else None
          | None => None
          end
      | _ => None
      end
  | _ => None
  end.

(* ---------- field lines (s5) ---------- *)
Definition field := (bytes * bytes)%type.        (* name as received, value with OWS trimmed and folds replaced *)

Inductive fl_res :=
| FsIncomplete                                   (* the stream ends before the empty line *)
| FsInvalid
| FsOk (fields : list field) (rest : bytes).

Definition ends_with_ows (s : bytes) : bool := match rev s with c :: _ => is_ows c | [] => false end.

(* acc = fields so far, most recent first *)
Fixpoint field_lines (fuel : nat) (acc : list field) (b : bytes) : fl_res :=
  match fuel with
  | O => FsIncomplete
  | S f =>
      match take_line b with
      | None => FsIncomplete
      | Some (l, rest) =>
          match l with
          | [] => FsOk (rev acc) rest
          | c :: _ =>
              if is_ows c then
                match acc with
                | [] => field_lines f acc rest                                    (* s2.2: consumed without processing *)
                | (n, v) :: acc' => field_lines f ((n, trim_ows (v ++ 32 :: trim_ows l)) :: acc') rest  (* s5.2: obs-fold -> SP *)
                end
              else
                match split_at 58 l with
                | (n, Some v) =>
                    if ends_with_ows n || (match n with [] => true | _ => false end) then FsInvalid
                    else field_lines f ((n, trim_ows v) :: acc) rest
                | (_, None) => FsInvalid
                end
          end
      end
  end.

Definition field_values (name : bytes) (fs : list field) : list bytes :=
  map snd (filter (fun nv => ci_eq (fst nv) name) fs).

Definition name_content_length : bytes := s2b "content-length".
Definition name_transfer_encoding : bytes := s2b "transfer-encoding".

(* ---------- lists (RFC 9110 s5.6.1): elements separated by commas, OWS trimmed, empty elements ignored ---------- *)
Fixpoint split_commas (cur : bytes) (b : bytes) : list bytes :=
  match b with
  | [] => [rev cur]
  | c :: r => if c =? 44 then rev cur :: split_commas [] r else split_commas (c :: cur) r
  end.
Definition list_elements (v : bytes) : list bytes :=
  filter (fun e => match e with [] => false | _ => true end) (map trim_ows (split_commas [] v)).
(* several field lines with the same name are one list (RFC 9110 s5.3) *)
Definition all_elements (vs : list bytes) : list bytes := flat_map list_elements vs.

(* ---------- message body length (s6.3) ---------- *)
Inductive fclass := Clean | AmbiguousMustClose | Invalid.
Inductive bodylen :=
| BNone                      (* the RFC assigns no body length *)
| BChunked
| BFixed (n : N).
Record decision := { d_class : fclass; d_len : bodylen }.

Definition all_digits (s : bytes) : bool := match s with [] => false | _ => forallb is_digit s end.
Definition dec_value (s : bytes) : N := fold_left (fun a c => 10 * a + (c - 48)) s 0.

Definition str_chunked : bytes := s2b "chunked".
Definition str_identity : bytes := s2b "identity".

Definition cl_decision (cls : list bytes) : decision :=
  match cls with
  | [] => {| d_class := Clean; d_len := BFixed 0 |}                                          (* (7) *)
  | [v] =>
      if all_digits v then {| d_class := Clean; d_len := BFixed (dec_value v) |}             (* (6) *)
      else match all_elements cls with
           | e :: es =>
               if all_digits e && forallb (fun x => all_digits x && (dec_value x =? dec_value e)) es
               then {| d_class := AmbiguousMustClose; d_len := BFixed (dec_value e) |}       (* (5), list of identical values *)
               else {| d_class := Invalid; d_len := BNone |}
           | [] => {| d_class := Invalid; d_len := BNone |}
           end
  | _ =>
      match all_elements cls with
      | e :: es =>
          if all_digits e && forallb (fun x => all_digits x && (dec_value x =? dec_value e)) es
          then {| d_class := AmbiguousMustClose; d_len := BFixed (dec_value e) |}
          else {| d_class := Invalid; d_len := BNone |}
      | [] => {| d_class := Invalid; d_len := BNone |}
      end
  end.

Definition rfc_decision (v11 : bool) (tes cls : list bytes) : decision :=
  match tes with
  | [] => cl_decision cls
  | _ =>
      if negb v11 then {| d_class := AmbiguousMustClose; d_len := BNone |}                   (* s6.1, HTTP/1.0 *)
      else
        let cs := all_elements tes in
        match rev cs with
        | final :: before =>
            if ci_eq final str_chunked then
              if existsb (fun c => ci_eq c str_chunked) before then {| d_class := Invalid; d_len := BNone |}
              else match cls with
                   | [] => {| d_class := Clean; d_len := BChunked |}                          (* (3) *)
                   | _ => {| d_class := AmbiguousMustClose; d_len := BChunked |}              (* (3) + s6.1 *)
                   end
            else match before with
                 | [] => if ci_eq final str_identity
                         then {| d_class := AmbiguousMustClose; d_len := BNone |}             (* tolerated, see header *)
                         else {| d_class := Invalid; d_len := BNone |}                        (* (4) *)
                 | _ => {| d_class := Invalid; d_len := BNone |}
                 end
        | [] => {| d_class := Invalid; d_len := BNone |}
        end
  end.

(* ---------- chunked transfer coding (s7.1) ---------- *)
Fixpoint span_hex (b : bytes) (acc : N) (n : nat) : N * nat * bytes :=    (* value, digit count, rest *)
  match b with
  | c :: r => match hexdigit c with
              | Some d => span_hex r (16 * acc + d) (S n)
              | None => (acc, n, b)
              end
  | [] => (acc, n, b)
  end.

(* after the chunk-size: BWS, then nothing or ";" and any octets but CR / LF; the line ends in CRLF *)
Fixpoint ext_to_crlf (b : bytes) (in_ext : bool) : option (option bytes) :=
  (* None = malformed; Some None = incomplete; Some (Some rest) = rest after CRLF *)
  match b with
  | [] => Some None
  | c :: r =>
      if c =? 13 then
        match r with
        | d :: r2 => if d =? 10 then Some (Some r2) else None
        | [] => Some None
        end
      else if c =? 10 then None
      else if in_ext then ext_to_crlf r true
      else if is_ows c then ext_to_crlf r false
      else if c =? 59 then ext_to_crlf r true
      else None
  end.

Inductive ch_res :=
| ChIncomplete
| ChMalformed
| ChOk (data rest : bytes).   (* decoded data; rest = what follows the last-chunk line (the trailer section) *)

Fixpoint chunks (fuel : nat) (b : bytes) : ch_res :=
  match fuel with
  | O => ChIncomplete
  | S f =>
      match span_hex b 0 0 with
      | (_, O, []) => ChIncomplete
      | (_, O, _) => ChMalformed
      | (n, _, r) =>
          match ext_to_crlf r false with
          | None => ChMalformed
          | Some None => ChIncomplete
          | Some (Some r1) =>
              if n =? 0 then ChOk [] r1
              else
                if N.of_nat (length r1) <? n then ChIncomplete      (* compared in N: sizes can be astronomically large *)
                else
                  let k := N.to_nat n in
                  let data := firstn k r1 in
                  match skipn k r1 with
                  | 13 :: 10 :: r2 =>
                      match chunks f r2 with
                      | ChOk d rest => ChOk (data ++ d) rest
                      | o => o
                      end
                  | [13] | [] => ChIncomplete
                  | _ => ChMalformed
                  end
          end
      end
  end.

(* trailer-section CRLF: lines up to and including the empty line.  What a trailer line contains cannot
   change where the message ends nor its method, target or body (trailer fields are never framing fields:
   RFC 9110 s6.5.1), so the lines are not inspected; only the delimitation matters here. *)
Fixpoint trailer_section (fuel : nat) (b : bytes) : option bytes :=
  match fuel with
  | O => None
  | S f => match take_line b with
           | None => None
           | Some ([], rest) => Some rest
           | Some (_, rest) => trailer_section f rest
           end
  end.

Inductive body_res :=
| BdIncomplete
| BdMalformed
| BdOk (body rest : bytes).

Definition chunked_body (b : bytes) : body_res :=
  match chunks (S (length b)) b with
  | ChIncomplete => BdIncomplete
  | ChMalformed => BdMalformed
  | ChOk data r =>
      match trailer_section (S (length r)) r with         (* trailer-section CRLF *)
      | None => BdIncomplete
      | Some rest => BdOk data rest
      end
  end.

(* ---------- one message ---------- *)
Record request := {
  r_method : bytes;
  r_target : bytes;
  r_body : option bytes        (* None: the RFC assigns no body (ambiguous / invalid framing) *)
}.

Inductive msg_res :=
| MNone                                           (* nothing but empty lines: no message *)
| MIncomplete                                     (* a message starts here but the stream ends inside it *)
| MBad                                            (* not an HTTP/1.x request head *)
| MMsg (r : request) (c : fclass) (rest : option bytes).   (* rest = Some: framing defined, next message starts there *)

Fixpoint skip_empty_lines (fuel : nat) (b : bytes) : bytes :=
  match fuel with
  | O => b
  | S f => match take_line b with
           | Some ([], rest) => skip_empty_lines f rest
           | _ => b
           end
  end.

Definition rfc_message (b0 : bytes) : msg_res :=
  let b := skip_empty_lines (length b0) b0 in
  match b with
  | [] => MNone
  | _ =>
      match take_line b with
      | None => MIncomplete
      | Some (l, r1) =>
          match parse_request_line l with
          | None => MBad
          | Some rl =>
              match field_lines (S (length r1)) [] r1 with
              | FsIncomplete => MIncomplete
              | FsInvalid => MBad
              | FsOk fs r2 =>
                  let d := rfc_decision (rq_v11 rl) (field_values name_transfer_encoding fs)
                                        (field_values name_content_length fs) in
                  let mk body := {| r_method := rq_method rl; r_target := rq_target rl; r_body := body |} in
                  match d_len d with
                  | BNone => MMsg (mk None) (d_class d) None
                  | BFixed n =>
                      if N.of_nat (length r2) <? n then MIncomplete
                      else let k := N.to_nat n in
                           MMsg (mk (Some (firstn k r2))) (d_class d) (Some (skipn k r2))
                  | BChunked =>
                      match chunked_body r2 with
                      | BdIncomplete => MIncomplete
                      | BdMalformed => MMsg (mk None) Invalid None
                      | BdOk body rest => MMsg (mk (Some body)) (d_class d) (Some rest)
                      end
                  end
              end
          end
      end
  end.

(* ---------- the connection ---------- *)
(* The messages of the stream, in order, up to and including the first one that is not Clean
   (after which the connection must not be reused: what follows has no meaning as requests),
   and the unframed tail. *)
Inductive stop := SEnd | SIncomplete | SBad | SMustClose.

Fixpoint rfc_frame_fuel (fuel : nat) (b : bytes) : list (request * fclass) * stop * bytes :=
  match fuel with
  | O => ([], SIncomplete, b)
  | S f =>
      match rfc_message b with
      | MNone => ([], SEnd, b)
      | MIncomplete => ([], SIncomplete, b)
      | MBad => ([], SBad, b)
      | MMsg r c rest =>
          match c, rest with
          | Clean, Some b' =>
              if (length b' <? length b)%nat
              then let '(l, s, t) := rfc_frame_fuel f b' in ((r, c) :: l, s, t)
              else ([(r, c)], SMustClose, b')      (* unreachable: a message is never empty *)
          | _, Some b' => ([(r, c)], SMustClose, b')
          | _, None => ([(r, c)], SMustClose, b)
          end
      end
  end.

Definition rfc_frame (b : bytes) : list (request * fclass) * stop * bytes := rfc_frame_fuel (S (length b)) b.
Definition rfc_requests (b : bytes) : list (request * fclass) := fst (fst (rfc_frame b)).
