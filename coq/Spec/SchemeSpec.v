(* SchemeSpec.v — what C21 demands, stated on an observation of the network:
   which connections were dialled (address, wrapped in TLS or not) and which request was written to which connection.
   Independent of the client model: it only mentions requests (scheme, host, how they were submitted) and connections. *)
From FH Require Import Model.Base.
Open Scope N_scope.

Definition https_scheme (scheme : bytes) : bool := beq scheme (s2b "https").

(* "its own host": the URL authority, with the scheme's default port when the authority has none.
   An authority has a port when it is an IPv6 literal "[..]" followed by something, or contains ':' after its first byte. *)
Fixpoint has_colon_after_first (seen_first : bool) (s : bytes) : bool :=
  match s with
  | [] => false
  | x :: r => (seen_first && (x =? COLON)) || has_colon_after_first true r
  end.
Definition authority_has_port (host : bytes) : bool :=
  match host with
  | [] => true                                         (* nothing to complete *)
  | c0 :: _ => if c0 =? LBR then negb (last host 0 =? RBR) else has_colon_after_first false host
  end.
Definition own_addr (host : bytes) (tls : bool) : bytes :=
  if authority_has_port host then host else host ++ (if tls then s2b ":443" else s2b ":80").

(* an observation *)
Record dialrec := { d_cid : N; d_addr : bytes; d_tls : bool }.
Record writerec := { wr_cid : N; wr_rid : N; wr_scheme : bytes; wr_host : bytes; wr_via_client : bool }.

Definition dialled (ds : list dialrec) (cid : N) (addr : bytes) (tls : bool) : Prop :=
  In {| d_cid := cid; d_addr := addr; d_tls := tls |} ds.

(* every connection id was dialled once: its address and TLS flag are well defined *)
Definition dial_functional (ds : list dialrec) : Prop :=
  forall d1 d2, In d1 ds -> In d2 ds -> d_cid d1 = d_cid d2 -> d1 = d2.

(* https requests only on TLS connections (and, through Client, only to their own host) *)
Definition https_only_on_tls (ds : list dialrec) (ws : list writerec) : Prop :=
  forall w, In w ws -> https_scheme (wr_scheme w) = true ->
    exists addr, dialled ds (wr_cid w) addr true /\
                 (wr_via_client w = true -> addr = own_addr (wr_host w) true).

(* requests that are not https never travel on a connection created (and pooled) for https *)
Definition http_never_on_tls (ds : list dialrec) (ws : list writerec) : Prop :=
  forall w, In w ws -> https_scheme (wr_scheme w) = false ->
    exists addr, dialled ds (wr_cid w) addr false /\
                 (wr_via_client w = true -> addr = own_addr (wr_host w) false).
