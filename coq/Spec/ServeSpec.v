(* ServeSpec.v — what C10 / C14 / C17 demand of a connection's event trace, written without reference
   to how the serve loop is built.  (The event vocabulary is Model/Serve.v's.) *)
From FH Require Import Model.Base Gen.GenC10 Model.ConnOpt Model.Serve.
Open Scope N_scope.

(* ================= C10: Connection options, RFC 9110 section 5.6.1 (lists) and 7.6.1 ================= *)
(* A field value is a comma-separated list; elements are trimmed of optional whitespace (SP / HTAB),
   empty elements are ignored; connection options are case-insensitive tokens.  Several field lines
   with the same name are one list (section 5.3). *)
Definition is_ows (c : N) : bool := (c =? 32) || (c =? 9).
Fixpoint trim_lead_ows (b : bytes) : bytes :=
  match b with
  | c :: r => if is_ows c then trim_lead_ows r else b
  | [] => []
  end.
Fixpoint trim_trail_ows (b : bytes) : bytes :=
  match b with
  | [] => []
  | c :: r => match trim_trail_ows r with
              | [] => if is_ows c then [] else [c]
              | r' => c :: r'
              end
  end.
Definition trim_ows (b : bytes) : bytes := trim_trail_ows (trim_lead_ows b).

Definition ascii_lower (c : N) : N := if (65 <=? c) && (c <=? 90) then c + 32 else c.
Definition ci_eq (a b : bytes) : bool := beq (map ascii_lower a) (map ascii_lower b).

(* the elements of one field value; cur = element being read, reversed *)
Fixpoint elements_from (cur : bytes) (b : bytes) : list bytes :=
  match b with
  | [] => [rev cur]
  | c :: r => if c =? 44 then rev cur :: elements_from [] r else elements_from (c :: cur) r
  end.
Definition list_elements (v : bytes) : list bytes :=
  filter (fun e => negb (beq e [])) (map trim_ows (elements_from [] v)).

(* does any of the field lines carry the option? *)
Definition has_option (opt : bytes) (vals : list bytes) : bool :=
  existsb (fun v => existsb (ci_eq opt) (list_elements v)) vals.

Definition opt_close : bytes := s2b "close".
Definition opt_keep_alive : bytes := s2b "keep-alive".
Definition has_close (vals : list bytes) : bool := has_option opt_close vals.

(* "the request asked for close, or is HTTP/1.0 without keep-alive" *)
Definition wants_close (http11 : bool) (vals : list bytes) : bool :=
  has_close vals || (negb http11 && negb (has_option opt_keep_alive vals)).

(* Trace predicate.  A final (non-1xx) response that carries a close option must be the last thing the
   server does on the connection apart from flushing and closing; one that does not must leave the
   connection open: the next thing that happens to it is that it becomes idle (ready for the next
   request) or is handed to a hijack handler.  (Closing an IDLE connection later — peer gone, idle
   timeout, shutdown — is not the response's business.) *)
Definition is_interim (r : resp) : bool := (r_status r <? 200)%Z.
Definition closing_ev (e : event) : bool :=
  match e with Flush | Close | St StClosed => true | _ => false end.
Fixpoint skip_flush (evs : list event) : list event :=
  match evs with Flush :: r => skip_flush r | _ => evs end.
Definition stays_open (rest : list event) : bool :=
  match skip_flush rest with
  | St StIdle :: _ => true
  | HijackEv _ _ _ :: _ => true
  | _ => false
  end.
Fixpoint conn_ok (evs : list event) : bool :=
  match evs with
  | [] => true
  | Resp r :: rest =>
      (is_interim r || (if has_close (r_conn r) then forallb closing_ev rest else stays_open rest)) && conn_ok rest
  | _ :: rest => conn_ok rest
  end.

(* HTTP/1.0 keep-alive responses say so *)
Definition keepalive_marked (http11 : bool) (r : resp) : bool :=
  http11 || has_close (r_conn r) || has_option opt_keep_alive (r_conn r).

(* The listed reasons to close, for request number num with summary q (q_close = the request asked for
   close or is HTTP/1.0 without keep-alive, as the request parser decided it):
   DisableKeepalive, the request, MaxRequestsPerConn reached, the handler set it, CloseOnShutdown during
   shutdown.  (The server may have further reasons of its own — a rejected expectation, a timed-out handler that
   still owns a streamed body — which conn_ok covers: whatever the reason, header and behaviour agree.)  (A response suppressed by HijackSetNoResponse is not a response.) *)
Definition handler_state (E : env) (num : N) (q : req_sum) : hstate := req_hstate E num q true StatusOK false.
Definition close_reason (cfg : scfg) (E : env) (num : N) (q : req_sum) : bool :=
  disable_keepalive cfg || q_close q || max_reached cfg num || rh_close (h_rh (handler_state E num q))
  || (close_on_shutdown cfg && stop_at_close E num).
Definition response_suppressed (E : env) (num : N) (q : req_sum) : bool :=
  h_noresp (handler_state E num q) && h_hijack (handler_state E num q).

(* each dispatched request with a reason to close is answered at once by a response that carries close,
   after which the server only flushes and closes *)
Fixpoint reasons_ok (cfg : scfg) (E : env) (evs : list event) : bool :=
  match evs with
  | [] => true
  | Dispatch num q :: rest =>
      (if close_reason cfg E num q && negb (response_suppressed E num q)
       then match rest with
            | Resp r :: Flush :: rest' => has_close (r_conn r) && forallb closing_ev rest'
            | _ => false
            end
       else true) && reasons_ok cfg E rest
  | _ :: rest => reasons_ok cfg E rest
  end.

(* the response to a dispatched HTTP/1.0 request says keep-alive unless it says close *)
Fixpoint http10_ok (evs : list event) : bool :=
  match evs with
  | [] => true
  | Dispatch num q :: rest =>
      match rest with
      | Resp r :: _ => keepalive_marked (q_http11 q) r
      | _ => true
      end && http10_ok rest
  | _ :: rest => http10_ok rest
  end.

(* ================= C14: the ConnState language ================= *)
Fixpoint sts (evs : list event) : list conn_state :=
  match evs with
  | St s :: r => s :: sts r
  | _ :: r => sts r
  | [] => []
  end.

(* New (Active Idle)* Active? (Closed | Hijacked), or nothing at all (connection never served) *)
Inductive astate := A0 | ANew | AActive | AIdle | ADone | ADead.
Definition astep (a : astate) (s : conn_state) : astate :=
  match a, s with
  | A0, StNew => ANew
  | ANew, StActive => AActive
  | AIdle, StActive => AActive
  | AActive, StIdle => AIdle
  | ANew, StClosed | ANew, StHijacked => ADone
  | AActive, StClosed | AActive, StHijacked => ADone
  | AIdle, StClosed | AIdle, StHijacked => ADone
  | _, _ => ADead
  end.
Definition arun (a : astate) (l : list conn_state) : astate := fold_left astep l a.
Definition accepts (l : list conn_state) : bool :=
  match arun A0 l with A0 | ADone => true | _ => false end.

Definition is_terminal (s : conn_state) : bool :=
  match s with StClosed | StHijacked => true | _ => false end.
(* exactly one terminal state, and it is the last report *)
Definition terminal_once (l : list conn_state) : Prop :=
  l = [] \/ exists pre t, l = pre ++ [t] /\ is_terminal t = true /\ forallb (fun s => negb (is_terminal s)) pre = true.

(* every StateActive is immediately followed by the evidence: a request byte at stream offset off
   is in the server's buffer (avail >= 1 bytes from off on have been received) *)
Fixpoint active_has_byte (total : nat) (evs : list event) : bool :=
  match evs with
  | St StActive :: rest =>
      match rest with
      | ParseAt off avail :: _ => (1 <=? avail)%nat && (off + avail <=? total)%nat && active_has_byte total rest
      | _ => false
      end
  | _ :: rest => active_has_byte total rest
  | [] => true
  end.

(* ================= C17: hijacking ================= *)
(* the request that starts at the beginning of S is framed by the reader as k bytes: a prefix of S is
   accepted as a head (summary q, hn bytes) and a prefix of what follows as its body (bn bytes) *)
Definition is_prefix (p S : bytes) : Prop := exists x, S = p ++ x.
Definition framed (F : framer) (S : bytes) (q : req_sum) (k : nat) : Prop :=
  exists p1 hn p2 bn, is_prefix p1 S /\ fhead F p1 = FhOk q hn /\
                      is_prefix p2 (skipn hn S) /\ fbody F q p2 = FbOk bn /\ k = (hn + bn)%nat.

(* is there written-but-unflushed response data after these events (starting from d)? *)
Fixpoint unflushed_from (d : bool) (evs : list event) : bool :=
  match evs with
  | [] => d
  | Resp _ :: r => unflushed_from true r
  | Flush :: r => unflushed_from false r
  | _ :: r => unflushed_from d r
  end.

(* events by which the serve loop touches the connection: reading/parsing, dispatching, writing *)
Definition loop_io (e : event) : bool :=
  match e with
  | ParseAt _ _ | Dispatch _ _ | Resp _ | Flush | Drop | Close => true
  | _ => false
  end.

Definition is_hijack_ev (e : event) : bool := match e with HijackEv _ _ _ => true | _ => false end.
