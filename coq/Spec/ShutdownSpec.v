(* What C15 demands, over the observable part of a state of Model/Shutdown.v. *)
From Coq Require Import List ZArith Bool Arith.
From FH Require Import Model.Shutdown.
Import ListNotations.
Open Scope Z_scope.

(* Shutdown has returned nil and the server is at rest: every listener closed, every Serve call returned, no request handler
   running (handlers abandoned by TimeoutHandler and hijack handlers are the ghosts `abandoned`), no connection counted *)
Definition at_rest (s : st) : Prop :=
  Forall (fun r => pc r = CClosed) (conns s) /\
  Forall (fun lp => lrunning lp = false /\ lnopen lp = false) (loops s) /\
  n_handlers s = 0 /\ open s = 0 /\ serving s = 0 /\ stop s = false.

(* every request whose handler was started on connection r had its response delivered, unless the client had closed *)
Definition answered (r : conn) : Prop := started r = delivered r + lostc r.

(* a call of ShutdownWithContext is past close(s.done) and still running, or the last call gave up after that point *)
Definition shutdown_past_close_done (s : st) : Prop :=
  match sd s with
  | SLoop | SReadServing | SReadOpen | SWait | SReturnedErr => True
  | _ => False
  end.

(* the channel ctx.Done() gave to the handler running on connection r (if one is running) has been closed *)
Definition done_closed_for (s : st) (r : conn) : Prop :=
  pc r = CHandler -> exists ch, cdone r = Some ch /\ chan_closed (dn s) ch = true.

(* no call of Shutdown is running, no call that returned ctx.Err() is pending (it stays pending until a later call has gone through
   its whole loop), and Serve has not registered a listener since the last closeListenersLocked: the situation right after a call
   returned nil *)
Definition just_shut_down (s : st) : Prop :=
  sd_running s = false /\ tainted (dn s) = false /\ Forall (fun lp => inln lp = false) (loops s).

(* an idle keep-alive connection: marked idle since a past time, waiting for its next request, nothing received *)
Definition idle_keepalive (s : st) (r : conn) : Prop :=
  pc r = CPeek /\ inmap r = true /\ ival r <> 0 /\ ival r <= now s /\ buffered r <= 0.

(* the server made a response of a started handler undeliverable although the client was there *)
Definition dropped_response (r : conn) : Prop :=
  cliClosed r = false /\ lostc r = 0 /\ delivered r < started r /\ 0 < lost r.
