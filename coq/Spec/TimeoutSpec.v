(* TimeoutSpec.v — what property C16 demands, stated over a scenario (what the clients and the wrapped handlers do, in
   the order the harness forces) without reference to how fasthttp implements TimeoutHandler:
     * a request whose wrapped handler is still running when the timeout fires is answered with the timeout response;
     * a request whose handler calls TimeoutError* is answered with that response;
     * whatever those handlers write afterwards appears nowhere;
     * a wrapped handler is started only while fewer than Concurrency are running, otherwise the answer is 429;
     * every other request is answered with what its own handler wrote. *)
From FH Require Import Model.Base.
Open Scope Z_scope.

Inductive reqkind :=
| KFast (status : Z) (body : bytes)        (* the handler writes this and returns before the timeout *)
| KSlow (id : nat)                         (* the handler blocks (until EvLate id): the timeout fires *)
| KSelf (tstatus : Z) (tbody : bytes).     (* the handler calls TimeoutError*(tstatus, tbody), writes more, returns in time *)

Inductive event :=
| EvOpen                                   (* a client connects *)
| EvReq (c : nat) (k : reqkind)            (* connection c sends a request and reads the answer *)
| EvLate (id : nat)                        (* slow handler id is let go: it writes to its ctx, then returns *)
| EvClose (c : nat).

Inductive expectation :=
| XOwn (status : Z) (body : bytes)
| XTimeout                                 (* the wrapper's statusCode / msg *)
| XTimeoutWith (status : Z) (body : bytes)
| XTooMany.                                (* 429 / msg *)

Fixpoint remove_id (id : nat) (l : list nat) : list nat :=
  match l with [] => [] | x :: r => if Nat.eqb x id then r else x :: remove_id id r end.

(* running = the slow handlers that hold a semaphore slot *)
Fixpoint expect_from (cap : nat) (running : list nat) (evs : list event) : list (nat * expectation) :=
  match evs with
  | [] => []
  | EvReq c k :: r =>
      if (length running <? cap)%nat then
        match k with
        | KFast s b => (c, XOwn s b) :: expect_from cap running r
        | KSlow id => (c, XTimeout) :: expect_from cap (id :: running) r
        | KSelf s b => (c, XTimeoutWith s b) :: expect_from cap running r
        end
      else (c, XTooMany) :: expect_from cap running r
  | EvLate id :: r => expect_from cap (remove_id id running) r
  | _ :: r => expect_from cap running r
  end.
Definition expectations (cap : nat) (evs : list event) : list (nat * expectation) := expect_from cap [] evs.
