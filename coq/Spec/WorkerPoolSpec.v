(* What C13 demands of a worker-pool state, stated independently of how it is proved.
   Everything is a count, so "exactly one" is `= 1` and "at most once" is `<= 1`. *)
From Coq Require Import List ZArith Bool Arith.
From FH Require Import Model.WorkerPool.
Import ListNotations.

Definition sumw (n : nat) (f : nat -> nat) : nat := list_sum (map f (seq 0 n)).

Definition is_live (o : option wstate) : nat := match o with Some _ => 1 | None => 0 end.
(* worker goroutines that exist (every worker id is < nextw) *)
Definition live_workers (s : st) : nat := sumw (nextw s) (fun w => is_live (wk s w)).

Definition conn_of (e : conn * wid * bool) : conn := fst (fst e).
Definition item_is (c : conn) (it : item) : nat :=
  match it with IConn c' => if Nat.eqb c' c then 1 else 0 | INil => 0 end.
Definition queued_in (c : conn) (o : option wstate) : nat :=
  match o with Some x => list_sum (map (item_is c) (ch x)) | None => 0 end.
Definition serving_in (c : conn) (o : option wstate) : nat :=
  match o with Some (mkW (WBusy c') _) => if Nat.eqb c' c then 1 else 0 | _ => 0 end.

(* the five places a connection handed to Serve can be *)
Definition n_rejected (s : st) (c : conn) : nat := cnt c (rejected s).                 (* Serve returned false *)
Definition n_held (s : st) (c : conn) : nat := cnt c (map fst (holding s)).            (* acceptor holds a worker for it *)
Definition n_queued (s : st) (c : conn) : nat := sumw (nextw s) (fun w => queued_in c (wk s w)).   (* in a worker channel *)
Definition n_serving (s : st) (c : conn) : nat := sumw (nextw s) (fun w => serving_in c (wk s w)). (* inside WorkerFunc *)
Definition n_served (s : st) (c : conn) : nat := cnt c (map conn_of (served s)).       (* WorkerFunc calls completed *)

Definition places (s : st) (c : conn) : nat :=
  n_rejected s c + n_held s c + n_queued s c + n_serving s c + n_served s c.

(* a step the pool can take without any new call from outside *)
Definition can_progress (cf : cfg) (s : st) : Prop :=
  exists l, internal l = true /\ step cf s l <> None.
