// Correspondence harness for C01 (server request framing follows RFC 9112 — no request smuggling).
//
// A case is one byte stream sent on one connection, after which the peer half-closes.  The stream is a
// pipeline of 1-6 requests drawn from a request grammar (methods, targets, versions, Content-Length /
// Transfer-Encoding field sets with all the classic anomalies, head syntax anomalies, fixed / chunked /
// multipart bodies), optionally followed by arbitrary bytes, optionally byte-mutated.  The real
// Server.ServeConn serves it over an in-memory net.Conn under every combination of ReduceMemoryUsage,
// DisableHeaderNamesNormalizing, GetOnly, DisablePreParseMultipartForm (one ReadBufferSize and
// MaxRequestBodySize per case) and under three read chunkings (whole, one byte at a time, random pieces).
// Observed: handler invocations (method, RequestURI, body) and responses (status, Connection: close).
package main

import (
	"bufio"
	"bytes"
	"fmt"
	"io"
	"math/rand"
	"net"
	"os"
	"strconv"
	"strings"
	"time"

	"github.com/valyala/fasthttp"
	"verif/harness/hlib"
)

// ---------------------------------------------------------------------------
// case description
// ---------------------------------------------------------------------------

type cfgD struct {
	NoNorm  bool `json:"nonorm,omitempty"`
	GetOnly bool `json:"getonly,omitempty"`
	NoPrep  bool `json:"noprep,omitempty"`
}

type desc struct {
	Stream  hlib.B `json:"stream"`
	Cfgs    []cfgD `json:"cfgs"`
	BSize   int    `json:"bsize,omitempty"`   // ReadBufferSize (0 = default 4096)
	MaxBody int    `json:"maxbody,omitempty"` // MaxRequestBodySize (0 = default 4 MiB)
	Seed    int64  `json:"seed"`              // random read chunking
	Kind    string `json:"kind"`
	Sig     string `json:"sig"`
	Key     string `json:"key,omitempty"`
}

var allCfgs = func() []cfgD {
	var l []cfgD
	for i := 0; i < 8; i++ {
		l = append(l, cfgD{NoNorm: i&1 != 0, GetOnly: i&2 != 0, NoPrep: i&4 != 0})
	}
	return l
}()

// ---------------------------------------------------------------------------
// in-memory connection
// ---------------------------------------------------------------------------

type mconn struct {
	in   []byte
	pos  int
	mode int // 0 whole, 1 one byte, 2 random
	rnd  *rand.Rand
	out  bytes.Buffer
}

func (c *mconn) Read(p []byte) (int, error) {
	if c.pos >= len(c.in) {
		return 0, io.EOF
	}
	n := len(c.in) - c.pos
	switch c.mode {
	case 1:
		n = 1
	case 2:
		k := 1 + c.rnd.Intn(40)
		if k < n {
			n = k
		}
	}
	if n > len(p) {
		n = len(p)
	}
	copy(p, c.in[c.pos:c.pos+n])
	c.pos += n
	return n, nil
}
func (c *mconn) Write(p []byte) (int, error)        { return c.out.Write(p) }
func (c *mconn) Close() error                       { return nil }
func (c *mconn) LocalAddr() net.Addr                { return &net.TCPAddr{IP: net.IPv4(127, 0, 0, 1), Port: 80} }
func (c *mconn) RemoteAddr() net.Addr               { return &net.TCPAddr{IP: net.IPv4(127, 0, 0, 1), Port: 4000} }
func (c *mconn) SetDeadline(t time.Time) error      { return nil }
func (c *mconn) SetReadDeadline(t time.Time) error  { return nil }
func (c *mconn) SetWriteDeadline(t time.Time) error { return nil }

type nullLogger struct{}

func (nullLogger) Printf(string, ...any) {}

// ---------------------------------------------------------------------------
// running the real server
// ---------------------------------------------------------------------------

type dobs struct {
	method, uri []byte
	body        []byte
	pre         bool
}
type robs struct {
	status int
	close  bool
}

// One Server per configuration for the whole run: RequestCtx, Request / header objects, bufio readers and writers
// come out of the server's pools, so every connection after the first runs on REUSED objects (state a Reset forgot
// would show up as a divergence from the model, which starts every connection from scratch).
type srvKey struct {
	reduce, nonorm, getonly, noprep bool
	bsize, maxbody                  int
}

var servers = map[srvKey]*fasthttp.Server{}
var sink *[]dobs

func serverFor(d desc, c cfgD, reduce bool) *fasthttp.Server {
	k := srvKey{reduce, c.NoNorm, c.GetOnly, c.NoPrep, d.BSize, d.MaxBody}
	if s, ok := servers[k]; ok {
		return s
	}
	s := &fasthttp.Server{
		ReduceMemoryUsage:             reduce,
		DisableHeaderNamesNormalizing: c.NoNorm,
		GetOnly:                       c.GetOnly,
		DisablePreParseMultipartForm:  c.NoPrep,
		ReadBufferSize:                d.BSize,
		MaxRequestBodySize:            d.MaxBody,
		Logger:                        nullLogger{},
		NoDefaultServerHeader:         true,
		NoDefaultDate:                 true,
	}
	s.Handler = func(ctx *fasthttp.RequestCtx) {
		o := dobs{method: append([]byte(nil), ctx.Method()...), uri: append([]byte(nil), ctx.RequestURI()...)}
		if fasthttp.VerifC01Preparsed(&ctx.Request) {
			o.pre = true
		} else {
			o.body = append([]byte(nil), ctx.Request.Body()...)
		}
		*sink = append(*sink, o)
	}
	servers[k] = s
	return s
}

func serveOnce(d desc, c cfgD, reduce bool, mode int) (ds []dobs, rs []robs, bad string) {
	s := serverFor(d, c, reduce)
	sink = &ds
	conn := &mconn{in: d.Stream, mode: mode, rnd: rand.New(rand.NewSource(d.Seed))}
	if p := hlib.Protect(func() { s.ServeConn(conn) }); p != "" { //nolint:errcheck
		return ds, nil, "panic: " + p
	}
	// parse the responses
	br := bufio.NewReader(bytes.NewReader(conn.out.Bytes()))
	for {
		line, err := br.ReadString('\n')
		if err == io.EOF && line == "" {
			break
		}
		if err != nil || !strings.HasPrefix(line, "HTTP/1.1 ") || len(line) < 12 {
			return ds, rs, "unparsable response stream"
		}
		st, err := strconv.Atoi(line[9:12])
		if err != nil {
			return ds, rs, "unparsable status"
		}
		r := robs{status: st}
		cl := 0
		for {
			h, err := br.ReadString('\n')
			if err != nil {
				return ds, rs, "truncated response head"
			}
			h = strings.TrimRight(h, "\r\n")
			if h == "" {
				break
			}
			k, v, _ := strings.Cut(h, ":")
			v = strings.TrimSpace(v)
			switch strings.ToLower(k) {
			case "content-length":
				cl, _ = strconv.Atoi(v)
			case "connection":
				if strings.EqualFold(v, "close") {
					r.close = true
				}
			}
		}
		if cl > 0 {
			if _, err := io.CopyN(io.Discard, br, int64(cl)); err != nil {
				return ds, rs, "truncated response body"
			}
		}
		rs = append(rs, r)
	}
	return ds, rs, ""
}

func coqObs(ds []dobs, rs []robs) string {
	di := make([]string, len(ds))
	for i, o := range ds {
		b := hlib.None()
		if !o.pre {
			b = hlib.Some(hlib.Hex(o.body))
		}
		di[i] = hlib.Tuple(hlib.Hex(o.method), hlib.Hex(o.uri), b)
	}
	ri := make([]string, len(rs))
	for i, r := range rs {
		ri[i] = hlib.Tuple(hlib.Z(int64(r.status)), hlib.Bool(r.close))
	}
	return hlib.App("Obs", hlib.List(di), hlib.List(ri))
}

func run(d desc) hlib.Case {
	bsize := d.BSize
	if bsize == 0 {
		bsize = 4096
	}
	maxb := d.MaxBody
	if maxb == 0 {
		maxb = fasthttp.DefaultMaxRequestBodySize
	}
	var runs []string
	summary := ""
	for ci, c := range d.Cfgs {
		seen := map[string]bool{}
		var os []string
		for _, reduce := range []bool{false, true} {
			for mode := 0; mode < 3; mode++ {
				ds, rs, bad := serveOnce(d, c, reduce, mode)
				if ci == 0 && !reduce && mode == 0 {
					summary = fmt.Sprintf("d%d", len(ds))
					for _, r := range rs {
						summary += fmt.Sprintf(",%d", r.status)
						if r.close {
							summary += "c"
						}
					}
				}
				o := coqObs(ds, rs)
				if bad != "" {
					// an implementation panic / garbled output never equals the model
					o = hlib.App("Obs", hlib.List([]string{hlib.Tuple(hlib.HexS("!"+bad), hlib.Hex(nil), hlib.None())}), "[]")
				}
				if !seen[o] {
					seen[o] = true
					os = append(os, o)
				}
			}
		}
		for _, reduce := range []bool{false} {
			runs = append(runs, hlib.App("Run",
				hlib.App("mkc", hlib.Bool(reduce), hlib.Bool(c.NoNorm), hlib.Bool(c.GetOnly), hlib.Bool(c.NoPrep), hlib.Nat(bsize), hlib.Z(int64(maxb))),
				hlib.List(os)))
		}
	}
	return hlib.Case{
		Coq:  hlib.App("C01Case", hlib.Hex(d.Stream), hlib.List(runs)),
		Key:  d.Key,
		Sig:  d.Sig + "=>" + summary,
		Kind: d.Kind,
		Size: len(d.Stream),
	}
}

// ---------------------------------------------------------------------------
// request grammar
// ---------------------------------------------------------------------------

const crlf = "\r\n"

var methods = []string{"GET", "GET", "POST", "POST", "PUT", "HEAD", "DELETE", "OPTIONS", "PATCH", "get", "FOO"}
var versions = []string{"HTTP/1.1", "HTTP/1.1", "HTTP/1.1", "HTTP/1.1", "HTTP/1.1", "HTTP/1.0", "HTTP/1.0"}
var oddVersions = []string{"HTTP/1.2", "HTTP/2.0", "HTTP/0.9", "HTTP/1.10", "http/1.1", "HTTP/1.1 ", "HTTP/1.x", "HTTX/1.1"}
var targetSfx = []string{"", "", "", "?x=1", "/p/q", "?a=b&c=d", "#f", "/%41", "/a%2", "/\xc3\xa9", "/\"q\"", "/..//x"}
var otherFields = []string{
	"X-A: b", "Accept: */*", "User-Agent: u/1", "Cookie: k=v", "X-Long: " + strings.Repeat("z", 50),
	"Content-Type: text/plain", "Connection: keep-alive", "Connection: Keep-Alive, x", "X-B: c", "Accept-Encoding: gzip", "X-C: d,e",
	"Content-Encoding: gzip", "content-encoding: gzip", "Trailer: X-T", "X-Empty:", "Accept:\t a ", "Expect: 100-continue", "connection: keep-alive",
}

// framing field lines of the exhaustive matrix: %N = the length of the body that is sent
var matrixLines = []string{
	"Content-Length: %N",
	"Content-Length: 3",
	"Content-Length: %N, %N",
	"Content-Length: +%N",
	"Content-Length: 0%N",
	"Content-Length: 99999999999999999999",
	"Content-Length: x",
	"Content-Length : %N",
	"Transfer-Encoding: chunked",
	"Transfer-Encoding: cHuNkEd",
	"Transfer-Encoding: identity",
	"Transfer-Encoding: chunked, identity",
	"Transfer-Encoding: gzip, chunked",
	"Transfer-Encoding : chunked",
}

var moreFraming = []string{
	"content-length: %N", "CONTENT-LENGTH: %N", "Content-Length:%N", "Content-Length: %N ", "Content-Length:\t%N",
	"Content-Length: -%N", "Content-Length: ", "Content-Length: %N,", "Content-Length: %N, 3", "Content-Length: 9223372036854775808",
	"Content-Length: 9223372036854775807", "Content-Length: 00000000000000000000%N", "Content-Length: 0x%N", "Content-Length: %N.0",
	"Content-Length:\r\n %N", "Content-Length: %N\r\n 0", "X-F: a\r\n Content-Length: 3", "Content_Length: 3", "Content-Length\t: %N",
	"Content Length: 3", "Content-Length\x00: 3", "Content-Length: %N\x00",
	"transfer-encoding: chunked", "TRANSFER-ENCODING: CHUNKED", "Transfer-Encoding:chunked", "Transfer-Encoding:\tchunked",
	"Transfer-Encoding: chunked ", "Transfer-Encoding: chunked\t", "Transfer-Encoding:\r\n chunked", "Transfer-Encoding: chunked\r\n ",
	"Transfer-Encoding: chunked, chunked", "Transfer-Encoding: identity, chunked", "Transfer-Encoding: chunked,", "Transfer-Encoding: ,chunked",
	"Transfer-Encoding: gzip", "Transfer-Encoding: xchunked", "Transfer-Encoding: chunkedx", "Transfer-Encoding: \"chunked\"",
	"Transfer-Encoding: chunked;q=1", "Transfer-Encoding: Identity", "Transfer-Encoding:", "Transfer-Encoding: \x0bchunked",
	"Transfer_Encoding: chunked", "Transfer Encoding: chunked", "Transfer-Encoding\t: chunked", "X-T: a\r\n Transfer-Encoding: chunked",
	"Transfer-Encoding: chunked\r\nTransfer-Encoding: chunked", "Transfer-Encoding: identity\r\nTransfer-Encoding: chunked",
	"Transfer-Encoding: chunked\r\nTransfer-Encoding: identity", "Transfer-Encoding: chun\r\n ked",
}

func fill(line string, n int) string { return strings.ReplaceAll(line, "%N", strconv.Itoa(n)) }

func mentionsTE(line string) bool { return strings.Contains(strings.ToLower(line), "ransfer") }

// chunked encoding of data with the given cut points and decorations
type chunkOpt struct {
	ext      []string // cycled over the chunks
	last     string   // last-chunk line without CRLF
	trailer  string   // trailer section including its final empty line
	upper    bool
	zeros    bool
	breakAt  int // >=0: break the encoding of that chunk
	breakHow int
}

func encChunked(r *rand.Rand, data []byte, o chunkOpt) []byte {
	var b bytes.Buffer
	i, k := 0, 0
	for i < len(data) {
		n := 1 + r.Intn(12)
		if i+n > len(data) {
			n = len(data) - i
		}
		sz := strconv.FormatInt(int64(n), 16)
		if o.upper {
			sz = strings.ToUpper(sz)
		}
		if o.zeros {
			sz = "00" + sz
		}
		ext := ""
		if len(o.ext) > 0 {
			ext = o.ext[k%len(o.ext)]
		}
		term := crlf
		dterm := crlf
		if k == o.breakAt {
			switch o.breakHow {
			case 0:
				dterm = "" // no CRLF after the data
			case 1:
				dterm = "\n"
			case 2:
				term = "\n" // bare LF after the size
			case 3:
				sz = "0x" + sz
			case 4:
				sz = "-" + sz
			case 5:
				sz = strconv.FormatInt(int64(n+1), 16) // size too large by one
			case 6:
				sz = "ffffffffffffffffff"
			case 7:
				dterm = "\rX"
			case 8:
				sz = sz + "g"
			case 9:
				sz = ""
			}
		}
		b.WriteString(sz + ext + term)
		b.Write(data[i : i+n])
		b.WriteString(dterm)
		i += n
		k++
	}
	b.WriteString(o.last + crlf)
	b.WriteString(o.trailer)
	return b.Bytes()
}

// the first 9 / 6 / 7 entries are what a well-behaved (if unusual) client may send
var chunkExts = [][]string{nil, nil, nil, {";a=b"}, {";x", ""}, {";a=\"q;r\""}, {" "}, {"\t"}, {"; a = b"}, {" ;a"}, {";\xff"}, {"x"}, {";a\rb"}, {";a\nb"}}
var lastLines = []string{"0", "0", "0", "0", "000", "0;e=1", "0 ", "0x", "00000000000000000000", "00000000000000000"}
var trailers = []string{
	crlf, crlf, crlf, crlf, "X-T: v" + crlf + crlf, "X-T: v" + crlf + "Y-T: w" + crlf + crlf, "X-T: a" + crlf + " b" + crlf + crlf,
	"X-T: v\n\n", "\n", "X-T: v\n\r\n",
	"Content-Length: 3" + crlf + crlf, "Host: h" + crlf + crlf, "X-T v" + crlf + crlf, "X-T : v" + crlf + crlf,
	" X-T: v" + crlf + crlf, "X-T: \x01" + crlf + crlf, "", "\r", "Transfer-Encoding: chunked" + crlf + crlf,
	"Expect : 100-continue" + crlf + crlf, "Expect: 100-continue" + crlf + crlf, "expect\t: 100-continue" + crlf + crlf,
	"Content-Length : 5" + crlf + crlf, "Transfer-Encoding : chunked" + crlf + crlf, "Host : evil" + crlf + crlf,
	"Connection : close" + crlf + crlf, "X-T: v" + crlf + "Expect : 100-continue" + crlf + crlf, "E xpect: 100-continue" + crlf + crlf,
}

func multipartBody(r *rand.Rand, boundary string, odd bool) []byte {
	var b bytes.Buffer
	switch r.Intn(4) {
	case 1:
		b.WriteString("preamble" + crlf)
	}
	nparts := 1 + r.Intn(2)
	for i := 0; i < nparts; i++ {
		fmt.Fprintf(&b, "--%s\r\nContent-Disposition: form-data; name=\"f%d\"\r\n\r\nvalue%d\r\n", boundary, i, i)
	}
	k := 2 + r.Intn(4)
	if odd {
		k = r.Intn(4)
	}
	switch k {
	case 0: // no closing boundary
	case 1:
		b.WriteString("--" + boundary + "--")
	default:
		b.WriteString("--" + boundary + "--" + crlf)
	}
	switch r.Intn(4) {
	case 0:
		b.WriteString("epilogue GET /smuggled HTTP/1.1\r\nHost: h\r\n\r\n")
	case 1:
		b.WriteString(strings.Repeat("e", r.Intn(30)))
	}
	return b.Bytes()
}

var bodyAlphabet = []byte("abcxyz0123456789 \r\n:GET/HTP.1")

type gen struct {
	r    *rand.Rand
	tags []string
	mp   bool
}

func (g *gen) tag(t string) { g.tags = append(g.tags, t) }

func (g *gen) terminators(odd bool) (lt func(last bool) string) {
	k := g.r.Intn(14)
	switch {
	case k == 0 && odd:
		g.tag("lf")
		return func(bool) string { return "\n" }
	case k == 1 && odd:
		g.tag("mixlt")
		return func(bool) string {
			if g.r.Intn(2) == 0 {
				return "\n"
			}
			return crlf
		}
	case k == 2:
		g.tag("mixlt-crlf-blank") // bare LF line ends, the blank line is CRLF
		return func(last bool) string {
			if !last && g.r.Intn(2) == 0 {
				return "\n"
			}
			return crlf
		}
	}
	return func(bool) string { return crlf }
}

// one request; id makes the target unique
func (g *gen) request(id int, odd bool) []byte {
	r := g.r
	var b bytes.Buffer
	lt := g.terminators(odd)
	if r.Intn(15) == 0 {
		g.tag("blank")
		b.WriteString(hlib.Pick(r, []string{crlf, "\n", crlf + crlf, "\r\n\n"}))
	}
	method := hlib.Pick(r, methods)
	version := hlib.Pick(r, versions)
	if odd && r.Intn(8) == 0 {
		version = hlib.Pick(r, oddVersions)
		g.tag("ver")
	}
	target := fmt.Sprintf("/r%d%s", id, hlib.Pick(r, targetSfx))
	switch r.Intn(30) {
	case 0:
		target = "*"
	case 1:
		target = fmt.Sprintf("http://h%d/abs", id)
	case 2:
		if odd {
			target = fmt.Sprintf("/r%d a", id)
			g.tag("sp-in-target")
		}
	}
	sep1, sep2 := " ", " "
	if odd && r.Intn(12) == 0 {
		sep1 = hlib.Pick(r, []string{"  ", "\t"})
		g.tag("rl-ws")
	}
	var fields []string
	if version == "HTTP/1.0" && r.Intn(6) != 0 {
		fields = append(fields, "Connection: keep-alive")
	}
	if r.Intn(40) == 0 {
		fields = append(fields, hlib.Pick(r, []string{"Connection: close", "Connection: Close", "Connection: x, close"}))
		g.tag("close")
	}
	shape := r.Intn(73)
	if odd {
		shape = 46 + r.Intn(54)
	}
	if !odd && shape >= 46 && shape < 66 {
		version = "HTTP/1.1" // a well-behaved client sends chunked bodies only with HTTP/1.1
	}
	b.WriteString(method + sep1 + target + sep2 + version + lt(false))

	host := "Host: h"
	if r.Intn(6) == 0 {
		host = hlib.Pick(r, []string{"Host: h:80", "Host: [::1]:8080", "Host: H.Example", "Host:\th ", "Host: u@h"})
	}
	if odd && r.Intn(6) == 0 {
		host = hlib.Pick(r, []string{"Host: h:x", "Host: [::1", "Host: a b", "Host: h:80:81", "Host: %zz", "Host: ", "Host: [::g]"})
		g.tag("badhost")
	}
	switch r.Intn(20) {
	case 0:
		if odd {
			host = ""
			g.tag("nohost")
		}
	case 1:
		host = "host:h"
	}
	if host != "" {
		fields = append(fields, host)
	}
	for k := r.Intn(3); k > 0; k-- {
		fields = append(fields, hlib.Pick(r, otherFields))
	}

	var body []byte
	switch {
	case shape < 28: // no body
		g.tag("nobody")
	case shape < 46: // fixed body, clean
		body = hlib.Bytes(r, bodyAlphabet, 24)
		fields = append(fields, "Content-Length: "+strconv.Itoa(len(body)))
		g.tag("fixed")
	case shape < 66: // chunked, clean or decorated or broken
		data := hlib.Bytes(r, bodyAlphabet, 30)
		o := chunkOpt{ext: hlib.Pick(r, chunkExts[:9]), last: hlib.Pick(r, lastLines[:6]), trailer: hlib.Pick(r, trailers[:7]), breakAt: -1}
		if odd {
			o = chunkOpt{ext: hlib.Pick(r, chunkExts), last: hlib.Pick(r, lastLines), trailer: hlib.Pick(r, trailers), breakAt: -1}
		}
		o.upper = r.Intn(4) == 0
		o.zeros = r.Intn(6) == 0
		t := "chunked"
		if odd && r.Intn(2) == 0 {
			o.breakAt = r.Intn(3)
			o.breakHow = r.Intn(10)
			t = "chunked-broken" + strconv.Itoa(o.breakHow)
		}
		body = encChunked(r, data, o)
		fields = append(fields, "Transfer-Encoding: chunked")
		g.tag(t)
	case shape < 73: // multipart
		boundary := hlib.Pick(r, []string{"XbOuNd", "b-1", "q q"})
		body = multipartBody(r, boundary, odd)
		ct := "Content-Type: multipart/form-data; boundary=" + boundary
		switch r.Intn(5) {
		case 0:
			ct = "Content-Type: multipart/form-data; charset=x; boundary=\"" + boundary + "\""
		case 1:
			ct = "Content-Type: multipart/form-data;boundary=" + boundary + "; x=y"
		}
		n := len(body)
		if odd && r.Intn(3) == 0 {
			n -= 1 + r.Intn(5)
		}
		fields = append(fields, ct, "Content-Length: "+strconv.Itoa(n))
		g.tag("multipart")
		g.mp = true
	case shape < 94: // framing anomaly
		data := hlib.Bytes(r, bodyAlphabet, 20)
		chunkedBody := encChunked(r, data, chunkOpt{last: "0", trailer: crlf, breakAt: -1})
		var lines []string
		nl := 1 + r.Intn(2)
		te := false
		for i := 0; i < nl; i++ {
			var l string
			if r.Intn(2) == 0 {
				l = hlib.Pick(r, matrixLines)
			} else {
				l = hlib.Pick(r, moreFraming)
			}
			te = te || mentionsTE(l)
			lines = append(lines, l)
		}
		if te {
			body = chunkedBody
		} else {
			body = data
		}
		n := len(body)
		switch r.Intn(4) {
		case 0:
			n = r.Intn(n + 1) // shorter than what is sent: the rest looks like the next request to a CL reader
		}
		for _, l := range lines {
			fields = append(fields, fill(l, n))
		}
		g.tag("anomaly")
	default: // head syntax anomaly
		odd := hlib.Pick(r, []string{
			"NoColonLine", ": empty-name", "X Y: inner space", "X-Ws : v", "X-Tab\t: v", " leading: ws", "\tleading: tab",
			"X-Fold: a\r\n b", "X-Fold: a\r\n\tb\r\n c", "X-Ctl: a\x01b", "X-Nul: a\x00b", "X-Cr: a\rb", "X(Paren): v", "X-\xc3\xa9: v",
			"Host: second", "X-Del: \x7f",
		})
		if r.Intn(2) == 0 {
			fields = append([]string{odd}, fields...)
		} else {
			fields = append(fields, odd)
		}
		g.tag("headsyn")
	}
	r.Shuffle(len(fields), func(i, j int) {
		// keep a leading-whitespace line where it was put (first or not) only by chance: any order is a valid test
		fields[i], fields[j] = fields[j], fields[i]
	})
	for _, f := range fields {
		b.WriteString(f + lt(false))
	}
	b.WriteString(lt(true))
	b.Write(body)
	return b.Bytes()
}

var tails = []string{
	"", "", "", "", crlf, "\n", crlf + crlf, "GET /partial HTTP/1.1\r\nHost: h\r\n", "GET /partial HTTP/1.1\r\nHost: h\r\n\r", "garbage",
	"\x00\x01\x02", "GET /t HTTP/1.1\nHost: h\n\n", "POST /t HTTP/1.1\r\nHost: h\r\nContent-Length: 10\r\n\r\nshort",
	"POST /t HTTP/1.1\r\nHost: h\r\nTransfer-Encoding: chunked\r\n\r\n5\r\nab", "POST /t HTTP/1.1\r\nHost: h\r\nTransfer-Encoding: chunked\r\n\r\n",
	"POST /t HTTP/1.1\r\nHost: h\r\nTransfer-Encoding: chunked\r\n\r\n3\r\nabc\r\n0\r\n", "G", "GET / HTTP/1.1\r\nHost: h\r\nX: " + strings.Repeat("y", 200),
}

var mutAlphabet = []byte("\r\n :,;0159aAzZ-_\t\x00/%")

func sigOf(tags []string) string {
	seen := map[string]bool{}
	var u []string
	for _, t := range tags {
		if !seen[t] {
			seen[t] = true
			u = append(u, t)
		}
	}
	return strings.Join(u, "+")
}

func genCase(r *rand.Rand, i int) desc {
	g := &gen{r: r}
	var s bytes.Buffer
	n := 1 + r.Intn(6)
	bad := r.Intn(n + 2) // the request that is drawn from the anomalous part of the grammar (>= n: none)
	bad2 := -1
	if r.Intn(8) == 0 {
		bad2 = r.Intn(n)
	}
	for k := 0; k < n; k++ {
		s.Write(g.request(k, k == bad || k == bad2))
	}
	if t := hlib.Pick(r, tails); t != "" {
		s.WriteString(t)
		g.tag("tail")
	}
	stream := s.Bytes()
	kind := "pipeline"
	if !g.mp && r.Intn(6) == 0 {
		stream = hlib.Mutate(r, stream, 1+r.Intn(3), mutAlphabet)
		g.tag("mut")
		kind = "mutated"
	}
	d := desc{Stream: stream, Cfgs: allCfgs, Seed: r.Int63(), Kind: kind}
	switch r.Intn(8) {
	case 0:
		d.BSize = hlib.Pick(r, []int{32, 64, 100, 256})
		g.tag("bs" + strconv.Itoa(d.BSize))
	}
	switch r.Intn(10) {
	case 0:
		d.MaxBody = hlib.Pick(r, []int{8, 20, 40})
		g.tag("mb")
	}
	d.Sig = fmt.Sprintf("%d:%s", n, sigOf(g.tags))
	return d
}

// ---------------------------------------------------------------------------
// corpus: the exhaustive CL/TE matrix and directed cases
// ---------------------------------------------------------------------------

const nextReq = "GET /next HTTP/1.1\r\nHost: h\r\n\r\n"

func matrixCase(version string, lines []string) desc {
	chunked := "5\r\nhello\r\n0\r\n\r\n"
	body := "hello"
	for _, l := range lines {
		if mentionsTE(l) {
			body = chunked
		}
	}
	var b bytes.Buffer
	b.WriteString("POST /m " + version + "\r\nHost: h\r\nConnection: keep-alive\r\n")
	for _, l := range lines {
		b.WriteString(fill(l, len(body)) + crlf)
	}
	b.WriteString(crlf + body + nextReq)
	return desc{Stream: b.Bytes(), Cfgs: []cfgD{{}, {NoNorm: true}}, Seed: 7, Kind: "matrix", Sig: "matrix:" + version + ":" + strings.Join(lines, "|")}
}

func directed(stream string, sig string) desc {
	return desc{Stream: []byte(stream), Cfgs: allCfgs, Seed: 11, Kind: "directed", Sig: "directed:" + sig}
}

func corpus() []desc {
	var l []desc
	for _, v := range []string{"HTTP/1.1", "HTTP/1.0"} {
		for _, a := range matrixLines {
			l = append(l, matrixCase(v, []string{a}))
			for _, b := range matrixLines {
				l = append(l, matrixCase(v, []string{a, b}))
			}
		}
		for _, a := range moreFraming {
			l = append(l, matrixCase(v, []string{a}))
		}
	}
	get := func(p string) string { return "GET " + p + " HTTP/1.1\r\nHost: h\r\n\r\n" }
	// the repaired defects (fixed: lines of findings/fixed.txt) and their neighbours
	l = append(l,
		directed("POST /a HTTP/1.1\r\nHost: h\r\nTransfer-Encoding: identity\r\nContent-Length: 3\r\n\r\nabc"+get("/b"), "te-identity-cl"),
		directed("POST /a HTTP/1.1\r\nHost: h\r\nContent-Length: 3\r\nTransfer-Encoding: chunked\r\n\r\n3\r\nabc\r\n0\r\n\r\n"+get("/b"), "cl-te"),
		directed("POST /a HTTP/1.1\r\nHost: h\r\nTransfer-Encoding: chunked\r\nContent-Length: 3\r\n\r\n3\r\nabc\r\n0\r\n\r\n"+get("/b"), "te-cl"),
		directed("POST /a HTTP/1.1\r\nHost: h\r\nTransfer-Encoding: identity\r\nConnection: keep-alive\r\n\r\n"+get("/b"), "te-identity-keepalive"),
		directed("POST /a HTTP/1.1\r\nHost: h\r\nContent-Type: multipart/form-data; boundary=xx\r\nContent-Length: 144\r\n\r\n--xx\r\nContent-Disposition: form-data; name=\"a\"\r\n\r\nv\r\n--xx--\r\n"+strings.Repeat("x", 50)+"\r\nGET /smuggled HTTP/1.1\r\nHost: h\r\n\r\n"+get("/b"), "multipart-epilogue"),
		// three-request pipeline: chunked with extensions and trailers in the middle
		directed(get("/1")+"POST /2 HTTP/1.1\r\nHost: h\r\nTransfer-Encoding: chunked\r\n\r\n3;a=b\r\nabc\r\nA\r\n0123456789\r\n0;l\r\nX-T: v\r\n\r\n"+get("/3"), "pipeline3"),
		// bare LF (finding of C09: acceptance depends on what follows; never a framing error)
		directed("GET /lf HTTP/1.1\nHost: h\n\n"+get("/b"), "barelf-then-crlf"),
		directed("GET /lf HTTP/1.1\nHost: h\n\n", "barelf-alone"),
		directed("GET /lf HTTP/1.1\nHost: h\n\nGET /lf2 HTTP/1.1\nHost: h\n\n", "barelf-twice"),
		directed("POST /lf HTTP/1.1\nHost: h\nContent-Length: 4\n\nbodyGET /b HTTP/1.1\r\nHost: h\r\nX: y\r\n\r\n", "barelf-body"),
		directed("GET /a HTTP/1.1\r\nHost: h\r\nX Y: z\r\n\r\n"+get("/b"), "inner-space-name"),
		directed("GET /a HTTP/1.1\r\nHost: h\r\nContent-Length : 31\r\n\r\n"+get("/b"), "cl-ws-colon"),
		directed("GET /a HTTP/1.0\r\nConnection: keep-alive\r\n\r\nGET /b HTTP/1.0\r\n\r\n"+get("/c"), "http10"),
		directed("POST /a HTTP/1.1\r\nHost: h\r\nExpect: 100-continue\r\nContent-Length: 3\r\n\r\nabc"+get("/b"), "expect"),
		directed("POST /a HTTP/1.1\r\nHost: h\r\nTransfer-Encoding: chunked\r\n\r\n3 \r\nabc\r\n0\r\n\r\n"+get("/b"), "chunk-size-trailing-ws"),
		directed("POST /a HTTP/1.1\r\nHost: h\r\nTransfer-Encoding: chunked\r\n\r\n3\r\nabc\r\n0\r\nGET /b HTTP/1.1\r\nHost: h\r\n\r\n", "trailer-is-next-request"),
		directed("POST /a HTTP/1.1\r\nHost: h\r\nTransfer-Encoding: chunked\r\n\r\n3\r\nabc\r\n0\r\nX: GET /b HTTP/1.1\r\n\r\n"+get("/c"), "trailer-swallows"),
	)
	// chunked-coding anomalies, each followed by a well-formed request
	ch := func(body string) string {
		return "POST /c HTTP/1.1\r\nHost: h\r\nTransfer-Encoding: chunked\r\n\r\n" + body + get("/after")
	}
	for i, body := range []string{
		"3\r\nabcXY0\r\n\r\n",              // chunk data not followed by CRLF
		"3\r\nabc\n0\r\n\r\n",               // LF only after the data
		"3\r\nabc\r\r0\r\n\r\n",            // CR CR after the data
		"3\nabc\r\n0\r\n\r\n",               // LF only after the size
		"3;a\nb\r\nabc\r\n0\r\n\r\n",       // LF inside a chunk extension
		"3;a\rb\r\nabc\r\n0\r\n\r\n",       // bare CR inside a chunk extension
		"0x3\r\nabc\r\n0\r\n\r\n",           // 0x prefix: size 0, then garbage
		"+3\r\nabc\r\n0\r\n\r\n",            // sign
		"3 ;a\r\nabc\r\n0\r\n\r\n",          // BWS before the extension
		"3 \r\nabc\r\n0 \r\n\r\n",           // trailing whitespace
		"3x\r\nabc\r\n0\r\n\r\n",            // junk after the size
		"03\r\nabc\r\n00\r\n\r\n",           // leading zeros
		"A\r\n0123456789\r\n0\r\n\r\n",      // upper-case hex
		"10000000000000003\r\nabc\r\n0\r\n\r\n", // 17 hex digits (wraps to 3 in 64 bits)
		"ffffffffffffffff\r\nabc\r\n0\r\n\r\n", // 16 hex digits
		"3\r\nabc\r\n0\r\n",                  // no final CRLF: the next request becomes the trailer section
		"3\r\nabc\r\n0\r\nX-T: v\r\n\r\n",   // trailer field
		"3\r\nabc\r\n0\r\nX-T: v\n\r\n",     // trailer field ended by LF
		"3\r\nabc\r\n0\r\nContent-Length: 9\r\n\r\n", // forbidden trailer
		"3\r\nabc\r\n0\r\n X: y\r\n\r\n",    // trailer section starting with whitespace
		"3\r\nabc\r\n\r\n0\r\n\r\n",         // empty line where a chunk size is expected
		"\r\n3\r\nabc\r\n0\r\n\r\n",         // empty line before the first chunk
		"3\r\nab\r\n0\r\n\r\n",              // size larger than the data (swallows the CRLF)
		"2\r\nabc\r\n0\r\n\r\n",             // size smaller than the data
	} {
		l = append(l, directed(ch(body), "chunk-"+strconv.Itoa(i)))
	}
	// Content-Length / Transfer-Encoding order and spelling, each with the body both readings need and a follower
	for i, h := range []string{
		"Transfer-Encoding: chunked\r\nContent-Length: 16\r\n",
		"Content-Length: 16\r\nTransfer-Encoding: chunked\r\n",
		"Transfer-Encoding: chunked\r\nContent-Length: 3\r\n",
		"Transfer-Encoding: chunked\r\ncontent-length: 16\r\n",
		"transfer-encoding: chunked\r\nCONTENT-LENGTH: 16\r\n",
		"Transfer-Encoding: chunked\r\nTransfer-Encoding: identity\r\n",
		"Transfer-Encoding: identity\r\nContent-Length: 16\r\n",
		"Content-Length: 16\r\nContent-Length: 16\r\n",
		"Content-Length: 16\r\nContent-Length: 3\r\n",
		"Content-Length: 3\r\nContent-Length: 16\r\n",
		"Content-Length: 16, 16\r\n",
		"Content-Length : 16\r\n",
		"Content-Length\t: 16\r\n",
		"Transfer-Encoding : chunked\r\n",
		" Content-Length: 16\r\n",
		"X: y\r\n Content-Length: 16\r\n",
		"Content-Length: 16\r\n \r\n",
		"Content-Length:\r\n 16\r\n",
		"Content-Length: 1\r\n 6\r\n",
	} {
		l = append(l, directed("POST /o HTTP/1.1\r\nHost: h\r\n"+h+"\r\n5\r\nhello\r\n0\r\n\r\n"+get("/after"), "order-"+strconv.Itoa(i)))
	}
	// head syntax
	for i, h := range []string{
		"GET /h HTTP/1.1\r\nHost: h\r\n\n",            // blank line is a bare LF (rejected since f7a0f16)
		"GET /h HTTP/1.1\nHost: h\n\r\n",              // LF line ends, CRLF blank line
		"GET /h HTTP/1.1\r\nHost: h\r\r\n\r\n",        // CR CR LF
		"\r\n\r\nGET /h HTTP/1.1\r\nHost: h\r\n\r\n",  // leading empty lines
		"GET /h HTTP/1.1\r\n\r\n",                     // no Host
		"GET /h HTTP/1.0\r\nConnection: keep-alive\r\n\r\n",
		"GET /h HTTP/1.0\r\nconnection: keep-alive\r\n\r\n",
		"GET /h HTTP/1.1\r\nHost: h\r\nNoColon\r\n\r\n",
		"GET /h HTTP/1.1\r\nHost: h\r\n: v\r\n\r\n",
		"GET  /h HTTP/1.1\r\nHost: h\r\n\r\n",
		"GET /h  HTTP/1.1\r\nHost: h\r\n\r\n",
		"GET /h HTTP/1.1 \r\nHost: h\r\n\r\n",
		"GET /h\r\nHost: h\r\n\r\n",
		"G@T /h HTTP/1.1\r\nHost: h\r\n\r\n",
		"GET /h HTTP/1.1\r\nHost: h:x\r\n\r\n",        // parseURI error
		"GET http://[::1/ HTTP/1.1\r\nHost: h\r\n\r\n",
		"GET /h HTTP/1.1\r\nHost: h\r\nX: a\x00b\r\n\r\n",
	} {
		l = append(l, directed(h+get("/after"), "head-"+strconv.Itoa(i)))
	}
	// trailer dictionaries: every forbidden trailer name (header.go isBadTrailer) and some allowed neighbours x
	// {plain, SP / HTAB before the colon, mixed case, upper case, inner space} x what follows the message
	// {bytes that parse as another chunked body, a request}; run with and without DisableHeaderNamesNormalizing.
	// A trailer field that reaches the request's header list must never change how the connection is framed.
	trailerNames := []struct{ name, val string }{
		{"Authorization", "Basic eA=="}, {"Content-Encoding", "gzip"}, {"Content-Length", "5"}, {"Content-Type", "text/plain"},
		{"Content-Range", "bytes 0-1/2"}, {"Connection", "close"}, {"Connection", "keep-alive"}, {"Cookie", "a=b"},
		{"Expect", "100-continue"}, {"Host", "evil"}, {"Keep-Alive", "timeout=5"}, {"Location", "/x"}, {"Max-Forwards", "1"},
		{"Proxy-Connection", "close"}, {"Proxy-Authenticate", "Basic"}, {"Proxy-Authorization", "Basic eA=="}, {"Range", "bytes=0-1"},
		{"Set-Cookie", "a=b"}, {"TE", "trailers"}, {"Trailer", "X-T"}, {"Transfer-Encoding", "chunked"}, {"WWW-Authenticate", "Basic"},
		{"X-Forwarded-For", "1.2.3.4"}, {"X-Real-Ip", "1.2.3.4"},
		// allowed neighbours
		{"X-T", "v"}, {"Expect-Ct", "100-continue"}, {"Expec", "100-continue"}, {"Content-Lengthx", "5"}, {"Transfer-Encodin", "chunked"}, {"Hostx", "evil"},
	}
	mixed := func(n string) string {
		b := []byte(n)
		for i := range b {
			if i%2 == 0 {
				b[i] = byte(strings.ToLower(string(b[i]))[0])
			} else {
				b[i] = byte(strings.ToUpper(string(b[i]))[0])
			}
		}
		return string(b)
	}
	for ti, tn := range trailerNames {
		variants := []string{
			tn.name + ": " + tn.val, tn.name + " : " + tn.val, tn.name + "\t: " + tn.val, tn.name + " \t : " + tn.val,
			mixed(tn.name) + ": " + tn.val, strings.ToUpper(tn.name) + ": " + tn.val, strings.ToLower(tn.name) + " : " + tn.val,
			tn.name[:1] + " " + tn.name[1:] + ": " + tn.val, tn.name + ":" + tn.val, "X-A: b\r\n" + tn.name + " : " + tn.val,
		}
		for vi, tl := range variants {
			for fi, follow := range []string{"5\r\nhello\r\n0\r\n\r\n" + get("/after"), get("/after")} {
				for bi, body := range []string{"3\r\nabc\r\n0\r\n", "0\r\n"} {
					if bi == 1 && !(tn.name == "Expect" || tn.name == "Content-Length" || tn.name == "Transfer-Encoding" || tn.name == "Host" || tn.name == "Connection") {
						continue // the empty chunked body (ContentLength() becomes 0) only for the framing-relevant names
					}
					d := directed("POST /upload HTTP/1.1\r\nHost: h\r\nTransfer-Encoding: chunked\r\n\r\n"+body+tl+"\r\n\r\n"+follow,
						fmt.Sprintf("trailer-%d-%d-%d-%d", ti, vi, fi, bi))
					d.Cfgs = []cfgD{{}, {NoNorm: true}}
					d.Kind = "trailer"
					l = append(l, d)
				}
			}
		}
	}
	// --- coverage audit additions ---
	// Expect handling (serve loop: 100 Continue, then ContinueReadBody)
	for i, st := range []string{
		"POST /e HTTP/1.1\r\nHost: h\r\nExpect: 100-continue\r\nTransfer-Encoding: chunked\r\n\r\n3\r\nabc\r\n0\r\n\r\n" + get("/after"),
		"POST /e HTTP/1.1\r\nHost: h\r\nExpect: 100-Continue\r\nContent-Length: 3\r\n\r\nabc" + get("/after"),
		"POST /e HTTP/1.1\r\nHost: h\r\nexpect: 100-continue\r\nContent-Length: 3\r\n\r\nabc" + get("/after"),
		"POST /e HTTP/1.1\r\nHost: h\r\nEXPECT: 100-continue\r\nContent-Length: 3\r\n\r\nabc" + get("/after"),
		"POST /e HTTP/1.0\r\nConnection: keep-alive\r\nExpect: 100-continue\r\nContent-Length: 3\r\n\r\nabc" + get("/after"),
		"GET /e HTTP/1.1\r\nHost: h\r\nExpect: 100-continue\r\n\r\n" + get("/after"),
		"POST /e HTTP/1.1\r\nHost: h\r\nExpect: 100-continue\r\nContent-Length: 9\r\n\r\nabc",
		"POST /e HTTP/1.1\r\nHost: h\r\nExpect: 100-continue\r\nTransfer-Encoding: chunked\r\n\r\n3\r\nabcXX0\r\n\r\n" + get("/after"),
		"POST /e HTTP/1.1\r\nHost: h\r\nExpect: 100-continue\r\nExpect: other\r\nContent-Length: 3\r\n\r\nabc" + get("/after"),
		"POST /e HTTP/1.1\r\nHost: h\r\nExpect: other\r\nExpect: 100-continue\r\nContent-Length: 3\r\n\r\nabc" + get("/after"),
		"POST /e HTTP/1.1\r\nHost: h\r\nExpect: 100-continue\r\nContent-Length: 3\r\nTransfer-Encoding: chunked\r\n\r\n3\r\nabc\r\n0\r\n\r\n" + get("/after"),
		"POST /e HTTP/1.1\r\nHost: h\r\nExpect: 100-continue\r\nContent-Type: multipart/form-data; boundary=xx\r\nContent-Length: 58\r\n\r\n--xx\r\nContent-Disposition: form-data; name=\"a\"\r\n\r\nv\r\n--xx--\r\n" + get("/after"),
	} {
		l = append(l, directed(st, "expect-"+strconv.Itoa(i)))
	}
	// methods that usually carry no body, sent with one (the framing is the same for every method)
	for i, m := range []string{"GET", "HEAD", "DELETE", "OPTIONS", "TRACE", "CONNECT"} {
		tgt := "/m"
		if m == "CONNECT" {
			tgt = "h:80"
		}
		l = append(l,
			directed(m+" "+tgt+" HTTP/1.1\r\nHost: h\r\nContent-Length: 5\r\n\r\nhello"+get("/after"), "method-cl-"+strconv.Itoa(i)),
			directed(m+" "+tgt+" HTTP/1.1\r\nHost: h\r\nTransfer-Encoding: chunked\r\n\r\n5\r\nhello\r\n0\r\n\r\n"+get("/after"), "method-te-"+strconv.Itoa(i)),
			directed(m+" "+tgt+" HTTP/1.1\r\nHost: h\r\nContent-Length: 0\r\n\r\n"+get("/after"), "method-cl0-"+strconv.Itoa(i)))
	}
	// Host: duplicates, absolute-form targets
	for i, h := range []string{
		"Host: a\r\nHost: b\r\n", "Host: a\r\nHost: a\r\n", "Host: a\r\nhost: b\r\n", "Host: a\r\nX: y\r\nHOST: b\r\n", "Host:\r\n", "Host: a, b\r\n", "Host: a b\r\n",
	} {
		l = append(l, directed("GET /h HTTP/1.1\r\n"+h+"\r\n"+get("/after"), "host-"+strconv.Itoa(i)))
	}
	l = append(l,
		directed("GET http://other/p HTTP/1.1\r\nHost: h\r\n\r\n"+get("/after"), "abs-uri-host"),
		directed("GET http://other/p HTTP/1.1\r\n\r\n"+get("/after"), "abs-uri-nohost"),
		directed("GET /h HTTP/1.0\r\nHost: a\r\nHost: b\r\nConnection: keep-alive\r\n\r\n"+get("/after"), "host-dup-http10"))
	// ReadBufferSize boundaries: a head of exactly bsize-1 / bsize / bsize+1 bytes, heads and chunk lines that straddle
	// the buffer end in a pipeline
	for _, bs := range []int{64, 100} {
		base := "GET /b HTTP/1.1\r\nHost: h\r\nX-P: \r\n\r\n"
		for _, delta := range []int{-2, -1, 0, 1, 2} {
			pad := bs + delta - len(base)
			st := "GET /b HTTP/1.1\r\nHost: h\r\nX-P: " + strings.Repeat("p", pad) + "\r\n\r\n"
			d := directed(st+get("/after"), fmt.Sprintf("bufedge-%d-%d", bs, delta))
			d.BSize = bs
			l = append(l, d)
			// the same head as the SECOND request of a pipeline: it starts in the middle of the buffer
			d2 := directed(get("/first")+st+get("/after"), fmt.Sprintf("bufedge2-%d-%d", bs, delta))
			d2.BSize = bs
			l = append(l, d2)
		}
		// chunk-size lines / chunk data / trailers crossing the buffer end
		for i, padn := range []int{bs - 70, bs - 66, bs - 64, bs - 62, bs - 58} {
			if padn < 0 {
				padn += 40
			}
			st := "POST /c HTTP/1.1\r\nHost: h\r\nX: " + strings.Repeat("q", padn%30) + "\r\nTransfer-Encoding: chunked\r\n\r\n" +
				"000000a;ext=1\r\n0123456789\r\n1e\r\n" + strings.Repeat("z", 30) + "\r\n0\r\nX-T: v\r\n\r\n"
			d := directed(st+get("/after"), fmt.Sprintf("bufchunk-%d-%d", bs, i))
			d.BSize = bs
			l = append(l, d)
		}
	}
	big := directed("POST /a HTTP/1.1\r\nHost: h\r\nContent-Length: 30\r\n\r\n"+strings.Repeat("b", 30)+get("/b"), "maxbody")
	big.MaxBody = 20
	l = append(l, big)
	small := directed("GET /a HTTP/1.1\r\nHost: h\r\nX-Pad: "+strings.Repeat("p", 80)+"\r\n\r\n"+get("/b"), "smallbuf")
	small.BSize = 64
	l = append(l, small)
	trsmall := directed("POST /a HTTP/1.1\r\nHost: h\r\nTransfer-Encoding: chunked\r\n\r\n3\r\nabc\r\n0\r\nX-T: "+strings.Repeat("t", 90)+"\r\n\r\n"+get("/b"), "trailer-smallbuf")
	trsmall.BSize = 64
	l = append(l, trsmall)
	chbig := directed("POST /a HTTP/1.1\r\nHost: h\r\nTransfer-Encoding: chunked\r\n\r\nA\r\n0123456789\r\nA\r\n0123456789\r\nA\r\n0123456789\r\n0\r\n\r\n"+get("/b"), "chunked-maxbody")
	chbig.MaxBody = 20
	l = append(l, chbig)
	l = append(l,
		directed("POST /a HTTP/1.1\r\nHost: h\r\nContent-Type: multipart/form-data; boundary=xx\r\nContent-Encoding: gzip\r\nContent-Length: 12\r\n\r\nnot-a-form!!"+get("/b"), "multipart-content-encoding"),
		directed("POST /a HTTP/1.1\r\nHost: h\r\nContent-Type: multipart/form-data; boundary=xx\r\ncontent-encoding: gzip\r\nContent-Length: 12\r\n\r\nnot-a-form!!"+get("/b"), "multipart-content-encoding-lower"),
		directed("POST /a HTTP/1.1\r\nHost: h\r\nContent-Type: multipart/form-data; boundary=xx\r\nContent-Length: 12\r\n\r\nnot-a-form!!"+get("/b"), "multipart-garbage"),
		directed("POST /a HTTP/1.1\r\nHost: h\r\nContent-Type: multipart/form-data; boundary=xx\r\nContent-Length: 60\r\n\r\n--xx\r\nContent-Disposition: form-data; name=\"a\"\r\n\r\nv\r\n--xx--\r\n", "multipart-short"),
		directed("POST /a HTTP/1.1\r\nHost: h\r\nContent-Length: 5\r\n\r\nab", "fixed-short"),
		directed("\r\n\r\n", "only-crlf"),
		directed("", "empty"),
		directed("GET /a HTTP/1.1\r\nHost: h\r\n\r\n\r\n\r\n", "trailing-crlf"),
	)
	small2 := directed(get("/a")+get("/b")+"POST /c HTTP/1.1\r\nHost: h\r\nContent-Length: 70\r\n\r\n"+strings.Repeat("c", 70)+get("/d"), "smallbuf-ok")
	small2.BSize = 64
	l = append(l, small2)
	return l
}

func main() {
	// debugging aid: C01_PROBE='Go-quoted stream' prints what the real server does with it (default configuration)
	if q := os.Getenv("C01_PROBE"); q != "" {
		st, err := strconv.Unquote(`"` + q + `"`)
		if err != nil {
			panic(err)
		}
		for _, c := range []cfgD{{}, {NoPrep: true}} {
			ds, rs, bad := serveOnce(desc{Stream: []byte(st), Seed: 1}, c, false, 0)
			fmt.Printf("cfg %+v bad=%q\n", c, bad)
			for _, o := range ds {
				fmt.Printf("  dispatch %q %q body=%q pre=%v\n", o.method, o.uri, o.body, o.pre)
			}
			fmt.Printf("  responses %+v\n", rs)
		}
		return
	}
	hlib.Main(hlib.Prop[desc]{
		ID:       "C01",
		Imports:  "From FH Require Import Model.Base Model.Framing Check.C01Check.",
		CaseType: "c01case",
		CorrOK:   "corr_ok",
		PropOK:   "prop_ok",
		Rule: "pipelines of 1-6 requests from a request grammar (methods, targets, versions, CL/TE field sets incl. duplicates, lists, signs, " +
			"leading zeros, huge values, identity, mixed-case chunked, non-final chunked, whitespace before the colon, obs-fold, bare LF, " +
			"mixed terminators; fixed / chunked (extensions, trailers, broken) / multipart bodies) + arbitrary tail + byte mutation; each stream " +
			"served by the real Server.ServeConn under 8 configurations x ReduceMemoryUsage on/off x 3 read chunkings; corpus: exhaustive matrix of ordered " +
			"pairs of 14 framing field lines x 2 versions and directed cases; non-trivial = distinct (request count, shape tags) signature",
		Corpus:   corpus,
		Gen:      genCase,
		Run:      run,
		ShardLen: 60,
	})
}
