// Correspondence harness for C02 (unread request bodies never turn into requests).
//
// Each case is one connection served by a real fasthttp.Server over an in-memory net.Conn:
// 1-3 requests with bodies (fixed / chunked / multipart / none, possibly cut off or with a
// broken chunk terminator), each with a handler program over the body stream, followed by a
// sentinel GET.  Bodies are filled with "GET /sNNNNN HTTP/1.1\r\nHost:x\r\n\r\n" units so that a
// body byte parsed as a request shows up as a handler invocation of /sNNNNN.
package main

import (
	"bytes"
	"fmt"
	"io"
	"math/rand"
	"mime/multipart"
	"net"
	"strconv"
	"strings"
	"time"

	"github.com/valyala/fasthttp"
	"verif/harness/hlib"
)

// ---------------------------------------------------------------------------
// case description
// ---------------------------------------------------------------------------

type chunkD struct {
	Size int    `json:"size"`
	Line string `json:"line"` // size line without CRLF (hex digits, optional extension)
	Bad  bool   `json:"bad,omitempty"`
}

type reqD struct {
	ID       int      `json:"id"`
	Method   string   `json:"method"`
	Close    bool     `json:"close,omitempty"`
	Expect   bool     `json:"expect,omitempty"`
	Pad      int      `json:"pad,omitempty"`    // extra header bytes
	Fr       string   `json:"fr"`               // none | fixed | chunked | multipart
	N        int      `json:"n,omitempty"`      // fixed: Content-Length; multipart: epilogue length
	Chunks   []chunkD `json:"chunks,omitempty"` // chunked
	ZeroLine string   `json:"zl,omitempty"`     // last-chunk line without CRLF
	MpBad    bool     `json:"mpbad,omitempty"`  // multipart: broken form
	Cut      int      `json:"cut,omitempty"`    // >0: only Cut-1 body bytes are sent, then the peer closes
	ExpSt    int      `json:"expst,omitempty"`  // ExpectHandler answer
	ContOK   bool     `json:"contok,omitempty"` // ContinueHandler answer
	Rd       string   `json:"rd"`               // none | upto | eof
	K        int      `json:"k,omitempty"`
	Fin      string   `json:"fin"`               // none | detach | timeout | hijack | connclose
	Detach   int      `json:"detach,omitempty"`  // 0 CloseBodyStream 1 ResetBody 2 SetBodyString
	MaxOv    int      `json:"maxov,omitempty"`   // RequestConfig.MaxRequestBodySize from HeaderReceived for this request
	BadURI   bool     `json:"baduri,omitempty"`  // the request target does not parse (Request.parseURI fails before the body is read)
	HTTP10   int      `json:"http10,omitempty"`  // 1: HTTP/1.0, 2: HTTP/1.0 with Connection: keep-alive
	MpEnc    bool     `json:"mpenc,omitempty"`   // multipart body with a Content-Encoding header: not pre-parsed
	Trailer  bool     `json:"trailer,omitempty"` // chunked body with a declared trailer field
	AltAt    int      `json:"altat,omitempty"`   // chunked: raw body offset where CRLF + last-chunk + a smuggle unit are embedded in the chunk data
	AltSid   int      `json:"altsid,omitempty"`  // number of that unit
}

type desc struct {
	Stream   bool     `json:"stream"`
	Max      int      `json:"max"`
	GetOnly  bool     `json:"getonly,omitempty"`
	PrePar   bool     `json:"preparse"`
	ExpectH  bool     `json:"expecth,omitempty"`
	ContH    bool     `json:"conth,omitempty"`
	NoKA     bool     `json:"noka,omitempty"`
	Reduce   bool     `json:"reduce,omitempty"` // ReduceMemoryUsage (not in the model: must not matter)
	ReadStep int      `json:"readstep,omitempty"`
	Reqs     []reqD   `json:"reqs,omitempty"`
	Conns    [][]reqD `json:"conns,omitempty"` // several connections one after the other (shared requestStream pool)
}

// ---------------------------------------------------------------------------
// wire construction
// ---------------------------------------------------------------------------

const unitLen = 32

func unit(j int) string { return fmt.Sprintf("GET /s%05d HTTP/1.1\r\nHost:x\r\n\r\n", j%100000) }

func pattern(n int) []byte {
	var sb bytes.Buffer
	for j := 0; sb.Len() < n; j++ {
		sb.WriteString(unit(j))
	}
	return sb.Bytes()[:n]
}

const boundary = "VerifBoundary7d1"

func multipartBody(r reqD) []byte {
	var sb bytes.Buffer
	sb.WriteString("--" + boundary + "\r\nContent-Disposition: form-data; name=\"f\"\r\n\r\nvalue\r\n")
	if r.MpBad {
		// no closing boundary: the form never ends inside Content-Length
		sb.Write(pattern(r.N))
		return sb.Bytes()
	}
	sb.WriteString("--" + boundary + "--\r\n")
	sb.Write(pattern(r.N)) // epilogue inside Content-Length, filled with the pattern
	return sb.Bytes()
}

func trailerOf(r reqD) string {
	if r.Trailer {
		return "X-T: v\r\n\r\n"
	}
	return "\r\n"
}

type wireReq struct {
	head, body []byte
}

func buildReq(r reqD) wireReq {
	var h bytes.Buffer
	target := fmt.Sprintf("/r%d", r.ID)
	if r.BadURI {
		target = fmt.Sprintf("http://[zz]/r%d", r.ID) // not an IPv6 literal: URI parsing fails
	}
	proto := "HTTP/1.1"
	if r.HTTP10 > 0 {
		proto = "HTTP/1.0"
	}
	fmt.Fprintf(&h, "%s %s %s\r\nHost: x\r\n", r.Method, target, proto)
	if r.HTTP10 == 2 {
		h.WriteString("Connection: keep-alive\r\n")
	}
	if r.MaxOv > 0 {
		fmt.Fprintf(&h, "X-Max: %d\r\n", r.MaxOv)
	}
	if r.Trailer && r.Fr == "chunked" {
		h.WriteString("Trailer: X-T\r\n")
	}
	if r.Close {
		h.WriteString("Connection: close\r\n")
	}
	if r.Expect {
		h.WriteString("Expect: 100-continue\r\n")
		fmt.Fprintf(&h, "X-Exp: %d\r\n", r.ExpSt)
		if r.ContOK {
			h.WriteString("X-Cont: 1\r\n")
		}
	}
	if r.Pad > 0 {
		h.WriteString("X-Pad: " + strings.Repeat("p", r.Pad) + "\r\n")
	}
	var body []byte
	switch r.Fr {
	case "none":
	case "fixed":
		body = pattern(r.N)
		fmt.Fprintf(&h, "Content-Length: %d\r\n", r.N)
	case "multipart":
		body = multipartBody(r)
		fmt.Fprintf(&h, "Content-Type: multipart/form-data; boundary=%s\r\nContent-Length: %d\r\n", boundary, len(body))
		if r.MpEnc {
			h.WriteString("Content-Encoding: identity\r\n")
		}
	case "chunked":
		h.WriteString("Transfer-Encoding: chunked\r\n")
		tot := 0
		for _, c := range r.Chunks {
			tot += c.Size
		}
		p := pattern(tot)
		var b bytes.Buffer
		o := 0
		for _, c := range r.Chunks {
			b.WriteString(c.Line + "\r\n")
			b.Write(p[o : o+c.Size])
			o += c.Size
			if c.Bad {
				b.WriteString("X")
			} else {
				b.WriteString("\r\n")
			}
		}
		b.WriteString(r.ZeroLine + "\r\n" + trailerOf(r))
		body = b.Bytes()
		if r.AltAt > 0 {
			// what a reader sees that takes the first AltAt raw bytes for chunk data: end of chunk, last-chunk, a request
			emb := []byte("\r\n" + r.ZeroLine + "\r\n\r\n" + unit(r.AltSid))
			if r.AltAt+len(emb) > len(body) {
				panic("alt embedding does not fit")
			}
			copy(body[r.AltAt:], emb)
		}
	default:
		panic("bad framing " + r.Fr)
	}
	h.WriteString("\r\n")
	if r.Cut > 0 && r.Cut-1 < len(body) {
		body = body[:r.Cut-1]
	}
	return wireReq{h.Bytes(), body}
}

func (r reqD) truncated() bool {
	if r.Cut == 0 {
		return false
	}
	full := buildReq(reqD{ID: r.ID, Method: r.Method, Fr: r.Fr, N: r.N, Chunks: r.Chunks, ZeroLine: r.ZeroLine, MpBad: r.MpBad, Trailer: r.Trailer})
	return r.Cut-1 < len(full.body)
}

// ---------------------------------------------------------------------------
// in-memory connection
// ---------------------------------------------------------------------------

type mconn struct {
	r      *bytes.Reader
	step   int
	rnd    *rand.Rand
	w      bytes.Buffer
	closed bool
}

func (c *mconn) Read(p []byte) (int, error) {
	if c.step > 0 && len(p) > 1 {
		n := 1 + c.rnd.Intn(c.step)
		if n < len(p) {
			p = p[:n]
		}
	}
	return c.r.Read(p)
}
func (c *mconn) Write(p []byte) (int, error)        { return c.w.Write(p) }
func (c *mconn) Close() error                       { c.closed = true; return nil }
func (c *mconn) LocalAddr() net.Addr                { return &net.TCPAddr{IP: net.IPv4(127, 0, 0, 1), Port: 80} }
func (c *mconn) RemoteAddr() net.Addr               { return &net.TCPAddr{IP: net.IPv4(127, 0, 0, 1), Port: 4000} }
func (c *mconn) SetDeadline(t time.Time) error      { return nil }
func (c *mconn) SetReadDeadline(t time.Time) error  { return nil }
func (c *mconn) SetWriteDeadline(t time.Time) error { return nil }

// ---------------------------------------------------------------------------
// running a case
// ---------------------------------------------------------------------------

type dispatch struct {
	id    int
	nread int
	rc    string
}

type nullLogger struct{}

func (nullLogger) Printf(string, ...any) {}

func pathID(p string) int {
	if strings.HasPrefix(p, "/r") {
		if v, err := strconv.Atoi(p[2:]); err == nil {
			return v
		}
	}
	if strings.HasPrefix(p, "/s") && len(p) == 7 {
		if v, err := strconv.Atoi(p[2:]); err == nil {
			return 1000000 + v
		}
	}
	return -1
}

var readBuf = make([]byte, 1<<20)

func serveCase(d desc) []string { return serveConn(d, d.Reqs) }

func serveConn(d desc, reqs []reqD) []string {
	progs := map[int]reqD{}
	var in bytes.Buffer
	for _, r := range reqs {
		progs[r.ID] = r
		w := buildReq(r)
		in.Write(w.head)
		in.Write(w.body)
		if r.truncated() {
			break
		}
	}
	var disp []dispatch
	hijacked := make(chan int, 4)
	wantHijack := false
	s := &fasthttp.Server{
		StreamRequestBody:            d.Stream,
		MaxRequestBodySize:           d.Max,
		GetOnly:                      d.GetOnly,
		DisablePreParseMultipartForm: !d.PrePar,
		DisableKeepalive:             d.NoKA,
		ReduceMemoryUsage:            d.Reduce,
		Logger:                       nullLogger{},
		NoDefaultServerHeader:        true,
	}
	s.HeaderReceived = func(h *fasthttp.RequestHeader) fasthttp.RequestConfig {
		v, _ := strconv.Atoi(string(h.Peek("X-Max")))
		return fasthttp.RequestConfig{MaxRequestBodySize: v}
	}
	if d.ExpectH {
		s.ExpectHandler = func(ctx *fasthttp.RequestCtx) int {
			v, _ := strconv.Atoi(string(ctx.Request.Header.Peek("X-Exp")))
			return v
		}
	}
	if d.ContH {
		s.ContinueHandler = func(h *fasthttp.RequestHeader) bool { return len(h.Peek("X-Cont")) > 0 }
	}
	s.Handler = func(ctx *fasthttp.RequestCtx) {
		id := pathID(string(ctx.Path()))
		tag := strconv.Itoa(id)
		ctx.Response.Header.Set("X-Id", tag)
		ctx.SetBodyString("ok")
		p, ok := progs[id]
		if !ok || string(ctx.Method()) != p.Method {
			if ok {
				id = -1
				ctx.Response.Header.Set("X-Id", "-1")
			}
			disp = append(disp, dispatch{id, 0, "ok"})
			return
		}
		dd := dispatch{id: id, rc: "ok"}
		if st := ctx.RequestBodyStream(); st != nil && p.Rd != "none" {
			want := p.K
			if p.Rd == "eof" {
				want = -1
			}
			for want < 0 || dd.nread < want {
				buf := readBuf
				if want >= 0 && want-dd.nread < len(buf) {
					buf = buf[:want-dd.nread]
				}
				n, err := st.Read(buf)
				dd.nread += n
				if want >= 0 && dd.nread >= want {
					break
				}
				if err != nil {
					if err == io.EOF {
						dd.rc = "eof"
					} else {
						dd.rc = "err"
					}
					break
				}
			}
		}
		disp = append(disp, dd)
		switch p.Fin {
		case "detach":
			switch p.Detach {
			case 1:
				ctx.Request.ResetBody()
			case 2:
				ctx.Request.SetBodyString("replaced")
			case 3:
				ctx.Request.Body() // reads what is left of the stream, then closeBodyStream
			case 4:
				ctx.Request.BodyWriteTo(io.Discard) //nolint:errcheck
			case 5:
				ctx.Request.SetBodyStream(bytes.NewReader(nil), 0)
			default:
				ctx.Request.CloseBodyStream() //nolint:errcheck
			}
		case "timeout":
			var resp fasthttp.Response
			resp.SetStatusCode(fasthttp.StatusRequestTimeout)
			resp.Header.Set("X-Id", tag)
			resp.SetBodyString("to")
			ctx.TimeoutErrorWithResponse(&resp)
		case "hijack":
			wantHijack = true
			ctx.Hijack(func(c net.Conn) { hijacked <- id })
		case "connclose":
			ctx.SetConnectionClose()
		}
	}
	c := &mconn{r: bytes.NewReader(in.Bytes()), step: d.ReadStep, rnd: rand.New(rand.NewSource(int64(len(in.Bytes()))))}
	s.ServeConn(c) //nolint:errcheck
	hj := -2
	if wantHijack {
		select {
		case hj = <-hijacked:
		case <-time.After(150 * time.Millisecond):
		}
	}

	// parse the responses in wire order
	var evs []string
	out := c.w.Bytes()
	di := 0
	foreign := false
	for len(out) > 0 && !foreign {
		i := bytes.Index(out, []byte("\r\n\r\n"))
		if i < 0 || !bytes.HasPrefix(out, []byte("HTTP/1.1 ")) || len(out) < 12 {
			evs = append(evs, "(EResp (-1) false)") // unparsable output
			break
		}
		headB := out[:i+4]
		out = out[i+4:]
		status, _ := strconv.Atoi(string(headB[9:12]))
		if status == 100 {
			evs = append(evs, "E100")
			continue
		}
		lower := strings.ToLower(string(headB))
		cl := 0
		if j := strings.Index(lower, "\r\ncontent-length: "); j >= 0 {
			rest := lower[j+18:]
			cl, _ = strconv.Atoi(rest[:strings.Index(rest, "\r\n")])
		}
		if j := strings.Index(lower, "\r\nx-id: "); j >= 0 {
			rest := lower[j+8:]
			if id, err := strconv.Atoi(rest[:strings.Index(rest, "\r\n")]); err == nil && progs[id].Method == "HEAD" {
				cl = 0 // the response to HEAD announces a length and carries nothing
			}
		}
		if cl > len(out) {
			cl = len(out)
		}
		out = out[cl:]
		closeHdr := strings.Contains(lower, "\r\nconnection: close\r\n")
		if j := strings.Index(lower, "\r\nx-id: "); j >= 0 {
			rest := lower[j+8:]
			id, _ := strconv.Atoi(rest[:strings.Index(rest, "\r\n")])
			// the matching handler record
			dd := dispatch{id: -2}
			if di < len(disp) {
				dd = disp[di]
				di++
			}
			if id < 0 || id >= 1000000 {
				foreign = true // a request nobody sent was dispatched: the rest of the trace adds nothing
			}
			if dd.id != id {
				evs = append(evs, "(EDispatch (-2) 0 RcOk)") // bookkeeping broken: shows as a mismatch
			} else {
				evs = append(evs, fmt.Sprintf("(EDispatch %s %s %s)", hlib.Z(int64(id)), hlib.Z(int64(dd.nread)), rcCoq(dd.rc)))
			}
			evs = append(evs, fmt.Sprintf("(EResp %d %s)", status, hlib.Bool(closeHdr)))
			if hj == id {
				evs = append(evs, "EHijack")
			}
		} else {
			evs = append(evs, fmt.Sprintf("(EResp %d %s)", status, hlib.Bool(closeHdr)))
		}
	}
	for ; di < len(disp) && !foreign; di++ { // handler calls without a response
		evs = append(evs, fmt.Sprintf("(EDispatch %s %s %s)", hlib.Z(int64(disp[di].id)), hlib.Z(int64(disp[di].nread)), rcCoq(disp[di].rc)))
	}
	return evs
}

func rcCoq(s string) string {
	switch s {
	case "ok":
		return "RcOk"
	case "eof":
		return "RcEof"
	}
	return "RcErr"
}

// ---------------------------------------------------------------------------
// Coq terms
// ---------------------------------------------------------------------------

func optZ(present bool, v int) string {
	if !present {
		return "None"
	}
	return hlib.Some(hlib.Z(int64(v)))
}

func reqCoq(d desc, r reqD) string {
	rr := r
	rr.Cut = 0
	w := buildReq(rr)
	fr := "FNone"
	mp := "None"
	switch r.Fr {
	case "fixed":
		fr = hlib.App("FFixed", hlib.Z(int64(r.N)))
	case "multipart":
		fr = hlib.App("FFixed", hlib.Z(int64(len(w.body))))
		// multipart.ReadForm is an oracle of the model: ask the standard library about the bytes actually sent
		sent := buildReq(r).body
		f, err := multipart.NewReader(bytes.NewReader(sent), boundary).ReadForm(16 << 20)
		ok := err == nil
		if ok {
			f.RemoveAll() //nolint:errcheck
		}
		mp = hlib.Some(hlib.Bool(ok))
		if r.MpEnc {
			mp = "None" // Content-Encoding present: an ordinary body
		}
	case "chunked":
		var cs []string
		for _, c := range r.Chunks {
			cs = append(cs, hlib.App("mkChunk", hlib.Z(int64(len(c.Line)+2)), hlib.Z(int64(c.Size)), hlib.Bool(!c.Bad)))
		}
		fr = hlib.App("FChunked", hlib.List(cs), hlib.Z(int64(len(r.ZeroLine)+2)), hlib.Z(int64(len(trailerOf(r)))))
	}
	rd := "RNone"
	switch r.Rd {
	case "upto":
		rd = hlib.App("RUpTo", hlib.Z(int64(r.K)))
	case "eof":
		rd = "REOF"
	}
	alt := "None"
	if r.AltAt > 0 {
		alt = hlib.Some(hlib.Tuple(hlib.Z(int64(r.AltAt)), hlib.Z(int64(r.AltSid))))
	}
	fin := map[string]string{"none": "FinNone", "detach": "FinDetach", "timeout": "FinTimeout", "hijack": "FinHijack", "connclose": "FinConnClose"}[r.Fin]
	getlike := r.Method == "GET" || r.Method == "HEAD"
	closeHdr := r.Close || r.HTTP10 == 1
	return hlib.App("mkReq", hlib.Z(int64(r.ID)), hlib.Z(int64(len(w.head))), hlib.Bool(getlike), hlib.Bool(closeHdr), hlib.Bool(r.Expect),
		fr, mp, optZ(r.truncated(), r.Cut-1), hlib.Z(int64(r.ExpSt)), hlib.Bool(r.ContOK), rd, fin, hlib.Z(int64(r.MaxOv)), hlib.Bool(!r.BadURI), "O", alt)
}

func cfgCoq(d desc) string {
	return hlib.App("mkCfg", hlib.Bool(d.Stream), hlib.Z(int64(d.Max)), hlib.Bool(d.GetOnly), hlib.Bool(d.PrePar), hlib.Bool(d.ExpectH),
		hlib.Bool(d.ContH), hlib.Bool(d.NoKA))
}

// ---------------------------------------------------------------------------
// finding classes (on the INPUT)
// ---------------------------------------------------------------------------

func dataLen(r reqD) int {
	switch r.Fr {
	case "fixed":
		return r.N
	case "chunked":
		t := 0
		for _, c := range r.Chunks {
			t += c.Size
		}
		return t
	}
	return 0
}

func rejected(d desc, r reqD) bool {
	if !r.Expect {
		return false
	}
	if d.ExpectH {
		return r.ExpSt != 100
	}
	if d.ContH {
		return !r.ContOK
	}
	return false
}

// keyOf: no known finding class is left for C02 (detach / timeout / sticky error were fixed in /repo)
func keyOf(d desc) string { return "" }

// ---------------------------------------------------------------------------
// generation
// ---------------------------------------------------------------------------

func hexLine(r *rand.Rand, n int) string {
	s := strconv.FormatInt(int64(n), 16)
	switch r.Intn(6) {
	case 0:
		s = strings.ToUpper(s)
	case 1:
		s = strings.Repeat("0", 1+r.Intn(3)) + s
	case 2:
		s += ";ext=" + strings.Repeat("v", r.Intn(5))
	}
	return s
}

func splitChunks(r *rand.Rand, total int) []chunkD {
	var cs []chunkD
	for total > 0 {
		var n int
		switch r.Intn(5) {
		case 0:
			n = 1 + r.Intn(3)
		case 1:
			n = total
		case 2:
			n = 1 + r.Intn(4096+1)
		default:
			n = 1 + r.Intn(total)
		}
		if n > total {
			n = total
		}
		if len(cs) >= 6 {
			n = total
		}
		cs = append(cs, chunkD{Size: n, Line: hexLine(r, n)})
		total -= n
	}
	return cs
}

func sizes(max int) []int {
	return []int{0, 1, 31, 32, 33, 64, 100, 4095, 4096, 4097, 8191, 8192, 8193, 8224, 10000, max - 1, max, max + 1, max + 2, 2*max + 1, 2*max + 2, max + 8192, max + 8193, max + 8194, 3 * max}
}

func genReq(r *rand.Rand, d desc, id int, last bool) reqD {
	q := reqD{ID: id, Method: hlib.Pick(r, []string{"POST", "POST", "PUT", "GET", "HEAD"}), Rd: "none", Fin: "none", ZeroLine: "0"}
	if r.Intn(10) == 0 {
		q.MaxOv = hlib.Pick(r, []int{1, 64, 1000, 8192, 8193, 30000})
	}
	if r.Intn(40) == 0 {
		q.BadURI = true
	}
	if r.Intn(4) == 0 {
		q.Pad = r.Intn(200)
	}
	if r.Intn(12) == 0 {
		q.Close = true
	}
	em := d.Max
	if q.MaxOv > 0 {
		em = q.MaxOv
	}
	n := hlib.Pick(r, sizes(em))
	if n < 0 {
		n = 0
	}
	if r.Intn(3) == 0 {
		n = r.Intn(2*em + 3)
	}
	if n > 70000 {
		n = 70000
	}
	switch r.Intn(10) {
	case 0:
		q.Fr = "none"
	case 1, 2, 3, 4:
		q.Fr = "fixed"
		q.N = n
	case 5, 6, 7, 8:
		q.Fr = "chunked"
		if n > 30000 {
			n = 30000
		}
		q.Chunks = splitChunks(r, n)
		if len(q.Chunks) > 0 && r.Intn(8) == 0 {
			q.Chunks[r.Intn(len(q.Chunks))].Bad = true
		}
		q.ZeroLine = hlib.Pick(r, []string{"0", "0", "000", "0;last"})
		q.Trailer = r.Intn(4) == 0
	default:
		q.Fr = "multipart"
		q.N = hlib.Pick(r, []int{0, 0, 1, 32, 64, 100, 1000})
		q.MpBad = r.Intn(4) == 0
		q.MpEnc = r.Intn(5) == 0
	}
	if q.Fr != "chunked" && r.Intn(15) == 0 {
		q.HTTP10 = 1 + r.Intn(2)
	}
	if r.Intn(4) == 0 {
		q.Expect = true
		q.ExpSt = hlib.Pick(r, []int{100, 100, 417, 403, 200})
		q.ContOK = r.Intn(2) == 0
	}
	if last && r.Intn(8) == 0 {
		full := buildReq(q)
		if len(full.body) > 0 {
			switch r.Intn(3) {
			case 0:
				q.Cut = 1 + r.Intn(len(full.body))
			case 1:
				q.Cut = 1 + len(full.body) - 1 - r.Intn(min(5, len(full.body)))
			default:
				q.Cut = 1 + hlib.Pick(r, []int{0, 1, len(full.body) / 2})
			}
		}
	}
	dl := dataLen(q)
	switch r.Intn(6) {
	case 0:
		q.Rd = "none"
	case 1:
		q.Rd = "eof"
	default:
		q.Rd = "upto"
		q.K = hlib.Pick(r, []int{0, 1, 32, dl / 2, dl - 1, dl, dl + 1, 8191, 8192, 8193, 8192 + 32, em, em + 1})
		if q.K < 0 {
			q.K = 0
		}
		if r.Intn(3) == 0 && dl > 0 {
			q.K = r.Intn(dl + 1)
		}
		if r.Intn(3) == 0 && dl >= 32 {
			q.K = 32 * r.Intn(dl/32+1)
		}
	}
	switch r.Intn(12) {
	case 0, 1:
		q.Fin = "detach"
		q.Detach = r.Intn(6)
		if q.Detach >= 3 {
			q.Rd = "eof" // Body() / BodyWriteTo read the stream themselves: preceded by a read to EOF so that the count is observable
		}
	case 2, 3:
		q.Fin = "timeout"
	case 4:
		q.Fin = "hijack"
	case 5:
		q.Fin = "connclose"
	}
	return q
}

func gen(r *rand.Rand, i int) desc {
	if i%25 == 7 {
		K := 20 + r.Intn(3000)
		k := r.Intn(K - 10)
		S := K - k + 60 + r.Intn(500)
		return twoStep(hlib.Pick(r, []int{1000, 10000, 20000}), K, k, S, 1+r.Intn(3), r.Intn(2) == 0, hlib.Pick(r, []string{"none", "eof", "upto"}))
	}
	d := desc{Stream: r.Intn(3) != 0, Max: hlib.Pick(r, []int{64, 1000, 8192, 8193, 10000, 20000}), PrePar: r.Intn(4) != 0, Reduce: r.Intn(4) == 0}
	if r.Intn(20) == 0 {
		d.GetOnly = true
	}
	if r.Intn(25) == 0 {
		d.NoKA = true
	}
	switch r.Intn(4) {
	case 0:
		d.ExpectH = true
	case 1:
		d.ContH = true
	case 2:
		d.ExpectH, d.ContH = true, true
	}
	if r.Intn(2) == 0 {
		d.ReadStep = hlib.Pick(r, []int{1, 7, 100, 5000})
	}
	n := 1 + r.Intn(3)
	for j := 1; j <= n; j++ {
		q := genReq(r, d, j, j == n)
		d.Reqs = append(d.Reqs, q)
	}
	if !d.Reqs[n-1].truncated() {
		d.Reqs = append(d.Reqs, reqD{ID: n + 1, Method: "GET", Fr: "none", Rd: "none", Fin: "none"})
	}
	// keep huge per-byte read steps away from big inputs
	tot := 0
	for _, q := range d.Reqs {
		tot += dataLen(q)
	}
	if tot > 20000 && d.ReadStep > 0 && d.ReadStep < 100 {
		d.ReadStep = 100
	}
	return d
}

func sentinel(id int) reqD {
	return reqD{ID: id, Method: "GET", Fr: "none", Rd: "none", Fin: "none"}
}

// twoStep: connection 1 abandons a streamed chunked body k bytes into a chunk of K bytes (the peer goes away, or the
// handler reads k bytes and detaches the stream); connection 2 sends ONE well-formed chunk whose data carries, at raw
// body offset K-k, CRLF + last-chunk + a request-looking unit, and a pipelined sentinel.  If anything of the first
// stream's chunk state survived in the pooled requestStream object, the second body ends early and the unit is
// dispatched.  A few rounds, since sync.Pool may drop objects.
func twoStep(max, K, k, S, rounds int, byHandler bool, victimRd string) desc {
	d := desc{Stream: true, Max: max, PrePar: true}
	line := func(n int) string { return strconv.FormatInt(int64(n), 16) }
	for i := 0; i < rounds; i++ {
		att := reqD{ID: 1, Method: "POST", Fr: "chunked", Chunks: []chunkD{{Size: K, Line: line(K)}}, ZeroLine: "0", Rd: "eof", Fin: "none"}
		conn1 := []reqD{att}
		if byHandler {
			att.Rd, att.K, att.Fin, att.Detach = "upto", k, "detach", i%3
			conn1 = []reqD{att, sentinel(2)}
		} else {
			att.Cut = 1 + len(line(K)) + 2 + k
			if i%2 == 1 {
				att.Rd = "none"
			}
			conn1 = []reqD{att}
		}
		vic := reqD{ID: 1, Method: "POST", Fr: "chunked", Chunks: []chunkD{{Size: S, Line: line(S)}}, ZeroLine: "0", Rd: victimRd, Fin: "none",
			AltAt: K - k, AltSid: 7 + i}
		d.Conns = append(d.Conns, conn1, []reqD{vic, sentinel(2)})
	}
	return d
}

func corpus() []desc {
	var c []desc
	// a kept-alive request whose response is still buffered, then a request with a complete head whose (non-streamed)
	// chunked body never starts: the loop ends on io.EOF without flushing, the first response is never sent
	// (found by the thorough tier; not a C02 matter: the oracle accepts an unanswered handler call)
	for _, stream := range []bool{false, true} {
		for _, step := range []int{0, 1, 7} {
			lost := desc{Stream: stream, Max: 8193, PrePar: true, ReadStep: step, Reqs: []reqD{
				{ID: 1, Method: "POST", Fr: "multipart", ZeroLine: "0", Rd: "upto", K: 8192, Fin: "detach", Detach: 1},
				{ID: 2, Method: "PUT", Fr: "chunked", Chunks: []chunkD{{Size: 16387, Line: "04003"}}, ZeroLine: "0;last", Cut: 1, Rd: "eof", Fin: "none"}}}
			c = append(c, lost)
			lost2 := desc{Stream: stream, Max: 10000, PrePar: true, ReadStep: step, Reqs: []reqD{
				{ID: 1, Method: "GET", Fr: "none", ZeroLine: "0", Rd: "none", Fin: "none"},
				{ID: 2, Method: "POST", Fr: "fixed", N: 10, ZeroLine: "0", Rd: "none", Fin: "none"},
				{ID: 3, Method: "PUT", Fr: "chunked", Chunks: []chunkD{{Size: 5, Line: "5"}}, ZeroLine: "0", Cut: 1, Rd: "none", Fin: "none"}}}
			c = append(c, lost2)
			lost3 := lost2
			lost3.Reqs = append([]reqD(nil), lost2.Reqs...)
			lost3.Reqs[2] = reqD{ID: 3, Method: "PUT", Fr: "chunked", Chunks: []chunkD{{Size: 5, Line: "5"}, {Size: 5, Line: "5"}}, ZeroLine: "0", Cut: 1 + 3 + 5 + 2, Rd: "none", Fin: "none"}
			c = append(c, lost3)
		}
	}
	for _, byHandler := range []bool{false, true} {
		for _, vr := range []string{"none", "eof"} {
			c = append(c, twoStep(10000, 200, 60, 400, 3, byHandler, vr))
			c = append(c, twoStep(10000, 5000, 4900, 300, 2, byHandler, vr))
			c = append(c, twoStep(1000, 64, 1, 200, 2, byHandler, vr))
		}
	}
	one := func(d desc, q reqD) {
		q.ID = 1
		if q.ZeroLine == "" {
			q.ZeroLine = "0"
		}
		d.Reqs = []reqD{q}
		if !q.truncated() {
			d.Reqs = append(d.Reqs, sentinel(2))
		}
		c = append(c, d)
	}
	for _, stream := range []bool{true, false} {
		for _, max := range []int{1000, 10000} {
			base := desc{Stream: stream, Max: max, PrePar: true}
			for _, n := range sizes(max) {
				if n < 0 {
					continue
				}
				for _, rd := range []reqD{{Rd: "none"}, {Rd: "upto", K: 0}, {Rd: "upto", K: n / 2}, {Rd: "upto", K: n}, {Rd: "eof"}} {
					q := reqD{Method: "POST", Fr: "fixed", N: n, Rd: rd.Rd, K: rd.K, Fin: "none"}
					one(base, q)
				}
				if n > 0 && n <= 30000 {
					rr := rand.New(rand.NewSource(int64(n)))
					one(base, reqD{Method: "POST", Fr: "chunked", Chunks: splitChunks(rr, n), Rd: "none", Fin: "none"})
					one(base, reqD{Method: "POST", Fr: "chunked", Chunks: splitChunks(rr, n), Rd: "upto", K: n / 2, Fin: "none"})
					one(base, reqD{Method: "POST", Fr: "chunked", Chunks: splitChunks(rr, n), Rd: "eof", Fin: "none"})
				}
			}
			// expectation: both callbacks, accepting and rejecting
			for _, eh := range []int{0, 1, 2} {
				for _, st := range []int{100, 417} {
					for _, ok := range []bool{true, false} {
						d := base
						d.ExpectH = eh == 1
						d.ContH = eh == 2
						one(d, reqD{Method: "POST", Fr: "fixed", N: 64, Expect: true, ExpSt: st, ContOK: ok, Rd: "none", Fin: "none"})
						one(d, reqD{Method: "POST", Fr: "chunked", Chunks: []chunkD{{Size: 64, Line: "40"}}, Expect: true, ExpSt: st, ContOK: ok, Rd: "eof", Fin: "none"})
					}
				}
			}
			// multipart with an epilogue inside Content-Length
			one(base, reqD{Method: "POST", Fr: "multipart", N: 64, Rd: "none", Fin: "none"})
			one(base, reqD{Method: "POST", Fr: "multipart", N: 64, MpBad: true, Rd: "none", Fin: "none"})
			// the witnesses of the former findings (detach, timeout, broken chunk read by the handler)
			one(base, reqD{Method: "POST", Fr: "fixed", N: 10000, Rd: "none", Fin: "detach"})
			one(base, reqD{Method: "POST", Fr: "fixed", N: 10000, Rd: "none", Fin: "timeout"})
			one(base, reqD{Method: "POST", Fr: "fixed", N: 16384, Rd: "upto", K: 8192, Fin: "timeout"})
			one(base, reqD{Method: "POST", Fr: "chunked", Chunks: []chunkD{{Size: 64, Line: "40"}, {Size: 64, Line: "40"}}, Rd: "none", Fin: "detach", Detach: 1})
			one(base, reqD{Method: "POST", Fr: "chunked", Chunks: []chunkD{{Size: 64, Line: "40"}, {Size: 64, Line: "40"}}, Rd: "none", Fin: "timeout"})
			one(base, reqD{Method: "POST", Fr: "chunked", Chunks: []chunkD{{Size: 5, Line: "5", Bad: true}, {Size: 64, Line: "40"}}, Rd: "eof", Fin: "none"})
			one(base, reqD{Method: "POST", Fr: "chunked", Chunks: []chunkD{{Size: 5, Line: "5", Bad: true}, {Size: 64, Line: "40"}}, Rd: "eof", Fin: "detach"})
			one(base, reqD{Method: "POST", Fr: "chunked", Chunks: []chunkD{{Size: 5, Line: "5", Bad: true}, {Size: 64, Line: "40"}}, Rd: "none", Fin: "none"})
			// detaching a stream that was read to its end keeps the connection; all data bytes of a chunked body without
			// the last-chunk is not the end
			one(base, reqD{Method: "POST", Fr: "fixed", N: 10000, Rd: "eof", Fin: "detach"})
			one(base, reqD{Method: "POST", Fr: "fixed", N: 10000, Rd: "upto", K: 10000, Fin: "detach", Detach: 2})
			one(base, reqD{Method: "POST", Fr: "fixed", N: 10000, Rd: "upto", K: 9999, Fin: "detach"})
			one(base, reqD{Method: "POST", Fr: "chunked", Chunks: []chunkD{{Size: 64, Line: "40"}, {Size: 64, Line: "40"}}, Rd: "eof", Fin: "detach"})
			one(base, reqD{Method: "POST", Fr: "chunked", Chunks: []chunkD{{Size: 64, Line: "40"}, {Size: 64, Line: "40"}}, Rd: "upto", K: 128, Fin: "detach", Detach: 1})
			one(base, reqD{Method: "POST", Fr: "fixed", N: 10000, Rd: "eof", Fin: "timeout"})
			// per-request body size limit from HeaderReceived: reading and draining follow it
			for _, ov := range []int{64, 30000} {
				for _, n := range []int{ov - 1, ov, ov + 1, 2*ov + 1, 2*ov + 2} {
					one(base, reqD{Method: "POST", Fr: "fixed", N: n, MaxOv: ov, Rd: "none", Fin: "none"})
					one(base, reqD{Method: "POST", Fr: "chunked", Chunks: []chunkD{{Size: n, Line: strconv.FormatInt(int64(n), 16)}}, MaxOv: ov, Rd: "upto", K: 10, Fin: "none"})
				}
			}
			// a target that does not parse: answered before the body is read, the connection ends
			one(base, reqD{Method: "POST", Fr: "fixed", N: 64, BadURI: true, Rd: "none", Fin: "none"})
			one(base, reqD{Method: "POST", Fr: "chunked", Chunks: []chunkD{{Size: 64, Line: "40"}}, BadURI: true, Expect: true, ExpSt: 100, ContOK: true, Rd: "none", Fin: "none"})
			// HTTP/1.0 with and without keep-alive, HEAD with a body, multipart that is not pre-parsed, trailer fields
			one(base, reqD{Method: "POST", Fr: "fixed", N: 10000, HTTP10: 1, Rd: "none", Fin: "none"})
			one(base, reqD{Method: "POST", Fr: "fixed", N: 10000, HTTP10: 2, Rd: "none", Fin: "none"})
			one(base, reqD{Method: "HEAD", Fr: "fixed", N: 10000, Rd: "none", Fin: "none"})
			one(base, reqD{Method: "POST", Fr: "multipart", N: 64, MpEnc: true, Rd: "none", Fin: "none"})
			one(base, reqD{Method: "POST", Fr: "multipart", N: 64, MpEnc: true, MpBad: true, Rd: "upto", K: 5, Fin: "detach"})
			one(base, reqD{Method: "POST", Fr: "chunked", Chunks: []chunkD{{Size: 64, Line: "40"}, {Size: 9000, Line: "2328"}}, Trailer: true, Rd: "none", Fin: "none"})
			one(base, reqD{Method: "POST", Fr: "chunked", Chunks: []chunkD{{Size: 64, Line: "40"}}, Trailer: true, Rd: "eof", Fin: "none"})
			// a body cut off inside its trailer section (with fields, and inside the bare final CRLF): not a clean end
			for _, cut := range []int{81, 75, 74, 73} {
				for _, rd := range []string{"eof", "none"} {
					one(base, reqD{Method: "POST", Fr: "chunked", Chunks: []chunkD{{Size: 64, Line: "40"}}, Cut: cut, Rd: rd, Fin: "none", Trailer: true})
				}
			}
			one(base, reqD{Method: "POST", Fr: "chunked", Chunks: []chunkD{{Size: 64, Line: "40"}}, Cut: 1 + 4 + 64 + 2 + 3 + 1, Rd: "eof", Fin: "none"})
			// Body() / BodyWriteTo / SetBodyStream on a streamed request
			for dv := 3; dv <= 5; dv++ {
				one(base, reqD{Method: "POST", Fr: "fixed", N: 10000, Rd: "eof", Fin: "detach", Detach: dv})
				one(base, reqD{Method: "POST", Fr: "chunked", Chunks: []chunkD{{Size: 5, Line: "5", Bad: true}, {Size: 64, Line: "40"}}, Rd: "eof", Fin: "detach", Detach: dv})
			}
			one(base, reqD{Method: "POST", Fr: "fixed", N: 10000, Rd: "upto", K: 100, Fin: "detach", Detach: 5})
			// hijack / connection close
			one(base, reqD{Method: "POST", Fr: "fixed", N: 10000, Rd: "none", Fin: "hijack"})
			one(base, reqD{Method: "POST", Fr: "fixed", N: 10000, Rd: "none", Fin: "connclose"})
			// cut-off bodies
			one(base, reqD{Method: "POST", Fr: "fixed", N: 10000, Rd: "eof", Fin: "none", Cut: 1 + 9000})
			one(base, reqD{Method: "POST", Fr: "fixed", N: 10000, Rd: "none", Fin: "none", Cut: 1 + 100})
			one(base, reqD{Method: "POST", Fr: "chunked", Chunks: []chunkD{{Size: 64, Line: "40"}, {Size: 64, Line: "40"}}, Rd: "eof", Fin: "none", Cut: 1 + 70})
			one(base, reqD{Method: "POST", Fr: "chunked", Chunks: []chunkD{{Size: 64, Line: "40"}, {Size: 64, Line: "40"}}, Rd: "none", Fin: "none", Cut: 1 + 30})
		}
	}
	return c
}

func runMulti(d desc) hlib.Case {
	var conns, impls []string
	tot := 0
	sig := "multi"
	for _, reqs := range d.Conns {
		evs := serveConn(d, reqs)
		var rs []string
		for _, r := range reqs {
			rs = append(rs, reqCoq(d, r))
			tot += dataLen(r)
			sig += "|" + r.Fr + ":" + r.Rd + ":" + r.Fin
			if r.truncated() {
				sig += ":cut"
				break
			}
		}
		sig += "=>" + strconv.Itoa(len(evs))
		conns = append(conns, hlib.List(rs))
		impls = append(impls, hlib.List(evs))
	}
	return hlib.Case{Coq: hlib.App("C02Multi", cfgCoq(d), hlib.List(conns), hlib.List(impls)), Sig: sig, Kind: "multi", Size: tot}
}

func run(d desc) hlib.Case {
	if len(d.Conns) > 0 {
		return runMulti(d)
	}
	evs := serveCase(d)
	var rs []string
	tot := 0
	kind := "nostream"
	if d.Stream {
		kind = "stream"
	}
	sig := kind
	for _, r := range d.Reqs {
		rs = append(rs, reqCoq(d, r))
		tot += dataLen(r)
		sig += "|" + r.Fr + ":" + r.Rd + ":" + r.Fin
		if r.Expect {
			sig += ":exp"
		}
		if r.truncated() {
			sig += ":cut"
		}
		if r.truncated() {
			break
		}
	}
	sig += "=>" + strconv.Itoa(len(evs))
	return hlib.Case{
		Coq:  hlib.App("C02Case", cfgCoq(d), hlib.List(rs), hlib.List(evs)),
		Key:  keyOf(d),
		Sig:  sig,
		Kind: kind,
		Size: tot,
	}
}

func main() {
	hlib.Main(hlib.Prop[desc]{
		ID:       "C02",
		Imports:  "From FH Require Import Model.Base Model.BodyConsume Check.C02Check.",
		CaseType: "c02case",
		CorrOK:   "corr_ok",
		PropOK:   "prop_ok",
		Rule: "corpus: every body size around the 8 KiB prefetch and MaxRequestBodySize (0,1,8191,8192,8193,10000,max-1,max,max+1,...) fixed and chunked x handler programs {never touch, read 0, read half, read all, read to EOF} x StreamRequestBody on/off, both expectation callbacks accepting/rejecting, multipart with epilogue, cut-off bodies, hijack, and the witnesses of the known findings; " +
			"then seeded random connections of 1-3 requests + sentinel with random framing (chunk splits, extensions, broken terminators), sizes, expectations, handler programs and final actions; bodies are filled with request-looking units so that a mis-parse is a handler invocation of /sNNNNN; a case is non-trivial per distinct (mode, per-request framing/program/final action, number of observed events)",
		Corpus:   corpus,
		Gen:      gen,
		Run:      run,
		ShardLen: 200,
	})
}
