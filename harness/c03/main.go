// Correspondence harness for C03 (server responses are framed exactly as the handler built them).
//
// A case is one connection: a server configuration and 1..3 pipelined requests, each with a handler program
// (a list of response-building calls).  The requests are written to an in-memory connection in one piece, the real
// fasthttp.Server serves it with ServeConn, and every byte the server writes is recorded.
package main

import (
	"bufio"
	"bytes"
	"errors"
	"fmt"
	"io"
	"math/rand"
	"net"
	"net/http"
	"strconv"
	"strings"
	"time"

	"github.com/valyala/fasthttp"
	"verif/harness/hlib"
	"verif/harness/pk"
)

// ---- case description ------------------------------------------------------------------------------------------

type streamD struct {
	Kind   string   `json:"kind"` // reader | writerto | swriter
	Pieces []hlib.B `json:"pieces"`
	Fail   bool     `json:"fail,omitempty"`
	With   bool     `json:"with,omitempty"` // the end (io.EOF or the error) is returned together with the last bytes
}

type opD struct {
	T  string   `json:"t"`
	K  hlib.B   `json:"k,omitempty"`
	V  hlib.B   `json:"v,omitempty"`
	N  int64    `json:"n,omitempty"`
	B  bool     `json:"b,omitempty"`
	Vr int      `json:"vr,omitempty"`
	S  *streamD `json:"s,omitempty"`
}

type reqD struct {
	Method    string `json:"m"`            // GET | HEAD | POST
	V10       bool   `json:"v10,omitempty"` // HTTP/1.0
	KeepAlive bool   `json:"ka,omitempty"`  // send "Connection: keep-alive"
	Close     bool   `json:"close,omitempty"`
	Ops       []opD  `json:"ops"`
}

type cfgD struct {
	Name      string `json:"name,omitempty"`
	NoDefName bool   `json:"nodefname,omitempty"`
	NoDate    bool   `json:"nodate,omitempty"`
	NoCT      bool   `json:"noct,omitempty"`
	NoNorm    bool   `json:"nonorm,omitempty"`
	DisableKA bool   `json:"disableka,omitempty"`
}

type desc struct {
	Cfg  cfgD   `json:"cfg"`
	Reqs []reqD `json:"reqs"`
	Tag  string `json:"tag,omitempty"` // generator family
	Key  string `json:"key,omitempty"` // known-finding class the generator built this case for
}

const fixedDate = "Thu, 01 Jan 1970 00:00:00 GMT"

// ---- in-memory connection ---------------------------------------------------------------------------------------

type memConn struct {
	in         []byte
	pos        int
	out        bytes.Buffer
	wantedMore bool // the server asked for more input after everything was consumed
	closed     bool
}

func (c *memConn) Read(p []byte) (int, error) {
	if c.pos >= len(c.in) {
		c.wantedMore = true
		return 0, io.EOF
	}
	n := copy(p, c.in[c.pos:])
	c.pos += n
	return n, nil
}
func (c *memConn) Write(p []byte) (int, error)      { return c.out.Write(p) }
func (c *memConn) Close() error                     { c.closed = true; return nil }
func (c *memConn) LocalAddr() net.Addr              { return &net.TCPAddr{IP: net.IPv4(127, 0, 0, 1), Port: 80} }
func (c *memConn) RemoteAddr() net.Addr             { return &net.TCPAddr{IP: net.IPv4(127, 0, 0, 1), Port: 12345} }
func (c *memConn) SetDeadline(time.Time) error      { return nil }
func (c *memConn) SetReadDeadline(time.Time) error  { return nil }
func (c *memConn) SetWriteDeadline(time.Time) error { return nil }

// ---- body streams -----------------------------------------------------------------------------------------------

type pieceReader struct {
	pieces [][]byte
	i, off int
	fail   bool
	with   bool // iotest.DataErrReader style: the last bytes come with the final error
}

var errBoom = errors.New("verif: stream read error")

func (r *pieceReader) end() error {
	if r.fail {
		return errBoom
	}
	return io.EOF
}

func (r *pieceReader) Read(p []byte) (int, error) {
	if len(p) == 0 {
		return 0, nil
	}
	if r.i >= len(r.pieces) {
		return 0, r.end()
	}
	n := copy(p, r.pieces[r.i][r.off:])
	r.off += n
	if r.off == len(r.pieces[r.i]) {
		r.i++
		r.off = 0
	}
	if r.with && r.i >= len(r.pieces) {
		return n, r.end()
	}
	return n, nil
}

func concat(ps []hlib.B) []byte {
	var b []byte
	for _, p := range ps {
		b = append(b, p...)
	}
	return b
}

// ---- applying a program to the real ctx, rendering it for Coq --------------------------------------------------

func streamCoq(s *streamD) string {
	kind := "SKReader"
	if s.Kind == "writerto" {
		kind = "SKWriterTo"
	}
	if s.Kind == "gwriterto" {
		kind = "SKGenWriterTo"
	}
	ps := make([][]byte, len(s.Pieces))
	for i, p := range s.Pieces {
		ps[i] = p
	}
	return hlib.App("mkStream", kind, pk.HexList(ps), hlib.Bool(s.Fail), hlib.Bool(s.With && s.Kind == "reader"))
}

func apply(ctx *fasthttp.RequestCtx, o opD) string {
	h := &ctx.Response.Header
	k, v := []byte(o.K), []byte(o.V)
	hdr := func(s string) string { return "(HHdr " + s + ")" }
	switch o.T {
	case "Set":
		switch o.Vr % 5 {
		case 0:
			h.Set(string(k), string(v))
		case 1:
			h.SetBytesK(k, string(v))
		case 2:
			h.SetBytesV(string(k), v)
		case 3:
			h.SetBytesKV(k, v)
		default:
			ctx.Response.Header.Set(string(k), string(v))
		}
		return hdr(hlib.App("ROSet", pk.Hex(k), pk.Hex(v)))
	case "Add":
		switch o.Vr % 4 {
		case 0:
			h.Add(string(k), string(v))
		case 1:
			h.AddBytesK(k, string(v))
		case 2:
			h.AddBytesV(string(k), v)
		default:
			h.AddBytesKV(k, v)
		}
		return hdr(hlib.App("ROAdd", pk.Hex(k), pk.Hex(v)))
	case "SetCanonical":
		h.SetCanonical(k, v)
		return hdr(hlib.App("ROSetCanonical", pk.Hex(k), pk.Hex(v)))
	case "Del":
		if o.Vr%2 == 0 {
			h.Del(string(k))
		} else {
			h.DelBytes(k)
		}
		return hlib.App("HDel", pk.Hex(k))
	case "SetStatusCode":
		switch o.Vr % 3 {
		case 0:
			ctx.SetStatusCode(int(o.N))
		case 1:
			ctx.Response.SetStatusCode(int(o.N))
		default:
			h.SetStatusCode(int(o.N))
		}
		return hdr(hlib.App("ROSetStatusCode", hlib.Z(o.N)))
	case "SetStatusMessage":
		h.SetStatusMessage(v)
		return hdr(hlib.App("ROSetStatusMessage", pk.Hex(v)))
	case "SetContentType":
		switch o.Vr % 3 {
		case 0:
			ctx.SetContentType(string(v))
		case 1:
			ctx.SetContentTypeBytes(v)
		default:
			h.SetContentType(string(v))
		}
		return hdr(hlib.App("ROSetContentType", pk.Hex(v)))
	case "SetContentEncoding":
		h.SetContentEncodingBytes(v)
		return hdr(hlib.App("ROSetContentEncoding", pk.Hex(v)))
	case "SetServer":
		h.SetServerBytes(v)
		return hdr(hlib.App("ROSetServer", pk.Hex(v)))
	case "SetContentLength":
		h.SetContentLength(int(o.N))
		return hdr(hlib.App("ROSetContentLength", hlib.Z(o.N)))
	case "SetConnectionClose":
		switch o.Vr % 3 {
		case 0:
			ctx.SetConnectionClose()
		case 1:
			ctx.Response.SetConnectionClose()
		default:
			h.SetConnectionClose()
		}
		return hdr("ROSetConnectionClose")
	case "ResetConnectionClose":
		h.ResetConnectionClose()
		return hdr("ROResetConnectionClose")
	case "SetTrailer":
		_ = h.SetTrailerBytes(v)
		return hdr(hlib.App("ROSetTrailer", pk.Hex(v)))
	case "AddTrailer":
		_ = h.AddTrailerBytes(v)
		return hdr(hlib.App("ROAddTrailer", pk.Hex(v)))
	case "DisableNormalizing":
		h.DisableNormalizing()
		return hdr("RODisableNormalizing")
	case "EnableNormalizing":
		h.EnableNormalizing()
		return hdr("ROEnableNormalizing")
	case "SetNoDefaultContentType":
		h.SetNoDefaultContentType(o.B)
		return hdr(hlib.App("ROSetNoDefaultContentType", hlib.Bool(o.B)))
	case "SetBody":
		switch o.Vr % 4 {
		case 0:
			ctx.SetBody(v)
		case 1:
			ctx.SetBodyString(string(v))
		case 2:
			ctx.Response.SetBody(v)
		default:
			ctx.Response.SetBodyString(string(v))
		}
		return hlib.App("HSetBody", pk.Hex(v))
	case "AppendBody":
		switch o.Vr % 4 {
		case 0:
			ctx.Write(v) //nolint:errcheck
		case 1:
			ctx.WriteString(string(v)) //nolint:errcheck
		case 2:
			ctx.Response.AppendBody(v)
		default:
			ctx.Response.AppendBodyString(string(v))
		}
		return hlib.App("HAppendBody", pk.Hex(v))
	case "SetBodyRaw":
		raw := append(make([]byte, 0, len(v)+1), v...) // never nil
		ctx.Response.SetBodyRaw(raw)
		return hlib.App("HSetBodyRaw", pk.Hex(v))
	case "ResetBody":
		ctx.Response.ResetBody()
		return "HResetBody"
	case "SetBodyStream":
		s := o.S
		size := int(o.N)
		switch s.Kind {
		case "reader":
			ps := make([][]byte, len(s.Pieces))
			for i, p := range s.Pieces {
				ps[i] = p
			}
			r := &pieceReader{pieces: ps, fail: s.Fail, with: s.With}
			if o.Vr%2 == 0 {
				ctx.SetBodyStream(r, size)
			} else {
				ctx.Response.SetBodyStream(r, size)
			}
		case "writerto":
			data := concat(s.Pieces)
			if o.Vr%2 == 0 {
				ctx.SetBodyStream(bytes.NewReader(data), size)
			} else {
				ctx.SetBodyStream(bytes.NewBuffer(append([]byte(nil), data...)), size)
			}
		case "gwriterto":
			ctx.SetBodyStream(strings.NewReader(string(concat(s.Pieces))), size)
		case "swriter":
			data := concat(s.Pieces)
			size = -1
			sw := func(w *bufio.Writer) {
				w.Write(data) //nolint:errcheck
			}
			if o.Vr%2 == 0 {
				ctx.SetBodyStreamWriter(sw)
			} else {
				ctx.Response.SetBodyStreamWriter(sw)
			}
		default:
			panic("bad stream kind")
		}
		return hlib.App("HSetBodyStream", hlib.Z(int64(size)), streamCoq(s))
	case "Success": // ctx.Success / SuccessString = SetContentType + SetBody
		if o.Vr%2 == 0 {
			ctx.Success(string(k), v)
		} else {
			ctx.SuccessString(string(k), string(v))
		}
		return hdr(hlib.App("ROSetContentType", pk.Hex(k))) + "; " + hlib.App("HSetBody", pk.Hex(v))
	case "BodyWriter": // Response.BodyWriter() / fmt.Fprintf(ctx, ...) = AppendBody
		if o.Vr%2 == 0 {
			ctx.Response.BodyWriter().Write(v) //nolint:errcheck
		} else {
			fmt.Fprintf(ctx, "%s", v)
		}
		return hlib.App("HAppendBody", pk.Hex(v))
	case "NotFound": // Response.Reset; SetStatusCode(404); SetBodyString
		ctx.NotFound()
		return "HReset; " + hdr(hlib.App("ROSetStatusCode", hlib.Z(404))) + "; " + hlib.App("HSetBody", pk.HexS("404 Page not found"))
	case "Reset":
		ctx.Response.Reset()
		return "HReset"
	case "SetCookie": // a cookie object with key, value, HttpOnly, Secure
		var ck fasthttp.Cookie
		ck.SetKeyBytes(k)
		ck.SetValueBytes(v)
		ck.SetHTTPOnly(o.B)
		ck.SetSecure(o.Vr%2 == 1)
		h.SetCookie(&ck)
		return hdr(hlib.App("ROSetCookie", hlib.App("crun", "(np_of_table [])", hlib.List([]string{hlib.App("OKey", pk.Hex(k)), hlib.App("OValue", pk.Hex(v)),
			hlib.App("OHTTPOnly", hlib.Bool(o.B)), hlib.App("OSecure", hlib.Bool(o.Vr%2 == 1))}))))
	case "SkipBody":
		ctx.Response.SkipBody = o.B
		return hlib.App("HSkipBody", hlib.Bool(o.B))
	case "Error":
		ctx.Error(string(v), int(o.N))
		return hlib.App("HError", pk.Hex(v), hlib.Z(o.N))
	}
	panic("bad op " + o.T)
}

// ---- running one case -------------------------------------------------------------------------------------------

type served struct {
	ops  []string
	smsg string
}

func requestBytes(i int, r reqD) []byte {
	var b bytes.Buffer
	ver := "HTTP/1.1"
	if r.V10 {
		ver = "HTTP/1.0"
	}
	fmt.Fprintf(&b, "%s /r%d %s\r\nHost: h\r\n", r.Method, i, ver)
	if r.Close {
		b.WriteString("Connection: close\r\n")
	} else if r.KeepAlive {
		b.WriteString("Connection: keep-alive\r\n")
	}
	if r.Method == "POST" {
		b.WriteString("Content-Length: 2\r\n\r\nhi")
	} else {
		b.WriteString("\r\n")
	}
	return b.Bytes()
}

func reqClose(r reqD) bool {
	if r.Close {
		return true
	}
	if r.V10 {
		return !r.KeepAlive
	}
	return false
}

func serverName(c cfgD) string {
	if c.Name != "" {
		return c.Name
	}
	if c.NoDefName {
		return ""
	}
	return "fasthttp"
}

func runConn(d desc) (wire []byte, closed bool, sv []served) {
	for attempt := 0; attempt < 5; attempt++ {
		sv = sv[:0]
		dateBefore := fasthttp.VerifServerDate()
		idx := 0
		s := &fasthttp.Server{
			Name:                          d.Cfg.Name,
			NoDefaultServerHeader:         d.Cfg.NoDefName,
			NoDefaultDate:                 d.Cfg.NoDate,
			NoDefaultContentType:          d.Cfg.NoCT,
			DisableHeaderNamesNormalizing: d.Cfg.NoNorm,
			DisableKeepalive:              d.Cfg.DisableKA,
			Logger:                        nullLogger{},
			Handler: func(ctx *fasthttp.RequestCtx) {
				r := d.Reqs[idx]
				idx++
				if ctx.IsHead() != (r.Method == "HEAD") || ctx.Request.Header.IsHTTP11() == r.V10 ||
					ctx.Request.Header.ConnectionClose() != reqClose(r) {
					panic("harness: the server did not see the request as described")
				}
				var ops []string
				for _, o := range r.Ops {
					ops = append(ops, apply(ctx, o))
				}
				sc := ctx.Response.StatusCode()
			if sc < 0 {
				sc = fasthttp.StatusOK // appendStatusLine
			}
			sv = append(sv, served{ops: ops, smsg: fasthttp.StatusMessage(sc)})
			},
		}
		var in []byte
		for i, r := range d.Reqs {
			in = append(in, requestBytes(i, r)...)
		}
		c := &memConn{in: in}
		_ = s.ServeConn(c)
		dateAfter := fasthttp.VerifServerDate()
		if !bytes.Equal(dateBefore, dateAfter) {
			continue // the clock ticked while the case ran: run it again
		}
		out := c.out.Bytes()
		if !d.Cfg.NoDate || true {
			out = bytes.ReplaceAll(out, []byte("\r\nDate: "+string(dateBefore)+"\r\n"), []byte("\r\nDate: "+fixedDate+"\r\n"))
		}
		return append([]byte(nil), out...), !c.wantedMore, sv
	}
	panic("harness: server date kept changing")
}

type nullLogger struct{}

func (nullLogger) Printf(string, ...any) {}

func netHTTPView(d desc, wire []byte) string {
	br := bufio.NewReader(bytes.NewReader(wire))
	var items []string
	for _, r := range d.Reqs {
		resp, err := http.ReadResponse(br, &http.Request{Method: r.Method})
		if err != nil {
			break
		}
		body, err := io.ReadAll(resp.Body)
		resp.Body.Close()
		if err != nil {
			break
		}
		items = append(items, hlib.Tuple(hlib.Z(int64(resp.StatusCode)), pk.Hex(body)))
		if resp.Close {
			break
		}
	}
	return hlib.List(items)
}

func run(d desc) hlib.Case {
	wire, closed, sv := runConn(d)
	cfg := hlib.App("mkCfg", pk.HexS(serverName(d.Cfg)), hlib.Bool(d.Cfg.NoDate), hlib.Bool(d.Cfg.NoCT), hlib.Bool(d.Cfg.NoNorm), hlib.Bool(d.Cfg.DisableKA))
	var reqs []string
	size := 0
	for i, r := range d.Reqs {
		m := map[string]string{"GET": "MGet", "HEAD": "MHead", "POST": "MPost"}[r.Method]
		q := hlib.App("mkRq", hlib.Bool(r.Method == "HEAD"), hlib.Bool(!r.V10), hlib.Bool(reqClose(r)))
		var ops []string
		smsg := "OK"
		if i < len(sv) {
			ops, smsg = sv[i].ops, sv[i].smsg
		} else {
			// never reached the handler (the connection was closed before): render the program without running it
			ops = renderOnly(r.Ops)
		}
		reqs = append(reqs, hlib.Tuple(m, q, hlib.List(ops), pk.HexS(smsg)))
		size += len(r.Ops)
	}
	coq := hlib.App("C03Conn", cfg, pk.HexS(fixedDate), hlib.List(reqs), pk.Hex(wire), hlib.Bool(closed), netHTTPView(d, wire))
	sig := d.Tag + "/" + strconv.Itoa(len(d.Reqs))
	for _, r := range d.Reqs {
		sig += "/" + r.Method
		for _, o := range r.Ops {
			sig += "," + o.T
			if o.S != nil {
				sig += ":" + o.S.Kind
			}
		}
	}
	return hlib.Case{Coq: coq, Key: d.Key, Sig: sig, Kind: d.Tag, Size: size}
}

// renderOnly renders ops for Coq by applying them to a scratch ctx (the Coq term does not depend on the ctx)
func renderOnly(ops []opD) []string {
	var ctx fasthttp.RequestCtx
	var out []string
	for _, o := range ops {
		out = append(out, apply(&ctx, o))
	}
	return out
}

// ---- generators -------------------------------------------------------------------------------------------------

var tokenAlpha = []byte("abcdefghijklmnopqrstuvwxyzABCDEFGHIJKLMNOPQRSTUVWXYZ0123456789-_")
var valueAlpha = []byte("abcdefghijklmnopqrstuvwxyz0123456789 ,;=/-\t:")
var bodyAlpha = []byte("abcdefghijklmnopqrstuvwxyz0123456789\r\n :HTP/.")

var plainKeys = []string{"X-Foo", "x-bar", "Cache-Control", "ETag", "Location", "X-Request-Id", "Vary", "Foo", "Last-Modified", "x-a-b", "Accept-Ranges"}
var statuses = []int64{200, 200, 200, 201, 204, 206, 301, 302, 304, 400, 404, 418, 500, 503, 999, 299, 600}

func rbody(r *rand.Rand) []byte {
	switch r.Intn(12) {
	case 0:
		return []byte{}
	case 1:
		return hlib.Bytes(r, bodyAlpha, 3000+r.Intn(6000)) // crosses the 4096-byte buffers
	case 2:
		// a body that looks like a response, to make mis-framing visible
		return []byte("HTTP/1.1 200 OK\r\nContent-Length: 3\r\n\r\nEVL")
	default:
		return hlib.Bytes(r, bodyAlpha, 40)
	}
}

func rpieces(r *rand.Rand) []hlib.B {
	n := r.Intn(4)
	var ps []hlib.B
	for i := 0; i < n; i++ {
		var p []byte
		switch r.Intn(10) {
		case 0:
			p = hlib.Bytes(r, bodyAlpha, 4000+r.Intn(5000))
		case 1:
			p = bytes.Repeat([]byte("z"), 4096)
		default:
			p = hlib.Bytes(r, bodyAlpha, 30)
		}
		if len(p) == 0 {
			p = []byte("p")
		}
		ps = append(ps, p)
	}
	return ps
}

func plen(ps []hlib.B) int64 {
	n := 0
	for _, p := range ps {
		n += len(p)
	}
	return int64(n)
}

func rheaderOp(r *rand.Rand) opD {
	k := []byte(hlib.Pick(r, plainKeys))
	if r.Intn(6) == 0 {
		k = hlib.Bytes(r, tokenAlpha, 8)
		if len(k) == 0 {
			k = []byte("k")
		}
	}
	v := hlib.Bytes(r, valueAlpha, 12)
	switch r.Intn(16) {
	case 0, 1, 2, 3:
		return opD{T: "Set", K: k, V: v, Vr: r.Intn(5)}
	case 4, 5:
		return opD{T: "Add", K: k, V: v, Vr: r.Intn(4)}
	case 6:
		return opD{T: "Del", K: k, Vr: r.Intn(2)}
	case 7:
		return opD{T: "SetContentType", V: []byte(hlib.Pick(r, []string{"text/html", "application/json", "", "text/plain; charset=utf-8"})), Vr: r.Intn(3)}
	case 8:
		return opD{T: "SetStatusMessage", V: hlib.Bytes(r, []byte("abc XYZ"), 8)}
	case 9:
		return opD{T: "Set", K: []byte("Set-Cookie"), V: []byte("a=b; Path=/"), Vr: r.Intn(5)}
	case 10:
		return opD{T: "SetServer", V: []byte(hlib.Pick(r, []string{"srv", "", "my server/1.0"}))}
	case 11:
		return opD{T: "SetContentEncoding", V: []byte(hlib.Pick(r, []string{"gzip", "identity", ""}))}
	case 12:
		return opD{T: "Set", K: []byte(hlib.Pick(r, []string{"Connection", "connection"})), V: []byte(hlib.Pick(r, []string{"close", "keep-alive", "Upgrade", "Close"})), Vr: r.Intn(5)}
	case 13:
		return opD{T: "Set", K: []byte(hlib.Pick(r, []string{"Date", "Transfer-Encoding", "transfer-encoding", "Server"})), V: []byte(hlib.Pick(r, []string{"chunked", "identity", "x"})), Vr: r.Intn(5)}
	case 14:
		if r.Intn(2) == 0 {
			return opD{T: "SetCookie", K: hlib.Bytes(r, []byte("abcxyz"), 4), V: hlib.Bytes(r, []byte("abc123 =;"), 8), B: r.Intn(2) == 0, Vr: r.Intn(2)}
		}
		return opD{T: "SetCanonical", K: k, V: v}
	default:
		return opD{T: hlib.Pick(r, []string{"SetConnectionClose", "ResetConnectionClose", "SetNoDefaultContentType"}), B: r.Intn(2) == 0, Vr: r.Intn(3)}
	}
}

// body-building call on which the framing theorems hold
func rbodyOp(r *rand.Rand) opD {
	switch r.Intn(12) {
	case 0, 1, 2:
		return opD{T: "SetBody", V: rbody(r), Vr: r.Intn(4)}
	case 3, 4:
		return opD{T: "AppendBody", V: rbody(r), Vr: r.Intn(4)}
	case 5:
		return opD{T: "SetBodyRaw", V: rbody(r)}
	case 6:
		switch r.Intn(5) {
		case 0:
			return opD{T: "Success", K: []byte(hlib.Pick(r, []string{"text/html", "application/json"})), V: rbody(r), Vr: r.Intn(2)}
		case 1:
			return opD{T: "BodyWriter", V: rbody(r), Vr: r.Intn(2)}
		case 2:
			return opD{T: hlib.Pick(r, []string{"NotFound", "Reset"})}
		}
		return opD{T: "ResetBody"}
	case 7, 8: // stream of unknown size
		kind := hlib.Pick(r, []string{"reader", "reader", "writerto", "swriter", "gwriterto"})
		ps := rpieces(r)
		if kind == "swriter" && len(ps) > 1 {
			ps = ps[:1]
		}
		return opD{T: "SetBodyStream", N: -1, S: &streamD{Kind: kind, Pieces: ps, With: r.Intn(3) == 0}, Vr: r.Intn(6)}
	case 9, 10: // stream of known, correct size
		ps := rpieces(r)
		return opD{T: "SetBodyStream", N: plen(ps), S: &streamD{Kind: hlib.Pick(r, []string{"reader", "writerto", "gwriterto"}), Pieces: ps, With: r.Intn(3) == 0}, Vr: r.Intn(6)}
	default:
		return opD{T: "Error", V: hlib.Bytes(r, bodyAlpha, 20), N: hlib.Pick(r, []int64{400, 404, 500, 503, 200})}
	}
}

func rreq(r *rand.Rand) reqD {
	q := reqD{Method: hlib.Pick(r, []string{"GET", "GET", "HEAD", "POST"})}
	switch r.Intn(8) {
	case 0:
		q.V10 = true
	case 1:
		q.V10, q.KeepAlive = true, true
	case 2:
		q.Close = true
	case 3:
		q.KeepAlive = true
	}
	return q
}

func rcfg(r *rand.Rand) cfgD {
	var c cfgD
	switch r.Intn(6) {
	case 0:
		c.Name = "my-srv"
	case 1:
		c.NoDefName = true
	}
	c.NoDate = r.Intn(4) == 0
	c.NoCT = r.Intn(6) == 0
	c.NoNorm = r.Intn(8) == 0
	c.DisableKA = r.Intn(12) == 0
	return c
}

// a program inside the guard of the theorems: status first (so that no body stream is attached while the status
// forbids a length), then headers and body calls in any order; no SkipBody, no manual framing headers after a stream
func saneProg(r *rand.Rand) []opD {
	var ops []opD
	if r.Intn(3) != 0 {
		ops = append(ops, opD{T: "SetStatusCode", N: hlib.Pick(r, statuses), Vr: r.Intn(3)})
	}
	n := r.Intn(6)
	raw := false
	for i := 0; i < n; i++ {
		if r.Intn(2) == 0 {
			ops = append(ops, rheaderOp(r))
		} else {
			o := rbodyOp(r)
			_ = raw // AppendBody on a raw body keeps the raw part since /repo 8762a11
			switch o.T {
			case "SetBodyRaw":
				raw = true
			case "SetBody", "ResetBody", "SetBodyStream", "Error":
				raw = false
			}
			ops = append(ops, o)
		}
	}
	if r.Intn(5) == 0 { // trailers (written after a chunked body, announced in Trailer)
		ops = append(ops, opD{T: "Set", K: []byte("Foo"), V: []byte("bar"), Vr: r.Intn(5)}, opD{T: hlib.Pick(r, []string{"SetTrailer", "AddTrailer"}), V: []byte(hlib.Pick(r, []string{"Foo", "Foo, X-Bar", "foo", "Content-Length", ""}))})
		if r.Intn(2) == 0 {
			o := rbodyOp(r)
			if o.T == "AppendBody" {
				o.T = "SetBody"
			}
			ops = append(ops, o)
		}
	}
	return ops
}

func gen(r *rand.Rand, i int) desc {
	d := desc{Cfg: rcfg(r), Tag: "sane"}
	n := 1 + r.Intn(3)
	if r.Intn(3) == 0 {
		n = 1
	}
	for j := 0; j < n; j++ {
		q := rreq(r)
		q.Ops = saneProg(r)
		d.Reqs = append(d.Reqs, q)
	}
	switch r.Intn(14) {
	case 0: // size mismatch, plain reader
		q := rreq(r)
		q.Method = hlib.Pick(r, []string{"GET", "POST", "HEAD"})
		ps := rpieces(r)
		decl := plen(ps) + int64(hlib.Pick(r, []int{-1, 1, -5, 5, 5000, -4097}))
		if decl < 0 {
			decl = 0
			ps = append(ps, hlib.B("x"))
		}
		q.Ops = []opD{{T: "SetBodyStream", N: decl, S: &streamD{Kind: "reader", Pieces: ps, With: r.Intn(2) == 0}, Vr: r.Intn(2)}}
		d.Reqs = append(d.Reqs[:r.Intn(len(d.Reqs))], q)
		d.Tag = "mismatch-reader"
	case 1: // read error
		q := rreq(r)
		ps := rpieces(r)
		decl := hlib.Pick(r, []int64{-1, plen(ps), plen(ps) + 3, 0})
		q.Ops = []opD{{T: "SetBodyStream", N: decl, S: &streamD{Kind: "reader", Pieces: ps, Fail: true, With: r.Intn(2) == 0}, Vr: r.Intn(2)}}
		d.Reqs = append(d.Reqs[:r.Intn(len(d.Reqs))], q)
		d.Tag = "stream-read-error"
	case 2: // size mismatch, short, WriterTo stream (allowed: fewer bytes than declared, then close)
		q := rreq(r)
		ps := append(rpieces(r), hlib.B("tail"))
		q.Ops = []opD{{T: "SetBodyStream", N: plen(ps) + 1 + int64(r.Intn(9)), S: &streamD{Kind: hlib.Pick(r, []string{"writerto", "gwriterto"}), Pieces: ps}, Vr: r.Intn(3)}}
		d.Reqs = append(d.Reqs[:r.Intn(len(d.Reqs))], q)
		d.Tag = "mismatch-writerto-short"
	case 3, 4: // known-finding families: the request in the class comes first, an ordinary one may follow
		q := rreq(r)
		q.Method = hlib.Pick(r, []string{"GET", "POST"})
		q.Close, q.V10 = false, false
		tag, ops := findingProg(r)
		q.Ops = ops
		d.Reqs = []reqD{q}
		if r.Intn(2) == 0 {
			d.Reqs = append(d.Reqs, reqD{Method: "GET", Ops: []opD{{T: "SetBody", V: hlib.B("second")}}})
		}
		d.Cfg.DisableKA = false
		d.Tag, d.Key = tag, tag
		if fixedClass[tag] {
			d.Key = "" // repaired in /repo: must pass now
		}
	}
	return d
}

// classes that were findings and have been repaired in /repo (6f630cd, 8762a11): kept as regression families
var fixedClass = map[string]bool{"manual-content-length-on-chunked-stream": true, "appendbody-after-setbodyraw": true}

// programs in the classes of findings/C03.txt (see there)
func findingProg(r *rand.Rand) (string, []opD) {
	small := func() []hlib.B {
		ps := rpieces(r)
		if len(ps) == 0 || plen(ps) > 200 {
			ps = []hlib.B{hlib.B("stream-data")}
		}
		return ps
	}
	switch r.Intn(5) {
	case 0:
		ps := append(small(), hlib.B("HTTP/1.1 200 OK\r\nContent-Length: 3\r\n\r\nEVL"))
		decl := int64(r.Intn(int(plen(ps))))
		return "stream-writerto-oversize", []opD{{T: "SetBodyStream", N: decl, S: &streamD{Kind: hlib.Pick(r, []string{"writerto", "gwriterto"}), Pieces: ps}, Vr: r.Intn(2)}}
	case 1:
		ps := small()
		return "manual-content-length-on-chunked-stream", []opD{{T: "SetBodyStream", N: -1, S: &streamD{Kind: hlib.Pick(r, []string{"reader", "writerto"}), Pieces: ps}},
			{T: hlib.Pick(r, []string{"Set", "Add", "SetCanonical"}), K: hlib.B("Content-Length"), V: hlib.B(strconv.FormatInt(plen(ps), 10)), Vr: r.Intn(4)}}
	case 2:
		ops := []opD{{T: "SkipBody", B: true}}
		switch r.Intn(3) {
		case 0:
			ops = append(ops, opD{T: "SetBody", V: hlib.B("skipped body")})
		case 1:
			ops = append(ops, opD{T: "SetBodyStream", N: -1, S: &streamD{Kind: "reader", Pieces: small()}})
		}
		return "skipbody-on-non-head", ops
	case 3:
		ps := small()
		if r.Intn(2) == 0 {
			ps = nil // an empty stream: nothing fails, the response has no length at all
		}
		if r.Intn(2) == 0 {
			return "stream-length-header-lost", []opD{{T: "SetStatusCode", N: hlib.Pick(r, []int64{304, 204, 100})}, {T: "SetBodyStream", N: hlib.Pick(r, []int64{-1, plen(ps)}), S: &streamD{Kind: "reader", Pieces: ps}}, {T: "SetStatusCode", N: 200}}
		}
		return "stream-length-header-lost", []opD{{T: "SetBodyStream", N: plen(ps), S: &streamD{Kind: "reader", Pieces: ps}}, {T: "Del", K: hlib.B("Content-Length"), Vr: r.Intn(2)}}
	default:
		return "appendbody-after-setbodyraw", []opD{{T: "SetBodyRaw", V: hlib.B("raw part ")}, {T: "AppendBody", V: hlib.Bytes(r, bodyAlpha, 10), Vr: r.Intn(4)}}
	}
}

func one(m string, ops ...opD) []reqD { return []reqD{{Method: m, Ops: ops}} }
func two(m string, ops ...opD) []reqD {
	return []reqD{{Method: m, Ops: ops}, {Method: "GET", Ops: []opD{{T: "SetBody", V: hlib.B("second")}}}}
}
func rd(kind string, fail bool, pieces ...string) *streamD {
	s := &streamD{Kind: kind, Fail: fail}
	for _, p := range pieces {
		s.Pieces = append(s.Pieces, hlib.B(p))
	}
	return s
}

func corpus() []desc {
	var c []desc
	add := func(tag string, reqs []reqD) { c = append(c, desc{Reqs: reqs, Tag: tag}) }
	big := strings.Repeat("0123456789abcdef", 1250) // 20000 bytes
	for _, m := range []string{"GET", "HEAD", "POST"} {
		add("plain", two(m, opD{T: "SetBody", V: hlib.B("hello")}))
		add("empty", two(m))
		add("append", two(m, opD{T: "AppendBody", V: hlib.B("a")}, opD{T: "AppendBody", V: hlib.B("b"), Vr: 1}))
		add("raw", two(m, opD{T: "SetBodyRaw", V: hlib.B("rawbody")}))
		add("status204", two(m, opD{T: "SetStatusCode", N: 204}, opD{T: "SetBody", V: hlib.B("dropped")}))
		add("status304", two(m, opD{T: "SetStatusCode", N: 304}, opD{T: "SetBody", V: hlib.B("dropped")}))
		add("status100", two(m, opD{T: "SetStatusCode", N: 100}))
		add("status99", two(m, opD{T: "SetStatusCode", N: 99}, opD{T: "SetBody", V: hlib.B("x")}))
		add("status1000", two(m, opD{T: "SetStatusCode", N: 1000}, opD{T: "SetBody", V: hlib.B("x")}))
		add("status-1", two(m, opD{T: "SetStatusCode", N: -1}, opD{T: "SetBody", V: hlib.B("x")}))
		add("status999", two(m, opD{T: "SetStatusCode", N: 999}, opD{T: "SetBody", V: hlib.B("x")}))
		// A8: HEAD + chunked stream must not write the trailer terminator
		add("chunked", two(m, opD{T: "SetBodyStream", N: -1, S: rd("reader", false, "abc", "defg")}))
		add("chunked-wt", two(m, opD{T: "SetBodyStream", N: -1, S: rd("writerto", false, "abc", "defg")}, opD{T: "SetBodyStream", N: -1, S: rd("writerto", false), Vr: 1}))
		add("chunked-empty", two(m, opD{T: "SetBodyStream", N: -1, S: rd("reader", false)}))
		add("chunked-sw", two(m, opD{T: "SetBodyStream", N: -1, S: rd("swriter", false, "streamed by a writer")}))
		add("chunked-trailer", two(m, opD{T: "Set", K: hlib.B("Foo"), V: hlib.B("bar")}, opD{T: "SetTrailer", V: hlib.B("Foo")}, opD{T: "SetBodyStream", N: -1, S: rd("reader", false, "abc")}))
		add("chunked-204", two(m, opD{T: "SetBodyStream", N: -1, S: rd("reader", false, "abc")}, opD{T: "SetStatusCode", N: 204}))
		add("fixed", two(m, opD{T: "SetBodyStream", N: 7, S: rd("reader", false, "abc", "defg")}))
		add("fixed-wt", two(m, opD{T: "SetBodyStream", N: 7, S: rd("writerto", false, "abc", "defg")}))
		add("fixed-wt", two(m, opD{T: "SetBodyStream", N: 7, S: rd("gwriterto", false, "abc", "defg")}))
		add("chunked-wt", two(m, opD{T: "SetBodyStream", N: -1, S: rd("gwriterto", false, "abc", big[:5000])}))
		add("fixed0", two(m, opD{T: "SetBodyStream", N: 0, S: rd("reader", false)}))
		add("fixed-big", two(m, opD{T: "SetBodyStream", N: 20000, S: rd("reader", false, big)}))
		// A9: more bytes than declared
		add("mismatch-reader", two(m, opD{T: "SetBodyStream", N: 5, S: rd("reader", false, big)}))
		add("mismatch-reader", two(m, opD{T: "SetBodyStream", N: 5, S: rd("reader", false, "abcdef")}))
		add("mismatch-reader", two(m, opD{T: "SetBodyStream", N: 0, S: rd("reader", false, "a")}))
		add("mismatch-reader", two(m, opD{T: "SetBodyStream", N: 9, S: rd("reader", false, "abc")}))
		add("mismatch-reader", two(m, opD{T: "SetBodyStream", N: 9000, S: rd("reader", false, big[:8999])}))
		add("stream-read-error", two(m, opD{T: "SetBodyStream", N: -1, S: rd("reader", true, "abc")}))
		add("stream-read-error", two(m, opD{T: "SetBodyStream", N: 3, S: rd("reader", true, "abc")}))
		add("stream-read-error", two(m, opD{T: "SetBodyStream", N: 4, S: rd("reader", true, "abc")}))
		add("mismatch-writerto-short", two(m, opD{T: "SetBodyStream", N: 9, S: rd("writerto", false, "abc")}))
		// manual framing headers with an in-memory body are overridden
		add("manual-cl", two(m, opD{T: "Set", K: hlib.B("Content-Length"), V: hlib.B("3")}, opD{T: "SetBody", V: hlib.B("hello")}))
		add("manual-cl", two(m, opD{T: "SetBody", V: hlib.B("hello")}, opD{T: "Set", K: hlib.B("content-length"), V: hlib.B("99")}))
		add("manual-cl", two(m, opD{T: "SetBody", V: hlib.B("hello")}, opD{T: "SetContentLength", N: -1}))
		add("manual-cl", two(m, opD{T: "SetBody", V: hlib.B("hello")}, opD{T: "SetContentLength", N: -2}))
		add("manual-cl", two(m, opD{T: "SetBody", V: hlib.B("hello")}, opD{T: "Set", K: hlib.B("Transfer-Encoding"), V: hlib.B("chunked")}))
		add("manual-cl", two(m, opD{T: "Set", K: hlib.B("Content-Length"), V: hlib.B("5")})) // HEAD: kept, no body
		add("manual-cl", two(m, opD{T: "SetBody", V: hlib.B("hello")}, opD{T: "Del", K: hlib.B("Content-Length")}))
		add("stream-then-body", two(m, opD{T: "SetBodyStream", N: -1, S: rd("reader", false, "abc")}, opD{T: "SetBody", V: hlib.B("hello")}))
		add("stream-then-append", two(m, opD{T: "SetBodyStream", N: 3, S: rd("reader", false, "abc")}, opD{T: "AppendBody", V: hlib.B("hello")}))
		add("redeclare", two(m, opD{T: "SetBodyStream", N: -1, S: rd("reader", false, "abc")}, opD{T: "SetContentLength", N: 3}))
		add("redeclare", two(m, opD{T: "SetBodyStream", N: 3, S: rd("reader", false, "abc")}, opD{T: "SetContentLength", N: -1}))
		add("redeclare", two(m, opD{T: "SetBodyStream", N: 3, S: rd("reader", false, "abc")}, opD{T: "SetContentLength", N: -2}))
		add("error", two(m, opD{T: "SetBody", V: hlib.B("hello")}, opD{T: "Set", K: hlib.B("X-A"), V: hlib.B("1")}, opD{T: "Error", V: hlib.B("nope"), N: 503}))
		add("connclose", two(m, opD{T: "SetConnectionClose"}, opD{T: "SetBody", V: hlib.B("bye")}))
		add("connclose", two(m, opD{T: "Set", K: hlib.B("Connection"), V: hlib.B("close")}, opD{T: "SetBody", V: hlib.B("bye")}))
		add("trailer-fixed", two(m, opD{T: "Set", K: hlib.B("Foo"), V: hlib.B("bar")}, opD{T: "SetTrailer", V: hlib.B("Foo")}, opD{T: "SetBody", V: hlib.B("abc")}))
	}
	key := func(k string, reqs []reqD) {
		d := desc{Reqs: reqs, Tag: k, Key: k}
		if fixedClass[k] {
			d.Key = ""
		}
		c = append(c, d)
	}
	evl := "HTTP/1.1 200 OK\r\nContent-Length: 3\r\n\r\nEVL"
	for _, m := range []string{"GET", "POST"} {
		key("stream-writerto-oversize", two(m, opD{T: "SetBodyStream", N: 5, S: rd("writerto", false, big)}))
		key("stream-writerto-oversize", two(m, opD{T: "SetBodyStream", N: 5, S: rd("writerto", false, "hello"+evl), Vr: 1}))
		key("stream-writerto-oversize", two(m, opD{T: "SetBodyStream", N: 5, S: rd("gwriterto", false, "hello"+evl)}))
		key("manual-content-length-on-chunked-stream", two(m, opD{T: "SetBodyStream", N: -1, S: rd("reader", false, "hello")}, opD{T: "Set", K: hlib.B("Content-Length"), V: hlib.B("5")}))
		key("skipbody-on-non-head", two(m, opD{T: "SetBody", V: hlib.B("hello")}, opD{T: "SkipBody", B: true}))
		key("skipbody-on-non-head", two(m, opD{T: "SkipBody", B: true}))
		key("skipbody-on-non-head", two(m, opD{T: "SkipBody", B: true}, opD{T: "SetBodyStream", N: -1, S: rd("reader", false, "hello")}))
		key("stream-length-header-lost", two(m, opD{T: "SetStatusCode", N: 304}, opD{T: "SetBodyStream", N: 0, S: rd("reader", false)}, opD{T: "SetStatusCode", N: 200}))
		key("stream-length-header-lost", two(m, opD{T: "SetStatusCode", N: 304}, opD{T: "SetBodyStream", N: 5, S: rd("reader", false, "hello")}, opD{T: "SetStatusCode", N: 200}))
		key("stream-length-header-lost", two(m, opD{T: "SetBodyStream", N: 0, S: rd("reader", false)}, opD{T: "Del", K: hlib.B("Content-Length")}))
		key("appendbody-after-setbodyraw", two(m, opD{T: "SetBodyRaw", V: hlib.B("XYZ")}, opD{T: "AppendBody", V: hlib.B("d")}))
	}
	// the same calls answering a HEAD request are harmless
	add("skipbody-head", two("HEAD", opD{T: "SetBody", V: hlib.B("hello")}, opD{T: "SkipBody", B: true}))
	add("skipbody-false", two("GET", opD{T: "SkipBody", B: true}, opD{T: "SetBody", V: hlib.B("hello")}, opD{T: "SkipBody", B: false}))
	// streams whose Read returns the last bytes together with io.EOF or with an error (io.Reader contract,
	// iotest.DataErrReader), around the 4096-byte copy buffer, of known and unknown size, one or two pieces
	for _, n := range []int{1, 20, 4095, 4096, 4097, 10000} {
		data := big[:n]
		for _, fail := range []bool{false, true} {
			for _, m := range []string{"GET", "HEAD"} {
				for _, decl := range []int64{-1, int64(n)} {
					add("data-with-end", two(m, opD{T: "SetBodyStream", N: decl, S: &streamD{Kind: "reader", Pieces: []hlib.B{hlib.B(data)}, Fail: fail, With: true}}))
				}
			}
			if n > 1 {
				add("data-with-end", two("GET", opD{T: "SetBodyStream", N: -1, S: &streamD{Kind: "reader", Pieces: []hlib.B{hlib.B(data[:n/2]), hlib.B(data[n/2:])}, Fail: fail, With: true}, Vr: 1}))
				add("data-with-end", two("POST", opD{T: "SetBodyStream", N: int64(n), S: &streamD{Kind: "reader", Pieces: []hlib.B{hlib.B(data[:1]), hlib.B(data[1:])}, Fail: fail, With: true}, Vr: 1}))
			}
		}
		// declared size off by one, the end still rides on the last bytes
		add("data-with-end", two("GET", opD{T: "SetBodyStream", N: int64(n) + 1, S: &streamD{Kind: "reader", Pieces: []hlib.B{hlib.B(data)}, With: true}}))
		add("data-with-end", two("GET", opD{T: "SetBodyStream", N: int64(n) - 1, S: &streamD{Kind: "reader", Pieces: []hlib.B{hlib.B(data)}, With: true}}))
	}
	// status sweep: every status class x {GET, HEAD} x {in-memory body, stream of known size, chunked stream, no body},
	// each followed by a second pipelined request: the reader must find exactly one response and the next one at its end
	for _, st := range []int64{100, 101, 102, 103, 199, 200, 201, 202, 203, 204, 205, 206, 207, 208, 226, 299, 300, 301, 302, 303, 304, 305, 307, 308,
		399, 400, 404, 418, 499, 500, 503, 599, 600, 999} {
		for _, m := range []string{"GET", "HEAD"} {
			sc := opD{T: "SetStatusCode", N: st, Vr: int(st) % 3}
			add("status-sweep", two(m, sc, opD{T: "SetBody", V: hlib.B("hello")}))
			add("status-sweep", two(m, sc, opD{T: "SetBodyStream", N: 5, S: rd("reader", false, "hel", "lo")}))
			add("status-sweep", two(m, sc, opD{T: "SetBodyStream", N: -1, S: rd("reader", false, "hel", "lo")}))
			add("status-sweep", two(m, sc))
		}
	}
	// the convenience calls of RequestCtx and cookie objects
	for _, m := range []string{"GET", "HEAD"} {
		add("ctx-api", two(m, opD{T: "Set", K: hlib.B("X-A"), V: hlib.B("1")}, opD{T: "SetBody", V: hlib.B("gone")}, opD{T: "NotFound"}, opD{T: "Set", K: hlib.B("X-B"), V: hlib.B("2")}))
		add("ctx-api", two(m, opD{T: "SetStatusCode", N: 500}, opD{T: "SetBodyStream", N: -1, S: rd("reader", false, "gone")}, opD{T: "Reset"}, opD{T: "BodyWriter", V: hlib.B("after reset")}))
		add("ctx-api", two(m, opD{T: "Success", K: hlib.B("application/json"), V: hlib.B("{}")}, opD{T: "BodyWriter", V: hlib.B("tail"), Vr: 1}))
		add("ctx-api", two(m, opD{T: "SetCookie", K: hlib.B("sid"), V: hlib.B("abc"), B: true, Vr: 1}, opD{T: "SetCookie", K: hlib.B("t"), V: hlib.B("1")}, opD{T: "SetCookie", K: hlib.B("sid"), V: hlib.B("replaced")},
			opD{T: "Add", K: hlib.B("Set-Cookie"), V: hlib.B("raw=1")}, opD{T: "SetBody", V: hlib.B("cookies")}))
	}
	// Del of every header the Response keeps outside h.h
	for _, k := range []string{"Content-Type", "Content-Encoding", "Server", "Set-Cookie", "Connection", "Trailer", "Transfer-Encoding", "Date", "content-type", "X-Foo"} {
		add("del-special", two("GET", opD{T: "SetContentType", V: hlib.B("text/html")}, opD{T: "SetContentEncoding", V: hlib.B("identity")}, opD{T: "SetServer", V: hlib.B("s1")},
			opD{T: "Add", K: hlib.B("Set-Cookie"), V: hlib.B("a=b")}, opD{T: "SetConnectionClose"}, opD{T: "Set", K: hlib.B("X-Foo"), V: hlib.B("1")}, opD{T: "SetTrailer", V: hlib.B("X-Foo")},
			opD{T: "SetBody", V: hlib.B("hello")}, opD{T: "Del", K: hlib.B(k), Vr: len(k) % 2}))
		add("del-special", two("GET", opD{T: "SetBodyStream", N: -1, S: rd("reader", false, "abc")}, opD{T: "Set", K: hlib.B("Connection"), V: hlib.B("keep-alive, close")}, opD{T: "Del", K: hlib.B(k)}))
	}
	for _, v10 := range []bool{true} {
		for _, ka := range []bool{false, true} {
			c = append(c, desc{Tag: "http10", Reqs: []reqD{{Method: "GET", V10: v10, KeepAlive: ka, Ops: []opD{{T: "SetBody", V: hlib.B("ten")}}}, {Method: "GET", Ops: []opD{{T: "SetBody", V: hlib.B("second")}}}}})
			c = append(c, desc{Tag: "http10", Reqs: []reqD{{Method: "GET", V10: v10, KeepAlive: ka, Ops: []opD{{T: "SetBodyStream", N: -1, S: rd("reader", false, "chunked to a 1.0 client")}}}}})
		}
	}
	for _, cfg := range []cfgD{{Name: "named"}, {NoDefName: true}, {NoDate: true}, {NoCT: true}, {NoNorm: true}, {DisableKA: true}} {
		c = append(c, desc{Cfg: cfg, Tag: "cfg", Reqs: two("GET", opD{T: "Set", K: hlib.B("x-lower"), V: hlib.B("v")}, opD{T: "Set", K: hlib.B("Date"), V: hlib.B("mine")}, opD{T: "SetBody", V: hlib.B("cfg")})})
		c = append(c, desc{Cfg: cfg, Tag: "cfg", Reqs: two("GET", opD{T: "Error", V: hlib.B("e"), N: 500})})
	}
	return c
}

func main() {
	hlib.Main(hlib.Prop[desc]{
		ID:       "C03",
		Imports:  "From Coq Require Import Uint63.\nFrom FH Require Import Model.Base Model.PackedBytes Model.Cookie Model.HeaderWrite Model.RespWrite Spec.RespParse Spec.RespSpec Check.C03Check.\nOpen Scope Z_scope.",
		CaseType: "c03case",
		CorrOK:   "corr_ok",
		PropOK:   "prop_ok",
		Rule: "a case is one connection (server configuration x 1..3 pipelined GET/HEAD/POST requests over HTTP/1.0 and 1.1, each with a handler program of response-building calls) served by the real Server through ServeConn on an in-memory connection; " +
			"non-trivial = distinct (family, methods, sequence of call kinds)",
		Corpus: corpus,
		Gen:    gen,
		Run:    run,
	})
}
