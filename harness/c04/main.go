// Correspondence harness for C04 (client calls return their own response, never another request's bytes).
//
// Three kinds of cases:
//
//	seq    a sequential history on a real HostClient whose Dial returns scripted, fully deterministic in-memory connections
//	       (no goroutines: the "server" acts inside Write).  The wire is a sequence of symbols as in coq/Model/ClientConn.v: a response
//	       head, body units of U bytes (plain, or crafted to be a complete response head), the chunked terminator.  One symbol is one
//	       chunk handed to the client per Read.  After every operation the implementation's observation (outcome class, connection used,
//	       IdleConnsCount, ConnsCount, who produced every delivered unit) is recorded; Coq replays the same operations on the LTS.
//	stress 16-64 goroutines on one HostClient against concurrent scripted servers over fasthttputil.PipeConns: delayed tails, closes in
//	       the middle of a response, tiny DoTimeout deadlines, streamed bodies closed early exactly where a crafted response starts,
//	       HEAD with Content-Length, Connection: close, bodies larger than MaxResponseBodySize.  The recorded history is the case.
//	pipe   PipelineClient with GET/HEAD mixes, deadlines and server-side connection drops; recorded history.
package main

import (
	"bufio"
	"bytes"
	"errors"
	"fmt"
	"io"
	"math/rand"
	"net"
	"os"
	"regexp"
	"strconv"
	"strings"
	"sync"
	"time"

	"github.com/valyala/fasthttp"
	"github.com/valyala/fasthttp/fasthttputil"
	"verif/harness/hlib"
)

var debug = os.Getenv("C04DEBUG") != ""

const (
	U = 128     // bytes per body unit
	P = 1000000 // ids >= P only occur inside crafted bodies
)

// ---- case description ------------------------------------------------------------------------

type headD struct {
	Fr     string `json:"fr"` // len | chunked | ident
	N      int    `json:"n,omitempty"`
	Close  bool   `json:"close,omitempty"`
	NoBody bool   `json:"nobody,omitempty"` // 304
}

type respD struct {
	Head headD    `json:"head"`
	Body []*headD `json:"body"` // nil entry: plain unit; non-nil: unit crafted to be this response head
}

type scriptD struct {
	Resp  respD `json:"resp"`
	Send  int   `json:"send"`
	Close bool  `json:"close,omitempty"`
	WFail bool  `json:"wfail,omitempty"`
	// Interim 1xx responses sent in front of the head (same piece: the model parses a head atomically).  Odd ones carry a foreign
	// X-Id and a Content-Length: neither may show up in what the caller gets.
	Interim int `json:"interim,omitempty"`
}

type optsD struct {
	Head     bool   `json:"head,omitempty"`
	ReqClose bool   `json:"reqclose,omitempty"`
	Stream   bool   `json:"stream,omitempty"`
	Skip     bool   `json:"skip,omitempty"`
	API      string `json:"api,omitempty"` // do | timeout | deadline
}

type opD struct {
	Op    string    `json:"op"` // call | more | conn (T = connection number) | sread | sclose | clean
	T     int       `json:"t,omitempty"`
	Opts  *optsD    `json:"opts,omitempty"`
	Sc    *scriptD  `json:"sc,omitempty"`
	More  []scriptD `json:"more,omitempty"` // scripts for the 2nd, 3rd attempt (the last one is repeated)
	N     int       `json:"n,omitempty"`
	Close bool      `json:"close,omitempty"`
}

type desc struct {
	Kind      string `json:"kind"` // seq | stress | pipe | api
	Max       int    `json:"max,omitempty"`
	MaxConns  int    `json:"maxconns,omitempty"`
	Reset     bool   `json:"reset,omitempty"`
	Lifo      bool   `json:"lifo,omitempty"`
	Client    bool   `json:"client,omitempty"`    // seq: go through fasthttp.Client (shared reader pool) instead of a HostClient
	StreamCfg bool   `json:"streamcfg,omitempty"` // seq: streaming is switched on by HostClient/Client.StreamResponseBody, resp.StreamBody is left alone
	Attempts  int    `json:"attempts,omitempty"`  // seq: MaxIdemponentCallAttempts (0 = 1) with the default RetryIf; attempt a of a call uses script a
	Objs      string `json:"objs,omitempty"`      // seq: "" fresh Request/Response per call | shared (one pair re-used, never Reset) | pool (Acquire/Release)
	Ops       []opD  `json:"ops,omitempty"`
	Seed      int64  `json:"seed,omitempty"`
	Workers   int    `json:"workers,omitempty"`
	PerW      int    `json:"perw,omitempty"`
	Retry     bool   `json:"retry,omitempty"`
	Skip      bool   `json:"skip,omitempty"` // stress: some GETs are issued with resp.SkipBody
}

// ---- rendering symbols as bytes ------------------------------------------------------------------

func headBytes(h headD, xid int, pad bool) []byte {
	var b bytes.Buffer
	if h.NoBody {
		b.WriteString("HTTP/1.1 304 Not Modified\r\n")
	} else {
		b.WriteString("HTTP/1.1 200 OK\r\n")
	}
	fmt.Fprintf(&b, "X-Id: %d\r\n", xid)
	switch h.Fr {
	case "len":
		fmt.Fprintf(&b, "Content-Length: %d\r\n", h.N*U)
	case "chunked":
		b.WriteString("Transfer-Encoding: chunked\r\n")
	}
	if h.Close {
		b.WriteString("Connection: close\r\n")
	}
	if pad {
		n := U - b.Len() - 2 - 7
		if n < 1 {
			panic("crafted head does not fit a unit")
		}
		b.WriteString("X-P: " + strings.Repeat("p", n) + "\r\n")
	}
	b.WriteString("\r\n")
	return b.Bytes()
}

func dataUnit(id, j int) []byte {
	// the line break makes a unit that is read where a status line is expected fail at once
	s := fmt.Sprintf("D%07d.%03d\r\n", id, j)
	return []byte(s + strings.Repeat("x", U-len(s)))
}

// wireChunks renders the wire form of a response to request id as one piece per symbol (coq: wire / chunk_form).
// A chunked body is ONE chunk holding all units: the size line is a piece of its own, the CRLF that ends the chunk data rides on the
// last unit, "0 CRLF CRLF" is the terminator.
func interimBytes(id, n int) []byte {
	var b []byte
	for j := 0; j < n; j++ {
		if j%2 == 0 {
			b = append(b, "HTTP/1.1 100 Continue\r\n\r\n"...)
		} else {
			b = append(b, fmt.Sprintf("HTTP/1.1 102 Processing\r\nX-Id: %d\r\nContent-Length: %d\r\n\r\n", P+id, U)...)
		}
	}
	return b
}

func wireChunks(id int, isHead bool, r respD, interim int) [][]byte {
	out := [][]byte{append(interimBytes(id, interim), headBytes(r.Head, id, false)...)}
	if isHead || r.Head.NoBody {
		return out
	}
	chunked := r.Head.Fr == "chunked"
	if chunked && len(r.Body) > 0 {
		out = append(out, []byte(fmt.Sprintf("%x\r\n", len(r.Body)*U)))
	}
	for j, u := range r.Body {
		var unit []byte
		if u == nil {
			unit = dataUnit(id, j)
		} else {
			unit = headBytes(*u, P+id, true)
		}
		if chunked && j == len(r.Body)-1 {
			unit = append(append([]byte(nil), unit...), '\r', '\n')
		}
		out = append(out, unit)
	}
	if chunked {
		out = append(out, []byte("0\r\n\r\n"))
	}
	return out
}

var reXID = regexp.MustCompile(`X-Id: (\d+)\r\n`)

// encUnit: 4*id + class, as Check/C04Check.v enc_sym.
func encUnit(u []byte) uint64 {
	if len(u) == U && u[0] == 'D' {
		if id, err := strconv.Atoi(string(u[1:8])); err == nil {
			return uint64(4*id + 2)
		}
	}
	if bytes.HasPrefix(u, []byte("HTTP/1.1 ")) {
		if m := reXID.FindSubmatch(u); m != nil {
			if v, err := strconv.Atoi(string(m[1])); err == nil && v >= P {
				return uint64(4*(v-P) + 1)
			}
		}
	}
	return 4*999999 + 3
}

func encHdr(resp *fasthttp.Response) uint64 {
	v, err := strconv.Atoi(string(resp.Header.Peek("X-Id")))
	if err != nil {
		return 4*999999 + 3
	}
	if v >= P {
		return uint64(4*(v-P) + 1)
	}
	return uint64(4 * v)
}

func encBody(b []byte) []uint64 {
	var out []uint64
	for len(b) >= U {
		out = append(out, encUnit(b[:U]))
		b = b[U:]
	}
	if len(b) > 0 {
		out = append(out, 4*999999+3)
	}
	return out
}

// ---- the scripted network of the sequential replay -------------------------------------------------

type timeoutErr struct{}

func (timeoutErr) Error() string   { return "scripted: deadline exceeded" }
func (timeoutErr) Timeout() bool   { return true }
func (timeoutErr) Temporary() bool { return true }

type fnet struct {
	conns    []*fconn
	scripts  map[int][]scriptD
	seen     map[int]int
	heads    map[int]bool
	lastConn int
}

type fconn struct {
	id        int
	nw        *fnet
	outbuf    []byte
	ready     [][]byte
	cur       []byte
	pending   [][]byte
	srvClosed bool
	closed    bool
	rdl       time.Time
}

type faddr struct{}

func (faddr) Network() string { return "scripted" }
func (faddr) String() string  { return "scripted:80" }

func (n *fnet) dial(addr string) (net.Conn, error) {
	c := &fconn{id: len(n.conns), nw: n}
	n.conns = append(n.conns, c)
	return c, nil
}

func (c *fconn) send(k int) {
	for ; k > 0 && len(c.pending) > 0 && !c.srvClosed; k-- {
		c.ready = append(c.ready, c.pending[0])
		c.pending = c.pending[1:]
	}
}

func (c *fconn) Write(p []byte) (int, error) {
	c.nw.lastConn = c.id
	if c.closed {
		return 0, errors.New("scripted: write on closed connection")
	}
	c.outbuf = append(c.outbuf, p...)
	for {
		i := bytes.Index(c.outbuf, []byte("\r\n\r\n"))
		if i < 0 {
			break
		}
		reqb := c.outbuf[:i+4]
		c.outbuf = c.outbuf[i+4:]
		m := reXID.FindSubmatch(reqb)
		if m == nil {
			panic("scripted server: request without X-Id: " + string(reqb))
		}
		id, _ := strconv.Atoi(string(m[1]))
		scs, ok := c.nw.scripts[id]
		if !ok {
			panic("scripted server: no script for request")
		}
		a := c.nw.seen[id] // which attempt of the call this is
		c.nw.seen[id]++
		if a >= len(scs) {
			a = len(scs) - 1
		}
		sc := scs[a]
		if sc.WFail {
			return 0, errors.New("scripted: write failure")
		}
		if c.srvClosed {
			continue
		}
		c.send(len(c.pending)) // whatever the server was holding back goes out before it looks at the next request
		if wfResp(sc.Resp) {   // the model's server never produces an ill-formed response: nothing is sent then
			c.pending = append(c.pending, wireChunks(id, bytes.HasPrefix(reqb, []byte("HEAD ")), sc.Resp, sc.Interim)...)
			c.send(sc.Send)
		}
		if sc.Close {
			c.srvClosed = true
		}
	}
	return len(p), nil
}

func wfResp(r respD) bool { return r.Head.Fr != "len" || len(r.Body) == r.Head.N }

func (c *fconn) Read(p []byte) (int, error) {
	if c.closed {
		return 0, errors.New("scripted: read on closed connection")
	}
	if len(c.cur) == 0 {
		switch {
		case len(c.ready) > 0:
			c.cur = c.ready[0]
			c.ready = c.ready[1:]
		case c.srvClosed:
			return 0, io.EOF
		case !c.rdl.IsZero():
			if debug {
				fmt.Fprintf(os.Stderr, "conn %d: Read times out (pending %d)\n", c.id, len(c.pending))
			}
			return 0, timeoutErr{}
		default:
			panic("scripted connection: Read would block for ever (no deadline set)")
		}
	}
	n := copy(p, c.cur)
	c.cur = c.cur[n:]
	return n, nil
}

func (c *fconn) Close() error                       { c.closed = true; return nil }
func (c *fconn) LocalAddr() net.Addr                { return faddr{} }
func (c *fconn) RemoteAddr() net.Addr               { return faddr{} }
func (c *fconn) SetDeadline(t time.Time) error      { c.rdl = t; return nil }
func (c *fconn) SetReadDeadline(t time.Time) error  { c.rdl = t; return nil }
func (c *fconn) SetWriteDeadline(t time.Time) error { return nil }

// ---- sequential replay ------------------------------------------------------------------------

func classify(err error) uint64 {
	switch {
	case err == nil:
		return 0
	case errors.Is(err, fasthttp.ErrNoFreeConns):
		return 9
	case errors.Is(err, fasthttp.ErrBodyTooLarge):
		return 2
	case errors.Is(err, fasthttp.ErrTimeout):
		return 1
	}
	var te interface{ Timeout() bool }
	if errors.As(err, &te) && te.Timeout() {
		return 1
	}
	return 3
}

type openStream struct {
	resp   *fasthttp.Response
	conn   *fconn
	shared bool
}

// how the caller manages its Request/Response values: the flags the caller sets are written only when the CALLER changes them, so
// anything the library leaves behind in a re-used value (SkipBody after HEAD, Connection: close after MaxConnDuration, ...) stays
type callerObjs struct {
	mode                            string
	streamCfg                       bool
	req                             *fasthttp.Request
	resp                            *fasthttp.Response
	busy                            bool // the shared Response has an open body stream
	skip, stream, reqClose, started bool
}

var objs *callerObjs

type doer interface {
	Do(req *fasthttp.Request, resp *fasthttp.Response) error
	DoTimeout(req *fasthttp.Request, resp *fasthttp.Response, timeout time.Duration) error
	DoDeadline(req *fasthttp.Request, resp *fasthttp.Response, deadline time.Time) error
	CloseIdleConnections()
	IdleConnsCount() int
	ConnsCount() int
}

func runSeq(d desc) (obs [][]uint64) {
	nw := &fnet{scripts: map[int][]scriptD{}, seen: map[int]int{}, lastConn: -1}
	attempts := d.Attempts
	if attempts < 1 {
		attempts = 1
	}
	var hc doer
	if d.Client {
		c := &fasthttp.Client{
			MaxConnsPerHost: d.MaxConns, MaxIdemponentCallAttempts: attempts,
			ReadTimeout: time.Hour, MaxResponseBodySize: d.Max * U, Dial: nw.dial,
		}
		if d.Reset {
			c.MaxConnDuration = time.Nanosecond
		}
		if d.Lifo {
			c.ConnPoolStrategy = fasthttp.LIFO
		}
		c.StreamResponseBody = d.StreamCfg
		hc = c
	} else {
		h := &fasthttp.HostClient{
			Addr: "scripted:80", MaxConns: d.MaxConns, MaxIdemponentCallAttempts: attempts,
			ReadTimeout: time.Hour, MaxResponseBodySize: d.Max * U, Dial: nw.dial,
		}
		if d.Reset {
			h.MaxConnDuration = time.Nanosecond
		}
		if d.Lifo {
			h.ConnPoolStrategy = fasthttp.LIFO
		}
		h.StreamResponseBody = d.StreamCfg
		hc = h
	}
	objs = &callerObjs{mode: d.Objs, streamCfg: d.StreamCfg, req: &fasthttp.Request{}, resp: &fasthttp.Response{}}
	streams := map[int]*openStream{}
	pool := func() []uint64 { return []uint64{uint64(hc.IdleConnsCount()), uint64(hc.ConnsCount())} }
	for _, op := range d.Ops {
		nobs := len(obs)
		if msg := hlib.Protect(func() { obs = runOp(nw, hc, streams, pool, op, obs) }); msg != "" {
			if debug {
				fmt.Fprintln(os.Stderr, "panic in the code under test:", msg)
			}
			obs = append(obs[:nobs], []uint64{7})
		}
	}
	return obs
}

func runOp(nw *fnet, hc doer, streams map[int]*openStream, pool func() []uint64, op opD, obs [][]uint64) [][]uint64 {
	{
		switch op.Op {
		case "call":
			o, sc := *op.Opts, *op.Sc
			var req *fasthttp.Request
			var resp *fasthttp.Response
			shared := objs.mode == "shared" && !objs.busy
			switch {
			case shared:
				req, resp = objs.req, objs.resp
				if !objs.started || objs.skip != o.Skip {
					resp.SkipBody = o.Skip
				}
				if (!objs.started || objs.stream != o.Stream) && !objs.streamCfg {
					resp.StreamBody = o.Stream
				}
				if o.ReqClose && !objs.reqClose {
					req.SetConnectionClose()
				} else if !o.ReqClose && objs.reqClose {
					req.Header.ResetConnectionClose()
				}
				objs.skip, objs.stream, objs.reqClose, objs.started = o.Skip, o.Stream, o.ReqClose, true
			case objs.mode == "pool":
				req, resp = fasthttp.AcquireRequest(), fasthttp.AcquireResponse()
				defer fasthttp.ReleaseRequest(req)
			default:
				req, resp = fasthttp.AcquireRequest(), &fasthttp.Response{}
			}
			if !shared {
				if o.ReqClose {
					req.SetConnectionClose()
				}
				if !objs.streamCfg {
					resp.StreamBody = o.Stream
				}
				resp.SkipBody = o.Skip
			}
			req.SetRequestURI("http://scripted/")
			if o.Head {
				req.Header.SetMethod("HEAD")
			} else {
				req.Header.SetMethod("GET")
			}
			req.Header.Set("X-Id", strconv.Itoa(op.T))
			nw.scripts[op.T] = append([]scriptD{sc}, op.More...)
			nw.lastConn = -1
			var err error
			switch o.API {
			case "timeout":
				err = hc.DoTimeout(req, resp, time.Hour)
			case "deadline":
				err = hc.DoDeadline(req, resp, time.Now().Add(time.Hour))
			default:
				err = hc.Do(req, resp)
			}
			code := classify(err)
			if code == 9 {
				obs = append(obs, []uint64{9})
				break
			}
			ob := append([]uint64{code, uint64(nw.lastConn)}, pool()...)
			if err == nil {
				ob = append(ob, encHdr(resp))
				if resp.BodyStream() != nil {
					streams[op.T] = &openStream{resp: resp, conn: nw.conns[nw.lastConn], shared: shared}
					if shared {
						objs.busy = true
					}
				} else {
					ob = append(ob, encBody(resp.Body())...)
				}
			}
			if objs.mode == "pool" && streams[op.T] == nil {
				fasthttp.ReleaseResponse(resp)
			}
			obs = append(obs, ob)
		case "more":
			if s := streams[op.T]; s != nil {
				s.conn.send(op.N)
				if op.Close {
					s.conn.srvClosed = true
				}
			}
			obs = append(obs, []uint64{})
		case "conn":
			if debug && op.T < len(nw.conns) {
				c := nw.conns[op.T]
				fmt.Fprintf(os.Stderr, "conn %d: closed=%v srvClosed=%v pending=%d ready=%d\n", op.T, c.closed, c.srvClosed, len(c.pending), len(c.ready))
			}
			if op.T < len(nw.conns) && !nw.conns[op.T].closed {
				nw.conns[op.T].send(op.N)
				if op.Close {
					nw.conns[op.T].srvClosed = true
				}
			}
			obs = append(obs, []uint64{})
		case "sread":
			s := streams[op.T]
			if s == nil {
				obs = append(obs, []uint64{99})
				break
			}
			status := uint64(0)
			var units []uint64
			buf := make([]byte, U)
			for i := 0; i < op.N; i++ {
				m, err := io.ReadFull(s.resp.BodyStream(), buf)
				if m == U {
					units = append(units, encUnit(buf))
					continue
				}
				if m == 0 && err == io.EOF {
					status = 1
				} else {
					status = 2
					if debug {
						fmt.Fprintf(os.Stderr, "sread t=%d: m=%d err=%v\n", op.T, m, err)
					}
				}
				break
			}
			obs = append(obs, append([]uint64{status}, units...))
		case "sclose":
			s := streams[op.T]
			if s == nil {
				obs = append(obs, []uint64{99})
				break
			}
			if op.Close {
				fasthttp.VerifC04CloseBodyStreamErr(s.resp, errors.New("scripted: passing the body on failed"))
			} else {
				s.resp.CloseBodyStream()
			}
			delete(streams, op.T)
			if s.shared {
				objs.busy = false
			}
			if objs.mode == "pool" {
				fasthttp.ReleaseResponse(s.resp)
			}
			obs = append(obs, pool())
		case "clean":
			hc.CloseIdleConnections()
			obs = append(obs, pool())
		}
	}
	return obs
}

// ---- Coq rendering ------------------------------------------------------------------------------

func nat(n int) string { return strconv.Itoa(n) + "%nat" }

func coqHead(h headD) string {
	fr := "FIdent"
	switch h.Fr {
	case "len":
		fr = "(FLen " + nat(h.N) + ")"
	case "chunked":
		fr = "FChunked"
	}
	return hlib.App("mkHead", fr, hlib.Bool(h.Close), hlib.Bool(h.NoBody))
}

func coqResp(r respD) string {
	items := make([]string, len(r.Body))
	for i, u := range r.Body {
		if u == nil {
			items[i] = "None"
		} else {
			items[i] = hlib.Some(coqHead(*u))
		}
	}
	return hlib.App("mkResp", coqHead(r.Head), hlib.List(items))
}

func coqOp(op opD) string {
	switch op.Op {
	case "call":
		k := "KGet"
		if op.Opts.Head {
			k = "KHead"
		}
		o := hlib.App("mkOpts", k, hlib.Bool(op.Opts.ReqClose), hlib.Bool(op.Opts.Stream), hlib.Bool(op.Opts.Skip))
		scs := []string{}
		for _, sc := range append([]scriptD{*op.Sc}, op.More...) {
			scs = append(scs, hlib.App("mkScript", coqResp(sc.Resp), nat(sc.Send), hlib.Bool(sc.Close), hlib.Bool(sc.WFail)))
		}
		return hlib.App("OpCall", nat(op.T), o, hlib.List(scs))
	case "more":
		return hlib.App("OpSrvMore", nat(op.T), nat(op.N), hlib.Bool(op.Close))
	case "conn":
		return hlib.App("OpSrvConn", nat(op.T), nat(op.N), hlib.Bool(op.Close))
	case "sread":
		return hlib.App("OpStreamRead", nat(op.T), nat(op.N))
	case "sclose":
		return hlib.App("OpCloseStream", nat(op.T), hlib.Bool(op.Close))
	}
	return "OpCleanIdle"
}

func nlist(v []uint64) string {
	it := make([]string, len(v))
	for i, x := range v {
		it[i] = hlib.N(x)
	}
	return hlib.List(it)
}

// ---- concurrent histories -------------------------------------------------------------------------

type hcall struct {
	id     int
	isHead bool
	code   uint64
	hdr    uint64
	body   []uint64
}

var reTok = regexp.MustCompile(`id=(\d+);`)

func bodyIDs(b []byte) []uint64 {
	seen := map[uint64]bool{}
	var out []uint64
	for _, m := range reTok.FindAllSubmatch(b, -1) {
		v, _ := strconv.ParseUint(string(m[1]), 10, 64)
		if v >= P {
			v -= P // the crafted part of response v-P: still bytes of that response (a crafted *header* keeps its P)
		}
		if !seen[v] {
			seen[v] = true
			out = append(out, v)
		}
	}
	if len(b) > 0 && len(out) == 0 && len(b) >= 16 {
		out = append(out, 999999999) // a body without a single token: not ours
	}
	return out
}

func tokens(id, n int) []byte {
	t := []byte(fmt.Sprintf("id=%d;", id))
	var b []byte
	for len(b) < n {
		b = append(b, t...)
	}
	return b[:n-n%len(t)]
}

// behaviour of one request, derived from (seed, id) on both sides
type beh struct {
	mode    string // full | tail | cut | close | chunked | big | ident | notmod
	pad     int    // filler bytes before the crafted response
	fakeLen int    // body length announced by the crafted response
	delay   time.Duration
	head    bool
	stream  bool
	early   bool // close the streamed body after exactly pad bytes
	timeout time.Duration
	skip    bool
}

func behOf(seed int64, id int, withSkip bool) beh {
	r := rand.New(rand.NewSource(seed*1000003 + int64(id)))
	b := beh{pad: 6 * (20 + r.Intn(200)), fakeLen: 8 * (2 + r.Intn(8)), delay: time.Duration(r.Intn(4)) * time.Millisecond}
	b.mode = hlib.Pick(r, []string{"full", "full", "tail", "tail", "cut", "close", "chunked", "chunked", "big", "big", "ident", "notmod"})
	b.head = r.Intn(6) == 0
	b.stream = r.Intn(3) == 0
	b.early = r.Intn(2) == 0
	if r.Intn(4) == 0 {
		b.timeout = time.Duration(1+r.Intn(4)) * time.Millisecond
	}
	if withSkip && !b.head && r.Intn(8) == 0 {
		b.skip = true
	}
	return b
}

const stressMaxBody = 3000

// respBytes builds head and body pieces of the response to a GET.
func stressBody(id int, b beh) (pre, fake []byte) {
	pre = tokens(id, b.pad)
	fb := tokens(P+id, b.fakeLen)
	fake = []byte(fmt.Sprintf("HTTP/1.1 200 OK\r\nX-Id: %d\r\nContent-Length: %d\r\n\r\n%s", P+id, len(fb), fb))
	if b.mode == "big" {
		pre = tokens(id, stressMaxBody+6*(1+b.pad/6))
	}
	return pre, fake
}

func stressServe(c net.Conn, seed int64, withSkip bool, wg *sync.WaitGroup) {
	defer wg.Done()
	defer c.Close()
	br := bufio.NewReader(c)
	var req fasthttp.Request
	for {
		if err := req.Read(br); err != nil {
			return
		}
		id, redirect := reqID(&req)
		if redirect { // first hop of a redirected call: 302 to the real resource, with a body that carries the id as well
			body := tokens(id, 60)
			if _, err := fmt.Fprintf(c, "HTTP/1.1 302 Found\r\nX-Id: %d\r\nLocation: /i%d\r\nContent-Length: %d\r\n\r\n%s", id, id, len(body), body); err != nil {
				return
			}
			continue
		}
		b := behOf(seed, id, withSkip)
		isHead := req.Header.IsHead()
		pre, fake := stressBody(id, b)
		total := len(pre) + len(fake)
		var w bytes.Buffer
		switch {
		case b.mode == "notmod":
			fmt.Fprintf(&w, "HTTP/1.1 304 Not Modified\r\nX-Id: %d\r\nContent-Length: %d\r\n\r\n", id, total)
			if _, err := c.Write(w.Bytes()); err != nil {
				return
			}
			continue
		case isHead:
			fmt.Fprintf(&w, "HTTP/1.1 200 OK\r\nX-Id: %d\r\nContent-Length: %d\r\n\r\n", id, total)
			if _, err := c.Write(w.Bytes()); err != nil {
				return
			}
			continue
		case b.mode == "chunked" && id%2 == 0:
			// one chunk holding filler and crafted response: a caller that stops after the filler leaves the crafted response
			// (sent later) at the front of the unread tail
			fmt.Fprintf(&w, "HTTP/1.1 200 OK\r\nX-Id: %d\r\nTransfer-Encoding: chunked\r\n\r\n%x\r\n%s", id, total, pre)
			if _, err := c.Write(w.Bytes()); err != nil {
				return
			}
			time.Sleep(b.delay + time.Millisecond)
			if _, err := c.Write(append(append([]byte(nil), fake...), "\r\n0\r\n\r\n"...)); err != nil {
				return
			}
			continue
		case b.mode == "chunked":
			fmt.Fprintf(&w, "HTTP/1.1 200 OK\r\nX-Id: %d\r\nTransfer-Encoding: chunked\r\n\r\n%x\r\n%s\r\n", id, len(pre), pre)
			if _, err := c.Write(w.Bytes()); err != nil {
				return
			}
			time.Sleep(b.delay)
			if _, err := c.Write([]byte(fmt.Sprintf("%x\r\n%s\r\n0\r\n\r\n", len(fake), fake))); err != nil {
				return
			}
			continue
		case b.mode == "ident":
			fmt.Fprintf(&w, "HTTP/1.1 200 OK\r\nX-Id: %d\r\n\r\n%s", id, pre)
			if _, err := c.Write(w.Bytes()); err != nil {
				return
			}
			time.Sleep(b.delay + time.Millisecond)
			c.Write(fake)
			return
		}
		if id%7 == 3 {
			w.Write(interimBytes(id, 1+id%3))
		}
		fmt.Fprintf(&w, "HTTP/1.1 200 OK\r\nX-Id: %d\r\nContent-Length: %d\r\n", id, total)
		if b.mode == "close" {
			w.WriteString("Connection: close\r\n")
		}
		w.WriteString("\r\n")
		w.Write(pre)
		if _, err := c.Write(w.Bytes()); err != nil {
			return
		}
		switch b.mode {
		case "cut":
			c.Write(fake[:len(fake)/2])
			return
		case "tail", "big":
			time.Sleep(b.delay)
		}
		if _, err := c.Write(fake); err != nil {
			return
		}
		if b.mode == "close" {
			return
		}
	}
}

// reqID: the id of a request comes in the X-Id header or, for the APIs that take only a URL, in the path: /i<id>, or /r<id> for a
// request that is to be redirected to /i<id> first
func reqID(req *fasthttp.Request) (id int, redirect bool) {
	if v := req.Header.Peek("X-Id"); len(v) > 0 && !bytes.HasPrefix(req.URI().Path(), []byte("/r")) {
		id, _ = strconv.Atoi(string(v))
		return id, false
	}
	p := req.URI().Path()
	if len(p) > 2 {
		id, _ = strconv.Atoi(string(p[2:]))
		return id, p[1] == 'r'
	}
	return 0, false
}

// runAPI: the entry points that hand out a response without the caller touching Request/Response: Get, GetTimeout, GetDeadline, Post on
// Client and HostClient (pooled Request/Response, redirect loop, the goroutine + pooled channel of the deadline variants whose call
// is abandoned on timeout), DoRedirects, and LBClient.Do/DoTimeout/DoDeadline over two HostClients.
func runAPI(d desc) []hcall {
	var swg sync.WaitGroup
	dial := func(addr string) (net.Conn, error) {
		pc := fasthttputil.NewPipeConns()
		swg.Add(1)
		go stressServe(pc.Conn2(), d.Seed, false, &swg)
		return pc.Conn1(), nil
	}
	cl := &fasthttp.Client{Dial: dial, MaxConnsPerHost: d.MaxConns, MaxConnWaitTimeout: 200 * time.Millisecond,
		MaxResponseBodySize: stressMaxBody, ReadTimeout: 300 * time.Millisecond}
	newHC := func() *fasthttp.HostClient {
		return &fasthttp.HostClient{Addr: "api:80", Dial: dial, MaxConns: d.MaxConns, MaxConnWaitTimeout: 200 * time.Millisecond,
			MaxResponseBodySize: stressMaxBody, ReadTimeout: 300 * time.Millisecond}
	}
	hc := newHC()
	lb := &fasthttp.LBClient{Clients: []fasthttp.BalancingClient{newHC(), newHC()}, Timeout: 300 * time.Millisecond}
	if !d.Retry {
		cl.MaxIdemponentCallAttempts, hc.MaxIdemponentCallAttempts = 1, 1
	}
	var mu sync.Mutex
	var hist []hcall
	var wg sync.WaitGroup
	for w := 0; w < d.Workers; w++ {
		wg.Add(1)
		go func(w int) {
			defer wg.Done()
			var dst []byte
			for j := 0; j < d.PerW; j++ {
				id := w*d.PerW + j
				b := behOf(d.Seed, id, false)
				h := hcall{id: id, code: 7}
				hlib.Protect(func() {
					url := fmt.Sprintf("http://api/i%d", id)
					if id%3 == 0 {
						url = fmt.Sprintf("http://api/r%d", id)
					}
					to := 250 * time.Millisecond
					if b.timeout > 0 {
						to = b.timeout
					}
					var status int
					var body []byte
					var err error
					hdr := uint64(id) // the URL-only APIs do not expose headers
					viaDo := func(do func(req *fasthttp.Request, resp *fasthttp.Response) error) {
						req, resp := fasthttp.AcquireRequest(), fasthttp.AcquireResponse()
						req.SetRequestURI(url)
						req.Header.Set("X-Id", strconv.Itoa(id))
						err = do(req, resp)
						status = resp.StatusCode()
						body = append(dst[:0], resp.Body()...)
						if v, e := strconv.ParseUint(string(resp.Header.Peek("X-Id")), 10, 64); e == nil {
							hdr = v
						} else {
							hdr = 999999999
						}
						fasthttp.ReleaseRequest(req)
						fasthttp.ReleaseResponse(resp)
					}
					switch (id / 3) % 12 {
					case 0:
						status, body, err = cl.Get(dst[:0], url)
					case 1:
						status, body, err = cl.GetTimeout(dst[:0], url, to)
					case 2:
						status, body, err = cl.GetDeadline(dst[:0], url, time.Now().Add(to))
					case 3:
						args := fasthttp.AcquireArgs()
						args.Set("id", strconv.Itoa(id))
						status, body, err = cl.Post(dst[:0], url, args)
						fasthttp.ReleaseArgs(args)
					case 4:
						viaDo(func(req *fasthttp.Request, resp *fasthttp.Response) error { return cl.DoRedirects(req, resp, 3) })
					case 5:
						status, body, err = hc.Get(dst[:0], url)
					case 6:
						status, body, err = hc.GetTimeout(dst[:0], url, to)
					case 7:
						status, body, err = hc.Post(dst[:0], url, nil)
					case 8:
						viaDo(func(req *fasthttp.Request, resp *fasthttp.Response) error { return hc.DoRedirects(req, resp, 3) })
					case 9:
						url = fmt.Sprintf("http://api/i%d", id) // LBClient does not follow redirects
						viaDo(lb.Do)
					case 10:
						url = fmt.Sprintf("http://api/i%d", id)
						viaDo(func(req *fasthttp.Request, resp *fasthttp.Response) error { return lb.DoTimeout(req, resp, to) })
					default:
						url = fmt.Sprintf("http://api/i%d", id)
						viaDo(func(req *fasthttp.Request, resp *fasthttp.Response) error {
							return lb.DoDeadline(req, resp, time.Now().Add(to))
						})
					}
					dst = body
					h = hcall{id: id, code: 7}
					if err == nil {
						_ = status
						h.hdr = hdr
						h.body = bodyIDs(body)
					}
					h.code = classify(err)
				})
				mu.Lock()
				hist = append(hist, h)
				mu.Unlock()
			}
		}(w)
	}
	if !waitOrGiveUp(&wg) {
		return snapshot(&mu, &hist, true)
	}
	// calls abandoned by GetTimeout/GetDeadline are still running: let them finish before the next case
	time.Sleep(50 * time.Millisecond)
	return snapshot(&mu, &hist, false)
}

func runStress(d desc) []hcall {
	var swg sync.WaitGroup
	hc := &fasthttp.HostClient{
		Addr: "stress:80", MaxConns: d.MaxConns, MaxConnWaitTimeout: 200 * time.Millisecond, MaxResponseBodySize: stressMaxBody,
		ReadTimeout: 300 * time.Millisecond,
		Dial: func(addr string) (net.Conn, error) {
			pc := fasthttputil.NewPipeConns()
			swg.Add(1)
			go stressServe(pc.Conn2(), d.Seed, d.Skip, &swg)
			return pc.Conn1(), nil
		},
	}
	if !d.Retry {
		hc.MaxIdemponentCallAttempts = 1
	}
	var mu sync.Mutex
	var hist []hcall
	var wg sync.WaitGroup
	for w := 0; w < d.Workers; w++ {
		wg.Add(1)
		go func(w int) {
			defer wg.Done()
			for j := 0; j < d.PerW; j++ {
				id := w*d.PerW + j
				b := behOf(d.Seed, id, d.Skip)
				h := hcall{id: id, isHead: b.head, code: 7}
				hlib.Protect(func() { // a panic of the code under test is recorded as outcome 7
					req := fasthttp.AcquireRequest()
					resp := &fasthttp.Response{}
					req.SetRequestURI("http://stress/")
					if b.head {
						req.Header.SetMethod("HEAD")
					}
					req.Header.Set("X-Id", strconv.Itoa(id))
					resp.StreamBody = b.stream
					resp.SkipBody = b.skip
					var err error
					if b.timeout > 0 {
						err = hc.DoTimeout(req, resp, b.timeout)
					} else {
						err = hc.Do(req, resp)
					}
					h = hcall{id: id, isHead: b.head, code: 7}
					if err == nil {
						if v, e := strconv.ParseUint(string(resp.Header.Peek("X-Id")), 10, 64); e == nil {
							h.hdr = v
						} else {
							h.hdr = 999999999
						}
						if bs := resp.BodyStream(); bs != nil {
							var got []byte
							if b.early {
								pre, _ := stressBody(id, b)
								buf := make([]byte, len(pre))
								n, _ := io.ReadFull(bs, buf)
								got = buf[:n]
							} else {
								got, _ = io.ReadAll(bs)
							}
							resp.CloseBodyStream()
							h.body = bodyIDs(got)
						} else {
							h.body = bodyIDs(resp.Body())
						}
					}
					h.code = classify(err)
					fasthttp.ReleaseRequest(req)
				})
				mu.Lock()
				hist = append(hist, h)
				mu.Unlock()
			}
		}(w)
	}
	if !waitOrGiveUp(&wg) {
		return snapshot(&mu, &hist, true)
	}
	hc.CloseIdleConnections()
	return snapshot(&mu, &hist, false)
}

// waitOrGiveUp waits for the workers of a concurrent history.  If the code under test hangs (workers stuck for 15 s although every
// call has a deadline) the history recorded so far is kept, marked with an outcome-8 entry, and the run goes on: the stuck
// goroutines are abandoned, so that the cases already run are still evaluated.
func waitOrGiveUp(wg *sync.WaitGroup) bool {
	done := make(chan struct{})
	go func() { wg.Wait(); close(done) }()
	select {
	case <-done:
		return true
	case <-time.After(15 * time.Second):
		return false
	}
}

func snapshot(mu *sync.Mutex, hist *[]hcall, hung bool) []hcall {
	mu.Lock()
	defer mu.Unlock()
	out := append([]hcall(nil), (*hist)...)
	if hung {
		out = append(out, hcall{id: 999999, code: 8})
	}
	return out
}

// PipelineClient history
func pipeServe(c net.Conn, seed int64, wg *sync.WaitGroup) {
	defer wg.Done()
	defer c.Close()
	br := bufio.NewReader(c)
	var req fasthttp.Request
	served := 0
	for {
		if err := req.Read(br); err != nil {
			return
		}
		id, _ := strconv.Atoi(string(req.Header.Peek("X-Id")))
		b := behOf(seed, id, false)
		pre, fake := stressBody(id, beh{pad: b.pad, fakeLen: b.fakeLen})
		total := len(pre) + len(fake)
		time.Sleep(b.delay / 2)
		head := fmt.Sprintf("HTTP/1.1 200 OK\r\nX-Id: %d\r\nContent-Length: %d\r\n\r\n", id, total)
		if req.Header.IsHead() {
			if _, err := c.Write([]byte(head)); err != nil {
				return
			}
		} else {
			if _, err := c.Write(append([]byte(head), pre...)); err != nil {
				return
			}
			if b.mode == "cut" && served > 3 {
				c.Write(fake[:len(fake)/2])
				return
			}
			if b.mode == "tail" {
				time.Sleep(b.delay)
			}
			if _, err := c.Write(fake); err != nil {
				return
			}
		}
		served++
	}
}

func runPipe(d desc) []hcall {
	var swg sync.WaitGroup
	pc := &fasthttp.PipelineClient{
		Addr: "pipe:80", MaxConns: 1 + int(d.Seed/3%2), MaxPendingRequests: 4 + int(d.Seed%3)*14, ReadTimeout: 300 * time.Millisecond,
		Logger: nopLogger{},
		Dial: func(addr string) (net.Conn, error) {
			p := fasthttputil.NewPipeConns()
			swg.Add(1)
			go pipeServe(p.Conn2(), d.Seed, &swg)
			return p.Conn1(), nil
		},
	}
	var mu sync.Mutex
	var hist []hcall
	var wg sync.WaitGroup
	for w := 0; w < d.Workers; w++ {
		wg.Add(1)
		go func(w int) {
			defer wg.Done()
			for j := 0; j < d.PerW; j++ {
				id := w*d.PerW + j
				b := behOf(d.Seed, id, false)
				req := fasthttp.AcquireRequest()
				resp := fasthttp.AcquireResponse()
				req.SetRequestURI("http://pipe/")
				if b.head {
					req.Header.SetMethod("HEAD")
				}
				req.Header.Set("X-Id", strconv.Itoa(id))
				var err error
				if id%5 == 4 {
					err = pc.Do(req, resp) // no deadline: overflow substitution path when the queue is full
				} else if b.timeout > 0 {
					err = pc.DoTimeout(req, resp, b.timeout+2*time.Millisecond)
				} else if b.stream {
					err = pc.DoDeadline(req, resp, time.Now().Add(250*time.Millisecond))
				} else {
					err = pc.DoTimeout(req, resp, 400*time.Millisecond)
				}
				h := hcall{id: id, isHead: b.head, code: classify(err)}
				if err == nil {
					if v, e := strconv.ParseUint(string(resp.Header.Peek("X-Id")), 10, 64); e == nil {
						h.hdr = v
					} else {
						h.hdr = 999999999
					}
					h.body = bodyIDs(resp.Body())
				}
				mu.Lock()
				hist = append(hist, h)
				mu.Unlock()
			}
		}(w)
	}
	return snapshot(&mu, &hist, !waitOrGiveUp(&wg))
}

type nopLogger struct{}

func (nopLogger) Printf(string, ...any) {}

func coqHist(h []hcall) string {
	it := make([]string, len(h))
	for i, c := range h {
		it[i] = hlib.App("mkH", hlib.N(uint64(c.id)), hlib.Bool(c.isHead), hlib.N(c.code), hlib.N(c.hdr), nlist(c.body))
	}
	return hlib.App("C04Hist", hlib.List(it))
}

// ---- generator ----------------------------------------------------------------------------------

func genHead(r *rand.Rand, n int) headD {
	h := headD{Fr: hlib.Pick(r, []string{"len", "len", "len", "chunked", "ident"}), N: n}
	if h.Fr != "len" {
		h.N = 0
	}
	h.Close = r.Intn(7) == 0
	return h
}

func genResp(r *rand.Rand) respD {
	n := r.Intn(6)
	if r.Intn(5) == 0 {
		n = 0
	}
	resp := respD{Head: genHead(r, n), Body: make([]*headD, n)}
	if r.Intn(12) == 0 {
		resp.Head.NoBody = true
		if resp.Head.Fr == "chunked" {
			resp.Head.Fr = "len"
			resp.Head.N = n
		}
	}
	if r.Intn(40) == 0 && resp.Head.Fr == "len" { // ill-formed: the model's server sends nothing
		resp.Head.N = n + 1
	}
	// crafted units: a complete response head followed by exactly the body it announces
	if n >= 1 && r.Intn(2) == 0 {
		at := r.Intn(n)
		m := n - at - 1
		if r.Intn(3) == 0 && m > 0 {
			m = r.Intn(m + 1)
		}
		fh := headD{Fr: "len", N: m, Close: r.Intn(8) == 0}
		if r.Intn(8) == 0 {
			fh = headD{Fr: "chunked"}
		}
		resp.Body[at] = &fh
	}
	return resp
}

func wireLen(isHead bool, r respD) int {
	if isHead || r.Head.NoBody {
		return 1
	}
	n := 1 + len(r.Body)
	if r.Head.Fr == "chunked" {
		n++
		if len(r.Body) > 0 {
			n++
		}
	}
	return n
}

func genSeq(r *rand.Rand) desc {
	d := desc{Kind: "seq", Max: hlib.Pick(r, []int{0, 0, 2, 3, 4}), MaxConns: 1 + r.Intn(3), Reset: r.Intn(15) == 0, Lifo: r.Intn(2) == 0, Client: r.Intn(3) == 0, Objs: hlib.Pick(r, []string{"", "", "shared", "pool"}), Attempts: hlib.Pick(r, []int{1, 1, 2, 3}), StreamCfg: r.Intn(6) == 0}
	ncalls := 2 + r.Intn(7)
	var open []int
	skipAllowed := r.Intn(4) == 0
	for t := 0; t < ncalls; t++ {
		o := optsD{Head: r.Intn(6) == 0, ReqClose: r.Intn(12) == 0, Stream: r.Intn(5) < 2, API: hlib.Pick(r, []string{"do", "do", "timeout", "deadline"})}
		if d.StreamCfg {
			o.Stream = true
		}
		if o.Head && r.Intn(3) == 0 {
			o.Skip = true
		}
		if skipAllowed && !o.Head && r.Intn(3) == 0 {
			o.Skip = true
		}
		resp := genResp(r)
		wl := wireLen(o.Head, resp)
		sc := scriptD{Resp: resp, Send: wl + 1}
		switch r.Intn(12) {
		case 0:
			sc.Send = r.Intn(wl + 1) // stall: timeout
		case 1:
			sc.Send = r.Intn(wl + 1)
			sc.Close = true // truncated
		case 2:
			sc.Close = true // complete, then a silent close
		case 3:
			sc.WFail = r.Intn(2) == 0
		}
		if o.Stream && r.Intn(3) == 0 {
			sc.Send = 1 + r.Intn(wl) // the rest comes later (OpSrvMore)
		}
		if r.Intn(8) == 0 {
			sc.Interim = 1 + r.Intn(3)
		}
		var more []scriptD
		for a := 1; a < d.Attempts; a++ { // what the server does with the retries of this call
			m := scriptD{Resp: resp, Send: wl + 1}
			switch r.Intn(5) {
			case 0:
				m.Send = r.Intn(wl + 1)
			case 1:
				m.Send, m.Close = r.Intn(wl+1), true
			case 2:
				m.WFail = true
			}
			more = append(more, m)
		}
		d.Ops = append(d.Ops, opD{Op: "call", T: t, Opts: &o, Sc: &sc, More: more})
		if o.Stream {
			open = append(open, t)
		}
		// stream operations on some open stream
		for len(open) > 0 && r.Intn(3) != 0 {
			i := r.Intn(len(open))
			s := open[i]
			switch r.Intn(5) {
			case 0:
				d.Ops = append(d.Ops, opD{Op: "more", T: s, N: 1 + r.Intn(4), Close: r.Intn(4) == 0})
			case 1, 2:
				d.Ops = append(d.Ops, opD{Op: "sread", T: s, N: 1 + r.Intn(6)})
			default:
				d.Ops = append(d.Ops, opD{Op: "sclose", T: s, Close: r.Intn(6) == 0})
				open = append(open[:i], open[i+1:]...)
			}
		}
		if r.Intn(6) == 0 {
			d.Ops = append(d.Ops, opD{Op: "conn", T: r.Intn(3), N: 1 + r.Intn(6), Close: r.Intn(5) == 0})
		}
		if r.Intn(15) == 0 {
			d.Ops = append(d.Ops, opD{Op: "clean"})
		}
	}
	for _, s := range open {
		if r.Intn(2) == 0 {
			d.Ops = append(d.Ops, opD{Op: "sread", T: s, N: 8})
		}
		d.Ops = append(d.Ops, opD{Op: "sclose", T: s})
	}
	// one more call to see what the pool hands out
	last := optsD{API: "do"}
	resp := respD{Head: headD{Fr: "len", N: 1}, Body: []*headD{nil}}
	last.Stream = d.StreamCfg
	d.Ops = append(d.Ops, opD{Op: "call", T: ncalls, Opts: &last, Sc: &scriptD{Resp: resp, Send: 2}})
	if d.StreamCfg {
		d.Ops = append(d.Ops, opD{Op: "sread", T: ncalls, N: 2}, opD{Op: "sclose", T: ncalls})
	}
	return padAttempts(d)
}

// padAttempts gives every call exactly one script per attempt (the last one repeated)
func padAttempts(d desc) desc {
	n := d.Attempts
	if n < 1 {
		n = 1
	}
	for i := range d.Ops {
		op := &d.Ops[i]
		if op.Op != "call" {
			continue
		}
		all := append([]scriptD{*op.Sc}, op.More...)
		for len(all) < n {
			all = append(all, all[len(all)-1])
		}
		op.More = all[1:n]
	}
	return d
}

func gen(r *rand.Rand, i int) desc {
	switch {
	case i%40 == 7:
		return desc{Kind: "stress", Seed: r.Int63n(1 << 30), MaxConns: 2 + r.Intn(6), Workers: 16 + r.Intn(49), PerW: 4 + r.Intn(4), Retry: r.Intn(2) == 0, Skip: r.Intn(2) == 0}
	case i%40 == 31:
		return desc{Kind: "api", Seed: r.Int63n(1 << 30), MaxConns: 2 + r.Intn(6), Workers: 12 + r.Intn(30), PerW: 4 + r.Intn(4), Retry: r.Intn(2) == 0}
	case i%40 == 23:
		return desc{Kind: "pipe", Seed: r.Int63n(1 << 30), Workers: 8 + r.Intn(25), PerW: 4 + r.Intn(5)}
	}
	return genSeq(r)
}

// ---- corpus: directed scenarios ---------------------------------------------------------------------

func plain(n int) []*headD { return make([]*headD, n) }

func call(t int, o optsD, sc scriptD) opD { return opD{Op: "call", T: t, Opts: &o, Sc: &sc} }

func full(r respD) scriptD { return scriptD{Resp: r, Send: 100} }

func chunkedResp(n int) respD { return respD{Head: headD{Fr: "chunked"}, Body: plain(n)} }

func lenResp(n int) respD { return respD{Head: headD{Fr: "len", N: n}, Body: plain(n)} }

// a body whose unit [at] is a complete response head announcing the rest of the body as its own body
func crafted(fr string, n, at int) respD {
	r := respD{Head: headD{Fr: fr, N: n}, Body: plain(n)}
	if fr != "len" {
		r.Head.N = 0
	}
	r.Body[at] = &headD{Fr: "len", N: n - at - 1}
	return r
}

func corpus() []desc {
	get := optsD{}
	stream := optsD{Stream: true}
	head := optsD{Head: true}
	var c []desc
	add := func(max, maxconns int, ops ...opD) {
		for _, lifo := range []bool{false, true} {
			c = append(c, desc{Kind: "seq", Max: max, MaxConns: maxconns, Lifo: lifo, Ops: ops})
		}
	}
	// keep-alive reuse
	add(0, 1, call(0, get, full(lenResp(2))), call(1, get, full(lenResp(0))), call(2, get, full(crafted("len", 4, 1))), call(3, get, full(lenResp(1))))
	// streamed body larger than the limit, closed exactly where a crafted response starts: the connection must not be reused
	for at := 0; at < 4; at++ {
		add(2, 1, call(0, stream, full(crafted("len", 5, at))), opD{Op: "sread", T: 0, N: at}, opD{Op: "sclose", T: 0}, call(1, get, full(lenResp(1))))
	}
	// the same for every framing, with the tail held back by the server until after the close: it is delivered explicitly ("conn")
	// or when the next request arrives; the tail starts with a complete crafted response.  The connection must not be pooled.
	for _, fr := range []string{"len", "chunked", "ident"} {
		for k := 0; k <= 2; k++ {
			resp := crafted(fr, 5, k)
			if k == 2 {
				resp.Body[k] = &headD{Fr: "len", N: 1} // crafted response shorter than the tail
			}
			sent := 1 + k
			if fr == "chunked" {
				sent++
			}
			part := scriptD{Resp: resp, Send: sent}
			add(2, 1, call(0, stream, part), opD{Op: "sread", T: 0, N: k}, opD{Op: "sclose", T: 0}, opD{Op: "conn", T: 0, N: 9},
				call(1, get, full(lenResp(1))), call(2, get, full(lenResp(1))))
			add(2, 1, call(0, stream, part), opD{Op: "sread", T: 0, N: k}, opD{Op: "sclose", T: 0},
				call(1, get, full(lenResp(1))), call(2, head, full(lenResp(1))))
			add(0, 1, call(0, stream, part), opD{Op: "sread", T: 0, N: k}, opD{Op: "sclose", T: 0, Close: true}, opD{Op: "conn", T: 0, N: 9},
				call(1, get, full(lenResp(1))))
		}
	}
	// overlapping calls: Do(0) streamed, Do(1) (streamed or not) BEFORE body 0 is read, then body 0, then body 1, for every framing, on a
	// HostClient and on a Client (shared reader pool).  Each body must be its own response: the bufio.Reader a streamed body reads from
	// belongs to that stream until CloseBodyStream, whatever other calls do in between.
	for _, fr := range []string{"chunked", "ident", "len"} {
		mk := func() (respD, scriptD) {
			switch fr {
			case "chunked":
				return chunkedResp(4), full(chunkedResp(4))
			case "ident":
				r := respD{Head: headD{Fr: "ident"}, Body: plain(4)}
				return r, scriptD{Resp: r, Send: 9, Close: true}
			}
			return lenResp(4), full(lenResp(4))
		}
		r0, sc0 := mk()
		_, sc1 := mk()
		wl := wireLen(false, r0)
		part := scriptD{Resp: r0, Send: 2, Close: false}
		for _, cl := range []bool{false, true} {
			for _, second := range []optsD{stream, get} {
				ops := []opD{call(0, stream, sc0), call(1, second, sc1), {Op: "sread", T: 0, N: 9}}
				late := []opD{call(0, stream, part), call(1, second, sc1), {Op: "conn", T: 0, N: wl, Close: fr == "ident"}, {Op: "sread", T: 0, N: 9}}
				for _, o := range []*[]opD{&ops, &late} {
					if second.Stream {
						*o = append(*o, opD{Op: "sread", T: 1, N: 9})
					}
					*o = append(*o, opD{Op: "sclose", T: 0})
					if second.Stream {
						*o = append(*o, opD{Op: "sclose", T: 1})
					}
					*o = append(*o, call(2, get, full(lenResp(1))), call(3, stream, full(lenResp(1))), opD{Op: "sread", T: 3, N: 2}, opD{Op: "sclose", T: 3})
					c = append(c, desc{Kind: "seq", Max: 2, MaxConns: 2, Client: cl, Ops: *o})
				}
			}
		}
	}
	// ... read to the end: reused
	add(2, 1, call(0, stream, full(crafted("len", 5, 2))), opD{Op: "sread", T: 0, N: 5}, opD{Op: "sclose", T: 0}, call(1, get, full(lenResp(1))))
	add(2, 1, call(0, stream, full(crafted("len", 5, 2))), opD{Op: "sread", T: 0, N: 6}, opD{Op: "sclose", T: 0}, call(1, get, full(lenResp(1))))
	add(2, 1, call(0, stream, full(lenResp(4))), opD{Op: "sread", T: 0, N: 5}, opD{Op: "sclose", T: 0, Close: true}, call(1, get, full(lenResp(1))))
	// chunked stream: all data read but not the terminator / through EOF / early
	add(0, 1, call(0, stream, full(chunkedResp(3))), opD{Op: "sread", T: 0, N: 3}, opD{Op: "sclose", T: 0}, call(1, get, full(lenResp(1))))
	add(0, 1, call(0, stream, full(chunkedResp(3))), opD{Op: "sread", T: 0, N: 4}, opD{Op: "sclose", T: 0}, call(1, get, full(lenResp(1))))
	add(0, 1, call(0, stream, full(chunkedResp(3))), opD{Op: "sread", T: 0, N: 1}, opD{Op: "sclose", T: 0}, call(1, get, full(lenResp(1))))
	add(0, 1, call(0, stream, full(chunkedResp(3))), opD{Op: "sclose", T: 0}, call(1, get, full(lenResp(1))))
	// stream below the limit (body in memory, release deferred to the close)
	add(0, 2, call(0, stream, full(crafted("len", 3, 1))), call(1, get, full(lenResp(1))), opD{Op: "sread", T: 0, N: 2}, opD{Op: "sclose", T: 0}, call(2, get, full(lenResp(1))), call(3, get, full(lenResp(1))))
	add(4, 1, call(0, stream, full(lenResp(0))), opD{Op: "sread", T: 0, N: 1}, opD{Op: "sclose", T: 0}, call(1, get, full(lenResp(1))))
	// tail delivered later, server closes in the middle of a streamed body
	add(1, 1, call(0, stream, scriptD{Resp: lenResp(4), Send: 2}), opD{Op: "sread", T: 0, N: 2}, opD{Op: "more", T: 0, N: 2}, opD{Op: "sread", T: 0, N: 2}, opD{Op: "more", T: 0, N: 5}, opD{Op: "sread", T: 0, N: 2}, opD{Op: "sclose", T: 0}, call(1, get, full(lenResp(1))))
	add(1, 1, call(0, stream, scriptD{Resp: lenResp(4), Send: 3}), opD{Op: "more", T: 0, N: 1, Close: true}, opD{Op: "sread", T: 0, N: 5}, opD{Op: "sclose", T: 0}, call(1, get, full(lenResp(1))))
	// until-close bodies
	add(0, 1, call(0, get, scriptD{Resp: respD{Head: headD{Fr: "ident"}, Body: plain(3)}, Send: 9, Close: true}), call(1, get, full(lenResp(1))))
	add(0, 1, call(0, stream, scriptD{Resp: respD{Head: headD{Fr: "ident"}, Body: plain(3)}, Send: 9, Close: true}), opD{Op: "sread", T: 0, N: 9}, opD{Op: "sclose", T: 0}, call(1, get, full(lenResp(1))))
	add(2, 1, call(0, get, scriptD{Resp: respD{Head: headD{Fr: "ident"}, Body: plain(4)}, Send: 9, Close: true}), call(1, get, full(lenResp(1))))
	// HEAD with Content-Length, 304 with Content-Length, SkipBody on HEAD
	add(0, 1, call(0, head, full(crafted("len", 3, 0))), call(1, get, full(lenResp(1))), call(2, optsD{Head: true, Skip: true}, full(lenResp(2))), call(3, get, full(lenResp(1))))
	add(0, 1, call(0, get, full(respD{Head: headD{Fr: "len", N: 3, NoBody: true}, Body: plain(3)})), call(1, get, full(lenResp(1))))
	add(0, 1, call(0, head, full(respD{Head: headD{Fr: "ident"}, Body: plain(2)})), call(1, get, full(lenResp(1))))
	// 1xx interim responses in front of the final one (buffered, streamed, HEAD), then re-use
	add(2, 1, call(0, get, scriptD{Resp: lenResp(2), Send: 100, Interim: 1}), call(1, stream, scriptD{Resp: crafted("len", 4, 1), Send: 100, Interim: 3}),
		opD{Op: "sread", T: 1, N: 9}, opD{Op: "sclose", T: 1}, call(2, head, scriptD{Resp: lenResp(2), Send: 100, Interim: 2}), call(3, get, full(lenResp(1))))
	// Connection: close from either side, MaxConnDuration
	add(0, 1, call(0, get, full(respD{Head: headD{Fr: "len", N: 1, Close: true}, Body: plain(1)})), call(1, optsD{ReqClose: true}, full(lenResp(1))), call(2, get, full(lenResp(1))))
	c = append(c, desc{Kind: "seq", MaxConns: 1, Reset: true, Ops: []opD{call(0, get, full(lenResp(1))), call(1, stream, full(lenResp(1))), opD{Op: "sclose", T: 1}, call(2, get, full(lenResp(1)))}})
	// too large: buffered (close), chunked, boundary n = max
	add(2, 1, call(0, get, full(crafted("len", 3, 0))), call(1, get, full(lenResp(2))), call(2, get, full(chunkedResp(3))), call(3, get, full(respD{Head: headD{Fr: "chunked"}, Body: plain(2)})), call(4, get, full(lenResp(1))))
	// truncated, stalled, silent close, write failure on a pooled connection
	add(0, 1, call(0, get, scriptD{Resp: lenResp(3), Send: 2, Close: true}), call(1, get, scriptD{Resp: lenResp(3), Send: 2}), call(2, get, scriptD{Resp: lenResp(3), Send: 0}), call(3, get, scriptD{Resp: lenResp(1), Send: 9, Close: true}), call(4, get, full(lenResp(1))), call(5, get, full(lenResp(1))), call(6, get, scriptD{Resp: lenResp(1), Send: 9, WFail: true}), call(7, get, full(lenResp(1))))
	// a crafted unit read where a head is expected never happens on a clean connection; a response that starts with garbage is an error
	// two streams open, no free connection, clean
	add(1, 2, call(0, stream, full(lenResp(3))), call(1, stream, full(chunkedResp(2))), call(2, get, full(lenResp(1))), opD{Op: "sread", T: 1, N: 5}, opD{Op: "sclose", T: 1}, call(3, get, full(lenResp(1))), opD{Op: "sclose", T: 0}, opD{Op: "clean"}, call(4, get, full(lenResp(1))))
	// resp.SkipBody on a GET whose response carries a (crafted) body: the connection must be closed, or the next call gets the crafted response
	add(0, 1, call(0, optsD{Skip: true}, full(crafted("len", 3, 0))), call(1, get, full(lenResp(1))), call(2, get, full(lenResp(1))))
	add(0, 1, call(0, optsD{Skip: true, Stream: true}, full(crafted("len", 2, 0))), call(1, head, full(lenResp(1))), call(2, get, full(lenResp(1))))
	// HostClient.Do's retry loop: stall, truncation, write failure on a pooled connection, then success; no retry after ErrBodyTooLarge;
	// a retried streamed call; every attempt must use a connection of its own and the answer must be the one to the last attempt
	for _, cl := range []bool{false, true} {
		stall := scriptD{Resp: lenResp(2), Send: 0}
		cut := scriptD{Resp: lenResp(2), Send: 2, Close: true}
		wf := scriptD{Resp: lenResp(2), Send: 9, WFail: true}
		ok := full(crafted("len", 2, 0))
		retry := func(t int, o optsD, scs ...scriptD) opD {
			return opD{Op: "call", T: t, Opts: &o, Sc: &scs[0], More: scs[1:]}
		}
		c = append(c, padAttempts(desc{Kind: "seq", MaxConns: 2, Attempts: 3, Client: cl, Ops: []opD{
			retry(0, get, full(lenResp(1))), retry(1, get, stall, cut, ok), retry(2, get, wf, ok), retry(3, head, cut, cut, cut), retry(4, get, full(lenResp(1)))}}))
		c = append(c, padAttempts(desc{Kind: "seq", Max: 1, MaxConns: 2, Attempts: 2, Client: cl, Objs: "shared", Ops: []opD{
			retry(0, get, full(lenResp(2)), ok), retry(1, stream, cut, full(lenResp(3))), {Op: "sread", T: 1, N: 9}, {Op: "sclose", T: 1},
			retry(2, get, stall, full(lenResp(1))), retry(3, get, full(lenResp(1)))}}))
	}
	// concurrent histories
	c = append(c, desc{Kind: "stress", Seed: 11, MaxConns: 3, Workers: 24, PerW: 6, Retry: false})
	c = append(c, desc{Kind: "stress", Seed: 12, MaxConns: 4, Workers: 32, PerW: 5, Retry: true, Skip: true})
	c = append(c, desc{Kind: "pipe", Seed: 13, Workers: 16, PerW: 6})
	c = append(c, desc{Kind: "api", Seed: 14, MaxConns: 3, Workers: 24, PerW: 6, Retry: true})
	c = append(c, desc{Kind: "api", Seed: 15, MaxConns: 4, Workers: 36, PerW: 5})
	return c
}

// ---- run ------------------------------------------------------------------------------------------

func run(d desc) hlib.Case {
	switch d.Kind {
	case "stress", "pipe", "api":
		var h []hcall
		switch d.Kind {
		case "stress":
			h = runStress(d)
		case "api":
			h = runAPI(d)
		default:
			h = runPipe(d)
		}
		ok, bad := 0, 0
		for _, c := range h {
			if c.code == 0 {
				ok++
				if c.hdr != uint64(c.id) {
					bad++
				}
			}
		}
		return hlib.Case{Coq: coqHist(h), Kind: d.Kind, Size: len(h),
			Sig: fmt.Sprintf("%s/ok%d/err%d/bad%d", d.Kind, ok/8, (len(h)-ok)/8, bad)}
	}
	obs := runSeq(d)
	ops := make([]string, len(d.Ops))
	for i, op := range d.Ops {
		ops[i] = coqOp(op)
	}
	obsS := make([]string, len(obs))
	var sig strings.Builder
	for i, ob := range obs {
		obsS[i] = nlist(ob)
		if len(ob) > 0 {
			fmt.Fprintf(&sig, "%s%d.", d.Ops[i].Op[:2], ob[0])
			if d.Ops[i].Op == "call" && len(ob) > 3 {
				fmt.Fprintf(&sig, "%d%d", ob[2], ob[3])
			}
		}
	}
	coq := hlib.App("C04Seq", nat(d.Max), nat(d.MaxConns), hlib.Bool(d.Reset), hlib.Bool(d.Lifo), hlib.List(ops), hlib.List(obsS))
	return hlib.Case{Coq: coq, Kind: "seq", Size: len(d.Ops), Sig: sig.String()}
}

func main() {
	hlib.Main(hlib.Prop[desc]{
		ID:       "C04",
		Imports:  "From FH Require Import Model.Base Model.ClientConn Check.C04Check.",
		CaseType: "c04case",
		CorrOK:   "corr_ok",
		PropOK:   "prop_ok",
		Rule: "directed corpus (keep-alive reuse, streamed bodies closed at every offset incl. exactly where a crafted response starts, chunked terminator left unread, " +
			"in-memory streams, delayed tails, until-close bodies, HEAD/304 with Content-Length, Connection: close, MaxConnDuration, body limits, truncation, stalls, silent closes, " +
			"write failures, MaxConns exhaustion, SkipBody on GET with a crafted body, overlapping streamed calls on HostClient and Client read in either order) then seeded random sequential histories of 3-9 calls with random scripts and stream operations; " +
			"every 40th case a concurrent HostClient stress history and a PipelineClient history; non-trivial = distinct sequence of (operation, outcome, pool counts)",
		Corpus:   corpus,
		Gen:      gen,
		Run:      run,
		ShardLen: 100,
	})
}
