// Probe for C04: does a GET with resp.SkipBody=true leave the body on a pooled connection?
package main

import (
	"bufio"
	"fmt"
	"net"
	"strings"
	"time"

	"github.com/valyala/fasthttp"
	"github.com/valyala/fasthttp/fasthttputil"
)

func serve(c net.Conn) {
	br := bufio.NewReader(c)
	for {
		var req fasthttp.Request
		if err := req.Read(br); err != nil {
			c.Close()
			return
		}
		id := string(req.Header.Peek("X-Id"))
		var body string
		if id == "1" {
			fake := "HTTP/1.1 200 OK\r\nX-Id: 666\r\nContent-Length: 6\r\n\r\nid=666"
			body = fake
		} else {
			body = "id=" + id
		}
		fmt.Fprintf(c, "HTTP/1.1 200 OK\r\nX-Id: %s\r\nContent-Length: %d\r\n\r\n", id, len(body))
		if !req.Header.IsHead() {
			fmt.Fprintf(c, "%s", body)
		}
	}
}

func main() {
	dials := 0
	hc := &fasthttp.HostClient{Addr: "x:80", MaxConns: 1, MaxIdemponentCallAttempts: 1,
		Dial: func(addr string) (net.Conn, error) {
			dials++
			pc := fasthttputil.NewPipeConns()
			go serve(pc.Conn2())
			return pc.Conn1(), nil
		}}
	do := func(id string, method string, skip bool, resp *fasthttp.Response) {
		var req fasthttp.Request
		req.SetRequestURI("http://x/")
		req.Header.SetMethod(method)
		req.Header.Set("X-Id", id)
		if skip {
			resp.SkipBody = true
		}
		err := hc.DoTimeout(&req, resp, time.Second)
		fmt.Printf("call id=%s %s skip=%v -> err=%v hdr=%q body=%q dials=%d idle=%d skipAfter=%v\n", id, method, skip, err,
			resp.Header.Peek("X-Id"), strings.ReplaceAll(string(resp.Body()), "\r\n", "|"), dials, hc.IdleConnsCount(), resp.SkipBody)
	}
	var r1, r2 fasthttp.Response
	do("1", "GET", true, &r1)
	do("2", "GET", false, &r2)
	fmt.Println("--- sticky SkipBody after HEAD on a reused Response")
	hc.CloseIdleConnections()
	var r3 fasthttp.Response
	do("3", "HEAD", false, &r3)
	do("1", "GET", false, &r3) // same resp object reused
	var r4 fasthttp.Response
	do("4", "GET", false, &r4)
}
